//! op `tets` (C14): custom integrals defined OUTSIDE the library record what the library feeds them.
#[path = "../../harness/src/gen.rs"]
mod gen;
#[path = "../../harness/src/proto.rs"]
mod proto;
#[path = "../../harness/src/rng.rs"]
mod rng;

use glam::DVec3;
use meshless_voronoi::integrals::{CellIntegral, CellIntegralWithData, FaceIntegral, FaceIntegralWithData};
use meshless_voronoi::{ConvexCell, ConvexCellMarker, VoronoiIntegrator};
use proto::{guarded, opt_usize, opt_v3, v3, Out};
use std::io::Write;

/// records every tetrahedron it is fed
#[derive(Clone, Default)]
pub struct TetRecorder {
    pub idx: usize,
    pub loc: DVec3,
    pub tets: Vec<[DVec3; 4]>,
    pub finalized: u32,
}
impl CellIntegral for TetRecorder {
    fn init<M: ConvexCellMarker>(cell: &ConvexCell<M>) -> Self {
        TetRecorder { idx: cell.idx, loc: cell.loc, tets: vec![], finalized: 0 }
    }
    fn collect(&mut self, v0: DVec3, v1: DVec3, v2: DVec3, gen: DVec3) {
        self.tets.push([v0, v1, v2, gen]);
    }
    fn finalize(mut self) -> Self {
        self.finalized += 1;
        self
    }
}

/// records the base triangles of one face
#[derive(Clone, Default)]
pub struct TriRecorder {
    pub cell: usize,
    pub plane_idx: usize,
    pub n: DVec3,
    pub p: DVec3,
    pub tris: Vec<[DVec3; 4]>,
    pub finalized: u32,
}
impl FaceIntegral for TriRecorder {
    fn init<M: ConvexCellMarker>(cell: &ConvexCell<M>, clipping_plane_idx: usize) -> Self {
        let pl = &cell.clipping_planes[clipping_plane_idx].plane;
        TriRecorder { cell: cell.idx, plane_idx: clipping_plane_idx, n: pl.n, p: pl.p, tris: vec![], finalized: 0 }
    }
    fn collect(&mut self, v0: DVec3, v1: DVec3, v2: DVec3, gen: DVec3) {
        self.tris.push([v0, v1, v2, gen]);
    }
    fn finalize(mut self) -> Self {
        self.finalized += 1;
        self
    }
}

/// a cell integral WITH per-cell data: remembers which cell got which datum
#[derive(Clone, Default)]
pub struct CellTag {
    pub idx: usize,
    pub data: u64,
    pub ntets: usize,
}
impl CellIntegralWithData for CellTag {
    type Data = u64;
    fn init_with_data<M: ConvexCellMarker>(cell: &ConvexCell<M>, data: u64) -> Self {
        CellTag { idx: cell.idx, data, ntets: 0 }
    }
    fn collect_with_data(&mut self, _v0: DVec3, _v1: DVec3, _v2: DVec3, _gen: DVec3) {
        self.ntets += 1;
    }
    fn finalize_with_data(self) -> Self {
        self
    }
}

/// a face integral WITH per-cell data
#[derive(Clone, Default)]
pub struct FaceTag {
    pub cell: usize,
    pub data: u64,
}
impl FaceIntegralWithData for FaceTag {
    type Data = u64;
    fn init_with_data<M: ConvexCellMarker>(cell: &ConvexCell<M>, _clipping_plane_idx: usize, data: u64) -> Self {
        FaceTag { cell: cell.idx, data }
    }
    fn collect_with_data(&mut self, _v0: DVec3, _v1: DVec3, _v2: DVec3, _gen: DVec3) {}
    fn finalize_with_data(self) -> Self {
        self
    }
}

/// a face integral whose per-cell datum is the integrator itself: `init_with_data` looks up the cell on the other side of the
/// face and DECOMPOSES IT (a nested integral, as a centroid-to-centroid flux estimate would), then records its own triangles
pub struct NestedTri<'a, M: ConvexCellMarker + 'static> {
    pub tris: Vec<[DVec3; 4]>,
    pub ngb_volume: f64,
    _m: std::marker::PhantomData<&'a M>,
}
impl<'a, M: ConvexCellMarker + 'static> Clone for NestedTri<'a, M> {
    fn clone(&self) -> Self {
        NestedTri { tris: self.tris.clone(), ngb_volume: self.ngb_volume, _m: std::marker::PhantomData }
    }
}
impl<'a, M: ConvexCellMarker + 'static> FaceIntegralWithData for NestedTri<'a, M> {
    type Data = Option<&'a VoronoiIntegrator<M>>;
    fn init_with_data<N: ConvexCellMarker>(cell: &ConvexCell<N>, clipping_plane_idx: usize, data: Self::Data) -> Self {
        let right = cell.clipping_planes[clipping_plane_idx].right_idx;
        let ngb_volume = match (data, right) {
            (Some(vi), Some(r)) => vi
                .get_cell_at(r)
                .map(|ngb| ngb.compute_cell_integral::<(), meshless_voronoi::integrals::VolumeIntegral>(()).volume)
                .unwrap_or(0.),
            _ => 0.,
        };
        NestedTri { tris: vec![], ngb_volume, _m: std::marker::PhantomData }
    }
    fn collect_with_data(&mut self, v0: DVec3, v1: DVec3, v2: DVec3, gen: DVec3) {
        self.tris.push([v0, v1, v2, gen]);
    }
    fn finalize_with_data(self) -> Self {
        self
    }
}

fn mask_tokens(mask: &Option<Vec<bool>>) -> String {
    match mask {
        None => "M -".to_string(),
        Some(m) => format!("M {}", m.iter().map(|&b| if b { '1' } else { '0' }).collect::<String>()),
    }
}

fn dump<M: ConvexCellMarker + 'static>(vi: &VoronoiIntegrator<M>, n: usize) -> String {
    let cells = vi.compute_cell_integrals::<TetRecorder>();
    let mut s = format!("NC {}", cells.len());
    for c in &cells {
        s.push_str(&format!(" C {} {} {} {}", c.idx, v3(c.loc), c.finalized, c.tets.len()));
        for t in &c.tets {
            s.push_str(&format!(" {} {} {} {}", v3(t[0]), v3(t[1]), v3(t[2]), v3(t[3])));
        }
    }
    let faces = vi.compute_face_integrals::<TriRecorder>();
    s.push_str(&format!(" NF {}", faces.len()));
    for f in &faces {
        let r = f.integral();
        s.push_str(&format!(
            " F {} {} {} {} {} {} {} {} {}",
            f.left(),
            opt_usize(f.right()),
            opt_v3(f.shift()),
            r.cell,
            r.plane_idx,
            v3(r.n),
            v3(r.p),
            r.finalized,
            r.tris.len()
        ));
        for t in &r.tris {
            s.push_str(&format!(" {} {} {} {}", v3(t[0]), v3(t[1]), v3(t[2]), v3(t[3])));
        }
    }
    // data delivery: datum of cell i is 1000 + i
    let data: Vec<u64> = (0..n as u64).map(|i| 1000 + i).collect();
    let tags = vi.compute_cell_integrals_with_data::<u64, CellTag>(&data);
    s.push_str(&format!(" CD {}", tags.len()));
    for t in &tags {
        s.push_str(&format!(" {} {} {}", t.idx, t.data, t.ntets));
    }
    for (name, ft) in [("FD", vi.compute_face_integrals_with_data::<u64, FaceTag>(&data)), ("FDS", vi.compute_face_integrals_sym_with_data::<u64, FaceTag>(&data))] {
        s.push_str(&format!(" {} {}", name, ft.len()));
        for f in &ft {
            s.push_str(&format!(" {} {} {}", f.left(), f.integral().cell, f.integral().data));
        }
    }
    // nested use: a with-data face integral that decomposes the neighbouring cell inside `init_with_data` must still be fed
    // exactly the triangles a plain face integral is fed (bitwise, same order)
    {
        let nd: Vec<Option<&VoronoiIntegrator<M>>> = vec![Some(vi); n];
        let nested = vi.compute_face_integrals_with_data::<Option<&VoronoiIntegrator<M>>, NestedTri<M>>(&nd);
        let mut bad = if nested.len() == faces.len() { 0 } else { 1 + faces.len() };
        for (a, b) in nested.iter().zip(faces.iter()) {
            let (ta, tb) = (&a.integral().tris, &b.integral().tris);
            if ta.len() != tb.len() || ta.iter().zip(tb.iter()).any(|(x, y)| (0..4).any(|k| x[k].to_array().map(f64::to_bits) != y[k].to_array().map(f64::to_bits))) {
                bad += 1;
            }
        }
        s.push_str(&format!(" NEST {}", bad));
    }
    s
}

fn main() {
    let args: Vec<String> = std::env::args().collect();
    let mut seed = 1u64;
    let mut thorough = false;
    let mut outp: Option<String> = None;
    let mut i = 2;
    while i < args.len() {
        match args[i].as_str() {
            "--seed" => {
                seed = args[i + 1].parse().expect("seed");
                i += 1;
            }
            "--tier" => {
                thorough = args[i + 1] == "thorough";
                i += 1;
            }
            "--out" => {
                outp = Some(args[i + 1].clone());
                i += 1;
            }
            _ => {}
        }
        i += 1;
    }
    proto::install_panic_hook();
    let mut out = Out::new();
    let mut rng = rng::Rng::new(seed ^ 0x7e75);
    if args.get(1).map(|s| s.as_str()) == Some("schedtag") {
        schedtag(&mut out, &mut rng, thorough);
        finish(out, outp);
        return;
    }
    let reps = if thorough { 8 } else { 1 };
    for rep in 0..reps {
        for fam in ["uniform", "lattice", "on_boundary", "coplanar", "pair", "single", "cospherical_lattice", "shallow_edge"] {
            for dim in [3usize, 2, 1] {
                for periodic in [false, true] {
                    if !thorough && dim < 3 && rng.chance(0.4) {
                        continue;
                    }
                    if fam == "shallow_edge" && dim == 1 {
                        continue;
                    }
                    let n = 1 + rng.below(if dim == 3 { 8 } else { 12 }) as usize;
                    let inp = gen::make(&mut rng, fam, dim, periodic, n);
                    let mask = if rep % 2 == 1 || rng.chance(0.4) { Some(gen::make_mask(&mut rng, inp.gens.len())) } else { None };
                    let (i2, m2) = (inp.clone(), mask.clone());
                    let res = guarded(move || {
                        let vi = VoronoiIntegrator::build(&i2.gens, m2.as_deref(), i2.anchor, i2.width, i2.dimensionality(), i2.periodic);
                        let mut s = format!("OK NOFACES {}", dump(&vi, i2.gens.len()));
                        if i2.dim == 3 {
                            let wf = vi.with_faces();
                            s.push_str(&format!(" WITHFACES {}", dump(&wf, i2.gens.len())));
                        }
                        s
                    })
                    .unwrap_or_else(|e| e);
                    out.rec("tets", &inp.family, &format!("{} {} m2", inp.tokens(), mask_tokens(&mask)), &res);
                }
            }
        }
    }
    finish(out, outp);
}

fn finish(out: Out, outp: Option<String>) {
    let text = out.lines.join("\n") + "\n";
    match outp {
        Some(p) => std::fs::File::create(p).unwrap().write_all(text.as_bytes()).unwrap(),
        None => std::io::stdout().write_all(text.as_bytes()).unwrap(),
    }
    eprintln!("FAMILIES {}", out.families.iter().map(|(k, v)| format!("{}={}", k, v)).collect::<Vec<_>>().join(" "));
}

/// data-dependent integrals under different thread pools (C09 / C14): datum of cell i is 1000 + i.
/// One record per input: `T <threads> CD k {idx data} FD k {left cell data} FDS k {...}` for every pool size.
fn schedtag(out: &mut Out, rng: &mut rng::Rng, thorough: bool) {
    let reps = if thorough { 6 } else { 2 };
    for _ in 0..reps {
        for (fam, dim, periodic, n) in [("uniform", 3usize, false, 125usize), ("uniform", 3, true, 61), ("uniform", 2, true, 203), ("lattice", 3, true, 27), ("uniform", 1, false, 97)] {
            let n = n + rng.below(7) as usize;
            let inp = gen::make(rng, fam, dim, periodic, n);
            let mask = if rng.chance(0.4) { Some(gen::make_mask(rng, inp.gens.len())) } else { None };
            let mut res = String::new();
            for threads in [1usize, 2, 3, 4, 5, 8, 16] {
                let (i2, m2) = (inp.clone(), mask.clone());
                let pool = rayon::ThreadPoolBuilder::new().num_threads(threads).build().expect("pool");
                let r = pool.install(|| {
                    guarded(move || {
                        let vi = VoronoiIntegrator::build(&i2.gens, m2.as_deref(), i2.anchor, i2.width, i2.dimensionality(), i2.periodic);
                        let data: Vec<u64> = (0..i2.gens.len() as u64).map(|i| 1000 + i).collect();
                        let mut s = String::new();
                        let tags = vi.compute_cell_integrals_with_data::<u64, CellTag>(&data);
                        s.push_str(&format!("CD {}", tags.len()));
                        for t in &tags {
                            s.push_str(&format!(" {} {}", t.idx, t.data));
                        }
                        for (name, ft) in [("FD", vi.compute_face_integrals_with_data::<u64, FaceTag>(&data)), ("FDS", vi.compute_face_integrals_sym_with_data::<u64, FaceTag>(&data))] {
                            s.push_str(&format!(" {} {}", name, ft.len()));
                            for f in &ft {
                                s.push_str(&format!(" {} {} {}", f.left(), f.integral().cell, f.integral().data));
                            }
                        }
                        s
                    })
                    .unwrap_or_else(|e| e)
                });
                res.push_str(&format!("T {} {} ", threads, r));
            }
            out.rec("schedtag", &inp.family, &format!("{} {}", inp.tokens(), mask_tokens(&mask)), res.trim_end());
        }
    }
}
