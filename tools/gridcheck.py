"""C20: the grid itself (hook space_grid) against the statements proved about the model's grid (GridWF, RingWF)."""
import math
from fractions import Fraction

EPS = Fraction(1, 2 ** 52)


def check_grid(toks, anchor, width, mcw, pts, hex_to_frac):
    """toks: tokens after `GRID`; returns a list of (key, message)"""
    bad = []
    it = iter(toks)
    nx = lambda: next(it)
    cdim = [int(nx()), int(nx()), int(nx())]
    assert nx() == 'CELLS'
    nlisted = int(nx())
    cells = {}
    for _ in range(nlisted):
        ci = int(nx())
        loc = [hex_to_frac(nx()) for _ in range(3)]
        w = [hex_to_frac(nx()) for _ in range(3)]
        cells[ci] = (loc, w)
    assert nx() == 'CIDS'
    n = int(nx())
    cids = [int(nx()) for _ in range(n)]
    assert nx() == 'RINGS'
    m = int(nx())
    rings = []
    for _ in range(m):
        cid, r, k = int(nx()), int(nx()), int(nx())
        rings.append((cid, r, [int(nx()) for _ in range(k)]))
    # dimensions: ceil(width / max_cell_width), the division rounded as the code rounds it
    for a in range(3):
        exact = math.ceil(width[a] / mcw)
        flt = math.ceil(float(width[a]) / float(mcw))
        if cdim[a] not in (exact, flt) or cdim[a] < 1:
            bad.append(('dims', 'grid has %d cells along axis %d, ceil(width / max_cell_width) = %d' % (cdim[a], a, exact)))
    cx, cy, cz = cdim
    nc = cx * cy * cz
    if any(not (0 <= c < nc) for c in cells):
        bad.append(('dims', 'a listed cell id is outside the grid of %s cells' % cdim))
        return bad, 0
    S = max(max(abs(anchor[a]), abs(anchor[a] + width[a])) for a in range(3))
    tol = 8 * EPS * S + Fraction(1, 10 ** 300)
    # cells: row-major, box [anchor + (i,j,k) * width/cdim, + width/cdim] componentwise (GridWF.cellAt)
    for c, (loc, w) in sorted(cells.items()):
        ijk = (c // (cy * cz), (c % (cy * cz)) // cz, c % cz)
        for a in range(3):
            cw = width[a] / cdim[a]
            if abs(w[a] - cw) > tol or abs(loc[a] - (anchor[a] + ijk[a] * cw)) > tol:
                bad.append(('cellbox', 'cell %d (index triple %s): axis %d starts at %.17g with width %.17g, expected %.17g and %.17g'
                            % (c, ijk, a, float(loc[a]), float(w[a]), float(anchor[a] + ijk[a] * cw), float(cw))))
                break
        if bad:
            break
    # every particle lies in the box of the cell it is registered in (hypothesis hbox; GridWF.mkSpace_gridOK)
    if len(cids) != len(pts):
        bad.append(('cids', '%d cell ids for %d particles' % (len(cids), len(pts))))
    else:
        for q, c in enumerate(cids):
            if not (0 <= c < nc) or c not in cells:
                bad.append(('cids', 'particle %d is registered in cell %d of %d (box not listed)' % (q, c, nc)))
                break
            loc, w = cells[c]
            for a in range(3):
                if pts[q][a] < loc[a] - tol or pts[q][a] > loc[a] + w[a] + tol:
                    bad.append(('hbox', 'particle %d (%.17g on axis %d) lies outside the box [%.17g, %.17g] of its cell %d'
                                % (q, float(pts[q][a]), a, float(loc[a]), float(loc[a] + w[a]), c)))
                    break
            if bad and bad[-1][0] == 'hbox':
                break
    # get_r_ring(cid, r) = the cells at Chebyshev index distance exactly r, each once (RingWF.mem_ring, nodup_ring, ring_empty)
    shells = {}
    for cid, r, ring in rings:
        if cid not in shells:
            i, j, k = cid // (cy * cz), (cid % (cy * cz)) // cz, cid % cz
            sh = {}
            for a in range(cx):
                da = abs(a - i)
                for b in range(cy):
                    dab = max(da, abs(b - j))
                    base = a * cy * cz + b * cz
                    for c in range(cz):
                        sh.setdefault(max(dab, abs(c - k)), []).append(base + c)
            shells[cid] = sh
        want = shells[cid].get(r, [])
        if sorted(ring) != want:
            bad.append(('ring', 'get_r_ring(%d, %d) = %s, the cells at Chebyshev index distance %d are %s (grid %s)' % (cid, r, sorted(ring)[:40], r, want[:40], cdim)))
            break
    return bad, len(rings)
