"""C18 — clipping a cell is independent of vertex storage order."""
from common import *
from props.c01 import run_cells_op

TRUSTED = [
    "Lean 4.33 kernel; axioms propext, Classical.choice, Quot.sound only (audited per theorem)",
    "executable models MVoro/Model/{Cycle,Clip}.lean; theorems MVoro/Proofs/CycleBoundary.lean (array cycle refines the abstract successor function; a successful greedy reconstruction ends with the boundary of the removed set, for every storage order and rotation; closedness preserved)",
    "translator fragments Cycle (every method of SimpleCycle) and Boundary (compute_boundary with its loops), tools/extract3.py: obligations Gen = Model (MVoro/Obl/Cycle.lean, MVoro/Obl/Boundary.lean)",
    "NOT proved (trusted-base item 3 of DESIGN §4): the greedy search never gets stuck on a triangulated disc (extendable shellability); everything is proved given that it does not get stuck, and `stuck` is observable (panic / STUCK) on both sides",
    "correspondence harness: ops clipperm (real clip_by_plane on permuted/rotated vertex arrays of reachable cells) and cycle (random op sequences on the real SimpleCycle)",
]


def closed_surface(duals):
    """every directed edge of the triples occurs once and has its reverse"""
    edges = {}
    for (a, b, c) in duals:
        for e in ((a, b), (b, c), (c, a)):
            edges[e] = edges.get(e, 0) + 1
    if any(v != 1 for v in edges.values()):
        return False
    return all((b, a) in edges for (a, b) in edges)


def run(chk):
    chk.trusted_base = TRUSTED
    chk.rule = ("op clipperm: reachable cells (real candidate prefix, 6 input families, 1D/2D/3D, periodic or not) clipped by the bisector of a further candidate; all permutations of the removed "
                "vertices (<= 5 quick / <= 7 thorough) with random placement among the kept ones and random rotations of every dual triple, sampled above; results as sorted rotation-normalised triples must be "
                "equal across permutations, equal to Model/Clip, closed surfaces, volumes equal within 1e-9 of the box; op cycle: random op sequences on SimpleCycle vs the array model; "
                "non-trivial = scenario with >= 2 removed vertices; distinct by (scenario, permutation)")
    chk.lean(['MVoro.Props.C18', 'MVoro.Proofs.CycleBoundary'], ['MVoro.Obl.ClipVertex'], ['ClipVertex'],
             optional=[('Cycle', 'MVoro.Obl.Cycle', []), ('Boundary', 'MVoro.Obl.Boundary', ['Cycle'])])
    if chk.escalate:
        chk.tier = 'thorough'
    got = run_cells_op(chk, op='clipperm')
    if got is None:
        return
    recs, model = got
    groups = {}
    for r in recs:
        chk.count()
        sid = int(r.inp[1])
        groups.setdefault(sid, []).append(r)
    nstuck = 0
    for sid, rs in sorted(groups.items()):
        rp = {'op': 'clipperm', 'ids': [r.id for r in rs[:40]], 'family': rs[0].family, 'scenario': sid, 'reference_record': rs[0].line[:3000]}
        nv = int(rs[0].inp[4])
        nrem = sum(1 for i in range(nv) if rs[0].inp[5 + 4 * i + 3] == '1')
        bv = hex_to_frac(rs[0].inp[rs[0].inp.index('BV') + 1]) if 'BV' in rs[0].inp else Fraction(1)
        panics = [r for r in rs if r.res and r.res[0] == 'PANIC']
        if panics and len(panics) != len(rs):
            bad = panics[0]
            chk.violation('impl-vs-impl', 'clip_by_plane panics for some storage orders of the same cell and not for others (scenario %d, %s): %s'
                          % (sid, rs[0].family, ' '.join(bad.res)), dict(rp, ids=[rs[0].id, bad.id], failing_record=bad.line[:3000]), key='order-dependence')
            continue
        tiepanic = rs[0].family.endswith('tiepanic')
        if panics:
            # every order is stuck: the removed set is not a disc (float decisions inconsistent) -> C05's business; the model must agree
            nstuck += 1
            if not tiepanic:
                for r in rs:
                    m = model.get(r.id)
                    if m is None or m[0] != 'STUCK':
                        chk.violation('impl-vs-model', 'implementation panics (%s) where the model reconstructs the boundary (scenario %d, %s)' % (' '.join(r.res), sid, r.family),
                                      dict(rp, ids=[r.id], failing_record=r.line[:3000]), key='stuck')
                        break
            continue
        ref = None
        refvol = None
        for r in rs:
            m = model.get(r.id)
            impl = [r.res[0], r.res[1]] + r.res[3:]
            if m is None or m[0] in ('bad-op', 'unknown-op'):
                chk.violation('driver', 'model produced no result for record %d' % r.id, None)
                break
            if impl != m:
                chk.violation('impl-vs-model', 'clip_by_plane result differs from Model/Clip (scenario %d, permutation %s, %s): implementation %s, model %s'
                              % (sid, r.inp[2], r.family, ' '.join(impl)[:200], ' '.join(m)[:200]), dict(rp, ids=[r.id], failing_record=r.line[:3000]), key='model')
                break
            vol = hex_to_frac(r.res[2])
            duals = [(int(r.res[4 + 3 * i]), int(r.res[5 + 3 * i]), int(r.res[6 + 3 * i])) for i in range(int(r.res[3]))]
            if ref is None:
                ref, refvol = impl, vol
                if not closed_surface(duals):
                    chk.violation('impl-vs-oracle', 'clipped cell is not a closed surface with three planes per vertex (scenario %d, %s)' % (sid, r.family), dict(rp, ids=[r.id]), key='closed')
                    break
            else:
                if impl != ref:
                    chk.violation('impl-vs-impl', 'clip result depends on the vertex storage order / triple rotation (scenario %d, permutation %s, %s)' % (sid, r.inp[2], r.family),
                                  dict(rp, ids=[rs[0].id, r.id], failing_record=r.line[:3000]), key='order-dependence')
                    break
                if vol is None or refvol is None or abs(vol - refvol) > Fraction(1, 10 ** 9) * abs(bv):
                    chk.violation('impl-vs-impl', 'volume after the clip depends on the vertex storage order: %s vs %s (scenario %d, %s)' % (vol and float(vol), refvol and float(refvol), sid, r.family),
                                  dict(rp, ids=[rs[0].id, r.id], failing_record=r.line[:3000]), key='volume')
                    break
            chk.traces += 1
            if nrem >= 2:
                chk.nontriv((sid, r.inp[2]))
        if len(chk.samples) < 3 and nrem >= 3:
            chk.sample({'op': 'clipperm', 'family': rs[0].family, 'scenario': sid, 'vertices': nv, 'removed': nrem, 'permutations': len(rs), 'result': ' '.join(rs[0].res)[:200]})
    chk.extra_cov['scenarios'] = len(groups)
    chk.extra_cov['scenarios_stuck_on_every_order_not_a_disc'] = nstuck
    hist = {}
    for sid, rs in groups.items():
        nv = int(rs[0].inp[4])
        nrem = sum(1 for i in range(nv) if rs[0].inp[5 + 4 * i + 3] == '1')
        hist[str(nrem)] = hist.get(str(nrem), 0) + 1
    chk.extra_cov['removed_vertices_histogram'] = hist

    got = run_cells_op(chk, op='cycle')
    if got is None:
        return
    recs, model = got
    nsucc = 0
    for r in recs:
        chk.count()
        m = model.get(r.id)
        if m is None:
            chk.violation('driver', 'model produced no result for cycle record %d' % r.id, None)
            continue
        if r.res != m:
            k = next((i for i in range(min(len(m), len(r.res))) if m[i] != r.res[i]), min(len(m), len(r.res)))
            chk.violation('impl-vs-model', 'SimpleCycle differs from the array model at op %d: implementation %s, model %s' % (k, r.res[k] if k < len(r.res) else '-', m[k] if k < len(m) else '-'),
                          {'op': 'cycle', 'ids': [r.id], 'record': r.line[:3000], 'model': ' '.join(m)[:1500]}, key='cycle')
            continue
        chk.traces += 1
        ok = sum(1 for t in r.res if t.startswith('e1'))
        nsucc += ok
        if ok >= 2:
            chk.nontriv(('cycle', r.id))
    chk.extra_cov['cycle_successful_extensions'] = nsucc
