"""C04 — face normals point away from the left generator; cells are closed surfaces."""
from common import *
from tesslib import *
from props.c01 import run_cells_op, fl, fl3

TRUSTED = [
    "Lean 4.33 kernel; axioms propext, Classical.choice, Quot.sound only (audited per theorem)",
    "translator tools/extract.py for VoronoiFaceIntegral::{init,collect,finalize} and the bisector construction of ConvexCell::build (Gen/Face.lean); obligations MVoro/Obl/Face.lean",
    "closure / divergence identities are proved for closed oriented triangulated surfaces (MVoro/Proofs/Surface.lean); that the cell's surface is one is trusted-base item 2 + C18",
    "correspondence harness (op tess) and its generators; tolerances of DESIGN §3.6 scaled by the conditioning number",
]


def dot(a, b):
    return a[0] * b[0] + a[1] * b[1] + a[2] * b[2]


def sub(a, b):
    return [a[0] - b[0], a[1] - b[1], a[2] - b[2]]


def check_record(chk, r, rp, inp, tol, impl):
    """the C04 statement on one implementation result"""
    cells, faces, conn = impl['cells'], impl['faces'], impl['conn']
    mask = inp.mask if inp.mask is not None else [True] * inp.n
    where = '(record %d, %s)' % (r.id, r.family)
    clu = ' cluster' if r.family.startswith('cluster') else ''
    g = inp.ngens
    d = inp.dim
    for k, f in enumerate(faces):
        if any(x is None for x in f.normal) or f.area is None or any(x is None for x in f.centroid):
            chk.violation('impl-vs-oracle', 'non-finite face %d %s' % (k, where), rp, key='nonfinite')
            continue
        nn = dot(f.normal, f.normal)
        if abs(nn - 1) > Fraction(1, 10**9):
            chk.violation('impl-vs-oracle', 'normal of face %d (left %d right %s) is not a unit vector: |n|^2 = %s %s' % (k, f.left, f.right, fl(nn), where), rp, key='unit')
        for ax in range(d, 3):
            if f.normal[ax] != 0:
                chk.violation('impl-vs-oracle', 'normal of face %d leaves the active subspace %s' % (k, where), rp, key='subspace')
        gl = g[f.left]
        if f.right is not None:
            q = list(g[f.right])
            if f.shift is not None:
                q = [q[i] + f.shift[i] for i in range(3)]
            dq = sub(q, gl)
            s = dot(f.normal, dq)
            if s <= 0:
                chk.violation('impl-vs-oracle', 'normal %s of face %d points towards its left generator %d instead of away from it (towards %s%s): n.(q-g) = %s %s'
                              % (fl3(f.normal), k, f.left, f.right, '' if f.shift is None else '+shift', fl(s), where), rp, key='direction')
            # unit normal must be parallel to q - g
            if s > 0 and s * s < dot(dq, dq) * (1 - Fraction(1, 10**9)):
                chk.violation('impl-vs-oracle', 'normal of face %d is not parallel to the line between its generators %s' % (k, where), rp, key='parallel')
            mid = [(gl[i] + q[i]) / 2 for i in range(3)]
            if f.area > tol.area and abs(dot(f.normal, sub(f.centroid, mid))) > tol.pos * 10:
                chk.violation('impl-vs-oracle', 'centroid of face %d is off the bisector plane by %s %s' % (k, fl(dot(f.normal, sub(f.centroid, mid))), where), rp, key='onplane' + clu)
        else:
            # wall: axis aligned outward normal, centroid on that wall
            ax = max(range(3), key=lambda i: abs(f.normal[i]))
            sgn = 1 if f.normal[ax] > 0 else -1
            wall = inp.na[ax] + (inp.nw[ax] if sgn > 0 else 0)
            if inp.periodic and ax < d:
                chk.violation('impl-vs-oracle', 'boundary face %d along periodic axis %d %s' % (k, ax, where), rp, key='periodic-wall')
            # outward: generator is on the inner side, so n.(centroid - g) >= 0, and wall position matches the sign
            if f.area > tol.area and abs(f.centroid[ax] - wall) > tol.pos * 10:
                other = inp.na[ax] + (0 if sgn > 0 else inp.nw[ax])
                if abs(f.centroid[ax] - other) <= tol.pos * 10:
                    chk.violation('impl-vs-oracle', 'normal %s of boundary face %d (left %d) points into the box instead of outward through the wall %s' % (fl3(f.normal), k, f.left, where), rp, key='direction')
                else:
                    chk.violation('impl-vs-oracle', 'centroid of boundary face %d is off the wall %s' % (k, where), rp, key='onplane' + (' gen-on-wall' if gen_on_wall(inp, f.left) else '') + clu)
    # closure and divergence per constructed cell
    for i, c in enumerate(cells):
        if not mask[i] or c.volume is None:
            continue
        tot = [Fraction(0)] * 3
        div = Fraction(0)
        amax = Fraction(0)
        skipped = Fraction(0)
        diam = 2 * sum(abs(w) for w in inp.nw[:d])     # |face centroid - generator| of a cell is below twice the box extent
        ok = True
        for k in conn[c.off:c.off + c.cnt]:
            f = faces[k]
            if f.area is None or any(x is None for x in f.normal) or any(x is None for x in f.centroid):
                ok = False
                break
            if abs(f.area) <= tol.area:
                # a face of negligible area: its centroid is 0/0 (the code reports the origin), which for a box far from the
                # origin would turn a rounding-level area into a visible term; its true contribution is below the tolerance
                chk.extra_cov['negligible_faces_skipped_in_closure'] = chk.extra_cov.get('negligible_faces_skipped_in_closure', 0) + 1
                # ... but "below the area tolerance" times the distance of the face from the generator need not be below the
                # volume tolerance (a 0.3-long diagonal edge in a box of width 3e5): bound what the skipped faces can contribute
                skipped += abs(f.area)
                continue
            if f.left == i:
                n, cen = f.normal, f.centroid
            else:
                n, cen = [-x for x in f.normal], f.centroid
            for a in range(3):
                tot[a] += f.area * n[a]
            div += f.area * dot(n, sub(cen, g[i]))
            amax = max(amax, f.area)
        if not ok:
            continue
        onwall = ' gen-on-wall' if gen_on_wall(inp, i) else ''
        if max(abs(x) for x in tot) > tol.area * 100 + skipped:
            chk.violation('impl-vs-oracle', 'area-weighted outward normals of cell %d sum to %s instead of 0 %s' % (i, fl3(tot), where), rp, key='closure' + onwall + clu)
        if abs(div / d - c.volume) > tol.vol * 100 + skipped * diam / d:
            chk.violation('impl-vs-oracle', 'divergence theorem fails for cell %d: (1/d) sum area n.(c-g) = %s, volume = %s %s' % (i, fl(div / d), fl(c.volume), where), rp, key='divergence' + onwall + clu)


def run(chk):
    chk.trusted_base = TRUSTED
    chk.rule = ("op tess: Voronoi::build / build_partial on all input families (1D/2D/3D, periodic/reflective, masks); every stored face: unit normal, direction away from the left generator "
                "(towards right+shift / outward through the wall), centroid on the plane; every constructed cell: closure and divergence identity; non-trivial = constructed cell with >= 1 face")
    chk.lean(['MVoro.Props.C04', 'MVoro.Proofs.Surface'], ['MVoro.Obl.Face', 'MVoro.Obl.Integrals'], ['Face', 'Integrals', 'Geom'])
    got = run_cells_op(chk, op='tess')
    if got is None:
        return
    recs, model = got
    for r in recs:
        chk.count()
        rp = {'op': r.op, 'ids': [r.id], 'family': r.family, 'record': r.line[:3000]}
        impl = parse_tess_impl(r.res)
        if 'panic' in impl:
            chk.panic_record(r, impl['panic'], rp)
            continue
        inp = parse_input(r.inp)
        tol = Tol(inp)
        if tol.ill:
            chk.extra_cov['skipped_ill_conditioned'] = chk.extra_cov.get('skipped_ill_conditioned', 0) + 1
            continue
        check_record(chk, r, rp, inp, tol, impl)
        chk.traces += 1
        for i, c in enumerate(impl['cells']):
            if c.cnt > 0:
                chk.nontriv((r.id, i))
        if len(chk.samples) < 3 and impl['faces']:
            f = impl['faces'][0]
            chk.sample({'op': 'tess', 'family': r.family, 'n': inp.n, 'face0': {'left': f.left, 'right': f.right, 'normal': fl3(f.normal), 'area': fl(f.area)}})

    # ---- tessellations with one very large cell / very uneven density (op bigtess; implementation-only relations)
    binary, _ = cargo_build('ibig,rayon', False)
    rec_f = os.path.join(chk.wdir(), 'bigtess.rec')
    rc, fams, err = run_harness(binary, 'bigtess', chk.seed, chk.tier, rec_f)
    if rc != 0:
        chk.violation('harness', 'harness op bigtess failed: %s' % err[-300:], None)
        return
    for k, v in fams.items():
        chk.families[k] = chk.families.get(k, 0) + v
    nbig = 0
    for r in read_records(rec_f):
        chk.count()
        rp = {'op': 'bigtess', 'ids': [r.id], 'family': r.family, 'record': r.line[:3000]}
        impl = parse_tess_impl(r.res)
        if 'panic' in impl:
            chk.panic_record(r, impl['panic'], rp)
            continue
        inp = parse_input(r.inp)
        tol = Tol(inp)
        if tol.ill:
            chk.extra_cov['skipped_ill_conditioned'] = chk.extra_cov.get('skipped_ill_conditioned', 0) + 1
            continue
        check_record(chk, r, rp, inp, tol, impl)
        chk.traces += 1
        nbig += 1
        chk.nontriv((r.id, 'big'))
        chk.extra_cov['largest_face_count_of_a_cell'] = max(chk.extra_cov.get('largest_face_count_of_a_cell', 0), max(c.cnt for c in impl['cells']))
    chk.extra_cov['bigtess_records'] = nbig

    # ---- faces already stored in caller-kept buffers must survive a second `build_voronoi_cells` unchanged (op routes, BVC)
    from props.c12 import parse_routes_impl
    got = run_cells_op(chk, op='routes')
    if got is None:
        return
    for r in got[0]:
        impl = parse_routes_impl(r.res)
        if 'bvc' not in impl:
            continue
        chk.count()
        if impl['bvc'] != '-':
            chk.violation('impl-vs-impl', 'a second VoronoiIntegrator::build_voronoi_cells into the same buffers changed stored faces / returned other cells: %s (record %d, %s)'
                          % (impl['bvc'][:300], r.id, r.family), {'op': 'routes', 'ids': [r.id], 'family': r.family, 'record': r.line[:3000]}, key='bvc')
        else:
            chk.traces += 1
