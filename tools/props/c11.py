"""C11 — all arbitrary-precision backends give identical results."""
import os
from common import *

TRUSTED = [
    "Lean 4.33 kernel; axioms propext, Classical.choice, Quot.sound only (audited per theorem)",
    "translator fragment InSphere: the backend-independent determinant text and the five cfg-selected sign arms are re-extracted from src/geometry.rs on every run; obligations MVoro/Obl/InSphere.lean; theorems MVoro/Props/C11.lean",
    "modelled, not verified: each big-integer crate (ibig, dashu, malachite, num-bigint, rug) implements the ring of integers with sign / comparison",
    "rug cannot be built offline in this sandbox (needs GMP sources and m4): four of the five backends are exercised; the sign-arm theorem covers all five",
    "correspondence harness: one harness build per backend (features <backend>,rayon), ops insphere and tess with identical seeds",
]
BACKENDS = ['ibig', 'dashu', 'malachite', 'num_bigint']


def run(chk):
    chk.trusted_base = TRUSTED
    chk.rule = ("per backend in {ibig, dashu, malachite, num_bigint}: op insphere (exhaustive cube corners, random grids, 4..52 bit random, extremes, exactly co-spherical tuples and +-1 perturbations): "
                "predicate sign identical across backends and equal to the sign of the exact determinant; op tess on all families incl. lattices / on-boundary / co-spherical sets (exact path taken, counted): "
                "serialised tessellations bitwise identical across backends, identical number of exact-predicate calls; non-trivial = insphere tuple with orientation != 0 or tessellation record with >= 1 exact call; "
                "distinct by record")
    chk.lean(['MVoro.Props.C11'], ['MVoro.Obl.InSphere'], ['InSphere'])
    bins = {}
    for be in BACKENDS:
        b, blog = cargo_build(be + ',rayon')
        if b is None:
            chk.violation('build', 'harness does not build with backend %s: %s' % (be, blog[-400:]), None, key='build-' + be)
            continue
        rc, out, err = sh([b, 'backend'])
        if out.strip() != be:
            chk.violation('impl-vs-oracle', 'feature %s selects backend %r' % (be, out.strip()), {'op': 'backend', 'feature': be, 'reported': out.strip()}, key='selection')
        bins[be] = b
    if len(bins) < 2 or not chk.driver_ok:
        chk.violation('build', 'fewer than two backends available or driver missing', None)
        return
    results = {}
    for op in ('insphere', 'tess'):
        for be, b in bins.items():
            f = os.path.join(chk.wdir(), '%s_%s.rec' % (op, be))
            rc, fams, err = run_harness(b, op, chk.seed, chk.tier, f)
            if rc != 0:
                chk.violation('harness', 'harness op %s failed for backend %s: %s' % (op, be, err[-300:]), None)
                continue
            results[(op, be)] = read_records(f)
            if be == 'ibig':
                for k, v in fams.items():
                    chk.families[op + ':' + k] = v
    ref = 'ibig' if ('insphere', 'ibig') in results else sorted(b for (o, b) in results if o == 'insphere')[0]
    # the model on the reference stream
    mod_f = os.path.join(chk.wdir(), 'insphere.model')
    run_driver(os.path.join(chk.wdir(), 'insphere_%s.rec' % ref), mod_f)
    model = read_model(mod_f)
    nexact = 0
    for op in ('insphere', 'tess'):
        base = results.get((op, ref))
        if base is None:
            continue
        for i, r in enumerate(base):
            chk.count()
            same = True
            for be in bins:
                if be == ref or (op, be) not in results:
                    continue
                o = results[(op, be)][i] if i < len(results[(op, be)]) else None
                if o is None or o.inp != r.inp:
                    chk.violation('harness', 'backend %s harness generated a different input stream at record %d of %s' % (be, i, op), None)
                    same = False
                    continue
                if o.res != r.res:
                    same = False
                    k = next((j for j in range(min(len(o.res), len(r.res))) if o.res[j] != r.res[j]), -1)
                    chk.violation('impl-vs-impl', '%s result differs between backends %s and %s (record %d, %s; first differing token %d: %s vs %s)'
                                  % (op, ref, be, r.id, r.family, k, r.res[k] if 0 <= k < len(r.res) else '-', o.res[k] if 0 <= k < len(o.res) else '-'),
                                  {'op': op, 'ids': [r.id], 'family': r.family, 'backends': [ref, be], 'record': r.line[:3000], 'other': ' '.join(o.res)[:1500]}, key='backend-' + op)
            if op == 'insphere':
                m = model.get(r.id)
                if m is None or len(m) < 9:
                    chk.violation('driver', 'model produced no result for record %d' % r.id, None)
                    continue
                if r.res[0] != m[0]:
                    chk.violation('impl-vs-model', 'backend %s: predicate returned %s, sign of the exact determinant is %s (record %d)' % (ref, r.res[0], m[0], r.id),
                                  {'op': op, 'ids': [r.id], 'record': r.line, 'model': m}, key='sign')
                if 'InSphere' not in chk.unparsed and len(set(m[4:9])) != 1:
                    chk.violation('gen-vs-ref', 'translated sign arms disagree on determinant %s: %s' % (m[2], m[4:9]), None, key='arms')
                if same and m[3] != '0':
                    chk.nontriv((op, tuple(r.inp)))
            else:
                ex = int(r.res[1]) if len(r.res) > 1 and r.res[0] == 'X' else 0
                if ex > 0:
                    nexact += 1
                    if same:
                        chk.nontriv((op, r.id))
            if same:
                chk.traces += 1
    chk.extra_cov['backends_built'] = sorted(bins)
    chk.extra_cov['tess_records_taking_the_exact_path'] = nexact
    if nexact == 0:
        chk.violation('harness', 'no tessellation record exercised the exact predicate', None)
    chk.sample({'backends': sorted(bins), 'insphere_records': len(results.get(('insphere', ref), [])), 'tess_records': len(results.get(('tess', ref), []))})
