"""C20 — auxiliary structures return exact nearest neighbours and enclosing spheres."""
import math
import gridcheck
from common import *
from tesslib import Tok
from props.c01 import run_cells_op
from props.c19 import fsqrt, sub, dot, norm

TRUSTED = [
    "Lean 4.33 kernel; axioms propext, Classical.choice, Quot.sound only (audited per theorem)",
    "models MVoro/Model/Knn.lean (exact grid search) and MVoro/Model/Sphere.lean (certificate checker); theorems MVoro/Proofs/Aux20.lean",
    "translator fragment Space (placement of grid cells in Space::new) with obligation Obl.cellLocAxes_componentwise",
    "knn: the whole chain is proved for the model (session 5): KnnCorrect.knnLoop_eq_spec for well-formed grids, GridWF / RingWF / KnnFull.knn_mkSpace_eq_spec: knn on the grid Space::new builds (floor binning, row-major cells, Chebyshev rings of get_r_ring) = the brute-force specification for all particles in the half-open box; the model is tied to the code by the exact correspondence below and the Space fragment",
    "welzl_minimal_partial: minimality is proved from a convex-combination certificate; that Welzl's recursion always ends at a certifiable ball is not proved; the driver finds the exact minimal ball by search and reports it only if the proved checker accepts it",
    "float slack: k-NN ties within rounding may be selected/ordered either way; sphere containment and minimality are required within 1e-7 relative (Sphere::contains itself uses a 1e-10 slack)",
]
EPS = Fraction(1, 2 ** 52)


def run(chk):
    chk.trusted_base = TRUSTED
    chk.rule = ("op knn: Space::new/add_parts/knn on 5 box shapes (3 non-cubic), 5 grid cell sizes, 4 point families, k from 1 to n-1: every particle's result = its k nearest others in increasing exact distance "
                "(ties within rounding either way), equal to Model/Knn; op sphere: Welzl / EPOS-6 / EPOS-6-of-spheres contain their input, Welzl radius = exact minimal radius (certificate-checked); "
                "non-trivial = knn record with >= 2 grid cells per axis somewhere or sphere with >= 3 points; distinct by record")
    chk.lean(['MVoro.Props.C20', 'MVoro.Proofs.Aux20', 'MVoro.Proofs.MEBProofs', 'MVoro.Proofs.KnnCorrect'], ['MVoro.Obl.Space'], ['Space'])
    got = run_cells_op(chk, op='knn')
    if got is None:
        return
    recs, model = got
    release_parity(chk, 'knn', recs)
    for r in recs:
        chk.count()
        rp = {'op': 'knn', 'ids': [r.id], 'family': r.family, 'record': r.line[:6000]}
        if r.res[0] == 'PANIC':
            chk.violation('panic', 'k-NN search panicked on a valid input: ' + ' '.join(r.res), rp, key=r.family)
            continue
        t = Tok(r.inp)
        anchor, width = t.v3(), t.v3()
        mcw = t.f()
        k, n = t.int(), t.int()
        pts = [t.v3() for _ in range(n)]
        gi = r.res.index('GRID') if 'GRID' in r.res else len(r.res)
        impl = [int(x) for x in r.res[1:gi]]
        if gi < len(r.res):
            # the grid itself against the statements proved about the model's grid (GridWF.cellAt / mkSpace_gridOK, RingWF.mem_ring /
            # nodup_ring / ring_empty): dimensions, row-major cell boxes, every particle inside the box of its cell, get_r_ring =
            # the cells at Chebyshev index distance r, each once, empty beyond the grid
            gbad, nrings = gridcheck.check_grid(r.res[gi + 1:], anchor, width, mcw, pts, hex_to_frac)
            chk.extra_cov['rings_compared_with_chebyshev_spec'] = chk.extra_cov.get('rings_compared_with_chebyshev_spec', 0) + nrings
            for key, msg in gbad[:2]:
                chk.violation('impl-vs-oracle', 'grid of Space::new: %s (record %d, %s)' % (msg, r.id, r.family), rp, key='grid-' + key)
        m = model.get(r.id)
        if m is not None and m[0] == 'GRIDBAD':
            # the run-time certificate of KnnCorrect.gridOK_sound failed: the model's grid does not contain / partition its particles
            chk.violation('model-cert', 'the grid built by the model fails the well-formedness certificate gridOK (record %d, %s)' % (r.id, r.family), None, key='gridok')
            continue
        if m is None or m[0] != 'OK':
            chk.violation('driver', 'model produced no result for knn record %d' % r.id, None)
            continue
        chk.extra_cov['grids_certified_wellformed'] = chk.extra_cov.get('grids_certified_wellformed', 0) + 1
        mod = [int(x) for x in m[1:]]
        if len(impl) != n * k or len(mod) != n * k:
            chk.violation('impl-vs-oracle', 'result has %d entries, expected %d x %d (record %d)' % (len(impl), n, k, r.id), rp, key='shape')
            continue
        S = max(max(abs(c) for c in p) for p in pts)
        bad = None
        for i in range(n):
            d = sorted(sum((pts[i][a] - pts[j][a]) ** 2 for a in range(3)) for j in range(n) if j != i)
            for name, res in (('implementation', impl), ('model', mod)):
                ids = res[i * k:(i + 1) * k]
                if len(set(ids)) != k or i in ids or any(not (0 <= j < n) for j in ids):
                    bad = (name, 'particle %d: neighbour list %s contains duplicates, the particle itself or invalid ids' % (i, ids))
                    break
                for pos, j in enumerate(ids):
                    dj = sum((pts[i][a] - pts[j][a]) ** 2 for a in range(3))
                    slack = 0 if name == 'model' else 16 * EPS * (S * fsqrt(max(dj, d[pos])) * 2 + EPS * S * S)
                    if abs(dj - d[pos]) > slack:
                        bad = (name, 'particle %d: neighbour #%d is particle %d at squared distance %.17g, the %d-th nearest is at %.17g' % (i, pos, j, float(dj), pos + 1, float(d[pos])))
                        break
                if bad:
                    break
            if bad:
                break
        if bad:
            if bad[0] == 'model':
                chk.violation('model-vs-spec', 'exact grid-search model disagrees with brute force: %s (record %d)' % (bad[1], r.id), None, key='model')
            else:
                chk.violation('impl-vs-oracle', 'k-NN result is wrong: %s (record %d, %s, k=%d, n=%d, box %s, max cell width %.4g)' % (bad[1], r.id, r.family, k, n, [float(x) for x in width], float(mcw)), rp, key='knn')
            continue
        chk.traces += 1
        cd = [math.ceil(float(width[a] / mcw)) for a in range(3)]
        if max(cd) >= 2:
            chk.nontriv(('knn', r.id))
        if len(chk.samples) < 2 and max(cd) >= 3 and min(cd) != max(cd):
            chk.sample({'op': 'knn', 'family': r.family, 'n': n, 'k': k, 'grid': cd, 'first_result': impl[:k]})

    got = run_cells_op(chk, op='sphere')
    if got is None:
        return
    recs, model = got
    nmin = 0
    for r in recs:
        chk.count()
        rp = {'op': 'sphere', 'ids': [r.id], 'family': r.family, 'record': r.line[:6000]}
        if 'PANIC' in r.res:
            chk.violation('panic', 'bounding sphere solver panicked: ' + ' '.join(r.res)[:300], rp, key=r.family)
            continue
        t = Tok(r.inp)
        kind = t.next()
        n = t.int()
        rt = Tok(r.res)
        if kind == 'P':
            pts = [t.v3() for _ in range(n)]
            rt.expect('W')
            wc, wr = rt.v3(), rt.f()
            rt.expect('E')
            ec, er = rt.v3(), rt.f()
            scale = max([norm(sub(p, pts[0])) for p in pts] + [Fraction(0)])
            S = max(max(abs(c) for c in p) for p in pts)
            if n >= 2 and S > 50 * scale:
                # far from the origin relative to its size: Sphere::from_four_points works in absolute coordinates (error ~ eps*S^4/L^3)
                chk.extra_cov['sphere_records_skipped_ill_conditioned'] = chk.extra_cov.get('sphere_records_skipped_ill_conditioned', 0) + 1
                continue
            for name, c, rad in (('Welzl', wc, wr), ('EPOS-6', ec, er)):
                if rad is None or any(x is None for x in c):
                    chk.violation('impl-vs-oracle', '%s returned a non-finite sphere for %d points (record %d, %s)' % (name, n, r.id, r.family), rp, key='contain-' + r.family.split('_')[1])
                    continue
                tol = Fraction(1, 10 ** 7) * (rad + scale) + Fraction(1, 10 ** 300)
                for i, p in enumerate(pts):
                    if norm(sub(p, c)) > rad + tol:
                        chk.violation('impl-vs-oracle', '%s sphere (centre %s, radius %.17g) does not contain point %d at distance %.17g (record %d, %s)'
                                      % (name, [float(x) for x in c], float(rad), i, float(norm(sub(p, c))), r.id, r.family), rp, key='contain-' + r.family.split('_')[1])
                        break
            m = model.get(r.id)
            if m and m[0] == 'MEB' and m[1] not in ('skipped', 'none') and wr is not None:
                rstar = fsqrt(Fraction(m[4]))
                tol = Fraction(1, 10 ** 7) * (rstar + scale) + Fraction(1, 10 ** 300)
                if abs(wr - rstar) > tol:
                    chk.violation('impl-vs-model', 'Welzl radius %.17g differs from the exact minimal enclosing radius %.17g (record %d, %s, %d points)' % (float(wr), float(rstar), r.id, r.family, n), rp, key='minimal-' + r.family.split('_')[1])
                else:
                    nmin += 1
            elif m and m[0] == 'MEB' and m[1] == 'none':
                chk.violation('model-cert', 'exact search found no certifiable minimal ball (record %d)' % r.id, None, key='model')
            if n >= 3:
                chk.nontriv(('sphere', r.id))
        else:
            sps = [(t.v3(), t.f()) for _ in range(n)]
            rt.expect('E')
            ec, er = rt.v3(), rt.f()
            if er is None or any(x is None for x in ec):
                chk.violation('impl-vs-oracle', 'EPOS-6 of spheres returned a non-finite sphere (record %d)' % r.id, rp, key='contain-spheres')
                continue
            scale = max([norm(sub(c, sps[0][0])) + rr for (c, rr) in sps])
            tol = Fraction(1, 10 ** 7) * (er + scale)
            for i, (c, rr) in enumerate(sps):
                if norm(sub(c, ec)) + rr > er + tol:
                    chk.violation('impl-vs-oracle', 'EPOS-6 bounding sphere of spheres does not contain sphere %d (record %d, %s)' % (i, r.id, r.family), rp, key='contain-spheres')
                    break
            if n >= 3:
                chk.nontriv(('sphere', r.id))
        chk.traces += 1
    chk.extra_cov['welzl_radius_equal_to_certified_minimum'] = nmin
