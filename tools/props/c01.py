"""C01 — every cell is the nearest-generator region of its generator."""
import os
from common import *
from tesslib import *

TRUSTED = [
    "Lean 4.33 kernel; axioms propext, Classical.choice, Quot.sound only (audited per theorem)",
    "set-level theorems are about real inner-product spaces (MVoro/Proofs/VorSet.lean); the executable oracle MVoro/Model/{Cell,Clip,Cycle,Decomp,Oracle} works over Q",
    "trusted-base item 2 of DESIGN §4: H-representation and V-representation maintained by clipping describe the same polytope, and the signed tetrahedron sum over its boundary is its Lebesgue volume (checked at run time per cell: feasibility of every vertex for every candidate half space, brute-force rebuild without early termination gives the same cell, exact volumes of a full build sum to the box volume)",
    "correspondence harness (op cells), its input generators, tolerances of DESIGN §3.6 (absolute, relative to the box)",
    "IEEE rounding of the float code is not modelled; agreement is required within the tolerance only",
]


def check_cells_record(chk, r, m, prop='C01', want=('vol', 'centroid', 'faces', 'verts')):
    """compare one `cells` record with the model. Returns number of compared cells."""
    inp = parse_input(r.inp)
    tol = Tol(inp)
    rp = {'op': r.op, 'ids': [r.id], 'family': r.family, 'record': r.line[:4000]}
    try:
        impl = parse_cells_impl(r.res)
    except Exception as ex:  # noqa
        chk.violation('harness', 'unparsable implementation result in record %d: %s' % (r.id, ex), None)
        return 0
    if 'panic' in impl:
        chk.violation('panic', 'construction panicked on a valid input (%s): %s' % (r.family, impl['panic']), rp, key=r.family + ' ' + impl['panic'])
        return 0
    model = parse_model(m) if m else None
    if model is None:
        chk.violation('driver', 'model produced no result for record %d' % r.id, None)
        return 0
    mc = {c.idx: c for c in model['cells']}
    ncmp = 0
    chk.extra_cov.setdefault('tolerance_rel_histogram', {})
    hk = '%.0e' % tol.rel
    chk.extra_cov['tolerance_rel_histogram'][hk] = chk.extra_cov['tolerance_rel_histogram'].get(hk, 0) + 1
    if tol.ill:
        # conditioning too bad for a geometric comparison; totality (no panic, finite values) still counts
        for c in impl['cells']:
            if c.volume is None or any(x is None for x in c.centroid):
                chk.violation('impl-vs-model', 'non-finite result, record %d' % r.id, rp, key=r.family)
        return 0
    for c in impl['cells']:
        e = mc.get(c.idx)
        if e is None:
            chk.violation('impl-vs-model', 'cell %d constructed by the implementation but masked out' % c.idx, rp, key=r.family)
            continue
        if e.failed != 'ok' or not e.brute or not e.feasible:
            chk.violation('model-cert', 'exact oracle failed its own certificate on record %d cell %d (failed=%s brute=%s feasible=%s)' % (r.id, c.idx, e.failed, e.brute, e.feasible), None, key=r.family)
            continue
        ncmp += 1
        where = 'record %d (%s) cell %d' % (r.id, r.family, c.idx)
        # vertices whose three planes are nearly coaxial have ill-conditioned positions (error ~ ulp/det); the float cell
        # then carries slivers of garbage extent: compare such cells with a tolerance 1e4 times wider (1e-5 of the box)
        illv = set()
        for vi, (v, dual) in enumerate(c.verts):
            try:
                ns = [[float(x) for x in c.planes[k][0]] for k in dual]
                det = (ns[0][0] * (ns[1][1] * ns[2][2] - ns[1][2] * ns[2][1]) - ns[0][1] * (ns[1][0] * ns[2][2] - ns[1][2] * ns[2][0])
                       + ns[0][2] * (ns[1][0] * ns[2][1] - ns[1][1] * ns[2][0]))
            except Exception:  # noqa
                det = 1.0
            if abs(det) < 1e-5:
                illv.add(vi)
        loose = 10000 if illv else 1
        illk = ' ill-vertex' if illv else ''
        if illv:
            chk.extra_cov['near_degenerate_cells_compared_loosely'] = chk.extra_cov.get('near_degenerate_cells_compared_loosely', 0) + 1
            chk.extra_cov['ill_conditioned_vertices_skipped'] = chk.extra_cov.get('ill_conditioned_vertices_skipped', 0) + len(illv)
        if 'vol' in want:
            if c.volume is None or abs(c.volume - e.vol) > tol.vol:
                chk.violation('impl-vs-model', 'volume %s differs from exact %s by more than %.3g, %s' % (fl(c.volume), fl(e.vol), float(tol.vol), where), rp, key=r.family + illk)
        if 'centroid' in want and e.vol > tol.vol * 1000:
            if not close3(c.centroid, e.centroid, tol.pos * loose):
                chk.violation('impl-vs-model', 'centroid %s differs from exact %s, %s' % (fl3(c.centroid), fl3(e.centroid), where), rp, key=r.family + illk)
        if 'sr' in want:
            sr = impl['sr'][c.idx] if c.idx < len(impl['sr']) else None
            if not area_close(sr, 4 * e.maxr2, 2 * tol.pos):
                chk.violation('impl-vs-model', 'safety radius %s differs from 2*max vertex distance %.17g, %s' % (fl(sr), (4 * float(e.maxr2)) ** 0.5, where), rp, key=r.family + illk)
        if 'faces' in want:
            ifaces = [(f, (f.right, shift_triple(f.shift, inp))) for f in c.faces]
            used = set()
            for mf in e.faces:
                if not mf.valid:
                    continue
                if not area_gt(mf.area2, tol.area):
                    continue
                key = (mf.right, mf.shift)
                found = False
                for k, (f, fk) in enumerate(ifaces):
                    if k in used or fk != key:
                        continue
                    if area_close(f.area, mf.area2, tol.area * loose) and close3(f.centroid, mf.centroid, tol.pos * 10 * loose):
                        used.add(k)
                        found = True
                        break
                if not found:
                    cands = [(fl(f.area), fl3(f.centroid)) for (f, fk) in ifaces if fk == key]
                    onwall = ' gen-on-wall' if (mf.right is None and gen_on_wall(inp, c.idx)) else ''
                    chk.violation('impl-vs-model', 'face towards %s shift %s with exact area %.6g centroid %s is missing or wrong (implementation has %s), %s'
                                  % (mf.right, mf.shift, float(mf.area2) ** 0.5, fl3(mf.centroid), cands, where), rp, key=r.family + onwall + illk)
            for k, (f, fk) in enumerate(ifaces):
                if k in used:
                    continue
                if f.area is None:
                    chk.violation('impl-vs-model', 'non-finite face area, ' + where, rp, key=r.family + illk)
                elif f.area > tol.area or f.area < -tol.area:
                    # is there an exact face with this key at all (negligible ones are optional)
                    onwall = ' gen-on-wall' if (fk[0] is None and gen_on_wall(inp, c.idx)) else ''
                    chk.violation('impl-vs-model', 'spurious face towards %s shift %s with area %s, %s' % (fk[0], fk[1], fl(f.area), where), rp, key=r.family + onwall + illk)
        if 'verts' in want:
            # Hausdorff distance between the two polytopes, each given by vertices and half spaces:
            # every implementation vertex satisfies every exact half space, every exact vertex every implementation half space
            tp = tol.pos * 10
            bad = None
            for vi, (v, dual) in enumerate(c.verts):
                if any(x is None for x in v):
                    bad = 'non-finite implementation vertex'
                    break
                if vi in illv:
                    continue
                for mf in e.planes_all:
                    n, d, nn = mf
                    sv = n[0] * v[0] + n[1] * v[1] + n[2] * v[2] - d
                    if sv < 0 and sv * sv > tp * tp * nn:
                        bad = 'implementation vertex %s lies outside the exact cell by %.3g' % (fl3(v), float(sv * sv / nn) ** 0.5)
                        break
                if bad:
                    break
            if bad is None:
                for u in e.verts:
                    for (n, pp) in c.planes:
                        sv = sum(n[i] * (u[i] - pp[i]) for i in range(3))
                        if sv < -tp * 2:
                            bad = 'exact vertex %s lies outside the implementation\'s half spaces by %.3g' % (fl3(u), float(-sv))
                            break
                    if bad:
                        break
            if bad:
                chk.violation('impl-vs-model', bad + ', ' + where, rp, key=r.family + illk)
    return ncmp


def fl(x):
    return 'nan' if x is None else '%.17g' % float(x)


def fl3(v):
    return 'None' if v is None else '(' + ', '.join(fl(x) for x in v) + ')'


def run_cells_op(chk, op='cells', features='ibig,rayon', release=False):
    binary, blog = cargo_build(features, release)
    if binary is None:
        chk.violation('build', 'harness does not build against /repo', None)
        chk.notes.append(blog[-1500:])
        return None
    if not chk.driver_ok:
        chk.violation('build', 'lean driver does not build', None)
        return None
    rec_f = os.path.join(chk.wdir(), op + '.rec')
    mod_f = os.path.join(chk.wdir(), op + '.model')
    rc, fams, err = run_harness(binary, op, chk.seed, chk.tier, rec_f)
    if rc != 0:
        chk.violation('harness', 'harness op %s failed: %s' % (op, err[-300:]), None)
        return None
    for k, v in fams.items():
        chk.families[k] = chk.families.get(k, 0) + v
    if chk.only is not None:
        keep = [r.line for r in read_records(rec_f) if (r.op, r.id) in chk.only]
        with open(rec_f, 'w') as f:
            f.write('\n'.join(keep) + '\n')
    rc, err = run_driver(rec_f, mod_f)
    return read_records(rec_f), read_model(mod_f)


def run(chk):
    chk.trusted_base = TRUSTED
    chk.rule = ("op cells: VoronoiIntegrator::build on the input families of DESIGN §3.5 (uniform, cluster, lattice, lattice on walls, on boundary, collinear, coplanar, "
                "co-spherical, n=1, n=2; 1D/2D/3D; periodic/reflective; 6 box shapes); every constructed cell is compared with the exact rational cell "
                "(volume, centroid, safety radius, faces keyed by neighbour+shift with area/centroid, vertex set by Hausdorff distance); non-trivial = cell with >= 1 neighbour face; distinct by (record, cell)")
    chk.lean(['MVoro.Props.C01'], ['MVoro.Obl.BuildStep', 'MVoro.Obl.Integrals'], ['BuildStep', 'Integrals', 'Geom'])
    got = run_cells_op(chk)
    if got is None:
        return
    recs, model = got
    for r in recs:
        chk.count()
        n = check_cells_record(chk, r, model.get(r.id))
        chk.traces += n
        if n:
            for i in range(n):
                chk.nontriv((r.id, i))
        if len(chk.samples) < 3 and n:
            chk.sample({'op': 'cells', 'family': r.family, 'record_id': r.id, 'cells_compared': n, 'input_tokens': r.inp[:12]})
