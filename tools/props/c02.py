"""C02 — cells tile the domain: positive measures that sum to the box measure."""
from common import *
from tesslib import *
from props.c01 import run_cells_op, fl

TRUSTED = [
    "Lean 4.33 kernel; axioms propext, Classical.choice, Quot.sound only (audited per theorem)",
    "covering / null-overlap / generator-strictly-inside are proved for real inner-product spaces; the step from these to 'the measures add up' (Lebesgue measure of polytopes) is not formalised: the exact oracle checks that its rational cell volumes sum exactly to the box volume on every tessellation it builds",
    "exact oracle MVoro/Model/{Cell,Decomp,Oracle} + trusted-base item 2 of DESIGN §4",
    "correspondence harness (op tess) and its generators; tolerances of DESIGN §3.6 scaled by the conditioning number",
]


def run(chk):
    chk.trusted_base = TRUSTED
    chk.rule = ("op tess with all cells constructed, all input families incl. anisotropic boxes and large offsets, 1D/2D/3D, periodic/reflective: every volume > 0, sum = box measure (unused axes have unit thickness), "
                "each volume vs the exact rational volume; the oracle's own volumes must sum exactly to the box volume; non-trivial = tessellation with >= 2 cells")
    chk.lean(['MVoro.Props.C02', 'MVoro.Proofs.MeasureTiling', 'MVoro.Proofs.MeasurePeriodic'], [], [])
    got = run_cells_op(chk, op='tess')
    if got is None:
        return
    recs, model = got
    for r in recs:
        rp = {'op': r.op, 'ids': [r.id], 'family': r.family, 'record': r.line[:3000]}
        impl = parse_tess_impl(r.res)
        inp = parse_input(r.inp)
        if inp.mask is not None and not all(inp.mask):
            continue
        chk.count()
        if 'panic' in impl:
            chk.panic_record(r, impl['panic'], rp)
            continue
        tol = Tol(inp)
        where = '(record %d, %s, n=%d)' % (r.id, r.family, inp.n)
        vols = [c.volume for c in impl['cells']]
        if any(v is None for v in vols):
            chk.violation('impl-vs-oracle', 'non-finite cell volume %s' % where, rp, key='nonfinite')
            continue
        for i, v in enumerate(vols):
            if not v > 0:
                chk.violation('impl-vs-oracle', 'cell %d has non-positive measure %s %s' % (i, fl(v), where), rp, key='positive')
        tot = sum(vols)
        if abs(tot - tol.boxvol) > tol.vol * 10 * max(1, inp.n) ** 0:
            chk.violation('impl-vs-oracle', 'cell measures sum to %s, the box measure is %s %s' % (fl(tot), fl(tol.boxvol), where), rp,
                          key='sum' + (' gen-on-wall' if any(gen_on_wall(inp, i) for i in range(inp.n)) else ''))
        m = model.get(r.id)
        mm = parse_model(m) if m else None
        if mm is None:
            chk.violation('driver', 'model produced no result for record %d' % r.id, None)
            continue
        ev = {c.idx: c for c in mm['cells']}
        if all(c.failed == 'ok' for c in mm['cells']):
            if sum(c.vol for c in mm['cells']) != mm['boxvol'] or any(c.vol <= 0 for c in mm['cells']):
                chk.violation('model-cert', 'exact oracle volumes do not sum exactly to the box volume %s' % where, None, key='cert')
            if not tol.ill:
                for i, v in enumerate(vols):
                    if i in ev and abs(v - ev[i].vol) > tol.vol:
                        chk.violation('impl-vs-model', 'volume of cell %d is %s, exact %s %s' % (i, fl(v), fl(ev[i].vol), where), rp,
                                      key='vol' + (' gen-on-wall' if gen_on_wall(inp, i) else ''))
        else:
            chk.violation('model-cert', 'exact oracle failed on record %d' % r.id, None, key='cert')
        chk.traces += 1
        if inp.n >= 2:
            chk.nontriv(r.id)
        if len(chk.samples) < 3:
            chk.sample({'op': 'tess', 'family': r.family, 'n': inp.n, 'sum': fl(tot), 'box': fl(tol.boxvol), 'tolerance_rel': tol.rel})
    # the other observation point of the property: VoronoiIntegrator::compute_cell_integrals::<VolumeIntegral> (op routes)
    from props.c12 import parse_routes_impl
    got = run_cells_op(chk, op='routes')
    if got is None:
        return
    nvo = 0
    for r in got[0]:
        inp = parse_input(r.inp)
        if inp.mask is not None and not all(inp.mask):
            continue
        impl = parse_routes_impl(r.res)
        if 'vo' not in impl:
            continue
        rp = {'op': r.op, 'ids': [r.id], 'family': r.family, 'record': r.line[:3000]}
        chk.count()
        tol = Tol(inp)
        vols = [hex_to_frac(x) for x in impl['vo']]
        where = '(record %d, %s, n=%d, VolumeIntegral through the integrator)' % (r.id, r.family, inp.n)
        if any(v is None for v in vols):
            chk.violation('impl-vs-oracle', 'non-finite cell volume %s' % where, rp, key='nonfinite')
            continue
        if any(not v > 0 for v in vols):
            chk.violation('impl-vs-oracle', 'a cell has non-positive measure %s' % where, rp, key='positive')
        if len(vols) != inp.n or abs(sum(vols) - tol.boxvol) > tol.vol * 10:
            chk.violation('impl-vs-oracle', 'cell measures sum to %s, the box measure is %s %s' % (fl(sum(vols)), fl(tol.boxvol), where), rp,
                          key='sum' + (' gen-on-wall' if any(gen_on_wall(inp, i) for i in range(inp.n)) else ''))
        nvo += 1
        # the same measures from cells whose face information was derived, discarded and derived again (3D)
        if 'vrt' in impl:
            v2 = [hex_to_frac(x) for x, _ in impl['vrt']]
            if any(v is None for v in v2) or len(v2) != inp.n or abs(sum(v2) - tol.boxvol) > tol.vol * 10 or any(not v > 0 for v in v2):
                chk.violation('impl-vs-oracle', 'measures of the cells after with_faces -> discard_faces -> with_faces sum to %s, the box measure is %s %s'
                              % (fl(sum(v for v in v2 if v is not None)), fl(tol.boxvol), where), rp, key='sum-reconverted' + (' gen-on-wall' if any(gen_on_wall(inp, i) for i in range(inp.n)) else ''))
            if any(df != 0 for _, df in impl['vrt']):
                chk.violation('impl-vs-impl', 'a cell has a different number of faces after with_faces -> discard_faces -> with_faces %s' % where, rp, key='faces-reconverted')
    chk.extra_cov['volume_integral_records'] = nvo

    # ---- large inputs of very uneven density (op recip: 300 … 1500 generators, blobs + isolated generators, voids in shells,
    #      filaments, sheets; mostly periodic): positive measures that sum to the box
    binary, _ = cargo_build('ibig,rayon', False)
    rec_f = os.path.join(chk.wdir(), 'recip.rec')
    rc, fams, err = run_harness(binary, 'recip', chk.seed, chk.tier, rec_f)
    if rc != 0:
        chk.violation('harness', 'harness op recip failed: %s' % err[-300:], None)
        return
    for k, v in fams.items():
        chk.families[k] = chk.families.get(k, 0) + v
    nbig = 0
    for r in read_records(rec_f):
        chk.count()
        rp = {'op': 'recip', 'ids': [r.id], 'family': r.family, 'record': r.line[:2000]}
        if r.res[0] != 'OK':
            chk.panic_record(r, ' '.join(r.res)[:300], rp)
            continue
        inp = parse_input(r.inp)
        tol = Tol(inp)
        if tol.ill:
            continue
        k = r.res.index('NC')
        nc = int(r.res[k + 1])
        vols = [hex_to_float(x) for x in r.res[k + 2:k + 2 + nc]]
        where = '(record %d, %s, %d generators)' % (r.id, r.family, inp.n)
        if any(not (v == v) for v in vols):
            chk.violation('impl-vs-oracle', 'non-finite cell volume %s' % where, rp, key='nonfinite')
            continue
        if any(not v > 0 for v in vols):
            chk.violation('impl-vs-oracle', 'a cell has non-positive measure %s' % where, rp, key='positive')
        box = float(tol.boxvol)
        if nc != inp.n or abs(sum(vols) - box) > max(float(tol.vol) * 10, 1e-9 * box):
            chk.violation('impl-vs-oracle', 'cell measures sum to %.17g, the box measure is %.17g %s' % (sum(vols), box, where), rp,
                          key='sum' + (' gen-on-wall' if any(gen_on_wall(inp, i) for i in range(inp.n)) else ''))
        nbig += 1
        chk.traces += 1
        chk.nontriv(('recip', r.id))
    chk.extra_cov['large_uneven_records'] = nbig
