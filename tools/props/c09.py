"""C09 — results are a pure function of the input, independent of thread schedule."""
import os
from common import *
from props.c01 import run_cells_op

TRUSTED = [
    "Lean 4.33 kernel; axioms propext, Classical.choice, Quot.sound only (audited per theorem)",
    "model MVoro/Model/Sched.lean: every parallel loop is an indexed collect of a pure per-index function; theorems MVoro/Proofs/Misc.lean §SchedProofs",
    "translator fragment Par: the rayon-guarded statements of src/voronoi.rs and their sequential twins are re-extracted on every run; obligations MVoro/Obl/Par.lean (same chain up to the parallel source; only order-preserving indexed adapters; no interior mutability / globals / clocks / randomness outside the hooks module)",
    "NOT modelled (runtime): rayon's actual interleavings and that its indexed collect implements the modelled contract; purity of the per-cell closure beyond the source scan (Rust's Fn + Sync bound); bitwise reproducibility of f64 arithmetic across threads",
    "correspondence harness (op sched): bitwise fingerprints under 7 thread counts, repeats, 3 jitter seeds (hook), the global pool, and the sequential build without the rayon feature",
]


def schedtag(chk):
    """data-dependent integrals (per-cell datum 1000+i) under pools of 1..16 threads, through the downstream crate of C14"""
    import props.c14 as c14
    binary, blog = c14.build_downstream()
    if binary is None:
        chk.notes.append('downstream crate does not build (reported by C14); data-dependent integrals are not compared across schedules')
        chk.violation('build', 'downstream crate (with-data integrals) does not build: the with-data loops are not compared across schedules', None, key='downstream')
        return
    f = os.path.join(chk.wdir(), 'schedtag.rec')
    rc, fams, err = run_harness(binary, 'schedtag', chk.seed, chk.tier, f)
    if rc != 0:
        chk.violation('harness', 'downstream op schedtag failed: ' + err[-300:], None)
        return
    n = 0
    for r in read_records(f):
        chk.count()
        rp = {'op': 'schedtag', 'ids': [r.id], 'family': r.family, 'record': r.line[:3000], 'cmd': '/verif/downstream/target/debug/mv_downstream schedtag --seed %d --tier %s' % (chk.seed, chk.tier)}
        parts = ' '.join(r.res).split('T ')[1:]
        per = {}
        for p in parts:
            toks = p.split()
            per[int(toks[0])] = toks[1:]
        base = per.get(1)
        ngen = int(r.inp[8])
        mask = r.inp[r.inp.index('M') + 1]
        active = [i for i in range(ngen) if mask == '-' or mask[i] == '1']
        for th, toks in sorted(per.items()):
            if toks != base:
                k = next((i for i in range(min(len(toks), len(base))) if toks[i] != base[i]), -1)
                chk.violation('impl-vs-impl', 'data-dependent integral vectors differ between 1 and %d worker threads (record %d, %s, %d generators, first differing token %d: %s vs %s)'
                              % (th, r.id, r.family, ngen, k, base[k] if 0 <= k < len(base) else '-', toks[k] if 0 <= k < len(toks) else '-'), dict(rp, threads=th), key='schedule-data')
                break
            n += 1
        # alignment in the single-thread result: datum 1000+i reaches cell i
        if base and base[0] == 'CD':
            k = int(base[1])
            cd = [(int(base[2 + 2 * j]), int(base[3 + 2 * j])) for j in range(k)]
            if [c[0] for c in cd] != active or any(d != 1000 + i for i, d in cd):
                chk.violation('impl-vs-oracle', 'per-cell data is not delivered to the cell with the same index (record %d)' % r.id, rp, key='data')
        if ngen >= 50:
            chk.nontriv(('schedtag', r.id))
        chk.traces += 1
    chk.extra_cov['schedtag_configurations_compared'] = n


def run(chk):
    chk.trusted_base = TRUSTED
    chk.rule = ("op sched: 8 inputs per repetition (1D/2D/3D, periodic or not, lattice and on-boundary families that take the exact path, random masks; up to several thousand generators in thorough): "
                "cells, faces in order, connectivity array, cell/face integral vectors (with and without data, sym and non-sym), with_faces route; serialised bit patterns must be identical for pools of 1,2,3,5,8,16,64 threads, "
                "repeated runs, jitter seeds that perturb completion order, the global pool, fresh pools that first build OTHER inputs (contracted copy of the same generators around one of them, that cell alone, periodic builds of other dimensionalities) - history independence -, and the build without the rayon feature (fresh thread vs after other builds); op schedtag (downstream crate): cell / face / sym-face integrals WITH per-cell data 1000+i under pools of 1,2,3,4,5,8,16 threads must be identical; non-trivial = input with >= 50 generators; distinct by (input, configuration)")
    chk.lean(['MVoro.Props.C09', 'MVoro.Proofs.Misc'], ['MVoro.Obl.Par'], ['Par'])
    got = run_cells_op(chk, op='sched', features='ibig,rayon')
    if got is None:
        return
    recs, _ = got
    got2 = run_cells_op(chk, op='sched', features='ibig')
    seqrecs = {}
    if got2 is not None:
        seqrecs = {r.id: r for r in got2[0]}
    nconf = 0
    for r in recs:
        chk.count()
        rp = {'op': 'sched', 'ids': [r.id], 'family': r.family, 'record': r.line[:3000]}
        base = r.res[2]
        ih = r.res.index('HASHES')
        full = r.res[4:ih]
        hs = r.res[ih + 1:]
        n = int(r.inp[8])
        if full and full[0] == 'PANIC':
            chk.extra_cov['panicking_inputs_skipped'] = chk.extra_cov.get('panicking_inputs_skipped', 0) + 1
        for k in range(0, len(hs), 2):
            nconf += 1
            if hs[k + 1] != base:
                chk.violation('impl-vs-impl', 'result differs between the single-thread pool and configuration %s (record %d, %s, %d generators): fingerprint %s vs %s'
                              % (hs[k], r.id, r.family, n, base, hs[k + 1]), dict(rp, configuration=hs[k]), key='schedule')
            elif n >= 50:
                chk.nontriv((r.id, hs[k]))
        s = seqrecs.get(r.id)
        if s is None:
            chk.violation('harness', 'sequential (no rayon) harness produced no record %d' % r.id, None)
        else:
            if s.inp != r.inp:
                chk.violation('harness', 'sequential harness generated a different input for record %d' % r.id, None)
            elif 'HASHES' in s.res and s.res[s.res.index('HASHES') + 2] != s.res[2]:
                chk.violation('impl-vs-impl', 'sequential build (no rayon): the result depends on what the thread built before (fresh thread %s, after other builds %s) (record %d, %s, %d generators)'
                              % (s.res[2], s.res[s.res.index('HASHES') + 2], r.id, r.family, n), dict(rp, configuration='no-rayon after-other-builds'), key='history')
            elif s.res[2] != base:
                sfull = s.res[4:s.res.index('HASHES')] if 'HASHES' in s.res else s.res[4:]
                k = next((i for i in range(min(len(full), len(sfull))) if full[i] != sfull[i]), -1)
                chk.violation('impl-vs-impl', 'result differs between the rayon build and the sequential build without the parallel feature (record %d, %s, %d generators, first differing token %d: %s vs %s)'
                              % (r.id, r.family, n, k, full[k] if 0 <= k < len(full) else '-', sfull[k] if 0 <= k < len(sfull) else '-'), dict(rp, configuration='no-rayon'), key='no-rayon')
            else:
                nconf += 1
                if n >= 50:
                    chk.nontriv((r.id, 'no-rayon'))
        chk.traces += 1
        if len(chk.samples) < 3:
            chk.sample({'op': 'sched', 'family': r.family, 'generators': n, 'fingerprint': base, 'configurations': [hs[k] for k in range(0, len(hs), 2)] + ['no-rayon']})
    chk.extra_cov['configurations_compared'] = nconf
    schedtag(chk)
