"""C09 — results are a pure function of the input, independent of thread schedule."""
from common import *
from props.c01 import run_cells_op

TRUSTED = [
    "Lean 4.33 kernel; axioms propext, Classical.choice, Quot.sound only (audited per theorem)",
    "model MVoro/Model/Sched.lean: every parallel loop is an indexed collect of a pure per-index function; theorems MVoro/Proofs/Misc.lean §SchedProofs",
    "translator fragment Par: the rayon-guarded statements of src/voronoi.rs and their sequential twins are re-extracted on every run; obligations MVoro/Obl/Par.lean (same chain up to the parallel source; only order-preserving indexed adapters; no interior mutability / globals / clocks / randomness outside the hooks module)",
    "NOT modelled (runtime): rayon's actual interleavings and that its indexed collect implements the modelled contract; purity of the per-cell closure beyond the source scan (Rust's Fn + Sync bound); bitwise reproducibility of f64 arithmetic across threads",
    "correspondence harness (op sched): bitwise fingerprints under 7 thread counts, repeats, 3 jitter seeds (hook), the global pool, and the sequential build without the rayon feature",
]


def run(chk):
    chk.trusted_base = TRUSTED
    chk.rule = ("op sched: 8 inputs per repetition (1D/2D/3D, periodic or not, lattice and on-boundary families that take the exact path, random masks; up to several thousand generators in thorough): "
                "cells, faces in order, connectivity array, cell/face integral vectors (with and without data, sym and non-sym), with_faces route; serialised bit patterns must be identical for pools of 1,2,3,5,8,16,64 threads, "
                "repeated runs, jitter seeds that perturb completion order, the global pool, and the build without the rayon feature; non-trivial = input with >= 50 generators; distinct by (input, configuration)")
    chk.lean(['MVoro.Props.C09', 'MVoro.Proofs.Misc'], ['MVoro.Obl.Par'], ['Par'])
    got = run_cells_op(chk, op='sched', features='ibig,rayon')
    if got is None:
        return
    recs, _ = got
    got2 = run_cells_op(chk, op='sched', features='ibig')
    seqrecs = {}
    if got2 is not None:
        seqrecs = {r.id: r for r in got2[0]}
    nconf = 0
    for r in recs:
        chk.count()
        rp = {'op': 'sched', 'ids': [r.id], 'family': r.family, 'record': r.line[:3000]}
        base = r.res[2]
        ih = r.res.index('HASHES')
        full = r.res[4:ih]
        hs = r.res[ih + 1:]
        n = int(r.inp[8])
        if full and full[0] == 'PANIC':
            chk.extra_cov['panicking_inputs_skipped'] = chk.extra_cov.get('panicking_inputs_skipped', 0) + 1
        for k in range(0, len(hs), 2):
            nconf += 1
            if hs[k + 1] != base:
                chk.violation('impl-vs-impl', 'result differs between the single-thread pool and configuration %s (record %d, %s, %d generators): fingerprint %s vs %s'
                              % (hs[k], r.id, r.family, n, base, hs[k + 1]), dict(rp, configuration=hs[k]), key='schedule')
            elif n >= 50:
                chk.nontriv((r.id, hs[k]))
        s = seqrecs.get(r.id)
        if s is None:
            chk.violation('harness', 'sequential (no rayon) harness produced no record %d' % r.id, None)
        else:
            if s.inp != r.inp:
                chk.violation('harness', 'sequential harness generated a different input for record %d' % r.id, None)
            elif s.res[2] != base:
                sfull = s.res[4:]
                k = next((i for i in range(min(len(full), len(sfull))) if full[i] != sfull[i]), -1)
                chk.violation('impl-vs-impl', 'result differs between the rayon build and the sequential build without the parallel feature (record %d, %s, %d generators, first differing token %d: %s vs %s)'
                              % (r.id, r.family, n, k, full[k] if 0 <= k < len(full) else '-', sfull[k] if 0 <= k < len(sfull) else '-'), dict(rp, configuration='no-rayon'), key='no-rayon')
            else:
                nconf += 1
                if n >= 50:
                    chk.nontriv((r.id, 'no-rayon'))
        chk.traces += 1
        if len(chk.samples) < 3:
            chk.sample({'op': 'sched', 'family': r.family, 'generators': n, 'fingerprint': base, 'configurations': [hs[k] for k in range(0, len(hs), 2)] + ['no-rayon']})
    chk.extra_cov['configurations_compared'] = nconf
    if chk.unparsed and not chk.violations:
        chk.soft.append('Par fragment unparsed (%s); all schedules agree bitwise' % chk.gen.get('Par', {}).get('why'))
        chk.obligations = [o for o in chk.obligations if o['module'] != 'MVoro.Obl.Par']
