"""C07 — partial construction equals the full tessellation restricted to the mask."""
from common import *
from tesslib import *
from props.c01 import run_cells_op
from props.c12 import parse_routes_impl, parse_routes_model, mask_str, TRUSTED as T12

TRUSTED = T12 + ["cell geometry is compared implementation-vs-implementation bitwise (full build vs partial build in the same process)"]


def listed_faces(v, i, inp):
    """set of (neighbour, shift) of the faces listed by cell i, with areas"""
    c = v['cells'][i]
    out = {}
    for k in v['conn'][c.off:c.off + c.cnt]:
        f = v['faces'][k]
        if f.left == i:
            key = (f.right, shift_triple(f.shift, inp))
        else:
            key = (f.left, None)
        out.setdefault(key, []).append(f.area)
    return out


def run(chk):
    chk.trusted_base = TRUSTED
    chk.rule = ("op partial: full build + partial builds for all 2^n masks of small inputs (n <= 6) and random/all/none/single masks of larger ones (n up to 36 quick / 206 thorough), "
                "1D/2D/3D, periodic or not; selected cells compared bitwise, face sets exactly, areas within tolerance; op routes: masks against Model/Tess; "
                "non-trivial = mask with at least one selected and one unselected cell; distinct by (record, mask)")
    chk.lean(['MVoro.Props.C07', 'MVoro.Proofs.TessBook'], ['MVoro.Obl.Rules'], ['Rules'])
    got = run_cells_op(chk, op='partial')
    if got is None:
        return
    recs, _ = got
    for r in recs:
        rp = {'op': r.op, 'ids': [r.id], 'family': r.family, 'record': r.line[:3000]}
        t = Tok(r.res)
        if t.peek() == 'PANIC':
            chk.panic_record(r, ' '.join(r.res), rp)
            continue
        inp = parse_input(r.inp)
        tol = Tol(inp)
        t.expect('FULL')
        full = parse_voronoi_tok(t)
        t.expect('NM')
        nm = t.int()
        fl = [listed_faces(full, i, inp) for i in range(inp.n)]
        for _ in range(nm):
            t.expect('MASK')
            ms = t.next()
            mask = [c == '1' for c in ms]
            p = parse_voronoi_tok(t)
            if t.peek() == 'GCA':
                t.next()
                gca = t.next()
                if gca != ms:
                    chk.violation('impl-vs-oracle', 'VoronoiIntegrator::get_cell_at: presence / idx pattern %s differs from the mask (record %d, %s, mask %s)' % (gca, r.id, r.family, ms), rp, key='gca')
            pwf = None
            if t.peek() == 'PWF':
                t.next()
                pwf = parse_voronoi_tok(t)
            chk.count()
            where = '(record %d, %s, mask %s)' % (r.id, r.family, ms)
            if pwf is not None and 'panic' not in pwf and 'panic' not in p:
                # the same partial tessellation through VoronoiIntegrator::build(mask).with_faces(): same structure, same
                # generator positions / safety radii (bitwise), volumes and areas up to rounding (different decomposition)
                if impl_structure(pwf) != impl_structure(p):
                    chk.violation('impl-vs-impl', 'partial tessellation through the integrator with stored faces has a different face / connectivity structure than build_partial %s' % where, rp, key='pwf-structure')
                else:
                    for i, (a, b) in enumerate(zip(pwf['cells'], p['cells'])):
                        if (a.loc, a.sr) != (b.loc, b.sr) or a.volume is None or b.volume is None or abs(a.volume - b.volume) > tol.vol * 10:
                            chk.violation('impl-vs-impl', 'cell %d of the partial tessellation through the integrator with stored faces differs from build_partial %s' % (i, where), rp, key='pwf-cell')
                            break
            if any(mask) and not all(mask):
                chk.nontriv((r.id, ms))
            chk.traces += 1
            for i in range(inp.n):
                a, b = p['cells'][i], full['cells'][i]
                if mask[i]:
                    if (a.volume, a.centroid, a.loc, a.sr) != (b.volume, b.centroid, b.loc, b.sr):
                        chk.violation('impl-vs-impl', 'selected cell %d differs bitwise from the full construction %s' % (i, where), rp, key='cell')
                    pf = listed_faces(p, i, inp)
                    # faces of negligible area may be present on one side only: at a degenerate corner (exact lattice, co-spherical
                    # set) each cell resolves the corner in its own clipping order, and which of the two cells stores a face
                    # depends on the mask -- the stored zero-area faces are each cell's OWN view in the partial build and the
                    # lower-index neighbour's view in the full build (DESIGN §10.4)
                    def negligible(d, k):
                        return all(a is not None and abs(a) <= tol.area for a in d[k])
                    extra = [k for k in set(pf) ^ set(fl[i]) if not negligible(pf if k in pf else fl[i], k)]
                    if set(pf) != set(fl[i]) and not extra:
                        chk.extra_cov['negligible_faces_on_one_side_only'] = chk.extra_cov.get('negligible_faces_on_one_side_only', 0) + 1
                        common = set(pf) & set(fl[i])
                        pf = {k: pf[k] for k in common}
                        fli = {k: fl[i][k] for k in common}
                    else:
                        fli = fl[i]
                    if set(pf) != set(fli):
                        # faces of negligible area may legitimately differ? no: same convex cell -> same planes; strict
                        chk.violation('impl-vs-impl', 'selected cell %d lists faces %s, in the full construction %s %s' % (i, sorted(map(str, pf)), sorted(map(str, fl[i])), where), rp, key='faces')
                    else:
                        for k in pf:
                            if len(pf[k]) != len(fli[k]) or any(abs(x - y) > tol.area * (10000 if True else 1) for x, y in zip(sorted(pf[k]), sorted(fli[k]))):
                                chk.violation('impl-vs-impl', 'face %s of cell %d: area %s vs %s in the full construction %s' % (k, i, [float(x) for x in pf[k]], [float(x) for x in fli[k]], where), rp, key='area')
                else:
                    if a.volume != 0 or any(x != 0 for x in a.centroid):
                        chk.violation('impl-vs-oracle', 'unselected cell %d has non-zero volume/centroid %s' % (i, where), rp, key='zero')
            seen = {}
            for f in p['faces']:
                if not mask[f.left]:
                    chk.violation('impl-vs-oracle', 'face with unselected left cell %d %s' % (f.left, where), rp, key='left')
                if f.right is not None and f.shift is None:
                    key = (min(f.left, f.right), max(f.left, f.right))
                    seen[key] = seen.get(key, 0) + 1
            for (a, b), k in seen.items():
                if k != 1:
                    chk.violation('impl-vs-oracle', 'unshifted face between %d and %d stored %d times %s' % (a, b, k, where), rp, key='once')
            # a face between a selected and an unselected cell in the full build must be present exactly once
            for f in full['faces']:
                if f.right is None or f.shift is not None:
                    continue
                a, b = f.left, f.right
                if f.area is not None and abs(f.area) <= tol.area:
                    continue      # a face of negligible area exists only in the view of the cell that stores it (see above)
                if mask[a] != mask[b]:
                    if seen.get((min(a, b), max(a, b)), 0) != 1:
                        chk.violation('impl-vs-impl', 'face between selected and unselected cells %d,%d missing %s' % (a, b, where), rp, key='missing')
                if not mask[a] and not mask[b] and (min(a, b), max(a, b)) in seen:
                    chk.violation('impl-vs-oracle', 'face between two unselected cells %d,%d present %s' % (a, b, where), rp, key='unsel')
        if len(chk.samples) < 3:
            chk.sample({'op': 'partial', 'family': r.family, 'n': inp.n, 'masks': nm})
    # bookkeeping against the model (masks included)
    got = run_cells_op(chk, op='routes')
    if got is None:
        return
    recs, model = got
    for r in recs:
        impl = parse_routes_impl(r.res)
        if 'panic' in impl or 'panic' in impl.get('direct', {}):
            continue
        inp = parse_input(r.inp)
        if inp.mask is None:
            continue
        chk.count()
        m = model.get(r.id)
        if m and m[0] == 'D0':
            mm = parse_routes_model(m)
            if impl_structure(impl['direct']) != mm['D1']:
                chk.violation('impl-vs-model', 'partial build structure differs from Model/Tess (record %d, mask %s)' % (r.id, mask_str(inp)),
                              {'op': r.op, 'ids': [r.id], 'record': r.line[:3000]}, key='model')
            chk.traces += 1
