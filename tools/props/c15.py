"""C15 — extracted vertices and face polygons form a valid convex polytope."""
from common import *
from tesslib import *
from props.c01 import run_cells_op, fl, fl3
from props.c19 import fsqrt, sub, dot, cross

TRUSTED = [
    "Lean 4.33 kernel; axioms propext, Classical.choice, Quot.sound only (audited per theorem)",
    "model MVoro/Model/Faces.lean (with_faces / sort_face_vertices on dual triples) compared token by token; MVoro/Model/TypeState.lean + Proofs/Misc §TypeStateProofs (face data present in every reachable WithFaces state; with_faces rejected for 1D/2D; discard∘with_faces = id on planes and vertices); Proofs/FacesProofs (ordering is a permutation of the collected vertices; every vertex is collected by exactly its three planes)",
    "intersect_planes lies on its three planes (C19 theorem) — vertex = intersection of its dual planes in exact arithmetic; in floats within conditioning-scaled tolerance",
    "NOT proved: V - E + F = 2 and 'each face list is a single cycle' for every reachable cell (needs the sphere topology of the closed triple surface, trusted-base item 2); both are computed exactly on every cell by the model and the comparator",
    "correspondence harness (op withfaces), tolerances of DESIGN §3.6",
]


def run(chk):
    chk.trusted_base = TRUSTED
    chk.rule = ("op withfaces: 9 families in 3D (periodic or not, masks) through VoronoiIntegrator::with_faces: per cell (i) every vertex lies on its three dual planes and inside all half spaces; (ii) every vertex occurs in exactly three face lists; "
                "(iii) every face list is a simple cycle (consecutive vertices share a second plane), planar, convex, counter-clockwise about the inward normal; (iv) polygon area = area integral, neighbour/shift accessors = face integrals in order; "
                "(v) V-E+F = 2; (vi) face lists equal Model/Faces token by token; (vii) discard_faces().with_faces() reproduces everything bitwise; 1D/2D: with_faces is rejected (panic) for the cell and the integrator; "
                "non-trivial = cell with >= 5 faces; op bigcell: one cell with > 11 000 faces (generator inside a dense spherical shell): incidence, plane membership, cycle structure, Euler, accessors and polygon area = area integral evaluated on the implementation's output")
    chk.lean(['MVoro.Props.C15', 'MVoro.Proofs.FacesProofs', 'MVoro.Proofs.Euler'], [], [])
    got = run_cells_op(chk, op='withfaces')
    if got is None:
        return
    recs, model = got
    release_parity(chk, 'withfaces', recs)
    npanic = 0
    for r in recs:
        chk.count()
        rp = {'op': 'withfaces', 'ids': [r.id], 'family': r.family, 'record': r.line[:6000]}
        if r.res[0] == 'PANIC':
            npanic += 1
            continue
        if r.res[0] == 'WFPANIC':
            chk.violation('panic', 'deriving or reading the face information of a constructed 3D cell panicked: %s (record %d, %s)' % (' '.join(r.res[1:])[:200], r.id, r.family), rp, key=r.family + ' ' + ' '.join(r.res[1:]))
            continue
        cut = r.inp.index('DU') if 'DU' in r.inp else len(r.inp)
        inp = parse_input(r.inp[:cut])
        if r.res[0] == 'LOWDIM':
            any_active = inp.mask is None or any(inp.mask)
            if r.res[1] != '1' or (r.res[2] != '1' and any_active):
                chk.violation('impl-vs-oracle', 'with_faces on a %dD tessellation is not rejected (cell: %s, integrator: %s), record %d (%s)' % (inp.dim, r.res[1], r.res[2], r.id, r.family), rp, key='lowdim')
            else:
                chk.traces += 1
                chk.extra_cov['lowdim_rejections'] = chk.extra_cov.get('lowdim_rejections', 0) + 1
            continue
        tol = Tol(inp)
        m = model.get(r.id) or []
        mcells = ' '.join(m).split(' | ') if m else []
        t = Tok(r.res)
        t.expect('OK')
        t.expect('NC')
        nc = t.int()
        for ci in range(nc):
            t.expect('C')
            idx = t.int()
            loc = t.v3()
            t.expect('NP')
            planes = []
            for _ in range(t.int()):
                planes.append((t.v3(), t.v3(), t.optint(), parse_opt_v3(t)))
            t.expect('NV')
            verts = []
            for _ in range(t.int()):
                verts.append((t.v3(), (t.int(), t.int(), t.int())))
            t.expect('NFC')
            faces = []
            for _ in range(t.int()):
                pidx, nb, sh, cnt = t.int(), t.optint(), parse_opt_v3(t), t.int()
                faces.append((pidx, nb, sh, [t.int() for _ in range(cnt)]))
            t.expect('AI')
            ai = []
            for _ in range(t.int()):
                ai.append((t.optint(), parse_opt_v3(t), t.f(), t.v3()))
            t.expect('VOL')
            vol = t.f()
            t.expect('RT')
            rt = (t.next(), t.next())
            where = 'record %d (%s) cell %d' % (r.id, r.family, idx)
            bad = None
            # (vii)
            if rt != ('1', '1'):
                bad = ('roundtrip', 'discard_faces().with_faces() is not the identity (core %s, everything %s)' % rt)
            # (vi) model
            if bad is None and ci < len(mcells):
                mt = mcells[ci].split()
                if mt[0] != 'F':
                    bad = ('model', 'Model/Faces fails (%s) where the implementation succeeds' % mt[0])
                else:
                    mf = []
                    k = 4
                    for _ in range(int(mt[1])):
                        p, cnt = int(mt[k]), int(mt[k + 1])
                        mf.append((p, [int(x) for x in mt[k + 2:k + 2 + cnt]]))
                        k += 2 + cnt
                    if mf != [(f[0], f[3]) for f in faces]:
                        bad = ('model', 'face vertex lists differ from Model/Faces: implementation %s, model %s' % ([(f[0], f[3]) for f in faces][:4], mf[:4]))
                    elif mt[3] != '2':
                        bad = ('euler', 'V - E + F = %s' % mt[3])
            elif bad is None:
                bad = ('driver', 'model produced no result for this cell')
            # (ii)
            if bad is None:
                cnt = [0] * len(verts)
                for (pidx, nb, sh, vs) in faces:
                    for v in vs:
                        if not (0 <= v < len(verts)) or pidx not in verts[v][1]:
                            bad = ('incidence', 'face on plane %d lists vertex %d which does not have this plane in its dual' % (pidx, v))
                            break
                        cnt[v] += 1
                    if len(set(vs)) != len(vs):
                        bad = ('incidence', 'face on plane %d lists a vertex twice' % pidx)
                if bad is None and any(c != 3 for c in cnt):
                    bad = ('incidence', 'vertex %d belongs to %d faces' % (next(i for i, c in enumerate(cnt) if c != 3), cnt[next(i for i, c in enumerate(cnt) if c != 3)]))
            # (v) Euler, recomputed
            if bad is None:
                E = sum(len(f[3]) for f in faces)
                if E % 2 != 0 or len(verts) - E // 2 + len(faces) != 2:
                    bad = ('euler', 'V - E + F = %d - %d/2 + %d != 2' % (len(verts), E, len(faces)))
            # (iv) accessors vs integrals (order included)
            if bad is None:
                acc = [(f[1], f[2]) for f in faces]
                integ = [(a[0], a[1]) for a in ai]
                if acc != integ:
                    bad = ('accessors', 'neighbour/shift accessors %s differ from the face integrals %s' % (acc[:5], integ[:5]))
                if any(planes[f[0]][2] != f[1] or planes[f[0]][3] != f[2] for f in faces):
                    bad = ('accessors', 'neighbour/shift accessors differ from the clipping planes they belong to')
            if bad is None and not tol.ill:
                # (i) vertices
                illv = set()
                for vi, (x, dual) in enumerate(verts):
                    ns = [[float(c) for c in planes[k][0]] for k in dual]
                    det = abs(ns[0][0] * (ns[1][1] * ns[2][2] - ns[1][2] * ns[2][1]) - ns[0][1] * (ns[1][0] * ns[2][2] - ns[1][2] * ns[2][0]) + ns[0][2] * (ns[1][0] * ns[2][1] - ns[1][1] * ns[2][0]))
                    loose = Fraction(max(1.0, 1e-7 / max(det, 1e-300)))
                    if det < 1e-5:
                        illv.add(vi)
                    for k in dual:
                        n, p = planes[k][0], planes[k][1]
                        if abs(dot(n, sub(x, p))) > 10 * tol.pos * loose:
                            bad = ('vertex', 'vertex %d is %.3g off its dual plane %d' % (vi, float(abs(dot(n, sub(x, p)))), k))
                    if det > 1e-5:
                        for k, (n, p, _, _) in enumerate(planes):
                            if dot(n, sub(x, p)) < -20 * tol.pos:
                                bad = ('vertex', 'vertex %d lies %.3g outside half space %d' % (vi, float(-dot(n, sub(x, p))), k))
                # (iii) polygons
                if bad is None:
                    for fi, (pidx, nb, sh, vs) in enumerate(faces):
                        n = planes[pidx][0]
                        k = len(vs)
                        for j in range(k):
                            a, b = verts[vs[j]][1], verts[vs[(j + 1) % k]][1]
                            if k >= 3 and len((set(a) & set(b)) - {pidx}) < 1:
                                bad = ('cycle', 'consecutive vertices %d, %d of the face on plane %d share no second plane' % (vs[j], vs[(j + 1) % k], pidx))
                        if any(v in illv for v in vs):
                            # a vertex whose three planes are nearly coaxial has an ill-conditioned position: geometry of this polygon is not compared
                            chk.extra_cov['faces_with_ill_conditioned_vertices_skipped'] = chk.extra_cov.get('faces_with_ill_conditioned_vertices_skipped', 0) + 1
                            continue
                        pts = [verts[v][0] for v in vs]
                        A = [Fraction(0)] * 3
                        for j in range(1, k - 1):
                            c = cross(sub(pts[j], pts[0]), sub(pts[j + 1], pts[0]))
                            A = [A[q] + c[q] / 2 for q in range(3)]
                        signed = dot(A, n)
                        area_i = ai[fi][2]
                        onwall = ' gen-on-wall' if (nb is None and gen_on_wall(inp, idx)) else ''
                        if signed < -4 * tol.area:
                            bad = ('orientation', 'face on plane %d is clockwise about the inward plane normal (signed area %.6g)' % (pidx, float(signed)))
                        elif area_i is None or abs(signed - area_i) > 4 * tol.area:
                            bad = ('area' + onwall, 'polygon area %.17g of the face on plane %d differs from its area integral %s' % (float(signed), pidx, fl(area_i)))
                        else:
                            for j in range(k):
                                if k < 3:
                                    break
                                a, b, c = pts[j], pts[(j + 1) % k], pts[(j + 2) % k]
                                turn = dot(cross(sub(b, a), sub(c, b)), n)
                                if turn < -8 * tol.area:
                                    bad = ('convex', 'face on plane %d is not convex at vertex %d (turn %.3g)' % (pidx, vs[(j + 1) % k], float(turn)))
                        if bad:
                            break
            if bad:
                kind = 'impl-vs-model' if bad[0] in ('model', 'driver') else 'impl-vs-oracle'
                if bad[0] == 'driver':
                    chk.violation('driver', bad[1] + ', ' + where, None)
                else:
                    geo = bad[0].split()[0] in ('vertex', 'convex', 'area', 'orientation')
                    chk.violation(kind, bad[1] + ', ' + where, rp, key=bad[0] + (' cluster' if geo and r.family.startswith('cluster') else ''))
            else:
                chk.traces += 1
                if len(faces) >= 5:
                    chk.nontriv((r.id, idx))
                if len(chk.samples) < 2 and len(faces) >= 8:
                    chk.sample({'op': 'withfaces', 'family': r.family, 'cell': idx, 'V': len(verts), 'F': len(faces), 'first_face': faces[0][3]})
        if t.peek() == 'SLOTS':
            t.next()
            nbad = t.int()
            if nbad:
                chk.violation('impl-vs-oracle', 'after with_faces() %d generator(s) are not found at their own index: get_cell_at(i) is missing, present for an unselected generator or returns the cell of another generator (record %d, %s, mask %s)'
                              % (nbad, r.id, r.family, ''.join('1' if m else '0' for m in inp.mask) if inp.mask is not None else '-'), rp, key='slots')
            else:
                chk.extra_cov['slot_checks'] = chk.extra_cov.get('slot_checks', 0) + 1
    chk.extra_cov['records_with_panic_skipped_see_C05'] = npanic

    # ---- one cell with more than ten thousand faces: the invariants evaluated by the harness on the implementation's output
    binary, _ = cargo_build('ibig,rayon', False)
    rec_f = os.path.join(chk.wdir(), 'bigcell.rec')
    rc, fams, err = run_harness(binary, 'bigcell', chk.seed, chk.tier, rec_f)
    if rc != 0:
        chk.violation('harness', 'harness op bigcell failed: %s' % err[-300:], None)
        return
    for k, v in fams.items():
        chk.families['bigcell_' + k] = v
    big = []
    for r in read_records(rec_f):
        chk.count()
        rp = {'op': 'bigcell', 'ids': [r.id], 'family': r.family, 'shell_generators': r.inp[0], 'record': r.line[:600],
              'how': 'harness op bigcell: one generator at the centre of a Fibonacci-lattice shell of that many generators (radius 0.3, unit box), central cell with_faces()'}
        if r.res[0] != 'BIG':
            chk.violation('panic', 'with_faces on a cell with %s faces: %s' % (r.inp[0], ' '.join(r.res)[:300]), rp, key='with_faces bigcell')
            continue
        d = dict(zip(r.res[1::2], r.res[2::2]))
        n = int(r.inp[0])
        nf, nv = int(d['nf']), int(d['nv'])
        bad = []
        if nf != int(d['ai']):
            bad.append('face_count %d != number of face integrals %s' % (nf, d['ai']))
        if int(d['euler']) != 2:
            bad.append('V - E + F = %s' % d['euler'])
        for key, what in (('incidence_bad', 'vertices not in exactly three faces'), ('onplane_bad', 'face vertices whose dual triple does not contain the face plane'),
                          ('cycle_bad', 'consecutive face vertices not sharing exactly one further plane'), ('range_bad', 'vertex indices out of range'),
                          ('accessor_bad', 'neighbour/shift/plane accessors disagreeing with the clipping planes')):
            if int(d[key]) != 0:
                bad.append('%s %s' % (d[key], what))
        dev, asum = hex_to_float(d['area_dev']), hex_to_float(d['area_sum'])
        if not (dev <= 1e-9):
            bad.append('polygon area differs from the area integral by %.3g' % dev)
        if r.family.startswith('shell') and nf < n * 0.9:
            bad.append('only %d faces for %d shell generators (generator broken?)' % (nf, n))
        if r.family.startswith('ring') and int(d.get('maxfv', 0)) < n * 0.9:
            bad.append('largest face has only %s vertices for a ring of %d generators (generator broken?)' % (d.get('maxfv'), n))
        if bad:
            chk.violation('impl-vs-oracle', 'cell with %d faces / %d vertices: %s' % (nf, nv, '; '.join(bad)), rp, key='bigcell')
        else:
            chk.traces += 1
            chk.nontriv(('bigcell', r.id))
            big.append({'family': r.family, 'faces': nf, 'vertices': nv, 'largest_face': int(d.get('maxfv', 0)), 'surface_area': asum})
    chk.extra_cov['bigcell'] = big
