"""C10 — the exact in-sphere predicate returns the true sign on the integer grid."""
import os
from common import *

TRUSTED = [
    "Lean 4.33 kernel; axioms propext, Classical.choice, Quot.sound only (audited per theorem)",
    "translator tools/extract.py for in_sphere_test_exact + its three macros + the cfg'ed sign arms",
    "correspondence harness (ops insphere, iloc) and its generators",
    "modelled: each big-integer crate implements ℤ (+, -, *, sign); i64 subtraction modelled by Int64 in the proof",
    "modelled: IEEE rounding inside iloc as an arbitrary monotone map (theorem) / Lean Float (driver, bit-exact comparison)",
]


def run(chk):
    chk.trusted_base = TRUSTED
    chk.rule = ("5-tuples of grid points: exhaustive over {0,1}^3 corners (strided in quick), random on {0,1,2}^3, random of bit widths 4..52, "
                "extremes near 0 / 2^52-1, exactly co-spherical lattice tuples and their +-1 perturbations, corners of the full cube; "
                "non-trivial = orientation != 0; distinct by tuple")
    lean_ok = chk.lean(['MVoro.Props.C10'], ['MVoro.Obl.InSphere'], ['InSphere'])
    binary, blog = cargo_build('ibig,rayon')
    if binary is None:
        chk.violation('build', 'harness does not build against /repo', None)
        chk.notes.append(blog[-1500:])
        return
    if not chk.driver_ok:
        chk.violation('build', 'lean driver does not build', None)
        return
    rec_f = os.path.join(chk.wdir(), 'insphere.rec')
    mod_f = os.path.join(chk.wdir(), 'insphere.model')
    rc, fams, err = run_harness(binary, 'insphere', chk.seed, chk.tier, rec_f)
    if rc != 0:
        chk.violation('harness', 'harness op insphere failed: ' + err[-300:], None)
        return
    chk.families.update(fams)
    rc, err = run_driver(rec_f, mod_f)
    recs = read_records(rec_f)
    model = read_model(mod_f)
    backend_col = {'ibig': 4, 'dashu': 5, 'rug': 6, 'malachite': 7, 'num_bigint': 8}['ibig']
    gen_parsed = 'InSphere' not in chk.unparsed
    for r in recs:
        if chk.only is not None and (r.op, r.id) not in chk.only:
            continue
        m = model.get(r.id)
        chk.count()
        if m is None or m[0] in ('bad-op', 'unknown-op'):
            chk.violation('driver', 'model produced no result for record %d' % r.id, {'op': r.op, 'ids': [r.id], 'record': r.line})
            continue
        ref_sign, gen_det, ref_det, orient = int(m[0]), int(m[1]), int(m[2]), int(m[3])
        if orient != 0:
            chk.nontriv((tuple(r.inp)))
        chk.traces += 1
        impl = r.res[0]
        if impl != str(ref_sign):
            chk.violation('impl-vs-model', 'in_sphere_test_exact returned %s, exact sign of the determinant is %d (record %d, family %s)'
                          % (impl, ref_sign, r.id, r.family), {'op': r.op, 'ids': [r.id], 'record': r.line, 'model': m}, key=r.family)
        if gen_parsed and gen_det != ref_det:
            # translated source computes a different polynomial: concrete witness; is the property broken on it?
            chk.violation('gen-vs-ref', 'translated in_sphere_test_exact computes %d, reference determinant is %d (record %d)' % (gen_det, ref_det, r.id),
                          {'op': r.op, 'ids': [r.id], 'record': r.line, 'model': m} if impl != str(ref_sign) else None, key=r.family)
        if gen_parsed and int(m[backend_col]) != ref_sign and gen_det == ref_det:
            chk.violation('gen-vs-ref', 'translated sign arm gives %s for determinant %d' % (m[backend_col], ref_det),
                          {'op': r.op, 'ids': [r.id], 'record': r.line, 'model': m} if impl != str(ref_sign) else None, key=r.family)
        if len(chk.samples) < 4 and orient != 0 and r.family.startswith(('cospherical', 'rand52')):
            chk.sample({'op': 'insphere', 'family': r.family, 'points': r.inp, 'impl': impl, 'model_sign': ref_sign, 'det': m[2], 'orient': m[3]})
    if not gen_parsed and not chk.violations:
        chk.soft.append('InSphere fragment unparsed; implementation-vs-Ref correspondence agrees on all %d records' % chk.evaluations)
        # softening rule of DESIGN §5: drop the Gen obligations only
        chk.obligations = [o for o in chk.obligations if o['module'] != 'MVoro.Obl.InSphere']
