"""C10 — the exact in-sphere predicate returns the true sign on the integer grid."""
import os
from common import *

TRUSTED = [
    "Lean 4.33 kernel; axioms propext, Classical.choice, Quot.sound only (audited per theorem)",
    "translator tools/extract.py for in_sphere_test_exact + its three macros + the cfg'ed sign arms",
    "correspondence harness (ops insphere, iloc) and its generators",
    "modelled: each big-integer crate implements ℤ (+, -, *, sign); i64 subtraction modelled by Int64 in the proof",
    "modelled: IEEE rounding inside iloc as an arbitrary monotone map (theorem) / Lean Float (driver, bit-exact comparison)",
]


def run(chk):
    chk.trusted_base = TRUSTED
    chk.rule = ("5-tuples of grid points: exhaustive over {0,1}^3 corners (strided in quick), random on {0,1,2}^3, random of bit widths 4..52, "
                "extremes near 0 / 2^52-1, exactly co-spherical lattice tuples and their +-1 perturbations, corners of the full cube; "
                "non-trivial = orientation != 0; distinct by tuple")
    lean_ok = chk.lean(['MVoro.Props.C10', 'MVoro.Proofs.Misc'], ['MVoro.Obl.InSphere', 'MVoro.Obl.Grid', 'MVoro.Obl.CellInit', 'MVoro.Obl.ClipVertex'], ['InSphere', 'Grid', 'CellInit', 'ClipVertex'])
    binary, blog = cargo_build('ibig,rayon')
    if binary is None:
        chk.violation('build', 'harness does not build against /repo', None)
        chk.notes.append(blog[-1500:])
        return
    if not chk.driver_ok:
        chk.violation('build', 'lean driver does not build', None)
        return
    rec_f = os.path.join(chk.wdir(), 'insphere.rec')
    mod_f = os.path.join(chk.wdir(), 'insphere.model')
    rc, fams, err = run_harness(binary, 'insphere', chk.seed, chk.tier, rec_f)
    if rc != 0:
        chk.violation('harness', 'harness op insphere failed: ' + err[-300:], None)
        return
    chk.families.update(fams)
    rc, err = run_driver(rec_f, mod_f)
    recs = read_records(rec_f)
    model = read_model(mod_f)
    backend_col = {'ibig': 4, 'dashu': 5, 'rug': 6, 'malachite': 7, 'num_bigint': 8}['ibig']
    gen_parsed = 'InSphere' not in chk.unparsed
    for r in recs:
        if chk.only is not None and (r.op, r.id) not in chk.only:
            continue
        m = model.get(r.id)
        chk.count()
        if m is None or m[0] in ('bad-op', 'unknown-op'):
            chk.violation('driver', 'model produced no result for record %d' % r.id, {'op': r.op, 'ids': [r.id], 'record': r.line})
            continue
        ref_sign, gen_det, ref_det, orient = int(m[0]), int(m[1]), int(m[2]), int(m[3])
        if orient != 0:
            chk.nontriv((tuple(r.inp)))
        chk.traces += 1
        impl = r.res[0]
        if impl != str(ref_sign):
            chk.violation('impl-vs-model', 'in_sphere_test_exact returned %s, exact sign of the determinant is %d (record %d, family %s)'
                          % (impl, ref_sign, r.id, r.family), {'op': r.op, 'ids': [r.id], 'record': r.line, 'model': m}, key=r.family)
        if gen_parsed and gen_det != ref_det:
            # translated source computes a different polynomial: concrete witness; is the property broken on it?
            chk.violation('gen-vs-ref', 'translated in_sphere_test_exact computes %d, reference determinant is %d (record %d)' % (gen_det, ref_det, r.id),
                          {'op': r.op, 'ids': [r.id], 'record': r.line, 'model': m} if impl != str(ref_sign) else None, key=r.family)
        if gen_parsed and int(m[backend_col]) != ref_sign and gen_det == ref_det:
            chk.violation('gen-vs-ref', 'translated sign arm gives %s for determinant %d' % (m[backend_col], ref_det),
                          {'op': r.op, 'ids': [r.id], 'record': r.line, 'model': m} if impl != str(ref_sign) else None, key=r.family)
        if len(chk.samples) < 4 and orient != 0 and r.family.startswith(('cospherical', 'rand52')):
            chk.sample({'op': 'insphere', 'family': r.family, 'points': r.inp, 'impl': impl, 'model_sign': ref_sign, 'det': m[2], 'orient': m[3]})

    # ---- second half: the map from positions to the grid
    rec_f = os.path.join(chk.wdir(), 'iloc.rec')
    mod_f = os.path.join(chk.wdir(), 'iloc.model')
    rc, fams, err = run_harness(binary, 'iloc', chk.seed, chk.tier, rec_f)
    if rc != 0:
        chk.violation('harness', 'harness op iloc failed: ' + err[-300:], None)
        return
    kinds = {}
    for k, v in fams.items():
        kk = 'iloc_' + k.split('_')[0]
        kinds[kk] = kinds.get(kk, 0) + v
    chk.families.update(kinds)
    run_driver(rec_f, mod_f)
    recs = read_records(rec_f)
    model = read_model(mod_f)
    groups = {}
    for r in recs:
        if chk.only is not None and (r.op, r.id) not in chk.only:
            continue
        chk.count()
        m = model.get(r.id)
        rp = {'op': r.op, 'ids': [r.id], 'record': r.line}
        if m is None or len(m) < 6:
            chk.violation('driver', 'model produced no result for iloc record %d' % r.id, rp)
            continue
        exact_r = [Fraction(m[0]), Fraction(m[2]), Fraction(m[4])]
        exact_i = [int(m[1]), int(m[3]), int(m[5])]
        if r.res[0] == 'RANGE':
            vals = [hex_to_float(x) for x in r.res[1:4]]
            chk.violation('impl-vs-oracle', 'position of kind %s is rescaled to %s, outside [1, 2): iloc panics (debug) or wraps (release); exact value %s'
                          % (r.family, vals, [float(x) for x in exact_r]), rp, key=r.family.split('_')[0])
            continue
        ii = [int(r.res[1]), int(r.res[2]), int(r.res[3])]
        for a in range(3):
            if not (0 <= ii[a] < 2 ** 52):
                chk.violation('impl-vs-oracle', 'grid coordinate %d outside [0, 2^52)' % ii[a], rp, key='range')
            # float evaluation of 1 + (x - a) * iw: a few ulps of [1,2) plus the rounding of a, iw themselves
            aa, ww, xx = hex_to_frac(r.inp[2 + a]), hex_to_frac(r.inp[5 + a]), hex_to_frac(r.inp[8 + a])
            allowed = 64 + 16 * (abs(aa) + 3 * abs(ww) + abs(xx)) / abs(ww)
            if abs(ii[a] - exact_i[a]) > allowed:
                gen_parsed2 = 'Grid' not in chk.unparsed
                if gen_parsed2:
                    chk.violation('impl-vs-model', 'grid coordinate %d of axis %d differs from the exact value %d by more than rounding (kind %s)' % (ii[a], a, exact_i[a], r.family), rp, key='value')
            if not (Fraction(1) < exact_r[a] <= Fraction(31, 16)) and 'Grid' not in chk.unparsed:
                chk.violation('gen-vs-ref', 'exact rescaled coordinate %s leaves (1, 31/16] (kind %s)' % (float(exact_r[a]), r.family), rp if False else None, key='margin')
        chk.traces += 1
        chk.nontriv(('iloc', tuple(r.inp)))
        groups.setdefault(tuple(r.inp[:8]), []).append((r, ii))
    # monotone per axis inside one box
    for key, lst in groups.items():
        for a in range(3):
            pts = sorted(((hex_to_frac(r.inp[8 + a]), ii[a], r) for (r, ii) in lst), key=lambda t: t[0])
            for (x0, i0, r0), (x1, i1, r1) in zip(pts, pts[1:]):
                if x0 is not None and x1 is not None and x0 <= x1 and i0 > i1:
                    chk.violation('impl-vs-oracle', 'grid map not monotone on axis %d: %s -> %d but %s -> %d' % (a, float(x0), i0, float(x1), i1),
                                  {'op': 'iloc', 'ids': [r0.id, r1.id], 'records': [r0.line, r1.line]}, key='monotone')
    if len(chk.samples) < 6 and recs:
        r = recs[len(recs) // 2]
        chk.sample({'op': 'iloc', 'kind': r.family, 'impl': r.res[:4], 'model': model.get(r.id)})
