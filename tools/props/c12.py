"""C12 — cell-face connectivity is a consistent index structure."""
import os
from common import *
from tesslib import *
from props.c01 import run_cells_op

TRUSTED = [
    "Lean 4.33 kernel; axioms propext, Classical.choice, Quot.sound only (audited per theorem)",
    "model MVoro/Model/Tess.lean of finalize / face_indices / neighbour_ids / from_convex_cell's storage rule, hand-written; tied to the code by exact (integer) correspondence on op routes",
    "the geometry is abstracted: the model takes the plane facts (right, shifted, valid, has-vertex) of each constructed ConvexCell from the implementation",
    "harness generators (families, masks)",
]


def parse_routes_impl(res):
    t = Tok(res)
    out = {}
    if t.peek() == 'PANIC':
        out['panic'] = ' '.join(res)
        return out
    t.expect('DIRECT')
    out['direct'] = parse_voronoi_tok(t)
    t.expect('VIA')
    out['via'] = parse_voronoi_tok(t)
    t.expect('CI')
    k = t.int()
    out['ci'] = [[t.next() for _ in range(4)] for _ in range(k)]
    for key in ('FS', 'FN'):
        t.expect(key)
        k = t.int()
        lst = []
        for _ in range(k):
            left = t.int()
            right = t.optint()
            sk = t.next()
            shift = None if sk == 'N' else [t.next(), t.next(), t.next()]
            vals = [t.next() for _ in range(4)]
            lst.append((left, right, shift, vals))
        out[key.lower()] = lst
    if t.peek() == 'VO':
        t.next()
        out['vo'] = [t.next() for _ in range(t.int())]
        t.expect('AO')
        out['ao'] = [t.next() for _ in range(t.int())]
        t.expect('GC')
        out['gc'] = t.next() if t.peek() != 'VIAF' else ''
    t.expect('VIAF')
    if t.peek() == '-':
        t.next()
        out['viaf'] = None
    else:
        out['viaf'] = parse_voronoi_tok(t)
    if t.peek() == 'VRT':
        t.next()
        out['vrt'] = [(t.next(), t.int()) for _ in range(t.int())]
    if t.peek() == 'BVC':
        t.next()
        out['bvc'] = t.next()
    return out


def parse_routes_model(m):
    t = Tok(m)
    out = {}
    for key in ('D0', 'D1', 'V1'):
        t.expect(key)
        out[key] = parse_model_vor(t)
    for key in ('NS', 'SY'):
        t.expect(key)
        k = t.int()
        out[key] = [(t.int(), t.optint(), t.next() == '1') for _ in range(k)]
    t.expect('ZD')
    k = t.int()
    out['ZD'] = [(t.int(), t.int()) for _ in range(k)]
    return out


def index_predicates(v, n):
    """the C12 statement evaluated directly on one implementation result; returns list of problems"""
    probs = []
    cells, faces, conn = v['cells'], v['faces'], v['conn']
    if len(cells) != n:
        probs.append('number of cells %d != number of generators %d' % (len(cells), n))
        return probs
    off = 0
    for i, c in enumerate(cells):
        if c.off != off:
            probs.append('offset of cell %d is %d, prefix sum is %d' % (i, c.off, off))
        off += c.cnt
    if off != len(conn):
        probs.append('sum of face counts %d != connectivity length %d' % (off, len(conn)))
    for i, c in enumerate(cells):
        sl = conn[c.off:c.off + c.cnt]
        want = []
        for k, f in enumerate(faces):
            if f.left == i:
                want.append(k)
            if f.right == i and f.shift is None and f.right is not None:
                want.append(k)
        if sl != want:
            probs.append('face list of cell %d is %s, faces linked to it are %s' % (i, sl, want))
        nb = []
        for k in sl:
            if k >= len(faces):
                probs.append('face index %d out of range' % k)
                continue
            f = faces[k]
            if f.shift is not None or f.right is None:
                continue
            nb.append(f.right if f.left == i else f.left)
        if c.nbrs != nb:
            probs.append('neighbour_ids of cell %d yields %s, the generators across its listed interior faces are %s' % (i, c.nbrs, nb))
        if i in c.nbrs:
            probs.append('neighbour_ids of cell %d yields the cell itself' % i)
        if len(set(c.nbrs)) != len(c.nbrs):
            probs.append('neighbour_ids of cell %d has duplicates %s' % (i, c.nbrs))
    return probs


def run(chk, routes_data=None):
    chk.trusted_base = TRUSTED
    chk.rule = ("op routes: direct build and integrator route on uniform/lattice/on-boundary/coplanar/collinear/n=1/n=2 inputs, 1D/2D/3D, periodic or not, "
                "with mask none and random/all/none/single masks; the index structure is compared token by token with Model/Tess on the plane facts of the constructed cells, "
                "and the C12 statement is evaluated directly on both routes; non-trivial = tessellation with >= 1 interior face; distinct by record")
    chk.lean(['MVoro.Props.C12', 'MVoro.Proofs.TessBook'], ['MVoro.Obl.Rules'], ['Rules'])
    got = run_cells_op(chk, op='routes')
    if got is None:
        return
    recs, model = got
    for r in recs:
        chk.count()
        rp = {'op': r.op, 'ids': [r.id], 'family': r.family, 'record': r.line[:3000]}
        impl = parse_routes_impl(r.res)
        if 'panic' in impl or 'panic' in impl.get('direct', {}) or 'panic' in impl.get('via', {}):
            chk.panic_record(r, impl.get('panic') or impl.get('direct', {}).get('panic') or impl.get('via', {}).get('panic'), rp)
            continue
        inp = parse_input(r.inp)
        m = model.get(r.id)
        if not m or m[0] != 'D0':
            chk.violation('driver', 'model produced no result for record %d' % r.id, None)
            continue
        mm = parse_routes_model(m)
        for route in ('direct', 'via'):
            v = impl[route]
            for p in accessor_problems(v):
                chk.violation('impl-vs-oracle', '%s route: %s (record %d, %s, mask %s)' % (route, p, r.id, r.family, mask_str(inp)), rp, key=route + ' accessor')
            for p in index_predicates(v, inp.n):
                chk.violation('impl-vs-oracle', '%s route: %s (record %d, %s, mask %s)' % (route, p, r.id, r.family, mask_str(inp)), rp, key=route + ' ' + p.split(' of cell')[0])
            st = impl_structure(v)
            want = mm['D1'] if route == 'direct' else mm['V1']
            if st != want:
                if st == mm['D0']:
                    what = 'unconstructed cells carry idx 0 (VoronoiCell::default()), so neighbour_ids misreports'
                else:
                    what = first_diff(st, want)
                chk.violation('impl-vs-model', '%s route differs from Model/Tess: %s (record %d, %s, mask %s)' % (route, what, r.id, r.family, mask_str(inp)), rp, key=route + ' model')
        chk.traces += 1
        if any(f.right is not None for f in impl['direct']['faces']):
            chk.nontriv(r.id)
        if len(chk.samples) < 3:
            chk.sample({'op': 'routes', 'family': r.family, 'n': inp.n, 'mask': mask_str(inp), 'cells': [list(c[:2]) + [c[2]] for c in impl_structure(impl['direct'])['cells']][:6],
                        'conn_len': len(impl['direct']['conn']), 'faces': len(impl['direct']['faces'])})


def mask_str(inp):
    return '-' if inp.mask is None else ''.join('1' if b else '0' for b in inp.mask)


def first_diff(a, b):
    for k in ('cells', 'faces', 'conn'):
        if a[k] != b[k]:
            for i, (x, y) in enumerate(zip(a[k], b[k])):
                if x != y:
                    return '%s[%d]: implementation %s, model %s' % (k, i, x, y)
            return '%s length: implementation %d, model %d' % (k, len(a[k]), len(b[k]))
    return 'no difference'
