"""C14 — custom integrals receive an exact signed decomposition of the cell."""
import os
from common import *
from tesslib import *
from props.c01 import fl, fl3
from props.c19 import fsqrt, sub, dot, cross

TRUSTED = [
    "Lean 4.33 kernel; axioms propext, Classical.choice, Quot.sound only (audited per theorem)",
    "theorems MVoro/Proofs/Surface.lean: for a closed oriented triangulated surface the signed sums of volume, first and second moments over apex tetrahedra do not depend on the apex; splitting a face edge at a foot point / choosing another fan origin does not change signed area and first moment; closure; divergence identity",
    "trusted-base item 2 of DESIGN §4: the triangles fed to the integrals form the closed oriented boundary of the cell (checked per cell by comparing the moments of the recorded decomposition with the exact rational cell of the oracle)",
    "the downstream crate /verif/downstream (public API only, no cfg flag) IS the 'downstream crate' of the property: if it does not compile the property fails at the type level and the compiler output is the replay",
    "exact oracle MVoro/Model/{Cell,Decomp,Oracle} (moments up to degree 2 of the exact cell); tolerances of DESIGN §3.6 times S^k for a k-th moment (S = coordinate magnitude)",
]
DOWN = os.path.join(VERIF, 'downstream')


def build_downstream():
    with Lock('cargo_downstream'):
        rc, out, err = sh(['cargo', 'build', '--offline', '--target-dir', 'target'], cwd=DOWN, timeout=3600)
    if rc != 0:
        return None, out + err
    return os.path.join(DOWN, 'target', 'debug', 'mv_downstream'), out + err


def tetvol(t):
    v0, v1, v2, g = t
    return dot(sub(g, v0), cross(sub(v1, v0), sub(v2, v0))) / 6


def moments(tets):
    """signed moments of degree 0, 1, 2 of a list of tetrahedra (exact)"""
    m0 = Fraction(0)
    m1 = [Fraction(0)] * 3
    m2 = [Fraction(0)] * 6
    pairs = [(0, 0), (1, 1), (2, 2), (0, 1), (0, 2), (1, 2)]
    for t in tets:
        v = tetvol(t)
        if v == 0:
            continue
        s = [t[0][a] + t[1][a] + t[2][a] + t[3][a] for a in range(3)]
        m0 += v
        for a in range(3):
            m1[a] += v * s[a] / 4
        for k, (a, b) in enumerate(pairs):
            m2[k] += v / 20 * (sum(p[a] * p[b] for p in t) + s[a] * s[b])
    return m0, m1, m2


def parse_dump(t):
    """NC k {C idx loc fin nt tets} NF m {F left right shift cell plane n p fin nt tris} CD .. FD .. FDS .."""
    t.expect('NC')
    cells = []
    for _ in range(t.int()):
        t.expect('C')
        c = {'idx': t.int(), 'loc': t.v3(), 'fin': t.int()}
        nt = t.int()
        c['tets'] = [[t.v3(), t.v3(), t.v3(), t.v3()] for _ in range(nt)]
        cells.append(c)
    t.expect('NF')
    faces = []
    for _ in range(t.int()):
        t.expect('F')
        f = {'left': t.int(), 'right': t.optint(), 'shift': parse_opt_v3(t), 'cell': t.int(), 'plane': t.int(), 'n': t.v3(), 'p': t.v3(), 'fin': t.int()}
        nt = t.int()
        f['tris'] = [[t.v3(), t.v3(), t.v3(), t.v3()] for _ in range(nt)]
        faces.append(f)
    t.expect('CD')
    cd = [(t.int(), t.int(), t.int()) for _ in range(t.int())]
    t.expect('FD')
    fd = [(t.int(), t.int(), t.int()) for _ in range(t.int())]
    t.expect('FDS')
    fds = [(t.int(), t.int(), t.int()) for _ in range(t.int())]
    nest = None
    if t.peek() == 'NEST':
        t.next()
        nest = t.int()
    return {'cells': cells, 'faces': faces, 'cd': cd, 'fd': fd, 'fds': fds, 'nest': nest}


def run(chk):
    chk.trusted_base = TRUSTED
    chk.rule = ("the downstream crate defines a tetrahedron recorder (CellIntegral), a triangle recorder (FaceIntegral) and tagged integrals with per-cell data (CellIntegralWithData / FaceIntegralWithData, Data = u64) outside the library; "
                "op tets on 7 families, 1D/2D/3D, periodic or not, random masks: every recorded tetrahedron has the generator as apex; signed moments of degree 0,1,2 of the recorded decomposition equal those of the exact cell; "
                "base triangles of every face lie in its plane and their signed areas (documented sign) sum to the exact face area; datum 1000+i reaches exactly cell i (cell, face, sym face variants, under masks); finalize called once; "
                "with stored faces (3D): same moments; non-trivial = cell with >= 1 neighbour face")
    chk.lean(['MVoro.Props.C14', 'MVoro.Proofs.Surface'], ['MVoro.Obl.Integrals'], ['Integrals', 'Geom'])
    binary, blog = build_downstream()
    if binary is None:
        errs = [l for l in blog.splitlines() if l.startswith('error')]
        chk.violation('impl-vs-oracle', 'a downstream crate cannot define its own cell / face integrals (with and without per-cell data): it does not compile against the public API: %s' % '; '.join(errs[:4]),
                      {'op': 'build-downstream', 'cmd': 'cd /verif/downstream && cargo build --offline --target-dir target', 'compiler_output': blog[-6000:]}, key='downstream-compile')
        return
    if not chk.driver_ok:
        chk.violation('build', 'lean driver does not build', None)
        return
    rec_f = os.path.join(chk.wdir(), 'tets.rec')
    mod_f = os.path.join(chk.wdir(), 'tets.model')
    rc, fams, err = run_harness(binary, 'tets', chk.seed, chk.tier, rec_f)
    if rc != 0:
        chk.violation('harness', 'downstream op tets failed: ' + err[-300:], None)
        return
    chk.families.update(fams)
    run_driver(rec_f, mod_f)
    recs, model = read_records(rec_f), read_model(mod_f)
    npanic = 0
    for r in recs:
        if chk.only is not None and (r.op, r.id) not in chk.only:
            continue
        chk.count()
        rp = {'op': 'tets', 'ids': [r.id], 'family': r.family, 'record': r.line[:6000]}
        if r.res[0] == 'PANIC':
            npanic += 1
            chk.panic_record(r, ' '.join(r.res), rp)
            continue
        inp = parse_input(r.inp)
        tol = Tol(inp)
        mm = parse_model(model.get(r.id)) if model.get(r.id) else None
        if mm is None:
            chk.violation('driver', 'model produced no result for record %d' % r.id, None)
            continue
        mc = {c.idx: c for c in mm['cells']}
        t = Tok(r.res)
        t.expect('OK')
        t.expect('NOFACES')
        routes = [('without stored faces', parse_dump(t))]
        if t.peek() == 'WITHFACES':
            t.next()
            routes.append(('with stored faces', parse_dump(t)))
        active = [i for i in range(inp.n) if inp.mask is None or inp.mask[i]]
        S = max(max(abs(inp.na[a]), abs(inp.na[a] + inp.nw[a])) for a in range(3)) + max(inp.nw)
        for name, d in routes:
            where0 = 'record %d (%s), %s' % (r.id, r.family, name)
            # ---- data delivery
            if [x[0] for x in d['cd']] != active:
                chk.violation('impl-vs-oracle', 'cell integrals with data come for cells %s, constructed cells are %s, %s' % ([x[0] for x in d['cd']], active, where0), rp, key='data')
            for (idx, dat, _) in d['cd']:
                if dat != 1000 + idx:
                    chk.violation('impl-vs-oracle', 'cell %d received the datum of cell %d, %s' % (idx, dat - 1000, where0), rp, key='data')
                    break
            for nm in ('fd', 'fds'):
                for (left, cell, dat) in d[nm]:
                    if cell != left or dat != 1000 + left:
                        chk.violation('impl-vs-oracle', 'face integral (%s) of cell %d was initialised with cell %d and the datum of cell %d, %s' % (nm, left, cell, dat - 1000, where0), rp, key='data')
                        break
            if d.get('nest'):
                chk.violation('impl-vs-impl', 'a with-data face integral that decomposes the neighbouring cell inside init_with_data is fed other triangles than a plain face integral for %d face(s), %s' % (d['nest'], where0), rp, key='nested')
            if [c['idx'] for c in d['cells']] != active:
                chk.violation('impl-vs-oracle', 'cell integrals come for cells %s, constructed cells are %s, %s' % ([c['idx'] for c in d['cells']], active, where0), rp, key='order')
                continue
            if tol.ill:
                continue
            # ---- cell decomposition
            for c in d['cells']:
                e = mc.get(c['idx'])
                where = where0 + ', cell %d' % c['idx']
                if e is None or e.failed != 'ok':
                    continue
                g = inp.ngens[c['idx']]
                if c['fin'] != 1:
                    chk.violation('impl-vs-oracle', 'finalize was called %d times, %s' % (c['fin'], where), rp, key='finalize')
                if any(tt[3] != g for tt in c['tets']) or c['loc'] != g:
                    chk.violation('impl-vs-oracle', 'a tetrahedron does not have the (projected) generator as apex, %s' % where, rp, key='apex')
                    continue
                m0, m1, m2 = moments(c['tets'])
                e1 = [x / 4 for x in e.csum]
                bad = None
                if abs(m0 - e.vol) > tol.vol:
                    bad = 'volume %s vs exact %s' % (fl(m0), fl(e.vol))
                elif any(abs(m1[a] - e1[a]) > 10 * tol.vol * S for a in range(3)):
                    bad = 'first moments %s vs exact %s' % (fl3(m1), fl3(e1))
                elif e.m2 is not None and any(abs(m2[k] - e.m2[k]) > 10 * tol.vol * S * S for k in range(6)):
                    bad = 'second moments %s vs exact %s' % ([float(x) for x in m2], [float(x) for x in e.m2])
                if bad:
                    onwall = ' gen-on-wall' if gen_on_wall(inp, c['idx']) else ''
                    chk.violation('impl-vs-model', 'signed sum over the tetrahedra fed to a custom cell integral is not the integral over the cell: %s, %s' % (bad, where), rp, key='moments' + onwall)
                else:
                    chk.traces += 1
            # ---- every wall face of the exact cell is fed to the face integrals (a face that gets no triangles is dropped
            # from the output without any error; what its triangles sum to is the next check)
            for idx in sorted(mc):
                e = mc[idx]
                if e is None or e.failed != 'ok' or not any(f['left'] == idx for f in d['faces']):
                    continue
                want = sum(1 for x in e.faces if x.right is None and x.valid and area_gt(x.area2, 16 * tol.area))
                have = sum(1 for f in d['faces'] if f['left'] == idx and f['right'] is None)
                if have < want:
                    chk.violation('impl-vs-model', 'cell %d has %d wall faces of non-negligible area, face integrals are reported for %d of them, %s' % (idx, want, have, where0), rp, key='face-missing')
            # ---- faces
            for f in d['faces']:
                e = mc.get(f['left'])
                where = where0 + ', face of cell %d towards %s' % (f['left'], f['right'])
                if e is None or e.failed != 'ok':
                    continue
                if f['cell'] != f['left'] or f['fin'] != 1:
                    chk.violation('impl-vs-oracle', 'face integral initialised for cell %d / finalized %d times, %s' % (f['cell'], f['fin'], where), rp, key='finalize')
                n, p = f['n'], f['p']
                nn = fsqrt(dot(n, n))
                off = max([abs(dot(n, sub(v, p))) for tt in f['tris'] for v in tt[:3]] + [Fraction(0)])
                onwall = ' gen-on-wall' if (f['right'] is None and gen_on_wall(inp, f['left'])) else ''
                if off > 20 * tol.pos * nn:
                    chk.violation('impl-vs-oracle', 'a base triangle fed to a face integral lies %.3g off the face plane, %s' % (float(off / nn), where), rp, key='in-plane' + onwall)
                    continue
                area = Fraction(0)
                g = inp.ngens[f['left']]
                for tt in f['tris']:
                    A = [x / 2 for x in cross(sub(tt[1], tt[0]), sub(tt[2], tt[0]))]
                    sgn = dot(sub(tt[3], tt[0]), A)
                    a = fsqrt(dot(A, A))
                    area += a if sgn >= 0 else -a
                key = (f['right'], shift_triple(f['shift'], inp))
                mf = [x for x in e.faces if (x.right, x.shift) == key and x.valid]
                if len(mf) > 1:
                    # several wall faces share the key (None, None): take the one with the same normal direction
                    nf = [float(x) for x in n]
                    def cosine(x):
                        xn = [float(v) for v in x.n]
                        return sum(a * b for a, b in zip(xn, nf)) / (sum(a * a for a in xn) ** 0.5 or 1.0)
                    mf = [max(mf, key=cosine)]
                exact2 = mf[0].area2 if mf else Fraction(0)
                if not area_close(area, exact2, 4 * tol.area):
                    chk.violation('impl-vs-model', 'signed areas of the base triangles sum to %s, exact face area %.17g, %s' % (fl(area), float(exact2) ** 0.5, where), rp, key='face-area' + onwall)
                elif mf and area_gt(exact2, tol.area):
                    chk.nontriv((r.id, f['left']))
        if len(chk.samples) < 2 and len(routes) == 2 and routes[0][1]['cells']:
            c = routes[0][1]['cells'][0]
            chk.sample({'op': 'tets', 'family': r.family, 'cell': c['idx'], 'tetrahedra_without_faces': len(c['tets']), 'tetrahedra_with_faces': len(routes[1][1]['cells'][0]['tets'])})
    chk.extra_cov['records_with_panic_skipped_see_C05'] = npanic
