"""C05 — construction is total and robust on boundary and degenerate inputs."""
import os
from common import *
from tesslib import *
from props.c01 import run_cells_op, check_cells_record, fl
import props.c04 as c04

TRUSTED = [
    "Lean 4.33 kernel; axioms propext, Classical.choice, Quot.sound only (audited per theorem)",
    "what a theorem carries: the generator is strictly inside each of its half spaces (cell never empty), the grid domain contains every queried position with margin (Obl/Grid on the translated constants), "
    "tie decisions are globally consistent (the in-sphere determinant and the orientation are alternating), the exact model never hits a modelled panic site on the degenerate families",
    "NOT modelled: panic-freedom of the floating-point code and the soundness of its 1e-13 filter on all inputs — runtime behaviour; sampled by the correspondence in debug and release builds",
    "correspondence harness (ops cells [debug build], tess [release build]) on the degenerate families; tolerances of DESIGN §3.6 scaled by the conditioning number",
]

DEGENERATE = ('pythagorean', 'cluster', 'lattice', 'lattice_wall', 'on_boundary', 'collinear', 'coplanar', 'cospherical', 'cospherical_lattice', 'single', 'pair')


def run(chk):
    chk.trusted_base = TRUSTED
    chk.rule = ("ops cells (debug assertions on, compared with the exact oracle: C01 predicates) and tess (release build: C02/C04 predicates, finiteness) on the measure-zero families: generators on faces/edges/corners, "
                "n=1, n=2, collinear, coplanar, exact and near-exact lattices (perturbation 0..1e-6), lattices on the walls, co-spherical (random on a sphere and exact lattice spheres), clusters of diameter 1e-3..1e-12 of the box; "
                "1D/2D/3D, periodic/reflective; op clip1: on reachable cells of tie-prone families (lattices, exact co-spherical sets incl. Pythagorean ones, on-boundary, uniform) EVERY vertex must be removed by the next bisector iff the exact in-sphere determinant of the five snapped integer points is negative (ties and clear float decisions alike; an exact zero must have gone through the exact predicate), with a positively oriented dual triple, and the exact predicate must have been called at least once per filter tie; non-trivial = input of a degenerate family on which the exact predicate was invoked or the generators touch the boundary; distinct by record")
    chk.lean(['MVoro.Props.C05', 'MVoro.Proofs.Misc', 'MVoro.Proofs.VorSet'], ['MVoro.Obl.Grid', 'MVoro.Obl.HalfSpace', 'MVoro.Obl.ClipVertex', 'MVoro.Obl.RightLoc'], ['Grid', 'HalfSpace', 'ClipVertex', 'RightLoc', 'Geom'])
    exact_used = 0
    # debug build, against the exact oracle
    got = run_cells_op(chk, op='cells')
    if got is not None:
        recs, model = got
        for r in recs:
            chk.count()
            base = r.family.split('_')[0] if not r.family.startswith(('lattice_wall', 'on_boundary', 'cospherical_lattice')) else '_'.join(r.family.split('_')[:2])
            rp = {'op': r.op, 'ids': [r.id], 'family': r.family, 'build': 'debug', 'record': r.line[:3000]}
            x = int(r.res[1]) if len(r.res) > 1 and r.res[0] == 'X' else 0
            if x > 0:
                exact_used += 1
                chk.nontriv(('cells', r.id))
            elif base.rstrip('123pr') in DEGENERATE or any(base.startswith(d) for d in DEGENERATE):
                chk.nontriv(('cells', r.id))
            n = check_cells_record(chk, r, model.get(r.id))
            chk.traces += n
    # release build: totality + implementation-only predicates
    binary, blog = cargo_build('ibig,rayon', release=True)
    if binary is None:
        chk.violation('build', 'release harness does not build against /repo', None)
        return
    rec_f = os.path.join(chk.wdir(), 'tess_release.rec')
    rc, fams, err = run_harness(binary, 'tess', chk.seed + 1000, chk.tier, rec_f)
    if rc != 0:
        chk.violation('harness', 'release harness failed: ' + err[-300:], None)
        return
    for k, v in fams.items():
        chk.families['release_' + k] = v
    for r in read_records(rec_f):
        if chk.only is not None and (r.op, r.id) not in chk.only:
            continue
        chk.count()
        rp = {'op': r.op, 'ids': [r.id], 'family': r.family, 'build': 'release', 'seed_offset': 1000, 'record': r.line[:3000]}
        impl = parse_tess_impl(r.res)
        if impl.get('exact', 0) > 0:
            exact_used += 1
            chk.nontriv(('tess', r.id))
        if 'panic' in impl:
            chk.violation('panic', 'construction panicked in the release build on a valid input (%s): %s' % (r.family, impl['panic']), rp, key=r.family + ' ' + impl['panic'])
            continue
        inp = parse_input(r.inp)
        tol = Tol(inp)
        bad = False
        for c in impl['cells']:
            if c.volume is None or any(x is None for x in c.centroid) or c.sr is None:
                bad = True
        for f in impl['faces']:
            if f.area is None or any(x is None for x in f.centroid) or any(x is None for x in f.normal):
                bad = True
        if bad:
            chk.violation('impl-vs-oracle', 'non-finite value in the result (%s, record %d)' % (r.family, r.id), rp, key='nonfinite ' + r.family)
            continue
        if not tol.ill:
            c04.check_record(chk, r, rp, inp, tol, impl)
            if inp.mask is None or all(inp.mask):
                tot = sum(c.volume for c in impl['cells'])
                if abs(tot - tol.boxvol) > tol.vol * 10 or any(not c.volume > 0 for c in impl['cells']):
                    chk.violation('impl-vs-oracle', 'cell measures sum to %s (box %s) or a cell is not positive (%s, record %d)' % (fl(tot), fl(tol.boxvol), r.family, r.id), rp, key='sum ' + r.family)
        chk.traces += 1
    chk.extra_cov['records_with_exact_predicate_invocations'] = exact_used
    clip1(chk)
    if exact_used == 0 and chk.only is None:
        chk.violation('coverage', 'the exact predicate was never invoked on the degenerate families: the exact path is not exercised', None, key='coverage')


def clip1(chk):
    """isolated filter ties: the real clip_by_plane removes the vertex iff the integer oracle says strictly inside"""
    got = run_cells_op(chk, op='clip1')
    if got is None:
        return
    recs, model = got
    n = 0
    for r in recs:
        chk.count()
        rp = {'op': 'clip1', 'ids': [r.id], 'family': r.family, 'record': r.line[:2000]}
        if r.res[0] == 'RANGE':
            chk.violation('impl-vs-oracle', 'a position queried by the exact predicate leaves the integer grid (record %d, %s)' % (r.id, r.family), rp, key='clip1-range')
            continue
        m = model.get(r.id)
        if m is None or len(m) < 4:
            chk.violation('driver', 'model produced no result for clip1 record %d' % r.id, None)
            continue
        sign, orient = int(m[0]), int(m[3])
        removed = r.res[0] == 'removed'
        pts = [tuple(r.inp[3 * i:3 * i + 3]) for i in range(5)]
        if orient == 0 and pts[0] in pts[1:4]:
            # the generator lies exactly on a wall of its dual triple: its mirror image coincides with it, the lifted
            # determinant vanishes identically and the vertex is kept (known degenerate configuration, see F2)
            chk.extra_cov['clip1_generator_on_wall_of_dual_triple'] = chk.extra_cov.get('clip1_generator_on_wall_of_dual_triple', 0) + 1
            if removed and (len(r.res) < 4 or r.res[3] == 'tie'):
                chk.violation('impl-vs-model', 'filter tie with the generator on a wall of the dual triple: determinant is 0 but the vertex was removed (record %d)' % r.id, rp, key='clip1-decision')
            continue
        if orient <= 0:
            chk.violation('impl-vs-oracle', 'the dual triple of a vertex is not positively oriented on the integer grid (orientation %d): the sign of the in-sphere test is meaningless (record %d, %s)' % (orient, r.id, r.family), rp, key='clip1-orientation')
            continue
        is_tie = len(r.res) < 4 or r.res[3] == 'tie'
        if removed != (sign < 0):
            what = 'filter tie' if is_tie else 'vertex decided by the float filter alone'
            # a vertex whose three planes are nearly coaxial has an ill-conditioned float position: the filter's bound does not
            # cover that error (root cause of finding F1); a wrong definite decision on a well-conditioned vertex is something else
            nd = hex_to_float(r.res[4]) if len(r.res) > 4 else 1.0
            ill = (not is_tie) and abs(nd) < 1e-5
            chk.violation('impl-vs-model', '%s: clip_by_plane %s the vertex, the exact in-sphere determinant of the five snapped points has sign %d (record %d, %s%s)' % (
                what, r.res[0], sign, r.id, r.family, ', determinant of the three plane normals %.3g' % nd if not is_tie else ''), rp,
                          key='clip1-decision' if is_tie else ('clip1-filter ill-vertex' if ill else 'clip1-filter'))
            continue
        if sign == 0 and not is_tie:
            chk.violation('impl-vs-model', 'an exact tie (determinant 0 on the integer grid) was decided by the float filter alone instead of the exact predicate (record %d, %s)' % (r.id, r.family), rp, key='clip1-filter')
            continue
        if int(r.res[2]) < int(r.res[1]):
            chk.violation('impl-vs-oracle', 'the cell had %s filter ties but the exact predicate was invoked %s times (record %d)' % (r.res[1], r.res[2], r.id), rp, key='clip1-calls')
            continue
        n += 1
        chk.traces += 1
        chk.nontriv(('clip1', tuple(r.inp)))
    chk.extra_cov['clip1_tie_decisions_checked'] = n
    hist = {}
    for r in recs:
        if r.res[0] in ('removed', 'kept'):
            m = model.get(r.id)
            k = r.res[0] + ('_on_sphere' if m and m[0] == '0' else '')
            hist[k] = hist.get(k, 0) + 1
    chk.extra_cov['clip1_decisions'] = hist
