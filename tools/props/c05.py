"""C05 — construction is total and robust on boundary and degenerate inputs."""
import os
from common import *
from tesslib import *
from props.c01 import run_cells_op, check_cells_record, fl
import props.c04 as c04

TRUSTED = [
    "Lean 4.33 kernel; axioms propext, Classical.choice, Quot.sound only (audited per theorem)",
    "what a theorem carries: the generator is strictly inside each of its half spaces (cell never empty), the grid domain contains every queried position with margin (Obl/Grid on the translated constants), "
    "tie decisions are globally consistent (the in-sphere determinant and the orientation are alternating), the exact model never hits a modelled panic site on the degenerate families",
    "NOT modelled: panic-freedom of the floating-point code and the soundness of its 1e-13 filter on all inputs — runtime behaviour; sampled by the correspondence in debug and release builds",
    "correspondence harness (ops cells [debug build], tess [release build]) on the degenerate families; tolerances of DESIGN §3.6 scaled by the conditioning number",
]

DEGENERATE = ('cluster', 'lattice', 'lattice_wall', 'on_boundary', 'collinear', 'coplanar', 'cospherical', 'cospherical_lattice', 'single', 'pair')


def run(chk):
    chk.trusted_base = TRUSTED
    chk.rule = ("ops cells (debug assertions on, compared with the exact oracle: C01 predicates) and tess (release build: C02/C04 predicates, finiteness) on the measure-zero families: generators on faces/edges/corners, "
                "n=1, n=2, collinear, coplanar, exact and near-exact lattices (perturbation 0..1e-6), lattices on the walls, co-spherical (random on a sphere and exact lattice spheres), clusters of diameter 1e-3..1e-12 of the box; "
                "1D/2D/3D, periodic/reflective; non-trivial = input of a degenerate family on which the exact predicate was invoked or the generators touch the boundary; distinct by record")
    chk.lean(['MVoro.Props.C05', 'MVoro.Proofs.Misc', 'MVoro.Proofs.VorSet'], ['MVoro.Obl.Grid'], ['Grid'])
    exact_used = 0
    # debug build, against the exact oracle
    got = run_cells_op(chk, op='cells')
    if got is not None:
        recs, model = got
        for r in recs:
            chk.count()
            base = r.family.split('_')[0] if not r.family.startswith(('lattice_wall', 'on_boundary', 'cospherical_lattice')) else '_'.join(r.family.split('_')[:2])
            rp = {'op': r.op, 'ids': [r.id], 'family': r.family, 'build': 'debug', 'record': r.line[:3000]}
            x = int(r.res[1]) if len(r.res) > 1 and r.res[0] == 'X' else 0
            if x > 0:
                exact_used += 1
                chk.nontriv(('cells', r.id))
            elif base.rstrip('123pr') in DEGENERATE or any(base.startswith(d) for d in DEGENERATE):
                chk.nontriv(('cells', r.id))
            n = check_cells_record(chk, r, model.get(r.id))
            chk.traces += n
    # release build: totality + implementation-only predicates
    binary, blog = cargo_build('ibig,rayon', release=True)
    if binary is None:
        chk.violation('build', 'release harness does not build against /repo', None)
        return
    rec_f = os.path.join(chk.wdir(), 'tess_release.rec')
    rc, fams, err = run_harness(binary, 'tess', chk.seed + 1000, chk.tier, rec_f)
    if rc != 0:
        chk.violation('harness', 'release harness failed: ' + err[-300:], None)
        return
    for k, v in fams.items():
        chk.families['release_' + k] = v
    for r in read_records(rec_f):
        if chk.only is not None and (r.op, r.id) not in chk.only:
            continue
        chk.count()
        rp = {'op': r.op, 'ids': [r.id], 'family': r.family, 'build': 'release', 'seed_offset': 1000, 'record': r.line[:3000]}
        impl = parse_tess_impl(r.res)
        if impl.get('exact', 0) > 0:
            exact_used += 1
            chk.nontriv(('tess', r.id))
        if 'panic' in impl:
            chk.violation('panic', 'construction panicked in the release build on a valid input (%s): %s' % (r.family, impl['panic']), rp, key=r.family + ' ' + impl['panic'])
            continue
        inp = parse_input(r.inp)
        tol = Tol(inp)
        bad = False
        for c in impl['cells']:
            if c.volume is None or any(x is None for x in c.centroid) or c.sr is None:
                bad = True
        for f in impl['faces']:
            if f.area is None or any(x is None for x in f.centroid) or any(x is None for x in f.normal):
                bad = True
        if bad:
            chk.violation('impl-vs-oracle', 'non-finite value in the result (%s, record %d)' % (r.family, r.id), rp, key='nonfinite ' + r.family)
            continue
        if not tol.ill:
            c04.check_record(chk, r, rp, inp, tol, impl)
            if inp.mask is None or all(inp.mask):
                tot = sum(c.volume for c in impl['cells'])
                if abs(tot - tol.boxvol) > tol.vol * 10 or any(not c.volume > 0 for c in impl['cells']):
                    chk.violation('impl-vs-oracle', 'cell measures sum to %s (box %s) or a cell is not positive (%s, record %d)' % (fl(tot), fl(tol.boxvol), r.family, r.id), rp, key='sum ' + r.family)
        chk.traces += 1
    chk.extra_cov['records_with_exact_predicate_invocations'] = exact_used
    if exact_used == 0 and chk.only is None:
        chk.violation('coverage', 'the exact predicate was never invoked on the degenerate families: the exact path is not exercised', None, key='coverage')
