"""C03 — faces are reciprocal: both sides see the same face, stored once."""
from common import *
from tesslib import *
from props.c01 import run_cells_op, fl, fl3

TRUSTED = [
    "Lean 4.33 kernel; axioms propext, Classical.choice, Quot.sound only (audited per theorem)",
    "reciprocity is proved on the set level (face i j = face j i, VorSet.face_symm); the storage rule, listing by both cells and flux cancellation on Model/Tess",
    "consistent tie decisions: the determinant is alternating (Proofs/Misc InSphereProofs), so every cell asking about the same five points gets the same answer",
    "correspondence harness (ops cells, tess) and its generators; tolerances of DESIGN §3.6 scaled by the conditioning number; faces below the area tolerance are 'negligible' and may be one-sided",
]


def run(chk):
    chk.trusted_base = TRUSTED
    chk.rule = ("op cells: the non-symmetric face integrals of all cells: every non-negligible face (i, j, s) must have a partner (j, i, -s) with the same area and shifted centroid; "
                "op tess (full and masked builds, vs the exact cells): every non-negligible exact face between two constructed cells is stored exactly once when unshifted (and listed by both cells) and from both sides when shifted, periodic faces in reciprocal pairs with opposite normals; non-trivial = cell pair sharing a non-negligible face")
    chk.lean(['MVoro.Props.C03', 'MVoro.Proofs.TessBook', 'MVoro.Proofs.VorSet'], ['MVoro.Obl.Rules'], ['Rules'])
    got = run_cells_op(chk, op='cells')
    if got is None:
        return
    recs, model = got
    for r in recs:
        chk.count()
        rp = {'op': r.op, 'ids': [r.id], 'family': r.family, 'record': r.line[:3000]}
        try:
            impl = parse_cells_impl(r.res)
        except Exception as ex:  # noqa
            chk.violation('harness', 'unparsable record %d' % r.id, None)
            continue
        if 'panic' in impl:
            chk.panic_record(r, impl['panic'], rp)
            continue
        inp = parse_input(r.inp)
        tol = Tol(inp)
        if tol.ill:
            chk.extra_cov['skipped_ill_conditioned'] = chk.extra_cov.get('skipped_ill_conditioned', 0) + 1
            continue
        where = '(record %d, %s)' % (r.id, r.family)
        constructed = {c.idx: c for c in impl['cells']}
        table = {}
        for c in impl['cells']:
            for f in c.faces:
                if f.right is None:
                    continue
                table.setdefault((c.idx, f.right, shift_triple(f.shift, inp)), []).append(f)
        # near-degenerate cells (ill-conditioned vertices) get the loose tolerance
        loose = {}
        for c in impl['cells']:
            lo = 1
            for (v, dual) in c.verts:
                try:
                    ns = [[float(x) for x in c.planes[k][0]] for k in dual]
                    det = (ns[0][0] * (ns[1][1] * ns[2][2] - ns[1][2] * ns[2][1]) - ns[0][1] * (ns[1][0] * ns[2][2] - ns[1][2] * ns[2][0])
                           + ns[0][2] * (ns[1][0] * ns[2][1] - ns[1][1] * ns[2][0]))
                except Exception:  # noqa
                    det = 1.0
                if abs(det) < 1e-5:
                    lo = 10000
            loose[c.idx] = lo
        for (i, j, s), fs in table.items():
            if j not in constructed:
                continue
            for f in fs:
                if f.area is None:
                    chk.violation('impl-vs-oracle', 'non-finite face area %s' % where, rp, key='nonfinite')
                    continue
                lo = max(loose[i], loose[j])
                if abs(f.area) <= tol.area * lo * 10:
                    continue
                ms = None if s is None else tuple(-x for x in s)
                partners = table.get((j, i, ms), [])
                sh = [Fraction(0)] * 3 if s is None else [s[k] * inp.nw[k] for k in range(3)]
                ok = False
                for p in partners:
                    if p.area is not None and abs(p.area - f.area) <= tol.area * lo * 10:
                        # centroid seen from j is the same point minus the shift
                        pc = [p.centroid[k] + sh[k] for k in range(3)]
                        if close3(pc, f.centroid, tol.pos * lo * 100):
                            ok = True
                chk.nontriv((r.id, min(i, j), max(i, j), s if i < j else ms))
                if not ok:
                    chk.violation('impl-vs-oracle', 'cell %d has a face towards %d (shift %s) of area %s but cell %d sees %s %s'
                                  % (i, j, s, fl(f.area), j, [(fl(p.area), fl3(p.centroid)) for p in partners], where), rp, key='reciprocal')
        chk.traces += 1
        if len(chk.samples) < 2 and table:
            k = next(iter(table))
            chk.sample({'op': 'cells', 'family': r.family, 'face': str(k), 'area': fl(table[k][0].area)})
    # storage in the compact tessellation
    got = run_cells_op(chk, op='tess')
    if got is None:
        return
    recs, model = got
    for r in recs:
        chk.count()
        rp = {'op': r.op, 'ids': [r.id], 'family': r.family, 'record': r.line[:3000]}
        impl = parse_tess_impl(r.res)
        if 'panic' in impl:
            continue
        inp = parse_input(r.inp)
        tol = Tol(inp)
        where = '(record %d, %s)' % (r.id, r.family)
        mask = inp.mask if inp.mask is not None else [True] * inp.n
        faces, cells, conn = impl['faces'], impl['cells'], impl['conn']
        seen = {}
        per = {}
        for k, f in enumerate(faces):
            if f.right is None:
                continue
            if f.shift is None:
                key = (min(f.left, f.right), max(f.left, f.right))
                seen.setdefault(key, []).append(k)
            else:
                per.setdefault((f.left, f.right, shift_triple(f.shift, inp)), []).append(f)
        for (a, b), ks in seen.items():
            if len(ks) != 1:
                chk.violation('impl-vs-oracle', 'unshifted face between %d and %d stored %d times %s' % (a, b, len(ks), where), rp, key='once')
            for k in ks:
                for c in (a, b):
                    sl = conn[cells[c].off:cells[c].off + cells[c].cnt]
                    if sl.count(k) != 1:
                        chk.violation('impl-vs-oracle', 'face %d between %d and %d is listed %d times by cell %d %s' % (k, a, b, sl.count(k), c, where), rp, key='listed')
        # every non-negligible exact face between two constructed cells must be there: exactly once when unshifted
        # (stored by one side, listed by both), from both sides when shifted
        mm = parse_model(model.get(r.id)) if model.get(r.id) else None
        if mm is not None and not tol.ill:
            for e in mm['cells']:
                if e.failed != 'ok':
                    continue
                for mf in e.faces:
                    if mf.right is None or not mf.valid or not area_gt(mf.area2, tol.area * 100):
                        continue
                    if not (mf.right < inp.n and mask[mf.right] and mask[e.idx]):
                        continue
                    if mf.shift is None:
                        key = (min(e.idx, mf.right), max(e.idx, mf.right))
                        if len(seen.get(key, [])) != 1:
                            chk.violation('impl-vs-model', 'the face between the constructed cells %d and %d (exact area %.6g) is stored %d times %s'
                                          % (key[0], key[1], float(mf.area2) ** 0.5, len(seen.get(key, [])), where), rp, key='once')
                    else:
                        if not per.get((e.idx, mf.right, mf.shift)):
                            chk.violation('impl-vs-model', 'the periodic face %d -> %d shift %s (exact area %.6g) is not stored from the side of cell %d %s'
                                          % (e.idx, mf.right, mf.shift, float(mf.area2) ** 0.5, e.idx, where), rp, key='periodic-pair')
                    chk.nontriv((r.id, 'stored', e.idx, mf.right, mf.shift))
        if not tol.ill:
            for (i, j, s), fs in per.items():
                if not (mask[i] and mask[j]):
                    continue
                for f in fs:
                    if f.area is None or abs(f.area) <= tol.area * 100000:
                        continue
                    ms = tuple(-x for x in s) if isinstance(s, tuple) else s
                    partners = per.get((j, i, ms), [])
                    ok = any(p.area is not None and abs(p.area - f.area) <= tol.area * 100000 and
                             all(abs(p.normal[k] + f.normal[k]) <= Fraction(1, 10**9) for k in range(3)) for p in partners)
                    if not ok:
                        chk.violation('impl-vs-oracle', 'periodic face (%d -> %d, shift %s, area %s) has no reciprocal partner with opposite normal %s' % (i, j, s, fl(f.area), where), rp, key='periodic-pair')
        chk.traces += 1

    # ---- large inputs of very uneven density (implementation-only relations; too large for the exact oracle)
    run_recip(chk)


def run_recip(chk):
    binary, _ = cargo_build('ibig,rayon', False)
    rec_f = os.path.join(chk.wdir(), 'recip.rec')
    rc, fams, err = run_harness(binary, 'recip', chk.seed, chk.tier, rec_f)
    if rc != 0:
        chk.violation('harness', 'harness op recip failed: %s' % err[-300:], None)
        return
    for k, v in fams.items():
        chk.families[k] = chk.families.get(k, 0) + v
    npanic = 0
    for r in read_records(rec_f):
        chk.count()
        rp = {'op': 'recip', 'ids': [r.id], 'family': r.family, 'how': './check C03 --replay <this file> re-runs harness op recip with the same seed and examines this record',
              'record': r.line[:2000]}
        if r.res[0] != 'OK':
            npanic += 1
            chk.panic_record(r, ' '.join(r.res)[:300], rp)
            continue
        inp = parse_input(r.inp)
        tol = Tol(inp)
        if tol.ill:
            chk.extra_cov['skipped_ill_conditioned'] = chk.extra_cov.get('skipped_ill_conditioned', 0) + 1
            continue
        where = '(record %d, %s, %d generators)' % (r.id, r.family, inp.n)
        w = [float(x) for x in inp.nw]
        atol = float(tol.area) * 1000
        ptol = float(tol.pos) * 10000
        t = Tok(r.res)
        t.expect('OK')
        t.expect('NF')
        nf = t.int()

        def shift_of():
            if t.next() == 'N':
                return None
            v = [hex_to_float(t.next()) for _ in range(3)]
            return tuple(int(round(v[k] / w[k])) if w[k] else 0 for k in range(3))
        table = {}
        for _ in range(nf):
            left = t.int()
            right = t.optint()
            s = shift_of()
            area = hex_to_float(t.next())
            cen = [hex_to_float(t.next()) for _ in range(3)]
            if right is not None:
                table.setdefault((left, right, s), []).append((area, cen))
        bad = None
        for (i, j, s), fs in table.items():
            for (area, cen) in fs:
                if not (area == area) or abs(area) <= atol:
                    continue
                ms = None if s is None else tuple(-x for x in s)
                if ms == (0, 0, 0):
                    ms = None
                partners = table.get((j, i, ms), [])
                sh = [0.0] * 3 if s is None else [s[k] * w[k] for k in range(3)]
                ok = any(abs(pa - area) <= atol and all(abs(pc[k] + sh[k] - cen[k]) <= ptol for k in range(3)) for (pa, pc) in partners)
                chk.nontriv((r.id, min(i, j), max(i, j)))
                if not ok and bad is None:
                    bad = 'cell %d has a face towards %d (shift %s) of area %.6g but cell %d sees %s %s' % (i, j, s, area, j, [round(p[0], 9) for p in partners], where)
        if bad:
            chk.violation('impl-vs-oracle', bad, rp, key='reciprocal')
            continue
        # tiling (C02's relation, kept here as a cheap cross-check of the same record)
        t.expect('NC')
        nc = t.int()
        vols = [hex_to_float(t.next()) for _ in range(nc)]
        # stored faces: unshifted interior faces once, shifted ones in reciprocal pairs with opposite normals
        t.expect('SF')
        ns = t.int()
        seen = {}
        per = {}
        for _ in range(ns):
            left = t.int()
            right = t.optint()
            s = shift_of()
            area = hex_to_float(t.next())
            nrm = [hex_to_float(t.next()) for _ in range(3)]
            _cen = [t.next() for _ in range(3)]
            if right is None:
                continue
            if s is None:
                key = (min(left, right), max(left, right))
                seen[key] = seen.get(key, 0) + 1
            else:
                per.setdefault((left, right, s), []).append((area, nrm))
        dup = [k for k, c in seen.items() if c != 1]
        if dup:
            chk.violation('impl-vs-oracle', 'unshifted face between %d and %d stored %d times %s' % (dup[0][0], dup[0][1], seen[dup[0]], where), rp, key='once')
            continue
        for (i, j, s), fs in per.items():
            for (area, nrm) in fs:
                if abs(area) <= atol:
                    continue
                ms = tuple(-x for x in s)
                ok = any(abs(pa - area) <= atol and all(abs(pn[k] + nrm[k]) <= 1e-9 for k in range(3)) for (pa, pn) in per.get((j, i, ms), []))
                if not ok and bad is None:
                    bad = 'stored periodic face (%d -> %d, shift %s, area %.6g) has no reciprocal partner with opposite normal %s' % (i, j, s, area, where)
        # every non-negligible interior face of the integrator must be stored
        for (i, j, s), fs in table.items():
            if s is None and any(abs(a) > atol for a, _ in fs):
                if seen.get((min(i, j), max(i, j)), 0) != 1 and bad is None:
                    bad = 'the face between cells %d and %d (area %.6g) is stored %d times %s' % (i, j, fs[0][0], seen.get((min(i, j), max(i, j)), 0), where)
        if bad:
            chk.violation('impl-vs-oracle', bad, rp, key='periodic-pair')
            continue
        chk.traces += 1
    chk.extra_cov['recip_records_with_panic'] = npanic
