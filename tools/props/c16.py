"""C16 — the safety radius bounds the cell and its region of influence."""
from common import *
from tesslib import *
from props.c01 import run_cells_op, fl, fl3

TRUSTED = [
    "Lean 4.33 kernel; axioms propext, Classical.choice, Quot.sound only (audited per theorem)",
    "set-level theorems (VorSet): hull ⊆ ball, neighbour within 2·distance, security radius, adding far generators; exact oracle for the farthest vertex",
    "correspondence harness (ops cells, addfar) and its generators; tolerances of DESIGN §3.6",
]


def run(chk):
    chk.trusted_base = TRUSTED
    chk.rule = ("op cells: reported safety radius >= 2 * exact farthest-vertex distance (active subspace) and >= distance to every neighbour with a face; "
                "op addfar: a cell before/after adding generators outside its safety ball must be unchanged; non-trivial = cell with >= 1 neighbour face")
    chk.lean(['MVoro.Props.C16', 'MVoro.Proofs.VorSet'], ['MVoro.Obl.VertexRadius', 'MVoro.Obl.BuildStep'], ['VertexRadius', 'BuildStep', 'Geom'])
    got = run_cells_op(chk, op='cells')
    if got is None:
        return
    recs, model = got
    for r in recs:
        chk.count()
        rp = {'op': r.op, 'ids': [r.id], 'family': r.family, 'record': r.line[:3000]}
        try:
            impl = parse_cells_impl(r.res)
        except Exception:  # noqa
            continue
        if 'panic' in impl:
            chk.panic_record(r, impl['panic'], rp)
            continue
        inp = parse_input(r.inp)
        tol = Tol(inp)
        if tol.ill:
            continue
        m = model.get(r.id)
        mm = parse_model(m) if m else None
        if mm is None:
            chk.violation('driver', 'model produced no result for record %d' % r.id, None)
            continue
        ev = {c.idx: c for c in mm['cells']}
        for c in impl['cells']:
            e = ev.get(c.idx)
            if e is None or e.failed != 'ok':
                continue
            sr = impl['sr'][c.idx] if c.idx < len(impl['sr']) else None
            where = '(record %d, %s, cell %d)' % (r.id, r.family, c.idx)
            if sr is None:
                chk.violation('impl-vs-oracle', 'non-finite safety radius %s' % where, rp, key='nonfinite')
                continue
            # sr >= 2 sqrt(maxr2) - tol   <=>  (sr + tol)^2 >= 4 maxr2
            if (sr + 2 * tol.pos) ** 2 < 4 * e.maxr2:
                chk.violation('impl-vs-model', 'safety radius %s is smaller than twice the distance %.17g to the farthest point of the exact cell %s' % (fl(sr), float(e.maxr2) ** 0.5, where), rp, key='bound')
            g = inp.ngens[c.idx]
            for f in c.faces:
                if f.right is None or f.area is None or f.area <= tol.area:
                    continue
                q = list(inp.ngens[f.right])
                if f.shift is not None:
                    q = [q[k] + f.shift[k] for k in range(3)]
                d2 = dist2(g, q)
                if (sr + 2 * tol.pos) ** 2 < d2:
                    chk.violation('impl-vs-oracle', 'neighbour %d with a face of area %s is farther (%.17g) than the safety radius %s %s' % (f.right, fl(f.area), float(d2) ** 0.5, fl(sr), where), rp, key='neighbour')
                chk.nontriv((r.id, c.idx))
            chk.traces += 1
    got = run_cells_op(chk, op='addfar')
    if got is None:
        return
    recs, _ = got
    for r in recs:
        chk.count()
        rp = {'op': r.op, 'ids': [r.id], 'family': r.family, 'record': r.line[:3000]}
        if r.res and r.res[0] == 'PANIC':
            chk.panic_record(r, ' '.join(r.res), rp)
            continue
        t = Tok(r.res)
        inp = parse_input(r.inp)
        tol = Tol(inp)
        t.expect('CELL')
        idx = t.int()
        t.expect('ADDED')
        k = t.int()
        t.expect('BEFORE')
        b = [t.next() for _ in range(8)]
        nfb = t.int()
        fb = [[t.next() for _ in range(6)] for _ in range(nfb)]
        t.expect('AFTER')
        a = [t.next() for _ in range(8)]
        nfa = t.int()
        fa = [[t.next() for _ in range(6)] for _ in range(nfa)]
        where = '(record %d, %s, cell %d, %d generators added outside the safety ball)' % (r.id, r.family, idx, k)
        if k == 0:
            continue
        if a == b and sorted(fa) == sorted(fb):
            chk.extra_cov['addfar_bitwise_equal'] = chk.extra_cov.get('addfar_bitwise_equal', 0) + 1
        else:
            va, vb = hex_to_frac(a[0]), hex_to_frac(b[0])
            ca, cb = [hex_to_frac(x) for x in a[1:4]], [hex_to_frac(x) for x in b[1:4]]
            ok = va is not None and vb is not None and abs(va - vb) <= tol.vol and close3(ca, cb, tol.pos)
            keyf = lambda f: (f[0], f[1])
            da = {keyf(f): f for f in fa if (hex_to_frac(f[2]) or 0) > tol.area}
            db = {keyf(f): f for f in fb if (hex_to_frac(f[2]) or 0) > tol.area}
            if set(da) != set(db):
                ok = False
            else:
                for kk in da:
                    if abs(hex_to_frac(da[kk][2]) - hex_to_frac(db[kk][2])) > tol.area:
                        ok = False
            if not ok and not tol.ill:
                chk.violation('impl-vs-impl', 'cell changed when generators were added outside its safety ball: volume %s -> %s %s' % (fl(vb), fl(va), where), rp, key='addfar')
        chk.nontriv((r.id, 'addfar'))
        chk.traces += 1


    # ---- every route that reports a safety radius reports the same one (direct build, Voronoi::from(&integrator), and the
    #      integrator after with_faces()): the radius is a property of the cell, not of the way it was obtained
    from props.c12 import parse_routes_impl
    got = run_cells_op(chk, op='routes')
    if got is None:
        return
    recs, _ = got
    for r in recs:
        impl = parse_routes_impl(r.res)
        if 'panic' in impl or 'panic' in impl.get('direct', {}):
            continue
        chk.count()
        inp = parse_input(r.inp)
        d = impl['direct']
        rp = {'op': 'routes', 'ids': [r.id], 'family': r.family, 'record': r.line[:3000]}
        for nm, vv in (('Voronoi::from(&integrator)', impl['via']), ('Voronoi::from(&integrator.with_faces())', impl.get('viaf'))):
            if vv is None or 'panic' in vv or len(vv['cells']) != len(d['cells']):
                continue
            for i, (a, b) in enumerate(zip(vv['cells'], d['cells'])):
                if a.sr != b.sr:
                    chk.violation('impl-vs-impl', 'cell %d: safety radius reported through %s is %s, the direct build reports %s (record %d, %s)'
                                  % (i, nm, a.sr if a.sr is None else float(a.sr), b.sr if b.sr is None else float(b.sr), r.id, r.family), rp, key='routes-radius')
                    break
        # the direct radius reaches every neighbour the cell shares a face with
        tol = Tol(inp)
        for f in d['faces']:
            if f.right is None or f.area is None or f.shift is not None:
                continue
            for (me, other) in ((f.left, f.right), (f.right, f.left)):
                c = d['cells'][me]
                if c.sr is None or c.volume == 0:
                    continue
                d2 = sum((inp.ngens[me][k] - inp.ngens[other][k]) ** 2 for k in range(3))
                # the radius is computed from rounded vertex positions: allow the positional tolerance (scaled by the size of the
                # coordinates, DESIGN 3.6) on top of a relative 1e-9 - a box at offset 1e6 rounds positions to 1e-10
                if abs(f.area) > tol.area * 100 and d2 > (c.sr * (1 + Fraction(1, 10 ** 9)) + 2 * tol.pos) ** 2:
                    chk.violation('impl-vs-oracle', 'cell %d (direct build): neighbour %d with a face of area %.6g is farther (%.17g) than the safety radius %.17g (record %d, %s)'
                                  % (me, other, float(f.area), float(d2) ** 0.5, float(c.sr), r.id, r.family), rp, key='neighbour')
        chk.traces += 1
