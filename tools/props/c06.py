"""C06 — periodic tessellation equals that of the infinitely replicated point set."""
from common import *
from tesslib import *
from props.c01 import run_cells_op, fl, fl3

TRUSTED = [
    "Lean 4.33 kernel; axioms propext, Classical.choice, Quot.sound only (audited per theorem)",
    "set-level theorems MVoro/Proofs/Periodic.lean (+ VorSet): images with |k| >= 2 never matter, the cell lies within half a period of its generator hence strictly inside the tripled box, the 3^d images decide membership, reported shift = minus query shift",
    "translation invariance of Lebesgue measure / of the lattice-periodic point set is used as a set-level fact (periodic_translate); the measure itself is not formalised (see C02)",
    "correspondence harness: ops periodic3 (periodic build vs non-periodic build of the replicated set, central block) and translate; tolerances of DESIGN §3.6 scaled by the conditioning of the input",
    "the periodic builds are compared with the exact rational oracle by the C01/C02 checks (op cells/tess, periodic families); this check is implementation-vs-implementation plus the shift/boundary predicates",
]


def parse_per_cell(t, inp_for_shift=None):
    """`NC n {C idx vol centroid NF k {right shift area centroid}}` or PANIC"""
    st = t.next()
    if st == 'PANIC':
        rest = []
        while t.peek() is not None and t.peek() not in ('R', 'Q', 'D'):
            rest.append(t.next())
        return {'panic': ' '.join(rest)}
    assert st == 'NC', st
    n = t.int()
    cells = {}
    for _ in range(n):
        t.expect('C')
        c = ICell()
        c.idx = t.int()
        c.volume = t.f()
        c.centroid = t.v3()
        t.expect('NF')
        k = t.int()
        c.faces = []
        for _ in range(k):
            f = IFace()
            f.right = t.optint()
            f.shift = parse_opt_v3(t)
            f.area = t.f()
            f.centroid = t.v3()
            c.faces.append(f)
        cells[c.idx] = c
    return {'cells': cells}


def run(chk):
    chk.trusted_base = TRUSTED
    chk.rule = ("op periodic3: 8 families x 1D/2D/3D, periodic build vs the central block of the non-periodic build of the 3^d-fold replicated generators in the tripled box: cell measure, centroid, "
                "faces keyed by (neighbour, image) with area and centroid within tolerance, no non-negligible face missing or spurious; periodic build has no boundary faces; every shift component is exactly "
                "-w, 0 or +w on active axes and 0 elsewhere, absent iff zero; op translate: random and wall-hitting translations (wrapped), every cell measure and per-neighbour face areas unchanged; "
                "near-degenerate inputs that panic are C05's business and only counted; non-trivial = cell with >= 1 shifted face")
    chk.lean(['MVoro.Props.C06', 'MVoro.Proofs.Periodic'], ['MVoro.Obl.NN'], ['NN'])
    got = run_cells_op(chk, op='periodic3')
    if got is None:
        return
    recs, _ = got
    npanic = 0
    for r in recs:
        chk.count()
        rp = {'op': 'periodic3', 'ids': [r.id], 'family': r.family, 'record': r.line[:8000]}
        inp = parse_input(r.inp[:r.inp.index('REP')])
        ri = r.inp.index('REP')
        ng, central = int(r.inp[ri + 1]), int(r.inp[ri + 2])
        sh = [tuple(int(x) for x in s.split(',')) for s in r.inp[ri + 3].split(';')]
        tol = Tol(inp)
        t = Tok(r.res)
        t.expect('P')
        P = parse_per_cell(t)
        t.expect('R')
        R = parse_per_cell(t)
        D = None
        if t.peek() == 'D':
            t.next()
            D = parse_per_cell(t)
        if 'panic' in P or 'panic' in R or (D is not None and 'panic' in D):
            npanic += 1
            chk.panic_record(r, P.get('panic') or R.get('panic') or D.get('panic'), rp)
            continue
        if tol.ill:
            chk.extra_cov['ill_conditioned_skipped'] = chk.extra_cov.get('ill_conditioned_skipped', 0) + 1
            continue
        # both public routes to a periodic tessellation are compared with the replicated set: the per-cell integrals of the
        # VoronoiIntegrator and the stored faces of Voronoi::build (seen from either side)
        for route, X in (('VoronoiIntegrator', P), ('Voronoi::build', D)):
          if X is None:
            continue
          for i in range(ng):
              pc = X['cells'].get(i)
              rc = R['cells'].get(central * ng + i)
              where = 'record %d (%s) cell %d, route %s' % (r.id, r.family, i, route)
              if pc is None or rc is None:
                  chk.violation('impl-vs-impl', 'cell missing, ' + where, rp, key='missing')
                  continue
              # predicates on the periodic build
              pf = {}
              shifted = False
              for f in pc.faces:
                  if f.right is None:
                      if f.area is None or f.area > tol.area:
                          chk.violation('impl-vs-oracle', 'periodic build reports a boundary face of area %s, %s' % (fl(f.area), where), rp, key='boundary-face')
                      continue
                  st = (0, 0, 0)
                  if f.shift is not None:
                      ok = all((f.shift[a] in (inp.nw[a], -inp.nw[a], 0)) if a < inp.dim else f.shift[a] == 0 for a in range(3))
                      if not ok:
                          chk.violation('impl-vs-oracle', 'face shift %s is not a lattice vector with components in {-w,0,+w} on the periodic axes, %s' % (fl3(f.shift), where), rp, key='shift')
                          continue
                      st = tuple(int(f.shift[a] / inp.nw[a]) for a in range(3))
                      if st == (0, 0, 0):
                          chk.violation('impl-vs-oracle', 'zero shift reported as Some, %s' % where, rp, key='shift')
                          continue
                      shifted = True
                  if f.area is not None and f.area > tol.area:
                      pf.setdefault((f.right, st), []).append(f)
              rf = {}
              for f in rc.faces:
                  if f.right is None:
                      if f.area is None or f.area > tol.area:
                          chk.violation('impl-vs-impl', 'central-block cell of the replicated set touches the wall of the tripled box (area %s), %s' % (fl(f.area), where), rp, key='tripled-wall')
                      continue
                  if f.area is not None and f.area > tol.area:
                      rf.setdefault((f.right % ng, sh[f.right // ng]), []).append(f)
              if pc.volume is None or rc.volume is None or abs(pc.volume - rc.volume) > tol.vol:
                  chk.violation('impl-vs-impl', 'periodic cell measure %s differs from the replicated-set cell %s, %s' % (fl(pc.volume), fl(rc.volume), where), rp, key='volume')
              elif pc.volume > 1000 * tol.vol and not close3(pc.centroid, rc.centroid, 10 * tol.pos):
                  chk.violation('impl-vs-impl', 'periodic cell centroid %s differs from the replicated-set cell %s, %s' % (fl3(pc.centroid), fl3(rc.centroid), where), rp, key='centroid')
              for key in set(pf) | set(rf):
                  a = sum((f.area for f in pf.get(key, [])), Fraction(0))
                  b = sum((f.area for f in rf.get(key, [])), Fraction(0))
                  if abs(a - b) > 4 * tol.area:
                      chk.violation('impl-vs-impl', 'face towards generator %d image %s: periodic area %s, replicated-set area %s, %s' % (key[0], key[1], fl(a), fl(b), where), rp, key='face' + (' cluster' if r.family.startswith('cluster') else ''))
              chk.traces += 1
              if shifted:
                  chk.nontriv((r.id, i))
        if len(chk.samples) < 2 and inp.dim == 3 and ng >= 3:
            chk.sample({'op': 'periodic3', 'family': r.family, 'generators': ng, 'replicated': ng * len(sh), 'cell0_volume': fl(P['cells'][0].volume), 'cell0_faces': len(P['cells'][0].faces)})
    got = run_cells_op(chk, op='translate')
    if got is None:
        return
    recs, _ = got
    for r in recs:
        chk.count()
        rp = {'op': 'translate', 'ids': [r.id], 'family': r.family, 'record': r.line[:8000]}
        ti = r.inp.index('T')
        inp = parse_input(r.inp[:ti])
        inp2 = parse_input(r.inp[r.inp.index('TR') + 1:])
        tol, tol2 = Tol(inp), Tol(inp2)
        t = Tok(r.res)
        t.expect('P')
        P = parse_per_cell(t)
        t.expect('Q')
        Q = parse_per_cell(t)
        if 'panic' in P or 'panic' in Q:
            npanic += 1
            chk.panic_record(r, P.get('panic') or Q.get('panic'), rp)
            continue
        if tol.ill or tol2.ill:
            chk.extra_cov['ill_conditioned_skipped'] = chk.extra_cov.get('ill_conditioned_skipped', 0) + 1
            continue
        tv = max(tol.vol, tol2.vol)
        ta = max(tol.area, tol2.area)
        for i in range(inp.n):
            pc, qc = P['cells'].get(i), Q['cells'].get(i)
            where = 'record %d (%s) cell %d, translation %s' % (r.id, r.family, i, fl3([hex_to_frac(x) for x in r.inp[ti + 1:ti + 4]]))
            if pc is None or qc is None:
                chk.violation('impl-vs-impl', 'cell missing, ' + where, rp, key='missing')
                continue
            if pc.volume is None or qc.volume is None or abs(pc.volume - qc.volume) > 2 * tv:
                chk.violation('impl-vs-impl', 'cell measure changes under translation: %s -> %s, %s' % (fl(pc.volume), fl(qc.volume), where), rp, key='translate-volume')
                continue
            def per_nb(c):
                d = {}
                for f in c.faces:
                    if f.right is not None and f.area is not None:
                        d[f.right] = d.get(f.right, Fraction(0)) + f.area
                    elif f.right is None and (f.area is None or f.area > ta):
                        d['wall'] = d.get('wall', Fraction(0)) + (f.area or Fraction(1))
                return d
            a, b = per_nb(pc), per_nb(qc)
            for k in set(a) | set(b):
                if abs(a.get(k, 0) - b.get(k, 0)) > 8 * ta:
                    chk.violation('impl-vs-impl', 'total face area towards %s changes under translation: %s -> %s, %s' % (k, fl(a.get(k, 0)), fl(b.get(k, 0)), where), rp, key='translate-face')
                    break
            chk.traces += 1
            chk.nontriv(('tr', r.id, i))
    chk.extra_cov['records_with_panic_skipped_see_C05'] = npanic
    # the compact tessellation's own view (op tess, periodic records): VoronoiFace::{shift, is_periodic, is_boundary}
    binary, _ = cargo_build()
    if binary is not None:
        rec_f = os.path.join(chk.wdir(), 'tess.rec')
        rc, fams, err = run_harness(binary, 'tess', chk.seed, chk.tier, rec_f)
        nacc = 0
        for r in (read_records(rec_f) if rc == 0 else []):
            inp = parse_input(r.inp)
            if not inp.periodic:
                continue
            impl = parse_tess_impl(r.res)
            if 'panic' in impl or 'acc' not in impl:
                continue
            chk.count()
            rp = {'op': 'tess', 'ids': [r.id], 'family': r.family, 'record': r.line[:3000]}
            for pr in accessor_problems(impl):
                chk.violation('impl-vs-oracle', '%s (record %d, %s)' % (pr, r.id, r.family), rp, key='accessor')
            for j, f in enumerate(impl['faces']):
                if impl['acc']['pb'][j][1] == '1' and f.area is not None and f.area > Tol(inp).area and not Tol(inp).ill:
                    chk.violation('impl-vs-oracle', 'periodic tessellation stores a boundary face (is_boundary) of area %s (record %d, %s, face %d)' % (fl(f.area), r.id, r.family, j), rp, key='boundary-face')
            nacc += 1
        chk.extra_cov['tess_records_accessors_checked'] = nacc

