"""C19 — public geometry helpers satisfy their defining equations."""
import math
import os
import struct
from common import *
from tesslib import Tok

TRUSTED = [
    "Lean 4.33 kernel; axioms propext, Classical.choice, Quot.sound only (audited per theorem)",
    "theorems are about MVoro.Ref.* (Model/Geom.lean, generic scalar) instantiated at the reals; the same definitions are executed over Rat (exact) and Float by the driver",
    "translator tools/extract.py (fragment Geom): geometry.rs helpers re-translated on every run, obligations Gen.f = Ref.f in MVoro/Obl/Geom.lean",
    "correspondence harness (op geom), generators, and the rounding tolerances below (multiples of 2^-52 scaled by the conditioning of each helper; ill-conditioned arguments are skipped and counted)",
    "glam 0.27 vector/matrix methods are modelled by V3.* / det3cols / det4cols; IEEE rounding is not modelled (tolerance only)",
]
OBL, FRAGS = ['MVoro.Obl.Geom'], ['Geom']
EPS = Fraction(1, 2 ** 52)
PREC = 10 ** 40


def fsqrt(q):
    """sqrt of a non-negative Fraction to ~40 digits, as Fraction"""
    if q <= 0:
        return Fraction(0)
    n = q.numerator * PREC * PREC // q.denominator
    return Fraction(math.isqrt(n), PREC)


def dot(a, b):
    return a[0] * b[0] + a[1] * b[1] + a[2] * b[2]


def sub(a, b):
    return [a[0] - b[0], a[1] - b[1], a[2] - b[2]]


def add(a, b):
    return [a[0] + b[0], a[1] + b[1], a[2] + b[2]]


def smul(k, a):
    return [k * a[0], k * a[1], k * a[2]]


def cross(a, b):
    return [a[1] * b[2] - a[2] * b[1], a[2] * b[0] - a[0] * b[2], a[0] * b[1] - a[1] * b[0]]


def norm(a):
    return fsqrt(dot(a, a))


def amax(a):
    return max(abs(a[0]), abs(a[1]), abs(a[2]))


def ulps(h1, h2):
    def key(h):
        b = int(h, 16)
        return b - (1 << 63) if b < (1 << 63) else (1 << 63) - b - 0  # monotone map of the bit patterns
    a, b = int(h1, 16), int(h2, 16)
    ka = a if a < (1 << 63) else (1 << 63) - a
    kb = b if b < (1 << 63) else (1 << 63) - b
    return abs(ka - kb)


class G:
    """one record"""

    def __init__(self, chk, r, m):
        self.chk, self.r, self.m = chk, r, m
        self.kind = r.inp[0]
        self.args = [hex_to_frac(x) for x in r.inp[1:]]
        self.rp = {'op': 'geom', 'ids': [r.id], 'family': r.family, 'record': r.line, 'model': ' '.join(m) if m else None}
        self.nviol = 0

    def v(self, i):
        return self.args[3 * i:3 * i + 3]

    def fail(self, kind, what):
        self.nviol += 1
        self.chk.violation(kind, '%s (record %d, %s)' % (what, self.r.id, self.r.family), self.rp, key=self.kind)

    def near(self, a, b, tol, what, kind='impl-vs-oracle'):
        if a is None or b is None or abs(a - b) > tol:
            self.fail(kind, '%s: %s vs %s, difference %.3g exceeds the rounding tolerance %.3g' %
                      (what, 'nan' if a is None else '%.17g' % float(a), 'nan' if b is None else '%.17g' % float(b),
                       float('nan') if a is None or b is None else float(abs(a - b)), float(tol)))
            return False
        return True

    def near3(self, a, b, tol, what, kind='impl-vs-oracle'):
        if any(x is None for x in a):
            self.fail(kind, what + ': non-finite implementation result')
            return False
        return all([self.near(a[i], b[i], tol, what + ' [%d]' % i, kind) for i in range(3)])


def run(chk):
    chk.trusted_base = TRUSTED
    chk.rule = ("op geom: every helper of src/geometry.rs on random (7 magnitudes) and structured (dyadic grid, axis aligned, point on plane, nearly parallel planes) arguments; "
                "R = the defining equations evaluated exactly (Fractions) on the implementation's result; X = implementation vs Ref.* over Rat within rounding; "
                "Ref.* over Float vs implementation in ulps is recorded (informational); non-trivial = well-conditioned record; distinct by arguments")
    chk.lean(['MVoro.Props.C19', 'MVoro.Proofs.GeomHelpers'], OBL, FRAGS)
    from props.c01 import run_cells_op
    got = run_cells_op(chk, op='geom')
    if got is None:
        return
    recs, model = got
    skipped = {}
    maxulp = {}
    for r in recs:
        chk.count()
        m = model.get(r.id)
        if m is None or m[0] in ('bad-op', 'unknown-op', 'nonfinite'):
            chk.violation('driver', 'model produced no result for record %d (%s)' % (r.id, m), None)
            continue
        if r.res and r.res[0] == 'PANIC':
            chk.violation('panic', 'helper panicked on non-degenerate arguments: %s' % ' '.join(r.res), {'op': 'geom', 'ids': [r.id], 'record': r.line}, key=r.inp[0])
            continue
        if m[0] == 'singular':
            skipped['singular'] = skipped.get('singular', 0) + 1
            continue
        g = G(chk, r, m)
        k = g.kind
        fi = m.index('F')
        ex = [Fraction(x) for x in m[:fi]]
        mf = m[fi + 1:]
        res = [hex_to_frac(x) for x in (r.res[1:] if k == 'ext' else r.res)]
        # informational: ulp distance between the Float evaluation of Ref and the implementation
        try:
            impl_bits = r.res if k != 'ext' else r.res[1:]
            n_cmp = {'ip': 3, 'po': 3, 'poi': 3, 'tet': 1, 'tri': 1}.get(k, 4)
            u = max(ulps(impl_bits[i], mf[i]) for i in range(n_cmp))
            maxulp[k] = max(maxulp.get(k, 0), u)
        except Exception:  # noqa
            pass
        ok_cond = True
        if k == 'ip':
            n0, p0, n1, p1, n2, p2 = [g.v(i) for i in range(6)]
            det = ex[3]
            cond = norm(n0) * norm(n1) * norm(n2) / abs(det)
            if cond > 10 ** 8:
                ok_cond = False
            else:
                x = res[0:3]
                tol = 256 * EPS * cond * (amax(p0) + amax(p1) + amax(p2) + amax(ex[0:3])) + Fraction(1, 10 ** 300)
                if g.near3(x, ex[0:3], tol, 'intersect_planes differs from the exact intersection', 'impl-vs-model'):
                    for (n, p, nm) in ((n0, p0, 0), (n1, p1, 1), (n2, p2, 2)):
                        g.near(dot(n, sub(x, p)), Fraction(0), norm(n) * tol * 3, 'intersect_planes result is not on plane %d' % nm)
        elif k == 'po':
            n, p, x = g.v(0), g.v(1), g.v(2)
            rr, r2 = res[0:3], res[3:6]
            tol = 64 * EPS * (amax(p) + amax(x)) + Fraction(1, 10 ** 300)
            if g.near3(rr, ex[0:3], tol, 'project_onto differs from the exact projection', 'impl-vs-model'):
                g.near(dot(n, sub(rr, p)), Fraction(0), norm(n) * tol * 3, 'projection is not on the plane')
                c = cross(sub(rr, x), n)
                g.near(amax(c), Fraction(0), norm(n) * tol * 6, 'displacement of the projection is not parallel to the normal')
                g.near3(r2, rr, tol * 2, 'project_onto is not idempotent')
        elif k == 'poi':
            n0, p0, n1, p1, x = [g.v(i) for i in range(5)]
            c = cross(n0, n1)
            cond = norm(n0) * norm(n1) / norm(c)
            shallow = r.family.endswith('shallow')
            if cond > 10 ** 4 and not shallow:
                ok_cond = False
            else:
                rr, r2 = res[0:3], res[3:6]
                # family shallow: dyadic coordinates, the float evaluation of the formula is exact
                tol = (Fraction(1, 10 ** 9) * (amax(ex[0:3]) + 1) if shallow else 256 * EPS * cond * cond * (amax(p0) + amax(p1) + amax(x))) + Fraction(1, 10 ** 300)
                if g.near3(rr, ex[0:3], tol, 'project_onto_intersection differs from the exact point', 'impl-vs-model'):
                    g.near(dot(n0, sub(rr, p0)), Fraction(0), norm(n0) * tol * 3, 'result is not on the first plane')
                    g.near(dot(n1, sub(rr, p1)), Fraction(0), norm(n1) * tol * 3, 'result is not on the second plane')
                    g.near(dot(sub(rr, x), c), Fraction(0), norm(c) * tol * 3, 'displacement is not orthogonal to the intersection line')
                    g.near3(r2, rr, tol * 4, 'project_onto_intersection is not idempotent')
        elif k == 'tet':
            v = [g.v(i) for i in range(4)]
            e = [norm(sub(v[i], v[0])) for i in (1, 2, 3)]
            tol = 64 * EPS * (e[0] * e[1] * e[2] + 8 * amax(v[0]) * (e[0] * e[1] + e[1] * e[2] + e[0] * e[2])) + Fraction(1, 10 ** 300)
            val = res[0]
            if g.near(val, ex[0], tol, 'signed_volume_tet differs from det/6', 'impl-vs-model'):
                for j, nm in ((1, 'v0<->v1'), (2, 'v1<->v2'), (3, 'v0<->v2'), (4, 'v2<->v3')):
                    g.near(res[j], -val, 4 * tol, 'signed_volume_tet is not antisymmetric under ' + nm)
                if abs(ex[0]) > 2 * tol and (val > 0) != (ex[0] > 0):
                    g.fail('impl-vs-oracle', 'signed_volume_tet has the wrong sign: %.17g, exact %.17g' % (float(val), float(ex[0])))
            if abs(ex[0]) <= 2 * tol:
                ok_cond = False
        elif k == 'tri':
            v0, v1, v2, t = g.v(0), g.v(1), g.v(2), g.v(3)
            e1, e2 = norm(sub(v1, v0)), norm(sub(v2, v0))
            tolA = 64 * EPS * (e1 * e2 + 4 * amax(v0) * (e1 + e2)) + Fraction(1, 10 ** 300)
            A = fsqrt(ex[0])
            a = res[0]
            if g.near(abs(a) if a is not None else None, A, tolA, '|signed_area_tri| differs from the triangle area', 'impl-vs-model'):
                s_t, s_same, s_other = int(ex[1]), int(ex[2]), int(ex[3])
                nvec = smul(Fraction(1, 2), cross(sub(v1, v0), sub(v2, v0)))
                decisive = A > 4 * tolA and abs(dot(sub(t, v0), nvec)) > 64 * EPS * (norm(sub(t, v0)) + amax(v0)) * A
                if decisive:
                    if (a > 0) != (s_t > 0):
                        g.fail('impl-vs-oracle', 'signed_area_tri has the wrong sign %.17g for an apex on the %s side' % (float(a), 'positive' if s_t > 0 else 'negative'))
                    g.near(res[1], -a, 4 * tolA, 'signed_area_tri is not antisymmetric under v0<->v1')
                    if s_same == s_t:
                        g.near(res[2], a, 4 * tolA, 'signed_area_tri depends on the apex within one side')
                    if s_other == -s_t:
                        g.near(res[3], -a, 4 * tolA, 'signed_area_tri does not flip for an apex on the other side')
                else:
                    ok_cond = False
        elif k == 's2':
            a_, b_ = g.v(0), g.v(1)
            c, rad = res[0:3], res[3]
            tol = 16 * EPS * (amax(a_) + amax(b_)) + Fraction(1, 10 ** 300)
            g.near3(c, smul(Fraction(1, 2), add(a_, b_)), tol, 'from_two_points centre is not the midpoint', 'impl-vs-model')
            g.near(rad, fsqrt(ex[3]), tol * 4, 'from_two_points radius is not half the distance', 'impl-vs-model')
            if not any(x is None for x in c) and rad is not None:
                for p, nm in ((a_, 'a'), (b_, 'b')):
                    g.near(norm(sub(c, p)), rad, tol * 8, 'from_two_points does not pass through ' + nm)
        elif k in ('s3', 'sb3'):
            a_, b_, c_ = g.v(0), g.v(1), g.v(2)
            ap, bp = sub(a_, c_), sub(b_, c_)
            axb = cross(ap, bp)
            K = dot(ap, ap) * dot(bp, bp) / dot(axb, axb)
            S = amax(a_) + amax(b_) + amax(c_)
            sliver = r.family.endswith('sliver')
            if not sliver and (K > 10 ** 5 or min(norm(ap), norm(bp)) * 10 ** 4 < S):
                ok_cond = False
            else:
                # sliver family: dyadic coordinates with few bits, the formula's intermediates are exact -> the result is good to a few
                # ulp of the circumradius however thin the triangle is
                tol = (Fraction(1, 10 ** 9) * (fsqrt(ex[3]) + S) if sliver else 1024 * EPS * K * fsqrt(K) * S) + Fraction(1, 10 ** 300)
                c, rad = res[0:3], res[3]
                if g.near3(c, ex[0:3], tol, 'from_three_points centre differs from the exact circumcentre', 'impl-vs-model') and g.near(rad, fsqrt(ex[3]), tol * 2, 'from_three_points radius', 'impl-vs-model'):
                    for p, nm in ((a_, 'a'), (b_, 'b'), (c_, 'c')):
                        g.near(norm(sub(c, p)), rad, tol * 4, 'from_three_points does not pass through ' + nm)
                    g.near(dot(sub(c, c_), axb), Fraction(0), norm(axb) * tol * 3, 'from_three_points centre is not in the plane of the points')
        elif k == 's4':
            pts = [g.v(i) for i in range(4)]
            S = sum(amax(p) for p in pts)
            vol6 = abs(dot(sub(pts[3], pts[0]), cross(sub(pts[1], pts[0]), sub(pts[2], pts[0]))))
            kappa = S ** 3 / vol6
            if kappa > 10 ** 4:
                ok_cond = False
            else:
                rstar = fsqrt(ex[3])
                tol = 1024 * EPS * kappa * (S + amax(ex[0:3])) + Fraction(1, 10 ** 300)
                tolr = tol + 1024 * EPS * kappa * kappa * S * S / max(rstar, Fraction(1, 10 ** 30))
                c, rad = res[0:3], res[3]
                if g.near3(c, ex[0:3], tol, 'from_four_points centre differs from the exact circumcentre', 'impl-vs-model') and g.near(rad, rstar, tolr, 'from_four_points radius', 'impl-vs-model'):
                    for i, p in enumerate(pts):
                        g.near(norm(sub(c, p)), rad, tol + tolr, 'from_four_points does not pass through point %d' % i)
        elif k == 'ext':
            c0 = g.args[0:3]
            r0 = g.args[3]
            x = g.args[4:7]
            inside_impl = r.res[0] == '1'
            c1, r1 = res[0:3], res[3]
            d2 = ex[1]
            d = fsqrt(d2)
            lim = r0 * r0 * (1 + Fraction(1, 10 ** 10))
            border = abs(d2 - lim) <= 64 * EPS * (d2 + (amax(c0) + amax(x)) ** 2)
            if border:
                ok_cond = False
            else:
                inside = ex[0] == 1
                if inside != inside_impl:
                    g.fail('impl-vs-model', 'Sphere::contains returned %s, exact %s' % (inside_impl, inside))
                elif inside:
                    if r.res[1:5] != r.inp[1:5]:
                        g.fail('impl-vs-oracle', 'extend changed a sphere that already contains the point')
                else:
                    tol = 64 * EPS * (amax(c0) + amax(x) + r0) + Fraction(1, 10 ** 300)
                    rs = (d + r0) / 2
                    cs = add(x, smul(rs / d, sub(c0, x)))
                    if g.near3(c1, cs, tol, 'extend centre differs from the smallest enclosing sphere', 'impl-vs-model') and g.near(r1, rs, tol, 'extend radius differs from (d + r)/2', 'impl-vs-model'):
                        g.near(norm(sub(c1, x)), r1, 4 * tol, 'extended sphere does not pass through the point')
                        if norm(sub(c1, c0)) + r0 > r1 + 4 * tol:
                            g.fail('impl-vs-oracle', 'extended sphere does not contain the old sphere')
                        if r1 > rs + 4 * tol:
                            g.fail('impl-vs-oracle', 'extended sphere is not the smallest one containing both')
        else:
            chk.violation('harness', 'unknown geom kind ' + k, None)
            continue
        if not ok_cond:
            skipped[k] = skipped.get(k, 0) + 1
        else:
            chk.traces += 1
            chk.nontriv(tuple(r.inp))
            if len(chk.samples) < 5 and r.id % 97 == 5:
                chk.sample({'op': 'geom', 'kind': k, 'family': r.family, 'args': r.inp[1:], 'impl': r.res, 'model_exact': m[:fi][:4]})
    chk.extra_cov['skipped_ill_conditioned_or_borderline'] = skipped
    chk.extra_cov['float_model_vs_impl_max_ulps'] = maxulp
