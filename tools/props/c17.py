"""C17 — neighbour candidates are enumerated completely and in order of distance."""
import math
from common import *
from tesslib import Tok, parse_input, shift_triple
from props.c01 import run_cells_op

TRUSTED = [
    "Lean 4.33 kernel; axioms propext, Classical.choice, Quot.sound only (audited per theorem)",
    "model MVoro/Model/Cand.lean (best-first search over an abstract tree, abstract tie-breaking); theorems MVoro/Proofs/BestFirst.lean",
    "modelled, not verified: rstar's tree invariant (parent envelope contains its children; checked on every dumped tree) and rstar's own nearest_neighbor_iter on the non-periodic route (compared against the specification only)",
    "float keys: the implementation orders by f64 distances computed with a different association than the exact key; order is required up to the rounding slack stated in the rule",
    "correspondence harness (op nnvisit: hooks nn_visit + rtree_dump), input families",
]
EPS = 2.0 ** -52


def run(chk):
    chk.trusted_base = TRUSTED
    chk.rule = ("op nnvisit: full visit sequence of nn_iter / wrapping_nn_iter for a query generator on 9 families, 1D/2D/3D, periodic or not; R: first = (query, no shift); every (generator, image) exactly once "
                "(3^d images when periodic); shift absent iff zero and an integer multiple in {-1,0,1} of the width on active axes; exact squared distances non-decreasing up to slack "
                "8*eps*S*(sqrt k_i + sqrt k_{i+1}) + 64*eps^2*S^2 (S = coordinate magnitude); X (small inputs): Cand.bestFirst on the dumped r-tree with exact envelope keys gives the same key sequence; dumped tree nested; "
                "non-trivial = sequence with >= 5 entries; distinct by record")
    chk.lean(['MVoro.Props.C17', 'MVoro.Proofs.BestFirst'], ['MVoro.Obl.NN'], ['NN'])
    got = run_cells_op(chk, op='nnvisit')
    if got is None:
        return
    recs, model = got
    modes = {'model': 0, 'spec': 0}
    for r in recs:
        chk.count()
        rp = {'op': 'nnvisit', 'ids': [r.id], 'family': r.family, 'record': r.line[:6000]}
        if r.res and r.res[0] == 'PANIC':
            chk.violation('panic', 'neighbour enumeration panicked: ' + ' '.join(r.res), rp, key=r.family)
            continue
        inp = parse_input(r.inp)
        qi = r.inp.index('Q')
        q = int(r.inp[qi + 1])
        mode = r.inp[qi + 2]
        modes[mode] = modes.get(mode, 0) + 1
        t = Tok(r.res)
        t.expect('V')
        n = t.int()
        seq = []
        for _ in range(n):
            i = t.int()
            k = t.next()
            sh = None if k == 'N' else t.v3()
            seq.append((i, sh))
        d = inp.dim
        nimg = (3 ** d) if inp.periodic else 1
        g = inp.ngens[q]
        S = max(max(abs(float(inp.na[a])), abs(float(inp.na[a] + inp.nw[a]))) + (float(inp.nw[a]) if inp.periodic else 0.0) for a in range(d))
        bad = None
        seen = set()
        keys = []
        for pos, (i, sh) in enumerate(seq):
            st = (0, 0, 0)
            if sh is not None:
                st = shift_triple(sh, inp)
                if not isinstance(st, tuple):
                    bad = 'entry %d: shift %s is not an integer multiple of the width' % (pos, [float(x) for x in sh])
                    break
                if st == (0, 0, 0):
                    bad = 'entry %d: a zero shift is reported as Some(0)' % pos
                    break
                if any(abs(c) > 1 for c in st) or any(st[a] != 0 for a in range(d, 3)):
                    bad = 'entry %d: shift %s is not a lattice vector with components in {-1,0,1} on the active axes' % (pos, st)
                    break
                if not inp.periodic:
                    bad = 'entry %d: a shift is reported without periodic boundaries' % pos
                    break
            if not (0 <= i < inp.n):
                bad = 'entry %d: generator index %d out of range' % (pos, i)
                break
            if (i, st) in seen:
                bad = 'entry %d: generator %d with shift %s is visited twice' % (pos, i, st)
                break
            seen.add((i, st))
            p = inp.ngens[i]
            keys.append(sum((g[a] - p[a] - st[a] * inp.nw[a]) ** 2 for a in range(3)))
        if bad is None and len(seq) != inp.n * nimg:
            bad = '%d entries visited, expected %d generators x %d images' % (len(seq), inp.n, nimg)
        if bad is None and (seq[0][0] != q or seq[0][1] is not None):
            bad = 'the first candidate is (%d, %s), not the generator itself without shift' % (seq[0][0], seq[0][1])
        if bad is None:
            fk = [float(k) for k in keys]
            for a in range(len(keys) - 1):
                if keys[a] > keys[a + 1]:
                    slack = 8 * EPS * S * (math.sqrt(fk[a]) + math.sqrt(fk[a + 1])) + 64 * EPS * EPS * S * S
                    if fk[a] - fk[a + 1] > slack:
                        bad = 'candidates %d and %d are out of order: squared distances %.17g > %.17g (slack %.3g)' % (a, a + 1, fk[a], fk[a + 1], slack)
                        break
        if bad:
            chk.violation('impl-vs-oracle', '%s (record %d, %s, query %d)' % (bad, r.id, r.family, q), rp, key='spec')
            continue
        if mode == 'model':
            m = model.get(r.id)
            if m is None or m[0] != 'NEST':
                chk.violation('driver', 'model produced no result for record %d (%s)' % (r.id, m[:2] if m else m), None)
                continue
            if m[1] != 'true':
                chk.violation('impl-vs-oracle', 'the dumped r-tree violates the envelope invariant (a child envelope is not inside its parent, or a leaf envelope is not a point) (record %d)' % r.id, rp, key='rtree')
                continue
            mt = Tok(m[4:])
            mn = mt.int()
            mseq = [(mt.int(), (mt.int(), mt.int(), mt.int())) for _ in range(mn)]
            mkeys = []
            for (i, st) in mseq:
                p = inp.ngens[i]
                mkeys.append(sum((g[a] - p[a] - st[a] * inp.nw[a]) ** 2 for a in range(3)))
            if sorted(mseq) != sorted(seen):
                chk.violation('impl-vs-model', 'best-first model visits a different set of (generator, shift) pairs than the implementation (record %d)' % r.id, rp, key='model')
                continue
            if mkeys != sorted(keys):
                chk.violation('impl-vs-model', 'best-first model emits a different sequence of exact distances than the (sorted) implementation sequence (record %d)' % r.id, rp, key='model')
                continue
            if mseq[0] != (q, (0, 0, 0)):
                chk.violation('impl-vs-model', 'model does not emit the query generator first (record %d)' % r.id, rp, key='model')
                continue
            chk.extra_cov['dumped_envelopes_tight'] = chk.extra_cov.get('dumped_envelopes_tight', 0) + (1 if m[2] == 'true' else 0)
        chk.traces += 1
        if len(seq) >= 5:
            chk.nontriv(r.id)
        if len(chk.samples) < 3 and inp.periodic and len(seq) > 20 and mode == 'model':
            chk.sample({'op': 'nnvisit', 'family': r.family, 'query': q, 'visited': len(seq), 'first': [(i, None if s is None else [float(x) for x in s]) for (i, s) in seq[:4]]})
    chk.extra_cov['records_by_mode'] = modes
