"""C08 — 1D and 2D tessellations depend only on the active coordinates."""
from common import *
from tesslib import *
from props.c01 import run_cells_op, fl, fl3

TRUSTED = [
    "Lean 4.33 kernel; axioms propext, Classical.choice, Quot.sound only (audited per theorem)",
    "theorems MVoro/Proofs/Periodic.lean (closed form of 1D cells, unit thickness, slab centroid) and VorSet.HS_proj (membership in a bisector half space depends only on the orthogonal projection onto a subspace containing both generators)",
    "correspondence harness (op lowdim): bitwise comparison of builds that differ only in the unused coordinates; exact closed form in 1D; the implementation's own 3D build of the unit slab/bar; tolerances of DESIGN §3.6 scaled by conditioning",
    "1D/2D builds are also compared with the exact rational oracle in the C01/C02 checks (op cells/tess, dim 1 and 2)",
]


def split_abc(res):
    ia, ib, ic = res.index('A'), res.index('B'), res.index('C')
    ii = res.index('I') if 'I' in res[ic:] else len(res)
    if ii < len(res):
        ii = ic + res[ic:].index('I')
    return res[ia + 1:ib], res[ib + 1:ic], res[ic + 1:ii], res[ii + 1:]


def integrator_faces(toks):
    """`FN k {left right shift area centroid} FS k {...}` -> {'FN': [...], 'FS': [...]}"""
    out = {}
    t = Tok(toks)
    while t.peek() in ('FN', 'FS'):
        tag = t.next()
        k = t.int()
        fs = []
        for _ in range(k):
            left, right = t.int(), t.optint()
            shift = parse_opt_v3(t)
            fs.append((left, right, shift, t.f(), t.v3()))
        out[tag] = fs
    return out


def run(chk):
    chk.trusted_base = TRUSTED
    chk.rule = ("op lowdim: 9 families, 1D and 2D, periodic or not: (i) replacing the unused coordinates of generators, anchor and width by arbitrary values leaves the serialised tessellation bitwise unchanged; "
                "(ii) every face normal is a unit vector with zero unused components and no face has its normal along an unused axis; (iii) 1D: exact closed form (boundaries at midpoints of sorted neighbours / walls / wrapped images, "
                "two faces of area 1 per cell, measure = length); (iv) 1D and 2D vs the implementation's 3D build of the same generators in the unit bar/slab: measure, centroid, in-plane faces; "
                "non-trivial = record with >= 2 generators; panicking near-degenerate inputs are C05's business (counted)")
    chk.lean(['MVoro.Props.C08', 'MVoro.Proofs.LowDim'], ['MVoro.Obl.DimInput'], ['DimInput'])
    got = run_cells_op(chk, op='lowdim')
    if got is None:
        return
    recs, model = got
    npanic = 0
    for r in recs:
        chk.count()
        rp = {'op': 'lowdim', 'ids': [r.id], 'family': r.family, 'record': r.line[:8000]}
        inp = parse_input(r.inp[:r.inp.index('B')])
        A, B, C, I = split_abc(r.res)
        if A[0] == 'PANIC' or B[0] == 'PANIC':
            if (A[0] == 'PANIC') != (B[0] == 'PANIC'):
                chk.violation('impl-vs-impl', 'construction panics depending on the unused coordinates (record %d, %s): %s / %s' % (r.id, r.family, ' '.join(A[:4]), ' '.join(B[:4])), rp, key='unused-coords')
            npanic += 1
            chk.panic_record(r, ' '.join((A if A[0] == 'PANIC' else B)[:6]), rp)
            continue
        if A != B:
            k = next(i for i in range(min(len(A), len(B))) if A[i] != B[i]) if len(A) == len(B) else -1
            chk.violation('impl-vs-impl', 'result depends on the unused coordinates of generators / anchor / width (record %d, %s, first differing token %d)' % (r.id, r.family, k), rp, key='unused-coords')
            continue
        va = parse_voronoi_tok(Tok(A))
        tol = Tol(inp)
        d = inp.dim
        # (ii) normals
        for f in va['faces']:
            nrm = f.normal
            if any(x is None for x in nrm):
                chk.violation('impl-vs-oracle', 'non-finite face normal (record %d)' % r.id, rp, key='normal')
                break
            if abs(sum(x * x for x in nrm) - 1) > tol.unit * 4 or any(nrm[a] != 0 for a in range(d, 3)):
                chk.violation('impl-vs-oracle', 'face %d|%s has normal %s: not a unit vector inside the active subspace (record %d, %s)' % (f.left, f.right, fl3(nrm), r.id, r.family), rp, key='normal')
                break
        # (ii') the integrator's face integrals (all faces per cell, and the symmetric variant): no face orthogonal to the
        # active subspace (a cap of the unit slab has its centroid at +-1/2 along an unused axis and no right generator)
        if 'CL' in I:
            k = I.index('CL')
            flags = I[k + 1:k + 3]
            if flags != ['1', '1']:
                chk.violation('impl-vs-impl', 'a copy (Clone) of the %s gives other faces / face integrals than the original in a %dD build: faces along unused axes or other values (flags %s, record %d, %s)'
                              % ('VoronoiIntegrator' if flags[:1] != ['1'] else 'ConvexCell', d, ' '.join(flags), r.id, r.family), rp, key='clone')
            else:
                chk.extra_cov['clone_routes_same'] = chk.extra_cov.get('clone_routes_same', 0) + 1
        if I and I[0] != 'PANIC':
            fi = integrator_faces(I)
            stored = sorted((f.left, -1 if f.right is None else f.right, f.shift is not None) for f in va['faces'])
            for tag in ('FN', 'FS'):
                for (left, right, shift, area, cen) in fi.get(tag, []):
                    if area is not None and abs(area) <= tol.area * 100:
                        continue      # negligible face: its centroid is 0/0 noise
                    if any(x is None for x in cen) or any(abs(cen[a]) > Fraction(1, 10 ** 3) for a in range(d, 3)):
                        chk.violation('impl-vs-oracle', 'face integral (%s) of cell %d towards %s has its centroid %s outside the active subspace: a face orthogonal to it is reported (record %d, %s)'
                                      % (tag, left, right, fl3(cen), r.id, r.family), rp, key='gen-on-wall' if (right is None and gen_on_wall(inp, left)) else 'orthogonal-face')
                        break
            sym = sorted((l, -1 if rr is None else rr, sh is not None) for (l, rr, sh, _, _) in fi.get('FS', []))
            if sym != stored:
                chk.violation('impl-vs-oracle', 'symmetric face integrals of the %dD integrator list %d faces, the tessellation stores %d (record %d, %s)' % (d, len(sym), len(stored), r.id, r.family), rp, key='orthogonal-face')
        if tol.ill:
            chk.extra_cov['ill_conditioned_skipped'] = chk.extra_cov.get('ill_conditioned_skipped', 0) + 1
            continue
        # (iii') the exact rational oracle on the same (normalised) input: measure and centroid of every cell
        exact = None
        m = model.get(r.id)
        mm = parse_model(m) if m and m[0] == 'NC' else None
        if mm is not None and all(c.failed == 'ok' for c in mm['cells']):
            exact = {c.idx: c for c in mm['cells']}
            for i in range(inp.n):
                ca = va['cells'][i]
                if i in exact and (ca.volume is None or abs(ca.volume - exact[i].vol) > 2 * tol.vol):
                    chk.violation('impl-vs-model', '%dD cell measure %s differs from the exact measure %s of the cell in the active subspace, record %d (%s) cell %d' % (
                        d, fl(ca.volume), fl(exact[i].vol), r.id, r.family, i), rp, key='lowdim-exact')
                    break
            chk.extra_cov['cells_vs_exact_oracle'] = chk.extra_cov.get('cells_vs_exact_oracle', 0) + inp.n
        # (iii) closed form in 1D
        if d == 1:
            xs = sorted((inp.ngens[i][0], i) for i in range(inp.n))
            a0, w0 = inp.na[0], inp.nw[0]
            for k, (x, i) in enumerate(xs):
                if inp.periodic:
                    left = xs[k - 1][0] if k > 0 else xs[-1][0] - w0
                    right = xs[k + 1][0] if k + 1 < len(xs) else xs[0][0] + w0
                    lo, hi = (x + left) / 2, (x + right) / 2
                else:
                    lo = (x + xs[k - 1][0]) / 2 if k > 0 else a0
                    hi = (x + xs[k + 1][0]) / 2 if k + 1 < len(xs) else a0 + w0
                c = va['cells'][i]
                where = 'record %d (%s) cell %d' % (r.id, r.family, i)
                if c.volume is None or abs(c.volume - (hi - lo)) > tol.vol:
                    chk.violation('impl-vs-oracle', '1D cell measure %s differs from the closed form %s, %s' % (fl(c.volume), fl(hi - lo), where), rp, key='closed-form')
                    continue
                if hi - lo > 1000 * tol.vol and not close3(c.centroid, [(lo + hi) / 2, F0, F0], 10 * tol.pos):
                    chk.violation('impl-vs-oracle', '1D cell centroid %s differs from the closed form %s, %s' % (fl3(c.centroid), fl((lo + hi) / 2), where), rp, key='closed-form')
                    continue
                fs = [va['faces'][j] for j in va['conn'][c.off:c.off + c.cnt]]
                on_wall = (not inp.periodic) and (x == a0 or x == a0 + w0)
                if len(fs) != 2 or any(f.area is None or abs(f.area - 1) > tol.area for f in fs):
                    if not on_wall:
                        chk.violation('impl-vs-oracle', '1D cell has faces with areas %s instead of two faces of area 1, %s' % ([fl(f.area) for f in fs], where), rp, key='closed-form')
                    else:
                        chk.violation('impl-vs-oracle', '1D cell has faces with areas %s instead of two faces of area 1 (generator on the wall), %s' % ([fl(f.area) for f in fs], where), rp, key='gen-on-wall')
                    continue
                pos = sorted(f.centroid[0] for f in fs)
                if abs(pos[0] - lo) > 10 * tol.pos or abs(pos[1] - hi) > 10 * tol.pos:
                    chk.violation('impl-vs-oracle', '1D cell boundaries %s differ from the midpoints (%s, %s), %s' % ([fl(p) for p in pos], fl(lo), fl(hi), where), rp, key='closed-form' if not on_wall else 'gen-on-wall')
        # (iv) the 3D build of the unit bar / slab
        if C[0] == 'PANIC':
            npanic += 1
        else:
            vc = parse_voronoi_tok(Tok(C))
            # the embedding has aspect ratio (unit thickness) : (active extent); for active extents << 1 see finding F4
            slabkey = 'slab-tiny' if max(inp.nw[a] for a in range(d)) < Fraction(1, 1000) else 'slab'
            for i in range(inp.n):
                ca, cc = va['cells'][i], vc['cells'][i]
                where = 'record %d (%s) cell %d' % (r.id, r.family, i)
                if ca.volume is None or cc.volume is None or abs(ca.volume - cc.volume) > 2 * tol.vol:
                    # which side is wrong?  the known finding F4 is about the 3D build of extremely thin slabs only
                    k2 = slabkey
                    if exact is not None and i in exact and ca.volume is not None and abs(ca.volume - exact[i].vol) > 2 * tol.vol:
                        k2 = 'lowdim-exact'
                    chk.violation('impl-vs-impl', '%dD cell measure %s differs from the 3D build of the unit slab %s, %s' % (d, fl(ca.volume), fl(cc.volume), where), rp, key=k2)
                    continue
                if ca.volume > 1000 * tol.vol and not close3(ca.centroid, cc.centroid, 10 * tol.pos):
                    chk.violation('impl-vs-impl', '%dD cell centroid %s differs from the 3D build of the unit slab %s, %s' % (d, fl3(ca.centroid), fl3(cc.centroid), where), rp, key=slabkey)
                    continue

                def inplane(v, c, threed):
                    out = {}
                    for j in v['conn'][c.off:c.off + c.cnt]:
                        f = v['faces'][j]
                        if f.area is None:
                            out['nan'] = 1
                            continue
                        if threed and any(abs(f.normal[a]) > Fraction(1, 2) for a in range(d, 3)):
                            continue     # caps of the slab / bar
                        other = f.right if f.left == i else f.left
                        if f.right is None:
                            other = 'wall'
                        elif f.right == f.left or f.shift is not None:
                            other = ('img', f.right if f.left == i else f.left)
                        out[other] = out.get(other, Fraction(0)) + f.area
                    return out
                fa, fc = inplane(va, ca, False), inplane(vc, cc, True)
                for k in set(fa) | set(fc):
                    if abs(fa.get(k, 0) - fc.get(k, 0)) > 8 * tol.area:
                        key = 'gen-on-wall' if (k == 'wall' and gen_on_wall(inp, i)) else slabkey
                        chk.violation('impl-vs-impl', '%dD face area towards %s is %s, in the 3D slab build %s, %s' % (d, k, fl(fa.get(k, 0)), fl(fc.get(k, 0)), where), rp, key=key)
                        break
        chk.traces += 1
        if inp.n >= 2:
            chk.nontriv(r.id)
        if len(chk.samples) < 2 and d == 1 and inp.n >= 4:
            chk.sample({'op': 'lowdim', 'family': r.family, 'n': inp.n, 'first_cell_volume': fl(va['cells'][0].volume), 'faces': len(va['faces'])})
    chk.extra_cov['records_with_panic_skipped_see_C05'] = npanic
