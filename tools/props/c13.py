"""C13 — integrator and direct routes agree; built-in integrals reproduce stored values."""
from common import *
from tesslib import *
from props.c01 import run_cells_op
from props.c12 import parse_routes_impl, parse_routes_model, mask_str, TRUSTED as T12

TRUSTED = T12 + ["bitwise comparisons are implementation-vs-implementation (same process, same floats); the with-faces route uses a different decomposition and is compared within the tolerance of DESIGN §3.6"]


def hdr(f, inp):
    return (f.left, f.right, None if f.shift is None else tuple(hex_bits(x) for x in f.shift))


def hex_bits(fr):
    return fr


def run(chk):
    chk.trusted_base = TRUSTED
    chk.rule = ("op routes (same records as C12): Voronoi::build[_partial] vs Voronoi::from(&VoronoiIntegrator) compared bitwise (all tokens); compute_cell_integrals<VolumeCentroid> vs stored cells; "
                "compute_face_integrals_sym<AreaCentroid> vs stored faces (bitwise, order included); sym vs filtered non-sym; with_faces route within tolerance; headers vs Model/Tess; "
                "non-trivial = tessellation with >= 1 interior face")
    chk.lean(['MVoro.Props.C13', 'MVoro.Proofs.TessBook'], ['MVoro.Obl.DimInput', 'MVoro.Obl.Integrals', 'MVoro.Obl.Rules'], ['DimInput', 'Integrals', 'Geom', 'Rules'])
    got = run_cells_op(chk, op='routes')
    if got is None:
        return
    recs, model = got
    release_parity(chk, 'routes', recs)
    for r in recs:
        chk.count()
        rp = {'op': r.op, 'ids': [r.id], 'family': r.family, 'record': r.line[:3000]}
        impl = parse_routes_impl(r.res)
        if 'panic' in impl or 'panic' in impl.get('direct', {}) or 'panic' in impl.get('via', {}):
            chk.panic_record(r, impl.get('panic') or impl.get('direct', {}).get('panic') or impl.get('via', {}).get('panic'), rp)
            continue
        inp = parse_input(r.inp)
        tol = Tol(inp)
        where = '(record %d, %s, mask %s)' % (r.id, r.family, mask_str(inp))
        d, v = impl['direct'], impl['via']
        # 1. bitwise equality of the two routes
        if d['tokens'] != v['tokens']:
            k = next(i for i, (a, b) in enumerate(zip(d['tokens'], v['tokens'])) if a != b) if len(d['tokens']) == len(v['tokens']) else -1
            chk.violation('impl-vs-impl', 'Voronoi::from(&integrator) differs from the direct build at token %d %s' % (k, where), rp, key='routes')
        # 1b. what each route reports about its own box: the normalised box, the dimensionality, the periodicity
        for nm, vv in (('direct build', d), ('Voronoi::from(&integrator)', v), ('with_faces route', impl['viaf'])):
            meta = vv.get('meta') if vv else None
            if meta is None:
                continue
            if meta['anchor'] != inp.na or meta['width'] != inp.nw or meta['dim'] != inp.dim or bool(meta['periodic']) != inp.periodic:
                chk.violation('impl-vs-model', '%s reports anchor %s width %s dim %d periodic %d; the normalised box is anchor %s width %s (dim %d periodic %d) %s' % (
                    nm, [float(x) if x is not None else None for x in meta['anchor']], [float(x) if x is not None else None for x in meta['width']], meta['dim'], meta['periodic'],
                    [float(x) for x in inp.na], [float(x) for x in inp.nw], inp.dim, inp.periodic, where), rp, key='meta')
        active = inp.mask if inp.mask is not None else [True] * inp.n
        # 2. cell integrals = stored values of constructed cells in index order
        raw = r.res
        ci = impl['ci']
        stored = []
        # re-read raw hex tokens of cells from the DIRECT serialisation: c vol cx cy cz lx ly lz sr off cnt k nbrs
        toks = d['tokens']
        i = 3
        cellhex = []
        for c in d['cells']:
            assert toks[i] == 'c'
            cellhex.append(toks[i + 1:i + 5])
            i += 11 + 1 + len(c.nbrs)
        want = [cellhex[k] for k in range(inp.n) if active[k]]
        if ci != want:
            chk.violation('impl-vs-impl', 'compute_cell_integrals<VolumeCentroid> != stored volume/centroid of the constructed cells in index order %s' % where, rp, key='ci')
        # 3. symmetric face integrals = stored faces (order, headers, values bitwise)
        i = toks.index('NF') + 2
        facehex = []
        for f in d['faces']:
            assert toks[i] == 'f'
            ln = 3 + (4 if f.shift is not None else 1) + 4 + 3
            seg = toks[i + 1:i + ln]
            # left right shift.. area cent(3) normal(3)
            sh = seg[2:6] if f.shift is not None else seg[2:3]
            rest = seg[2 + len(sh):]
            facehex.append((f.left, f.right, None if f.shift is None else sh[1:], rest[:4]))
            i += ln
        fs = [(a, b, c, vals) for (a, b, c, vals) in impl['fs']]
        if fs != facehex:
            chk.violation('impl-vs-impl', 'compute_face_integrals_sym<AreaCentroid> != stored face list (headers, area, centroid; order included) %s' % where, rp, key='fs')
        # 3b. the plain VolumeIntegral / AreaIntegral give the same numbers as the centroid variants; get_cell_at follows the mask
        if 'vo' in impl:
            if impl['vo'] != [c[0] for c in ci]:
                chk.violation('impl-vs-impl', 'compute_cell_integrals<VolumeIntegral> != volumes of compute_cell_integrals<VolumeCentroidIntegral> (bitwise, order included) %s' % where, rp, key='vo')
            if impl['ao'] != [x[3][0] for x in impl['fn']]:
                chk.violation('impl-vs-impl', 'compute_face_integrals<AreaIntegral> != areas of compute_face_integrals<AreaCentroidIntegral> (bitwise, order included) %s' % where, rp, key='ao')
            want_gc = ''.join('1' if a else '0' for a in active)
            if impl['gc'] != want_gc:
                chk.violation('impl-vs-oracle', 'get_cell_at: presence / idx pattern %s, the mask says %s %s' % (impl['gc'], want_gc, where), rp, key='gc')
        # 4. sym = nonsym minus faces already reported by a constructed lower-index neighbour without shift
        filt = [x for x in impl['fn'] if not (x[2] is None and x[1] is not None and x[1] < x[0] and active[x[1]])]
        if filt != impl['fs']:
            chk.violation('impl-vs-impl', 'compute_face_integrals_sym != compute_face_integrals minus faces of constructed lower-index unshifted neighbours %s' % where, rp, key='symfilter')
        # 5. with faces: same tessellation up to rounding
        vf = impl['viaf']
        if vf is not None and 'panic' not in vf:
            ok = len(vf['cells']) == len(d['cells']) and impl_structure(vf) == impl_structure(d)
            if ok:
                for ci_, (a, b) in enumerate(zip(vf['cells'], d['cells'])):
                    if a.volume is None or abs(a.volume - b.volume) > tol.vol or not close3(a.centroid, b.centroid, tol.pos * 100):
                        ok = False
                    # generator position and safety radius do not depend on how the cell is decomposed: bitwise
                    if (a.loc, a.sr) != (b.loc, b.sr):
                        chk.violation('impl-vs-impl', 'cell %d: generator position / safety radius after with_faces() (%s) differ from the direct build (%s) %s'
                                      % (ci_, a.sr if a.sr is None else float(a.sr), b.sr if b.sr is None else float(b.sr), where), rp, key='viaf-radius')
                        break
                for a, b in zip(vf['faces'], d['faces']):
                    if a.area is None or abs(a.area - b.area) > tol.area * 10:
                        ok = False
            if not ok and not tol.ill:
                # which faces differ?  wall faces of generators lying on that wall are the known defect
                only_wall = impl_structure(vf) == impl_structure(d) and all(
                    (a.area is not None and abs(a.area - b.area) <= tol.area * 10) or (a.right is None and gen_on_wall(inp, a.left))
                    for a, b in zip(vf['faces'], d['faces'])) and all(
                    abs(a.volume - b.volume) <= tol.vol for a, b in zip(vf['cells'], d['cells']))
                chk.violation('impl-vs-impl', 'route through with_faces() differs from the direct build beyond rounding %s' % where, rp, key='viaf' + (' gen-on-wall' if only_wall else ''))
        # 5b. build_voronoi_cells called twice into the same caller-kept buffers: same cells, same faces appended again, the
        #     faces stored by the first call untouched (bitwise)
        if impl.get('bvc', '-') != '-':
            chk.violation('impl-vs-impl', 'VoronoiIntegrator::build_voronoi_cells called twice into the same buffers: %s %s' % (impl['bvc'][:300], where), rp, key='bvc')
        # 6. model headers
        m = model.get(r.id)
        if m and m[0] == 'D0':
            mm = parse_routes_model(m)
            ih = [(a, b, c is not None) for (a, b, c, _) in impl['fn']]
            if ih != mm['NS']:
                chk.violation('impl-vs-model', 'non-symmetric face integral headers differ from Model/Tess %s' % where, rp, key='ns-model')
            ih = [(a, b, c is not None) for (a, b, c, _) in impl['fs']]
            if ih != mm['SY']:
                chk.violation('impl-vs-model', 'symmetric face integral headers differ from Model/Tess %s' % where, rp, key='sy-model')
            if impl_structure(v) != mm['V1']:
                chk.violation('impl-vs-model', 'integrator route structure differs from Model/Tess %s' % where, rp, key='v1-model')
        else:
            chk.violation('driver', 'model produced no result for record %d' % r.id, None)
        chk.traces += 1
        if any(f.right is not None for f in d['faces']):
            chk.nontriv(r.id)
        if len(chk.samples) < 3:
            chk.sample({'op': 'routes', 'family': r.family, 'n': inp.n, 'mask': mask_str(inp), 'faces_stored': len(d['faces']), 'faces_sym': len(impl['fs']), 'faces_nonsym': len(impl['fn']), 'cell_integrals': len(ci)})
