#!/usr/bin/env python3
"""Apply a seeded change to /repo, run the given checks (default: the property it targets), undo it.

usage: tools/seedtest.py <patch.diff> <check ids...> [--tier quick|thorough] [--all]
Prints one line per check: id, exit code, VIOLATION / KNOWN lines.  /repo is restored even on failure.
Evidence files are restored afterwards (a run against a modified tree must not be committed as evidence)."""
import os
import subprocess
import sys
import shutil
import tempfile

V = os.path.dirname(os.path.dirname(os.path.abspath(__file__)))


def main():
    args = sys.argv[1:]
    patch = os.path.abspath(args[0])
    tier = 'quick'
    ids = []
    i = 1
    while i < len(args):
        if args[i] == '--tier':
            tier = args[i + 1]
            i += 1
        elif args[i] == '--all':
            ids = ['C%02d' % k for k in range(1, 21)]
        else:
            ids.append(args[i])
        i += 1
    st = subprocess.run(['git', '-C', '/repo', 'status', '--porcelain'], capture_output=True, text=True).stdout.strip()
    if st:
        print('refusing: /repo is not clean:\n' + st)
        sys.exit(2)
    keep = tempfile.mkdtemp(prefix='evid_keep_')
    shutil.copytree(os.path.join(V, 'evidence'), os.path.join(keep, 'evidence'))
    rc = subprocess.run(['git', '-C', '/repo', 'apply', patch]).returncode
    if rc != 0:
        print('patch does not apply')
        sys.exit(2)
    results = {}
    try:
        for pid in ids:
            p = subprocess.run([os.path.join(V, 'check'), pid, '--tier', tier], cwd=V, capture_output=True, text=True)
            lines = [l for l in p.stdout.splitlines() if l.startswith(('VIOLATION', 'KNOWN'))]
            viol = [l for l in p.stderr.splitlines() if l.startswith('violation:')]
            results[pid] = (p.returncode, lines, viol)
            print('%s rc=%d %s %s' % (pid, p.returncode, ' | '.join(l[:160] for l in lines if l.startswith('VIOLATION')), (viol[0][:300] if viol else '')), flush=True)
    finally:
        subprocess.run(['git', '-C', '/repo', 'checkout', '--', '.'])
        subprocess.run(['git', '-C', '/repo', 'clean', '-fdq', 'tests', 'examples'])
        shutil.rmtree(os.path.join(V, 'evidence'))
        shutil.copytree(os.path.join(keep, 'evidence'), os.path.join(V, 'evidence'))
        shutil.rmtree(keep)
        # regenerate Gen from the restored tree so that the next lake build starts clean
        subprocess.run([sys.executable, os.path.join(V, 'tools', 'extract.py')], capture_output=True)
    caught = [p for p, (rc, _, _) in results.items() if rc != 0]
    print('CAUGHT-BY', ' '.join(caught) if caught else '-')


if __name__ == '__main__':
    main()
