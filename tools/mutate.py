#!/usr/bin/env python3
"""Own mutation sweep over code areas the seeded changes did not touch (no demonstrations, not part of seeded/).
For each mutant: apply textual edit to /repo, check that it compiles and whether the existing unit tests notice, run the
listed checks, restore /repo.  usage: tools/mutate.py [names...]"""
import os, subprocess, sys, shutil, tempfile
V = os.path.dirname(os.path.dirname(os.path.abspath(__file__)))
M = [
 ('clip_le', 'src/voronoi/convex_cell.rs', "            if clip < 0. {", "            if clip <= 0. {", ['C05', 'C01']),
 ('no_swap', 'src/voronoi/convex_cell.rs', "                        if idx > i {\n                            vertices.swap(i, idx);\n                        }", "", ['C18', 'C01']),
 ('newvert_flip', 'src/voronoi/convex_cell.rs', "                self.vertices.push(Vertex::from_dual(\n                    cur,\n                    next,", "                self.vertices.push(Vertex::from_dual(\n                    next,\n                    cur,", ['C18', 'C05']),
 ('safety_19', 'src/voronoi/convex_cell.rs', "self.safety_radius = 2. * max_dist_2.sqrt();", "self.safety_radius = 1.5 * max_dist_2.sqrt();", ['C16', 'C01']),
 ('decomp_proj', 'src/voronoi/convex_cell.rs', "            self.projections[(self.cur_tet_idx + 5) % 6],", "            self.projections[(self.cur_tet_idx + 1) % 6],", ['C14', 'C01']),
 ('fan_start', 'src/voronoi/convex_cell.rs', "            cur_vertex_idx: 1,\n            convex_cell,", "            cur_vertex_idx: 2,\n            convex_cell,", ['C14', 'C13', 'C15']),
 ('sort_next', 'src/voronoi/convex_cell.rs', "                    next_plane = cur_v.dual[(p_idx_in_cur_v + 1) % 3];", "                    next_plane = cur_v.dual[(p_idx_in_cur_v + 2) % 3];", ['C15']),
 ('gen_proj', 'src/voronoi/generator.rs', "            Dimensionality::TwoD => loc.z = 0.,", "            Dimensionality::TwoD => (),", ['C08', 'C01']),
 ('valid_2d', 'src/voronoi.rs', "            Self::TwoD => v.z == 0.,", "            Self::TwoD => v.z.abs() < 2.,", ['C08', 'C04']),
 ('shift_sign', 'src/rtree_nn.rs', "                    Some(-DVec3::from_array(shift))", "                    Some(DVec3::from_array(shift))", ['C06', 'C17', 'C01']),
 ('ring_max', 'src/space.rs', "self.cells[0].width.min_element();", "self.cells[0].width.max_element();", ['C20']),
 ('welzl_3', 'src/bounding_sphere.rs', "if points.is_empty() || boundary.len() == 4 {", "if points.is_empty() || boundary.len() == 3 {", ['C20']),
 ('epos_noext', 'src/bounding_sphere.rs', "            sphere = sphere.extend(*point);", "            let _ = point;", ['C20']),
 ('sphere3_sign', 'src/geometry.rs', "(a_2 * b - b_2 * a)", "(a_2 * b + b_2 * a)", ['C19', 'C20']),
 ('mask_bit', 'src/voronoi/boundary.rs', "0xFFFFFFFFFFFFFu64", "0x7FFFFFFFFFFFFu64", ['C10', 'C05']),
 ('clip_never_tie', 'src/voronoi/half_space.rs', "if clip.abs() < self.errb {", "if clip == 0. {", ['C05']),
 ('wall_nomirror', 'src/voronoi/half_space.rs', "            2. * projected - left_loc", "            1.5 * projected - 0.5 * left_loc", ['C05', 'C10']),
 ('faces_off', 'src/voronoi/convex_cell.rs', "                    vertex_offset: offset,\n                };\n                offset += face.vertex_count;", "                    vertex_offset: offset + 1,\n                };\n                offset += face.vertex_count;", ['C15']),
 ('nbr_flip', 'src/voronoi/voronoi_cell.rs', "            Some(if face.left() == self.idx {", "            Some(if face.left() != self.idx {", ['C12']),
 ('centroid_w', 'src/voronoi/integrals.rs', None, None, ['C01', 'C13']),
 ('heap_le', 'src/space.rs', "                            if d_2 < max_d_2 {", "                            if d_2 > max_d_2 {", ['C20']),
 ('tripled_y', 'src/voronoi/boundary.rs', "                anchor.y -= width.y;\n                width.y *= 3.;", "                anchor.y -= width.y;\n                width.y *= 2.;", ['C06', 'C01', 'C05']),
 ('tryext_case2', 'src/simple_cycle.rs', "                self.len -= 1;", "                self.len -= 0;", ['C18']),
 ('det_minor', 'src/geometry.rs', None, None, ['C10']),
]

def sh(cmd, cwd=None, timeout=3600):
    p = subprocess.run(cmd, cwd=cwd, capture_output=True, text=True, timeout=timeout, shell=isinstance(cmd, str))
    return p.returncode, p.stdout + p.stderr

def main():
    names = set(sys.argv[1:])
    st = sh('git -C /repo status --porcelain')[1].strip()
    if st:
        print('refusing: /repo dirty'); sys.exit(2)
    keep = tempfile.mkdtemp(prefix='evid_keep_')
    shutil.copytree(os.path.join(V, 'evidence'), os.path.join(keep, 'evidence'))
    try:
        for (name, f, old, new, checks) in M:
            if names and name not in names:
                continue
            if old is None:
                continue
            p = os.path.join('/repo', f)
            s = open(p).read()
            if s.count(old) < 1:
                print('%-14s SITE NOT FOUND' % name, flush=True); continue
            open(p, 'w').write(s.replace(old, new, 1))
            try:
                rc, out = sh('cargo build --offline 2>&1 | tail -3', cwd='/repo')
                if 'error' in out:
                    print('%-14s does not compile' % name, flush=True); continue
                rc, out = sh('cargo test --offline --lib 2>&1 | grep -E "^test result"', cwd='/repo')
                tests = 'tests-pass' if ' 0 failed' in out else 'TESTS-FAIL'
                res = []
                for c in checks:
                    rc, out = sh([os.path.join(V, 'check'), c, '--tier', 'quick'], cwd=V)
                    viol = [l for l in out.splitlines() if l.startswith('violation:')]
                    res.append('%s=%s' % (c, 'CAUGHT' if rc != 0 else 'missed'))
                    if rc != 0 and viol:
                        res.append('(' + viol[0][11:120] + ')')
                print('%-14s %s  %s' % (name, tests, ' '.join(res)), flush=True)
            finally:
                sh('git -C /repo checkout -- .')
    finally:
        shutil.rmtree(os.path.join(V, 'evidence'))
        shutil.copytree(os.path.join(keep, 'evidence'), os.path.join(V, 'evidence'))
        shutil.rmtree(keep)
        sh([sys.executable, os.path.join(V, 'tools', 'extract.py')])

main()
