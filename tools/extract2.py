"""Second generation of translator fragments (used by extract.py).

`ProcEmitter` extends the typed float translation of extract.FloatEmitter from straight-line functions to the small
imperative subset the builders use: `let mut`, assignment to a local or to a field of a local vector, `+=`/`*=`,
`match dimensionality { .. }`, `if let Dimensionality::A | Dimensionality::B = dimensionality { .. }`,
`if let Some(x) = opt { .. } [else { .. }]`, `if c { .. } [else { .. }]`, early `return`.  Everything is emitted as a
Lean `Id.run do` block that mirrors the Rust statements one to one; the obligations (`MVoro/Obl/*.lean`) then prove the
generated definitions equal to the hand-written reference definitions semantically.

Rule fragments (which faces a cell stores, the symmetric skip, the links of `finalize`, `neighbour_ids`) are translated
by `RuleEmitter` to Lean terms over `Bool`, `Nat`, `Option`.
"""
from rustmini import Unparsed, tokenize, find_fn, find_impl, find_matching, parse_body, Parser, params_of, strip_attrs_cfg

DIMS = ('OneD', 'TwoD', 'ThreeD')
LTY = {'F': 'α', 'V3': 'V3 α', 'V4': 'V4 α', 'Plane': 'Plane α', 'Sphere': 'Sphere α', 'B': 'Bool', 'HalfSpace': 'HalfSpaceM α',
       'Dim': 'Dim', 'OptV3': 'Option (V3 α)', 'CellRec': 'CellRec α', 'A3': 'V3 α', 'Box3': 'Box3 α',
       'GenLoc': 'V3 α', 'VolAcc': 'VolAcc α', 'VolOnly': 'VolOnly α', 'FaceAcc': 'FaceAcc α', 'AreaOnly': 'AreaOnly α', 'FaceNAcc': 'FaceNAcc α'}


def dim_alts(pat):
    """pattern over `Dimensionality` -> list of constructor names, or None for a wildcard"""
    if pat[0] == 'pwild':
        return None
    if pat[0] == 'por':
        out = []
        for p in pat[1]:
            a = dim_alts(p)
            if a is None:
                return None
            out += a
        return out
    if pat[0] == 'pctor' and not pat[2] and pat[1][-1] in DIMS and (len(pat[1]) == 1 or pat[1][-2] in ('Dimensionality', 'Self')):
        return [pat[1][-1]]
    raise Unparsed("dimensionality pattern %r" % (pat,))


def make_proc_emitter(FloatEmitter):
    class ProcEmitter(FloatEmitter):
        def __init__(self, self_ty):
            FloatEmitter.__init__(self, self_ty)
            self.guards = []
            self.TYPES = dict(FloatEmitter.TYPES)
            self.TYPES.update({'Dimensionality': 'Dim'})
            self.METHODS = dict(FloatEmitter.METHODS)
            self.METHODS.update({
                ('F', 'max'): ('F', 'Scalar.max {0} {1}', ['F']),
                ('F', 'min'): ('F', 'Scalar.min {0} {1}', ['F']),
                ('GenLoc', 'loc'): ('V3', '{0}', []),
                ('HalfSpace', 'normal'): ('V3', '{0}.plane.n', []),
            })
            self.FIELDS = dict(FloatEmitter.FIELDS)
            self.FIELDS.update({('CellRec', 'loc'): 'V3', ('CellRec', 'safety_radius'): 'F',
                                ('Box3', 'lower'): 'A3', ('Box3', 'upper'): 'A3',
                                ('VolAcc', 'volume'): 'F', ('VolAcc', 'centroid'): 'V3', ('VolOnly', 'volume'): 'F',
                                ('FaceAcc', 'area'): 'F', ('FaceAcc', 'centroid'): 'V3', ('AreaOnly', 'area'): 'F',
                                ('FaceNAcc', 'area'): 'F', ('FaceNAcc', 'centroid'): 'V3', ('FaceNAcc', 'normal'): 'V3'})
            self.METHODS.update({('Box3', 'lower'): ('A3', '{0}.lower', []), ('Box3', 'upper'): ('A3', '{0}.upper', [])})
            self.FUNCS = dict(FloatEmitter.FUNCS)
            self.FUNCS.update({'signed_volume_tet': ('F', 'signedVolumeTet', ['V3', 'V3', 'V3', 'V3']),
                               'signed_area_tri': ('F', 'signedAreaTri', ['V3', 'V3', 'V3', 'V3'])})
            self.deferred = set()
            self.ret_wrap = None     # how `return e` / the final value is wrapped
            self.aux = []            # Lean definitions of helper functions met on the way
            self.fn_lookup = None    # name -> (params tokens, body tokens) of a function of the same file(s)

        # ---------- expressions ----------
        def expr(self, e, env):
            k = e[0]
            if k == 'path' and len(e[1]) == 2 and e[1][0] in ('Dimensionality', 'Self') and e[1][1] in DIMS and (e[1][0] == 'Dimensionality' or self.self_ty == 'Dim'):
                return "Dim.%s" % e[1][1], 'Dim'
            if k == 'bin' and e[1] in ('==', '!='):
                a, ta = self.expr(e[2], env)
                b, tb = self.expr(e[3], env)
                if ta == tb == 'Dim':
                    t = "(decide (%s = %s))" % (a, b)
                    return (t if e[1] == '==' else "(!%s)" % t), 'B'
                if ta == tb == 'F':
                    t = "(Scalar.le %s %s && Scalar.le %s %s)" % (a, b, b, a)
                    return (t if e[1] == '==' else "(!%s)" % t), 'B'
                raise Unparsed("== on %s, %s" % (ta, tb))
            if k == 'cast':
                t, ty = self.expr(e[1], env)
                if ty == 'F' and e[2] == 'f64':
                    return t, ty
                raise Unparsed("cast to %s" % e[2])
            if k == 'match':
                s, ts = self.expr(e[1], env)
                if ts == 'OptV3':
                    arms = {}
                    for pat, guard, body in e[2]:
                        if guard is not None:
                            raise Unparsed("match guard")
                        if pat[0] == 'pctor' and pat[1] == ['Some'] and len(pat[2]) == 1 and pat[2][0][0] == 'pvar':
                            arms['some'] = (pat[2][0][1], body)
                        elif (pat[0] == 'pctor' and pat[1] == ['None'] and not pat[2]) or pat[0] == 'pwild':
                            arms['none'] = (None, body)
                        else:
                            raise Unparsed("Option pattern")
                    if set(arms) != {'some', 'none'}:
                        raise Unparsed("match on Option arms")
                    env2 = dict(env)
                    env2[arms['some'][0]] = (arms['some'][0], 'V3')
                    a, ta = self.value(arms['some'][1], env2)
                    b, tb = self.value(arms['none'][1], dict(env))
                    if ta != tb:
                        raise Unparsed("match arms of different type")
                    return "(match %s with\n    | some %s => %s\n    | none => %s)" % (s, arms['some'][0], a, b), ta
                if ts != 'Dim':
                    raise Unparsed("match on %s" % ts)
                arms = []
                rty = None
                for pat, guard, body in e[2]:
                    if guard is not None:
                        raise Unparsed("match guard")
                    alts = dim_alts(pat)
                    t, ty = self.expr(body, env)
                    if rty is not None and ty != rty:
                        raise Unparsed("match arms of different type")
                    rty = ty
                    lhs = ' | '.join('.' + a for a in alts) if alts is not None else '_'
                    arms.append("| %s => %s" % (lhs, t))
                return "(match %s with %s)" % (s, ' '.join(arms)), rty
            if k == 'iflet':
                pat, scrut, then, els = e[1], e[2], e[3], e[4]
                s, ts = self.expr(scrut, env)
                if ts == 'OptV3' and pat[0] == 'pctor' and pat[1] == ['Some'] and len(pat[2]) == 1 and pat[2][0][0] == 'pvar' and els is not None:
                    env2 = dict(env)
                    env2[pat[2][0][1]] = (pat[2][0][1], 'V3')
                    a, ta = self.block_value(then, env2)
                    b, tb = self.block_value(els, dict(env))
                    if ta != tb:
                        raise Unparsed("if-let branches of different type")
                    return "(match %s with\n    | some %s => %s\n    | none => %s)" % (s, pat[2][0][1], a, b), ta
                raise Unparsed("if-let expression form")
            if k == 'block':
                return self.block_value(e, dict(env))
            if k == 'index':
                t, ty = self.expr(e[1], env)
                if ty == 'A3' and e[2][0] == 'num' and e[2][1] in ('0', '1', '2'):
                    return "%s.%s" % (t, 'xyz'[int(e[2][1])]), 'F'
                raise Unparsed("index into %s" % ty)
            if k == 'array' and len(e[1]) == 3:
                parts = [self.expr(x, env) for x in e[1]]
                if all(p[1] == 'F' for p in parts):
                    return "(V3.mk %s)" % ' '.join(p[0] for p in parts), 'A3'
                raise Unparsed("array literal")
            if k == 'call' and e[1][0] == 'path' and e[1][1] == ['DVec3', 'new'] and len(e[2]) == 3:
                parts = [self.expr(x, env) for x in e[2]]
                if all(p[1] == 'F' for p in parts):
                    return "(V3.mk %s)" % ' '.join(p[0] for p in parts), 'V3'
                raise Unparsed("DVec3::new arguments")
            if k == 'call' and e[1][0] == 'path' and e[1][1] == ['DVec3', 'from_array'] and len(e[2]) == 1:
                t, ty = self.expr(e[2][0], env)
                if ty == 'A3':
                    return t, 'V3'
                raise Unparsed("DVec3::from_array argument")
            if (k == 'call' and e[1][0] == 'path' and e[1][1][-1] not in getattr(self, 'local_fns', {}) and e[1][1][-1] not in self.FUNCS
                    and (len(e[1][1]) == 1 or (len(e[1][1]) == 2 and e[1][1][0] == 'Self')) and getattr(self, 'fn_lookup', None) is not None
                    and e[1][1][-1][0].islower()):
                # a call to a helper function of the same file: translate the helper (parameter types from the arguments)
                name = e[1][1][-1]
                got = self.fn_lookup(name)
                if got is not None:
                    hp, hb = got
                    args = [self.expr(x, env) for x in e[2]]
                    names = [nm for nm, _ in params_of(hp)]
                    if len(names) != len(args) or 'self' in names:
                        raise Unparsed("helper %s arity" % name)
                    sub = type(self)(self.self_ty)
                    sub.fn_lookup = self.fn_lookup
                    sub.aux = self.aux
                    sub.local_fns = dict(getattr(self, 'local_fns', {}))
                    henv = {nm: (nm, a[1]) for nm, a in zip(names, args)}
                    hblk = parse_body(hb)
                    t, ty = sub.block_value(hblk, henv)
                    # inlined at the call site (`let` per parameter), so that the obligations need not know the helper's name
                    binds = ''.join("let %s := %s; " % (nm, a[0]) for nm, a in zip(names, args))
                    return "(%s%s)" % (binds, t), ty
            if k == 'call' and e[1][0] == 'path' and e[1][1][-1] in getattr(self, 'local_fns', {}) and (len(e[1][1]) == 1 or e[1][1][0] == 'Self'):
                rty, name, argtys = self.local_fns[e[1][1][-1]]
                args = [self.expr(x, env) for x in e[2]]
                if [a[1] for a in args] != argtys:
                    raise Unparsed("arguments of %s" % e[1][1][-1])
                return "(%s %s)" % (name, ' '.join(a[0] for a in args)), rty
            if k == 'call' and e[1][0] == 'path' and len(e[1][1]) == 1 and e[1][1][0] in getattr(self, 'local_fns', {}):
                rty, name, argtys = self.local_fns[e[1][1][0]]
                args = [self.expr(x, env) for x in e[2]]
                if [a[1] for a in args] != argtys:
                    raise Unparsed("arguments of %s" % e[1][1][0])
                return "(%s %s)" % (name, ' '.join(a[0] for a in args)), rty
            if k == 'path' and e[1] == ['None']:
                return "none", 'OptV3'
            if k == 'call' and e[1] == ('path', ['Some']) and len(e[2]) == 1:
                t, ty = self.expr(e[2][0], env)
                if ty == 'V3':
                    return "(some %s)" % t, 'OptV3'
                raise Unparsed("Some(..) of %s" % ty)
            if k == 'path' and e[1] in (['true'], ['false']):
                return e[1][0], 'B'
            if k == 'path' and e[1] == ['DVec3', 'ZERO']:
                return "(V3.mk (N α 0) (N α 0) (N α 0))", 'V3'
            if k == 'un' and e[1] == '-':
                t, ty = self.expr(e[2], env)
                if ty in ('F', 'V3'):
                    return "(-%s)" % t, ty
                raise Unparsed("unary - on %s" % ty)
            if k == 'if':
                # allow blocks with statements in the branches
                c, ct = self.expr(e[1], env)
                if ct != 'B' or e[3] is None:
                    raise Unparsed("if expression form")
                a, ta = self.block_value(e[2], dict(env))
                b, tb = self.block_value(e[3], dict(env)) if e[3][0] == 'block' else self.expr(e[3], env)
                if ta != tb:
                    raise Unparsed("if branches of different type")
                return "(if %s then %s else %s)" % (c, a, b), ta
            return FloatEmitter.expr(self, e, env)

        def value(self, e, env):
            return self.block_value(e, env) if e[0] == 'block' else self.expr(e, env)

        def block_value(self, blk, env):
            if blk[0] != 'block' or blk[2] is None:
                raise Unparsed("block without a value")
            if not blk[1]:
                return self.expr(blk[2], env)
            lines = []
            self.stmts(blk[1], env, lines, "    ")
            t, ty = self.expr(blk[2], env)
            return "(Id.run do\n%s\n    return %s)" % ('\n'.join(lines), t), ty

        # ---------- statements ----------
        def assign_target(self, lhs, env):
            """-> (local name, field or None, type of the local)"""
            if lhs[0] == 'path' and len(lhs[1]) == 1 and lhs[1][0] in env:
                nm, ty = env[lhs[1][0]]
                return nm, None, ty
            if lhs[0] == 'field' and lhs[1][0] == 'path' and len(lhs[1][1]) == 1 and lhs[1][1][0] in env:
                nm, ty = env[lhs[1][1][0]]
                return nm, lhs[2], ty
            if lhs[0] == 'index' and lhs[1][0] == 'path' and len(lhs[1][1]) == 1 and lhs[1][1][0] in env and lhs[2][0] == 'num':
                nm, ty = env[lhs[1][1][0]]
                if ty == 'A3':
                    return nm, 'xyz'[int(lhs[2][1])], ty
            raise Unparsed("assignment target")

        def stmts(self, ss, env, lines, ind):
            i = 0
            while i < len(ss):
                s = ss[i]
                i += 1
                if s[0] == 'let':
                    _, mut, pat, ty, init = s
                    if pat[0] != 'pvar':
                        raise Unparsed("let pattern")
                    if init is None:
                        self.deferred.add(pat[1])
                        continue
                    t, tt = self.expr(init, env)
                    lines.append("%slet %s%s := %s" % (ind, 'mut ' if mut else '', pat[1], t))
                    env[pat[1]] = (pat[1], tt)
                elif s[0] == 'expr' and s[1][0] == 'macro' and s[1][1] in ('assert', 'debug_assert', 'assert_eq', 'debug_assert_eq'):
                    self.guards.append(' '.join(x[1] for x in s[1][2])[:100])
                elif s[0] == 'assign':
                    _, op, lhs, rhs = s
                    nm, fld, ty = self.assign_target(lhs, env)
                    t, tt = self.expr(rhs, env)
                    if fld is None:
                        if op == '=' and tt == ty:
                            new = t
                        elif op == '+=' and tt == ty and ty in ('F', 'V3'):
                            new = "(%s + %s)" % (nm, t)
                        elif op == '-=' and tt == ty and ty in ('F', 'V3'):
                            new = "(%s - %s)" % (nm, t)
                        elif op == '*=' and ty == 'V3' and tt == 'F':
                            new = "(V3.smul %s %s)" % (t, nm)
                        elif op == '*=' and ty == 'F' and tt == 'F':
                            new = "(%s * %s)" % (nm, t)
                        else:
                            raise Unparsed("assignment %s of %s to %s" % (op, tt, ty))
                        lines.append("%s%s := %s" % (ind, nm, new))
                    else:
                        fty = self.FIELDS.get((ty, fld)) or ('F' if ty == 'A3' and fld in 'xyz' else None)
                        if fty is None:
                            raise Unparsed("field %s of %s" % (fld, ty))
                        cur = "%s.%s" % (nm, fld)
                        if op == '=' and tt == fty:
                            new = t
                        elif op == '+=' and tt == fty and fty in ('F', 'V3'):
                            new = "(%s + %s)" % (cur, t)
                        elif op == '-=' and tt == fty and fty in ('F', 'V3'):
                            new = "(%s - %s)" % (cur, t)
                        elif op == '*=' and fty == 'V3' and tt == 'F':
                            new = "(V3.smul %s %s)" % (t, cur)
                        elif op == '*=' and fty == 'F' and tt == 'F':
                            new = "(%s * %s)" % (cur, t)
                        else:
                            raise Unparsed("assignment %s of %s to field of type %s" % (op, tt, fty))
                        lines.append("%s%s := { %s with %s := %s }" % (ind, nm, nm, fld, new))
                elif s[0] == 'expr' and s[1][0] == 'iflet':
                    _, pat, scrut, then, els = s[1]
                    sc, ts = self.expr(scrut, env)
                    if ts == 'Dim':
                        alts = dim_alts(pat)
                        if alts is None or then[2] is not None or els is not None:
                            raise Unparsed("if-let on dimensionality form")
                        lines.append("%smatch %s with" % (ind, sc))
                        lines.append("%s| %s =>" % (ind, ' | '.join('.' + a for a in alts)))
                        n0 = len(lines)
                        self.stmts(then[1], dict(env), lines, ind + "  ")
                        if len(lines) == n0:
                            lines.append("%s  pure ()" % ind)
                        lines.append("%s| _ => pure ()" % ind)
                    elif ts == 'OptV3' and pat[0] == 'pctor' and pat[1] == ['Some'] and len(pat[2]) == 1 and pat[2][0][0] == 'pvar':
                        v = pat[2][0][1]
                        # deferred initialisation: `let x; if let Some(s) = o { x = a } else { x = b }`
                        d = self.deferred_pair(then, els)
                        if d is not None:
                            env2 = dict(env)
                            env2[v] = (v, 'V3')
                            a, ta = self.expr(d[1], env2)
                            b, tb = self.expr(d[2], env)
                            if ta != tb:
                                raise Unparsed("deferred initialisation types")
                            lines.append("%slet %s := (match %s with | some %s => %s | none => %s)" % (ind, d[0], sc, v, a, b))
                            env[d[0]] = (d[0], ta)
                            self.deferred.discard(d[0])
                            continue
                        if then[2] is not None:
                            raise Unparsed("if-let statement with a value")
                        lines.append("%smatch %s with" % (ind, sc))
                        lines.append("%s| some %s =>" % (ind, v))
                        env2 = dict(env)
                        env2[v] = (v, 'V3')
                        n0 = len(lines)
                        self.stmts(then[1], env2, lines, ind + "  ")
                        if len(lines) == n0:
                            lines.append("%s  pure ()" % ind)
                        lines.append("%s| none =>" % ind)
                        n0 = len(lines)
                        if els is not None:
                            if els[0] != 'block' or els[2] is not None:
                                raise Unparsed("else branch form")
                            self.stmts(els[1], dict(env), lines, ind + "  ")
                        if len(lines) == n0:
                            lines.append("%s  pure ()" % ind)
                    else:
                        raise Unparsed("if-let statement on %s" % ts)
                elif s[0] == 'expr' and s[1][0] == 'match' and self.expr(s[1][1], env)[1] == 'OptV3':
                    # `match opt { Some(x) => {..} None => {..} }` as a statement: same as if-let / else
                    arms = {}
                    for pat, guard, body in s[1][2]:
                        if guard is not None:
                            raise Unparsed("match guard")
                        if pat[0] == 'pctor' and pat[1] == ['Some'] and len(pat[2]) == 1 and pat[2][0][0] == 'pvar':
                            arms['some'] = (pat, body)
                        elif (pat[0] == 'pctor' and pat[1] == ['None'] and not pat[2]) or pat[0] == 'pwild':
                            arms['none'] = (pat, body)
                        else:
                            raise Unparsed("Option pattern")
                    if set(arms) != {'some', 'none'}:
                        raise Unparsed("match on Option arms")
                    def as_block(b):
                        if b[0] == 'block':
                            return b
                        if b[0] == 'assignexpr':
                            return ('block', [('assign', b[1], b[2], b[3])], None)
                        if b[0] == 'tuple' and not b[1]:
                            return ('block', [], None)
                        raise Unparsed("match arm form %s" % b[0])
                    self.stmts([('expr', ('iflet', arms['some'][0], s[1][1], as_block(arms['some'][1]), as_block(arms['none'][1])))], env, lines, ind)
                elif s[0] == 'expr' and s[1][0] == 'match':
                    sc, ts = self.expr(s[1][1], env)
                    if ts != 'Dim':
                        raise Unparsed("match statement on %s" % ts)
                    lines.append("%smatch %s with" % (ind, sc))
                    for pat, guard, body in s[1][2]:
                        if guard is not None:
                            raise Unparsed("match guard")
                        alts = dim_alts(pat)
                        lines.append("%s| %s =>" % (ind, ' | '.join('.' + a for a in alts) if alts is not None else '_'))
                        n0 = len(lines)
                        if body[0] == 'block':
                            if body[2] is not None:
                                # a trailing expression statement such as `loc.z = 0.` is parsed as a tail only if it is an expression
                                raise Unparsed("match arm with a value in statement position")
                            self.stmts(body[1], dict(env), lines, ind + "  ")
                        elif body[0] == 'tuple' and not body[1]:
                            pass
                        elif body[0] == 'assignexpr':
                            self.stmts([('assign', body[1], body[2], body[3])], dict(env), lines, ind + "  ")
                        else:
                            raise Unparsed("match arm form %s" % body[0])
                        if len(lines) == n0:
                            lines.append("%s  pure ()" % ind)
                elif s[0] == 'expr' and s[1][0] == 'if':
                    _, c, then, els = s[1]
                    ct, cty = self.expr(c, env)
                    if cty != 'B' or then[2] is not None:
                        raise Unparsed("if statement form")
                    lines.append("%sif %s then" % (ind, ct))
                    n0 = len(lines)
                    self.stmts(then[1], dict(env), lines, ind + "  ")
                    if len(lines) == n0:
                        lines.append("%s  pure ()" % ind)
                    if els is not None:
                        if els[0] != 'block' or els[2] is not None:
                            raise Unparsed("else form")
                        lines.append("%selse" % ind)
                        n0 = len(lines)
                        self.stmts(els[1], dict(env), lines, ind + "  ")
                        if len(lines) == n0:
                            lines.append("%s  pure ()" % ind)
                elif s[0] == 'expr' and s[1][0] == 'return':
                    if self.ret_wrap is None:
                        raise Unparsed("return statement")
                    lines.append("%sreturn %s" % (ind, self.ret_wrap(s[1][1], env)))
                elif s[0] == 'for' and s[1][0] == 'pvar' and s[2][0] == 'bin' and s[2][1] == '..' and s[2][2][0] == 'num' and s[2][3][0] == 'num':
                    # `for i in a..b` over literal bounds: unrolled
                    lo, hi = int(s[2][2][1]), int(s[2][3][1])
                    for v in range(lo, hi):
                        body = subst_num(s[3], s[1][1], v)
                        if body[2] is not None:
                            raise Unparsed("for body with a value")
                        self.stmts(body[1], dict(env), lines, ind)
                else:
                    raise Unparsed("statement %s%s" % (s[0], (' ' + s[1][0]) if s[0] == 'expr' else ''))

        def deferred_pair(self, then, els):
            """`{ x = a; }` / `{ x = b; }` with x a deferred local -> (x, a, b)"""
            if els is None or els[0] != 'block':
                return None
            def one(b):
                if b[2] is None and len(b[1]) == 1 and b[1][0][0] == 'assign' and b[1][0][1] == '=' and b[1][0][2][0] == 'path' and len(b[1][0][2][1]) == 1:
                    return b[1][0][2][1][0], b[1][0][3]
                return None
            a, b = one(then), one(els)
            if a and b and a[0] == b[0] and a[0] in self.deferred:
                return a[0], a[1], b[1]
            return None

    return ProcEmitter


def subst_num(node, name, value):
    """replace the variable `name` by the integer literal `value` in an AST"""
    if isinstance(node, tuple):
        if node[0] == 'path' and node[1] == [name]:
            return ('num', str(value))
        return tuple(subst_num(x, name, value) for x in node)
    if isinstance(node, list):
        return [subst_num(x, name, value) for x in node]
    return node


def leading_stmts(tokens, pred):
    """parse statements from the start of a function body while `pred(stmt)` holds"""
    p = Parser(tokens[1:] if tokens and tokens[0][1] == '{' else tokens)
    out = []
    while p.peek() != '}' and not p.done():
        save = p.i
        try:
            s = p.parse_stmt()
        except Unparsed:
            break
        if not pred(s):
            p.i = save
            break
        out.append(s)
    return out


# --------------------------------------------------------------------------------------------------------------------
# Rule fragments: boolean / index logic over `Nat`, `Option Nat`, `Option Unit` (shift present or not), masks
# --------------------------------------------------------------------------------------------------------------------

class RuleEmitter:
    """typed translation of the bookkeeping rules.  Types: B bool, N index, ON Option index, OS Option shift (present or
    not), MASK index -> bool, OMASK Option mask, HS a half space seen through (right_idx, shift), FACE a stored face seen
    through (left, right, shift).  `atoms` maps recognised opaque sub-expressions to named boolean parameters."""

    def __init__(self):
        self.guards = []

    def pat(self, p, ty):
        """pattern over ON / OS -> (lean pattern, {var: type})"""
        if p[0] == 'pwild':
            return '_', {}
        if p[0] == 'pctor' and p[1] == ['None'] and not p[2]:
            return 'none', {}
        if p[0] == 'pctor' and p[1] == ['Some'] and len(p[2]) == 1:
            inner = p[2][0]
            if inner[0] == 'pvar':
                return 'some %s' % inner[1], {inner[1]: ('N' if ty == 'ON' else 'S')}
            if inner[0] == 'pwild':
                return 'some _', {}
        if p[0] == 'pvar':
            return p[1], {p[1]: ty}
        raise Unparsed("pattern %r" % (p,))

    def expr(self, e, env):
        k = e[0]
        if k == 'paren':
            return self.expr(e[1], env)
        if k == 'path':
            if len(e[1]) == 1:
                nm = e[1][0]
                if nm in ('true', 'false'):
                    return nm, 'B'
                if nm in env:
                    return env[nm]
            raise Unparsed("unknown name %s" % '::'.join(e[1]))
        if k == 'num':
            return e[1].rstrip('usize'), 'N'
        if k == 'un' and e[1] == '!':
            t, ty = self.expr(e[2], env)
            if ty == 'B':
                return "(!%s)" % t, 'B'
            raise Unparsed("! on %s" % ty)
        if k == 'bin':
            op = e[1]
            a, ta = self.expr(e[2], env)
            b, tb = self.expr(e[3], env)
            if op in ('&&', '||') and ta == tb == 'B':
                return "(%s %s %s)" % (a, op, b), 'B'
            if op in ('<', '>', '<=', '>=', '==', '!=') and ta == tb == 'N':
                lop = {'<': '<', '>': '>', '<=': '≤', '>=': '≥', '==': '=', '!=': '≠'}[op]
                return "(decide (%s %s %s))" % (a, lop, b), 'B'
            raise Unparsed("operator %s on %s, %s" % (op, ta, tb))
        if k == 'field':
            t, ty = self.expr(e[1], env)
            if ty == 'SELF' and e[2] == 'idx':
                return 'idx', 'N'
            if ty == 'HS' and e[2] == 'right_idx':
                return t + '_right', 'ON'
            if ty == 'HS' and e[2] == 'shift':
                return t + '_shift', 'OS'
            if ty == 'FACEINNER' and e[2] == 'right':
                return 'right', 'ON'
            if ty == 'FACEINNER' and e[2] == 'shift':
                return 'shift', 'OS'
            if ty == 'SELFFACE' and e[2] == 'inner':
                return 'inner', 'FACEINNER'
            raise Unparsed("field %s of %s" % (e[2], ty))
        if k == 'index':
            t, ty = self.expr(e[1], env)
            i, ti = self.expr(e[2], env)
            if ty == 'MASK' and ti == 'N':
                return "(%s %s)" % (t, i), 'B'
            raise Unparsed("index into %s" % ty)
        if k == 'mcall':
            recv, name, args = e[1], e[2], e[3]
            t, ty = self.expr(recv, env)
            if ty == 'OMASK' and name == 'map_or' and len(args) == 2 and args[1][0] == 'closure' and len(args[1][1]) == 1 and args[1][1][0][0] == 'pvar':
                d, td = self.expr(args[0], env)
                env2 = dict(env)
                env2[args[1][1][0][1]] = (args[1][1][0][1], 'MASK')
                b, tb = self.expr(args[1][2], env2)
                if td != tb:
                    raise Unparsed("map_or types")
                return "(match %s with | none => %s | some %s => %s)" % (t, d, args[1][1][0][1], b), td
            if ty in ('ON', 'OS') and name in ('is_some', 'is_none') and not args:
                return "(%s.%s)" % (t, 'isSome' if name == 'is_some' else 'isNone'), 'B'
            if ty == 'FACE' and name in ('left', 'right', 'shift', 'is_periodic', 'is_boundary') and not args:
                return {'left': ('left', 'N'), 'right': ('right', 'ON'), 'shift': ('shift', 'OS'),
                        'is_periodic': ('(facePeriodic shift)', 'B'), 'is_boundary': ('(faceBoundary right)', 'B')}[name]
            if ty == 'ON' and name == 'expect' and len(args) == 1:
                return "(%s.getD 0)" % t, 'N'
            raise Unparsed("method %s on %s" % (name, ty))
        if k == 'call' and e[1] == ('path', ['Some']) and len(e[2]) == 1:
            t, ty = self.expr(e[2][0], env)
            if ty == 'N':
                return "(some %s)" % t, 'ON'
            raise Unparsed("Some of %s" % ty)
        if k == 'block':
            if e[1]:
                raise Unparsed("block with statements in a rule")
            return self.expr(e[2], env)
        if k == 'if' and e[3] is not None:
            c, tc = self.expr(e[1], env)
            a, ta = self.expr(e[2], env)
            b, tb = self.expr(e[3], env)
            if tc != 'B' or ta != tb:
                raise Unparsed("if in a rule")
            return "(if %s then %s else %s)" % (c, a, b), ta
        if k == 'tuple' and not e[1]:
            return 'false', 'CTRL'       # `()`: fall through
        if k == 'continue':
            return 'true', 'CTRL'        # `continue`: skip
        if k == 'match':
            return self.match_hs(e, env)
        raise Unparsed("rule expression %s" % k)

    def match_hs(self, e, env):
        """`match half_space { HalfSpace { right_idx: P, shift: Q, .. } [if guard] => body, _ => body }`"""
        t, ty = self.expr(e[1], env)
        if ty != 'HS':
            raise Unparsed("match on %s" % ty)
        arms = e[2]
        out = []
        rty = None
        default = None
        if arms and arms[-1][0][0] == 'pwild' and arms[-1][1] is None:
            default, dty = self.expr(arms[-1][2], env)
        for pat, guard, body in arms:
            if pat[0] == 'pwild':
                if guard is not None:
                    raise Unparsed("guard on wildcard arm")
                b, bt = self.expr(body, env)
                out.append("| _, _ => %s" % b)
            elif pat[0] == 'pstruct' and pat[1][-1] == 'HalfSpace':
                f = dict(pat[2])
                if set(f) - {'right_idx', 'shift'} or not pat[3]:
                    raise Unparsed("HalfSpace pattern fields")
                pr, vr = self.pat(f['right_idx'], 'ON') if 'right_idx' in f else ('_', {})
                ps, vs = self.pat(f['shift'], 'OS') if 'shift' in f else ('_', {})
                env2 = dict(env)
                for v, vt in list(vr.items()) + list(vs.items()):
                    env2[v] = (v, vt)
                b, bt = self.expr(body, env2)
                if guard is not None:
                    g, gt = self.expr(guard, env2)
                    if gt != 'B' or default is None:
                        raise Unparsed("guarded arm without a default arm")
                    b = "(if %s then %s else %s)" % (g, b, default)
                out.append("| %s, %s => %s" % (pr, ps, b))
            else:
                raise Unparsed("arm pattern %r" % (pat,))
            if rty is not None and bt != rty:
                raise Unparsed("arms of different type")
            rty = bt
        return "(match %s_right, %s_shift with %s)" % (t, t, ' '.join(out)), ('B' if rty == 'CTRL' else rty)


def find_node(e, pred):
    """first sub-node (depth first) of an AST for which pred holds"""
    if isinstance(e, tuple):
        if e and isinstance(e[0], str) and pred(e):
            return e
        for x in e:
            r = find_node(x, pred)
            if r is not None:
                return r
    elif isinstance(e, list):
        for x in e:
            r = find_node(x, pred)
            if r is not None:
                return r
    return None
