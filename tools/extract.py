#!/usr/bin/env python3
"""Translator: /repo/src -> /verif/lean/MVoro/Gen/*.lean  (re-run on every check).

Each fragment is translated independently.  A fragment that cannot be parsed is
reported in gen_status.json as `unparsed` and its Lean file contains only a
marker definition, so that the obligation module for it fails to build — a stale
file is never reused (files are rewritten on every run, and only when their
content changed so that lake's incremental build stays fast).
"""
import hashlib
import json
import os
import sys

sys.path.insert(0, os.path.dirname(os.path.abspath(__file__)))
from rustmini import (Unparsed, tokenize, find_fn, find_macro, find_impl, find_matching, parse_body, parse_stmts,
                      parse_expr_tokens, split_commas, params_of, strip_attrs_cfg)

REPO = os.environ.get('VERIF_REPO', '/repo')
OUT = os.environ.get('VERIF_GEN_OUT') or os.path.join(os.path.dirname(os.path.abspath(__file__)), '..', 'lean', 'MVoro', 'Gen')
BACKENDS = ['ibig', 'dashu', 'rug', 'malachite', 'num_bigint']


def read(rel):
    with open(os.path.join(REPO, rel)) as f:
        return f.read()


def write_if_changed(path, text):
    old = None
    if os.path.exists(path):
        with open(path) as f:
            old = f.read()
    if old != text:
        with open(path, 'w') as f:
            f.write(text)
        return True
    return False


# --------------------------------------------------------------------------
# Fragment 1: the integer in-sphere determinant and the per-backend sign arms
# --------------------------------------------------------------------------

class IntEmitter:
    """Emit Lean `do`-block lines for the big-integer fragment (all scalars are `Int`)."""

    def __init__(self, macros):
        self.macros = macros  # name -> (params, body tokens)
        self.uid = 0
        self.types = {}

    def fresh(self, name):
        self.uid += 1
        return "%s_%d" % (name, self.uid)

    def expr(self, e, env):
        k = e[0]
        if k == 'num':
            t = e[1].rstrip('.')
            for suf in ('i64', 'u64', 'usize', 'f64'):
                if t.endswith(suf):
                    t = t[:-len(suf)]
            if '.' in t:
                f = float(t)
                if f != int(f):
                    raise Unparsed("non integral literal %s" % e[1])
                t = str(int(f))
            return "(%s : Int)" % t
        if k == 'path':
            if len(e[1]) == 1:
                return env.get(e[1][0], e[1][0])
            raise Unparsed("path %s" % '::'.join(e[1]))
        if k == 'paren':
            return "(%s)" % self.expr(e[1], env)
        if k == 'un' and e[1] == '-':
            return "(-%s)" % self.expr(e[2], env)
        if k == 'bin' and e[1] in '+-*':
            return "(%s %s %s)" % (self.expr(e[2], env), e[1], self.expr(e[3], env))
        if k == 'index':
            if e[2][0] != 'num':
                raise Unparsed("non literal index")
            return "%s.c%s" % (self.expr(e[1], env), e[2][1])
        if k == 'call':
            f = e[1]
            if f[0] == 'path' and f[1] == ['Integer', 'from'] and len(e[2]) == 1:
                return self.expr(e[2][0], env)
            if f[0] == 'path' and f[1] == ['Integer', 'default'] and not e[2]:
                return "(0 : Int)"
            raise Unparsed("call %r" % (f,))
        if k == 'array':
            if len(e[1]) == 4:
                return "(I4.mk %s)" % ' '.join(self.expr(x, env) for x in e[1])
            if len(e[1]) == 3:
                return "(I3.mk %s)" % ' '.join(self.expr(x, env) for x in e[1])
            raise Unparsed("array of %d" % len(e[1]))
        if k == 'macro':
            lines, tail = self.macro_block(e[1], e[2], env, want_value=True)
            body = '\n'.join('      ' + l for l in lines)
            return "(Id.run do\n%s\n      return %s)" % (body, tail)
        if k == 'block':
            lines, tail = self.block(e, dict(env))
            if tail is None:
                raise Unparsed("block without value")
            body = '\n'.join('      ' + l for l in lines)
            return "(Id.run do\n%s\n      return %s)" % (body, tail)
        raise Unparsed("expr kind %s" % k)

    def is_array_expr(self, e):
        return e is not None and (e[0] == 'array' or (e[0] == 'macro' and e[1] == 'big_int'))

    def macro_block(self, name, arg_tokens, env, want_value):
        if name not in self.macros:
            raise Unparsed("unknown macro %s!" % name)
        params, body = self.macros[name]
        args = split_commas(arg_tokens)
        if len(args) != len(params):
            raise Unparsed("macro %s arity" % name)
        sub = dict(zip(params, args))
        toks = []
        for t in body:
            if t[0] == 'id' and t[1] in sub:
                toks.append(('op', '('))
                toks.extend(sub[t[1]])
                toks.append(('op', ')'))
            else:
                toks.append(t)
        blk = parse_stmts(toks)
        # hygiene: locals introduced by the macro body get fresh names
        env2 = dict(env)
        return self.block(blk, env2, hygienic=True)

    def lhs_name(self, e, env):
        while e[0] == 'paren':
            e = e[1]
        if e[0] == 'path' and len(e[1]) == 1:
            return env.get(e[1][0], e[1][0]), None
        if e[0] == 'index' and e[2][0] == 'num':
            base, sub = self.lhs_name(e[1], env)
            if sub is not None:
                raise Unparsed("nested index assignment")
            return base, "c" + e[2][1]
        raise Unparsed("assignment target")

    def block(self, blk, env, hygienic=False):
        lines = []
        for s in blk[1]:
            lines.extend(self.stmt(s, env, hygienic))
        tail = self.expr(blk[2], env) if blk[2] is not None else None
        return lines, tail

    def stmt(self, s, env, hygienic):
        k = s[0]
        if k == 'let':
            _, mut, pat, ty, init = s
            if pat[0] != 'pvar':
                raise Unparsed("let pattern")
            name = pat[1]
            rhs = self.expr(init, env) if init is not None else None
            lname = self.fresh(name) if hygienic else name
            isarr = self.is_array_expr(init)
            lty = "I4 Int" if isarr else "Int"
            env[name] = lname
            self.types[lname] = lty
            if rhs is None:
                rhs = "(0 : Int)"  # declared, assigned later (Rust forbids reading it before)
            return ["let %s%s : %s := %s" % ('mut ' if mut or init is None else '', lname, lty, rhs)]
        if k == 'assign':
            _, op, lhs, rhs = s
            base, fld = self.lhs_name(lhs, env)
            r = self.expr(rhs, env)
            if fld is None:
                if op == '=':
                    return ["%s := %s" % (base, r)]
                return ["%s := (%s %s %s)" % (base, base, op[0], r)]
            if op != '=':
                r = "(%s.%s %s %s)" % (base, fld, op[0], r)
            return ["%s := { %s with %s := %s }" % (base, base, fld, r)]
        if k == 'expr':
            e = s[1]
            if e[0] == 'macro':
                lines, tail = self.macro_block(e[1], e[2], env, want_value=False)
                return lines
            if e[0] == 'block':
                lines, tail = self.block(e, env)
                return lines
            raise Unparsed("expression statement %s" % e[0])
        raise Unparsed("statement %s" % k)


def cfg_holds(attr, backend):
    """Evaluate a `cfg ( ... )` attribute text for one backend feature."""
    toks = tokenize(attr)
    pos = [0]

    def ev():
        t = toks[pos[0]][1]
        if t in ('any', 'all', 'not'):
            pos[0] += 1
            assert toks[pos[0]][1] == '('
            pos[0] += 1
            vals = []
            while toks[pos[0]][1] != ')':
                vals.append(ev())
                if toks[pos[0]][1] == ',':
                    pos[0] += 1
            pos[0] += 1
            return any(vals) if t == 'any' else all(vals) if t == 'all' else not vals[0]
        if t == 'feature':
            assert toks[pos[0] + 1][1] == '='
            v = toks[pos[0] + 2][1].strip('"')
            pos[0] += 3
            return v == backend
        raise Unparsed("cfg predicate %s" % t)

    assert toks[0][1] == 'cfg' and toks[1][1] == '('
    pos[0] = 2
    return ev()


def sign_expr(e, env):
    """Translate a sign-extraction expression; the big integer API is modelled:
    signum -> Int.sign ; to_f64 / value -> identity ; sign() -> compare with 0."""
    k = e[0]
    if k == 'path' and len(e[1]) == 1:
        return env[e[1][0]]
    if k == 'paren':
        return sign_expr(e[1], env)
    if k == 'mcall':
        recv = sign_expr(e[1], env)
        if e[2] == 'signum' and not e[3]:
            return "(Int.sign %s)" % recv
        if e[2] in ('to_f64', 'value') and not e[3]:
            return recv
        if e[2] == 'sign' and not e[3]:
            return "(compare %s 0)" % recv
        raise Unparsed("big integer method %s" % e[2])
    if k == 'num':
        f = float(e[1].replace('f64', ''))
        if f != int(f):
            raise Unparsed("sign literal")
        return "(%d : Int)" % int(f)
    if k == 'un' and e[1] == '-':
        return "(-%s)" % sign_expr(e[2], env)
    if k == 'match':
        arms = []
        table = {'Less': '.lt', 'Equal': '.eq', 'Greater': '.gt', 'Minus': '.lt', 'NoSign': '.eq', 'Plus': '.gt'}
        for pat, guard, body in e[2]:
            if guard is not None:
                raise Unparsed("guard in sign match")
            if pat[0] == 'pctor' and pat[1][-1] in table and not pat[2]:
                arms.append("| %s => %s" % (table[pat[1][-1]], sign_expr(body, env)))
            elif pat[0] == 'pwild':
                arms.append("| _ => %s" % sign_expr(body, env))
            else:
                raise Unparsed("sign match arm")
        return "(match %s with %s)" % (sign_expr(e[1], env), ' '.join(arms))
    raise Unparsed("sign expr %s" % k)


def gen_insphere():
    src = strip_attrs_cfg(read('src/geometry.rs'))
    toks = tokenize(src)
    macros = {n: find_macro(toks, n) for n in ('big_int', 'big_int_det2x2', 'big_int_det3x3')}
    params, body, _ = find_fn(toks, 'in_sphere_test_exact')
    pnames = [p[0] for p in params_of(params)]
    blk = parse_body(body)
    em = IntEmitter(macros)
    env = {}
    lines = []
    sign_stmts = []
    tail = blk[2]
    for s in blk[1]:
        if s[0] == 'attr':
            sign_stmts.append(s)
            continue
        lines.extend(em.stmt(s, env, False))
    if tail is None or tail[0] != 'path':
        raise Unparsed("in_sphere_test_exact: expected a trailing result variable")
    # the value of the determinant variable when the cfg'ed statements start
    det_var = env.get('determinant')
    if det_var is None:
        raise Unparsed("no `determinant` variable")
    out = []
    out.append("def inSphereDet (%s : I3 Int) : Int := Id.run do" % ' '.join(pnames))
    for l in lines:
        for ll in l.split('\n'):
            out.append("  " + ll)
    out.append("  return %s" % det_var)
    out.append("")
    # sign arms per backend
    for be in BACKENDS:
        senv = {'determinant': 'determinant'}
        sl = []
        for s in sign_stmts:
            if not cfg_holds(s[1], be):
                continue
            inner = s[2]
            if inner[0] != 'let' or inner[2][0] != 'pvar':
                raise Unparsed("cfg'ed statement is not a let")
            name = inner[2][1]
            rhs = sign_expr(inner[4], senv)
            senv[name] = name
            sl.append("  let %s : Int := %s" % (name, rhs))
        if tail[1][0] not in senv:
            raise Unparsed("result not defined for backend %s" % be)
        out.append("/-- sign extraction arm selected by `feature = \"%s\"` -/" % be)
        out.append("def signExtract_%s (determinant : Int) : Int :=" % be)
        out.extend(sl)
        out.append("  %s" % senv[tail[1][0]])
        out.append("")
    return '\n'.join(out)


# --------------------------------------------------------------------------
# Fragment 2: orientation of stored face normals
# --------------------------------------------------------------------------

def subst_paths(e, env):
    """replace single-segment paths by the expressions bound to them"""
    if isinstance(e, tuple):
        if e and e[0] == 'path' and len(e[1]) == 1 and e[1][0] in env:
            return ('paren', env[e[1][0]])
        return tuple(subst_paths(x, env) for x in e)
    if isinstance(e, list):
        return [subst_paths(x, env) for x in e]
    return e


def inline_lets(stmts, e, env=None):
    """value of `e` after the immutable `let x = ..;` bindings of `stmts` (pure right-hand sides assumed: analysis only)"""
    env = dict(env or {})
    for st in stmts:
        if st[0] == 'let' and not st[1] and st[2][0] == 'pvar' and st[4] is not None:
            env[st[2][1]] = subst_paths(st[4], env)
    return subst_paths(e, env)


def strip_parens(e):
    while isinstance(e, tuple) and e and e[0] == 'paren':
        e = e[1]
    return e


def find_let(tokens, name):
    """tokens of the initialiser of the first `let [mut] name = ... ;`"""
    for i in range(len(tokens) - 3):
        if tokens[i] == ('id', 'let'):
            j = i + 1
            if tokens[j][1] == 'mut':
                j += 1
            if tokens[j] == ('id', name) and tokens[j + 1][1] == '=':
                k = j + 2
                depth = 0
                while not (tokens[k][1] == ';' and depth == 0):
                    if tokens[k][1] in '([{':
                        depth += 1
                    elif tokens[k][1] in ')]}':
                        depth -= 1
                    k += 1
                return tokens[j + 2:k]
    raise Unparsed("let %s not found" % name)


def mentions(e, name):
    if isinstance(e, tuple):
        if e[0] == 'path' and name in e[1]:
            return True
        return any(mentions(x, name) for x in e[1:])
    if isinstance(e, list):
        return any(mentions(x, name) for x in e)
    return e == name


def sign_of_field_chain(e, last):
    """+1 if `e` is a field chain ending in `.last`, -1 if it is the negation of one"""
    if e[0] == 'un' and e[1] == '-':
        return -sign_of_field_chain(e[2], last)
    if e[0] == 'paren':
        return sign_of_field_chain(e[1], last)
    if e[0] == 'mcall' and e[2] in ('clone',) and not e[3]:
        return sign_of_field_chain(e[1], last)
    if e[0] == 'field' and e[2] == last:
        return 1
    if e[0] == 'mcall' and e[2] == 'normal' and not e[3]:
        return 1
    raise Unparsed("stored normal is not (the negation of) a plane normal")


def gen_face():
    # 1. which way does the clipping plane normal of `ConvexCell::build` point?  (the normal handed to `HalfSpace::new`,
    #    with the local bindings of the loop body inlined: ± (cell.loc - neighbour) / dist)
    toks = tokenize(strip_attrs_cfg(read('src/voronoi/convex_cell.rs')))
    _, body, _ = find_fn_in_impls(toks, 'ConvexCell', 'build')
    bblk = parse_body(body)
    loop = find_stmt(bblk[1], lambda s_: s_[0] == 'for')
    if loop is None:
        raise Unparsed("clipping loop")
    hsnew = extract2.find_node(loop[3], lambda n_: n_[0] == 'call' and n_[1] == ('path', ['HalfSpace', 'new']))
    if hsnew is None:
        raise Unparsed("HalfSpace::new in the clipping loop")
    nexpr = strip_parens(inline_lets(loop[3][1], hsnew[2][0]))
    clip = 1
    if nexpr[0] == 'un' and nexpr[1] == '-':
        clip, nexpr = -1, strip_parens(nexpr[2])
    if not (nexpr[0] == 'bin' and nexpr[1] in ('/', '*')):
        raise Unparsed("normal is not a scaled difference")
    num = strip_parens(nexpr[2])
    if nexpr[1] == '*' and not (num[0] == 'bin' and num[1] == '-'):
        num = strip_parens(nexpr[3])
    if not (num[0] == 'bin' and num[1] == '-'):
        raise Unparsed("normal is not a scaled difference")
    lhs_cell = mentions(num[2], 'loc') and extract2.find_node(num[2], lambda n_: n_[0] == 'field' and n_[2] == 'loc' and n_[1][0] == 'path') is not None
    rhs_cell = mentions(num[3], 'loc') and extract2.find_node(num[3], lambda n_: n_[0] == 'field' and n_[2] == 'loc' and n_[1][0] == 'path') is not None
    if lhs_cell and not rhs_cell:
        pass               # n ∥ g - q : points into the cell
    elif rhs_cell and not lhs_cell:
        clip = -clip
    else:
        raise Unparsed("cannot tell the orientation of the clipping normal")
    # 2. what does `VoronoiFaceIntegral::init` store?
    toks = tokenize(strip_attrs_cfg(read('src/voronoi/voronoi_face.rs')))
    s, e = find_impl(toks, ['FaceIntegral', 'for', 'VoronoiFaceIntegral'])
    _, body, _ = find_fn(toks[s:e], 'init')
    blk = parse_body(body)
    lit = blk[2]
    if lit is None or lit[0] != 'struct':
        raise Unparsed("VoronoiFaceIntegral::init does not end in a struct literal")
    normal = dict((f, v) for f, v in lit[2]).get('normal')
    if normal is None:
        raise Unparsed("no `normal` field")
    stored = sign_of_field_chain(inline_lets(blk[1], normal), 'n')
    out = []
    out.append("/-- orientation of the clipping plane normal built by `ConvexCell::build` relative to `g - q` (generator minus neighbour) -/")
    out.append("def clipNormalSign : Int := %d" % clip)
    out.append("/-- orientation of the normal `VoronoiFaceIntegral::init` stores relative to the clipping plane normal -/")
    out.append("def storedNormalSign : Int := %d" % stored)
    return '\n'.join(out) + '\n'


# --------------------------------------------------------------------------
# Fragment 3: the integer grid domain of `SimulationBoundary::cuboid`
# --------------------------------------------------------------------------

def lit_rat(e):
    """a numeric literal as an exact `a/b` string"""
    from fractions import Fraction
    while e[0] == 'paren':
        e = e[1]
    if e[0] != 'num':
        raise Unparsed("expected a numeric literal")
    t = e[1].replace('_', '')
    for suf in ('f64', 'f32'):
        if t.endswith(suf):
            t = t[:-3]
    if t.endswith('.'):
        t = t[:-1]
    return Fraction(t)


def is_path(e, name):
    while e[0] == 'paren':
        e = e[1]
    return e[0] == 'path' and e[1] == [name]


def gen_grid():
    toks = tokenize(strip_attrs_cfg(read('src/voronoi/boundary.rs')))
    _, body, _ = find_fn(toks, 'cuboid')
    # the struct literal `Self { anchor: .., inverse_width: .., .. }` is the tail of the body
    k = len(body) - 1
    # find last `Self {`
    idx = max(i for i in range(len(body) - 1) if body[i] == ('id', 'Self') and body[i + 1][1] == '{')
    from rustmini import Parser
    p = Parser(body[idx:])
    lit = p.parse_expr()
    if lit[0] != 'struct':
        raise Unparsed("no Self { .. } literal in cuboid")
    fields = dict(lit[2])
    a = fields.get('anchor')
    iw = fields.get('inverse_width')
    if a is None or iw is None:
        raise Unparsed("anchor / inverse_width fields")
    # anchor: anchor - K * width   |   anchor - width
    while a[0] == 'paren':
        a = a[1]
    if not (a[0] == 'bin' and a[1] == '-' and is_path(a[2], 'anchor')):
        raise Unparsed("anchor field is not `anchor - ...`")
    r = a[3]
    while r[0] == 'paren':
        r = r[1]
    if is_path(r, 'width'):
        pad = 1
    elif r[0] == 'bin' and r[1] == '*' and is_path(r[3], 'width'):
        pad = lit_rat(r[2])
    elif r[0] == 'bin' and r[1] == '*' and is_path(r[2], 'width'):
        pad = lit_rat(r[3])
    else:
        raise Unparsed("anchor offset is not a multiple of width")
    # inverse_width: 1. / (S * width)   |   1. / (S * grid_width)  with `grid_width` defined by a match on the dimensionality
    while iw[0] == 'paren':
        iw = iw[1]
    if not (iw[0] == 'bin' and iw[1] == '/' and lit_rat(iw[2]) == 1):
        raise Unparsed("inverse_width is not 1 / ...")
    d = iw[3]
    while d[0] == 'paren':
        d = d[1]
    gw = None
    for nm in ('width', 'grid_width'):
        if is_path(d, nm):
            span, gw = 1, nm
        elif d[0] == 'bin' and d[1] == '*' and is_path(d[3], nm):
            span, gw = lit_rat(d[2]), nm
        elif d[0] == 'bin' and d[1] == '*' and is_path(d[2], nm):
            span, gw = lit_rat(d[3]), nm
    if gw is None:
        raise Unparsed("inverse_width denominator is not a multiple of width / grid_width")
    shared = False
    if gw == 'grid_width':
        # let grid_width = match dimensionality { OneD => width, TwoD => DVec3::new(m, m, width.z), ThreeD => DVec3::splat(width.max_element()) }
        g = parse_expr_tokens(find_let(body, 'grid_width'))
        if g[0] != 'match' or not is_path(g[1], 'dimensionality'):
            raise Unparsed("grid_width is not a match on the dimensionality")
        arms = {}
        for pat, guard, val in g[2]:
            if guard is not None or pat[0] != 'pctor':
                raise Unparsed("grid_width match arm")
            while val[0] in ('paren', 'block'):
                if val[0] == 'paren':
                    val = val[1]
                elif val[2] is not None and all(st[0] == 'let' for st in val[1]):
                    val = inline_lets(val[1], val[2])
                else:
                    raise Unparsed("grid_width arm is a block with statements")
            arms[pat[1][-1]] = val

        def is_max_xy(e):
            e = strip_parens(e)
            if e[0] == 'mcall':
                e = ('mcall', strip_parens(e[1]), e[2], [strip_parens(x) for x in e[3]])
            return (e[0] == 'mcall' and e[2] == 'max' and len(e[3]) == 1 and
                    {(e[1][0], e[1][2] if e[1][0] == 'field' else None), (e[3][0][0], e[3][0][2] if e[3][0][0] == 'field' else None)} == {('field', 'x'), ('field', 'y')}
                    and is_path(e[1][1], 'width') and is_path(e[3][0][1], 'width'))
        one, two, three = arms.get('OneD'), arms.get('TwoD'), arms.get('ThreeD')
        ok1 = one is not None and is_path(one, 'width')
        ok2 = (two is not None and two[0] == 'call' and two[1] == ('path', ['DVec3', 'new']) and len(two[2]) == 3 and is_max_xy(two[2][0]) and is_max_xy(two[2][1])
               and two[2][2][0] == 'field' and two[2][2][2] == 'z' and is_path(two[2][2][1], 'width'))
        ok3 = (three is not None and three[0] == 'call' and three[1] == ('path', ['DVec3', 'splat']) and len(three[2]) == 1
               and three[2][0][0] == 'mcall' and three[2][0][2] == 'max_element' and is_path(three[2][0][1], 'width'))
        if not (ok1 and ok2 and ok3):
            raise Unparsed("grid_width arms are not (width | (max xy, max xy, z) | splat(max element))")
        shared = True
    # mantissa mask of iloc
    mask = parse_expr_tokens(find_let(toks, 'mantissa_mask'))
    if mask[0] != 'num':
        raise Unparsed("mantissa mask")
    mv = int(mask[1].replace('u64', '').replace('_', ''), 16)
    from fractions import Fraction
    pad, span = Fraction(pad), Fraction(span)
    out = ["/-- grid domain of `cuboid`: stored anchor = anchor - gridPad * width -/",
           "def gridPad : Rat := (%d : Rat) / %d" % (pad.numerator, pad.denominator),
           "/-- stored inverse width = 1 / (gridSpan * width) -/",
           "def gridSpan : Rat := (%d : Rat) / %d" % (span.numerator, span.denominator),
           "/-- `mantissa_mask` of `iloc` -/",
           "def mantissaMask : Nat := %d" % mv,
           "/-- do all active axes share one grid scale (the largest active extent)? `false`: every axis is rescaled with its own width -/",
           "def gridSharedScale : Bool := %s" % ('true' if shared else 'false')]
    return '\n'.join(out) + '\n'



# --------------------------------------------------------------------------
# Fragment 4: placement of the k-NN grid cells in `Space::new`
# --------------------------------------------------------------------------

def gen_space():
    toks = tokenize(strip_attrs_cfg(read('src/space.rs')))
    s, e = find_impl(toks, ['Space'])
    _, body, _ = find_fn(toks[s:e], 'new')
    # the `Cell { loc: anchor + DVec3 { x: .., y: .., z: .. }, .. }` literal
    idx = [i for i in range(len(body) - 1) if body[i] == ('id', 'Cell') and body[i + 1][1] == '{']
    if not idx:
        raise Unparsed("no Cell { .. } literal in Space::new")
    from rustmini import Parser
    lit = Parser(body[idx[0]:]).parse_expr()
    if lit[0] != 'struct':
        raise Unparsed("Cell literal")
    loc = dict(lit[2]).get('loc')
    if loc is None or loc[0] != 'bin' or loc[1] != '+' or not is_path(loc[2], 'anchor'):
        raise Unparsed("cell loc is not `anchor + ..`")
    v = loc[3]
    while v[0] == 'paren':
        v = v[1]
    if v[0] != 'struct':
        raise Unparsed("cell offset is not a DVec3 literal")
    comp = dict(v[2])
    axes = []
    for ax, counter in (('x', 'i'), ('y', 'j'), ('z', 'k')):
        ex = comp.get(ax)
        if ex is None or ex[0] != 'bin' or ex[1] != '*':
            raise Unparsed("cell offset component %s" % ax)
        l, r = ex[2], ex[3]
        if not mentions(l, counter):
            l, r = r, l
        if not mentions(l, counter):
            raise Unparsed("cell offset component %s does not use counter %s" % (ax, counter))
        while r[0] == 'paren':
            r = r[1]
        if not (r[0] == 'field' and is_path(r[1], 'c_width') and r[2] in 'xyz'):
            raise Unparsed("cell offset component %s is not counter * c_width.?" % ax)
        axes.append('xyz'.index(r[2]))
    out = ("/-- component of `c_width` that `Space::new` multiplies the cell counter with, for the x, y, z coordinate of a grid cell's anchor -/\n"
           "def cellLocAxes : List Nat := [%d, %d, %d]\n" % tuple(axes))
    # Cell::closest_loc: `if pos.A > self.loc.A { res.A = pos.A.min(self.loc.A + self.width.B); }` for A = x, y, z
    cs, ce = find_impl(toks, ['Cell'])
    _, cbody, _ = find_fn(toks[cs:ce], 'closest_loc')
    blk = parse_body(cbody)
    quads = []
    for st in blk[1]:
        if st[0] != 'expr' or st[1][0] != 'if':
            continue
        cond, then = st[1][1], st[1][2]
        while cond[0] == 'paren':
            cond = cond[1]
        if not (cond[0] == 'bin' and cond[1] == '>' and cond[2][0] == 'field' and cond[3][0] == 'field'):
            raise Unparsed("closest_loc condition")
        if len(then[1]) != 1 or then[1][0][0] != 'assign' or then[1][0][1] != '=':
            raise Unparsed("closest_loc branch")
        lhs, rhs = then[1][0][2], then[1][0][3]
        if not (lhs[0] == 'field' and is_path(lhs[1], 'res') and rhs[0] == 'mcall' and rhs[2] == 'min' and len(rhs[3]) == 1):
            raise Unparsed("closest_loc assignment")
        arg = rhs[3][0]
        while arg[0] == 'paren':
            arg = arg[1]
        if not (arg[0] == 'bin' and arg[1] == '+' and arg[2][0] == 'field' and arg[3][0] == 'field' and arg[2][1][0] == 'field' and arg[3][1][0] == 'field'
                and arg[2][1][2] == 'loc' and arg[3][1][2] == 'width'):
            raise Unparsed("closest_loc upper bound is not self.loc.? + self.width.?")
        if rhs[1][0] != 'field' or not is_path(rhs[1][1], 'pos') or cond[2][2] != lhs[2] or rhs[1][2] != lhs[2] or cond[3][2] != lhs[2]:
            raise Unparsed("closest_loc branch mixes coordinates of pos")
        quads.append(('xyz'.index(lhs[2]), 'xyz'.index(arg[2][2]), 'xyz'.index(arg[3][2])))
    if len(quads) != 3:
        raise Unparsed("closest_loc does not have three clamping branches")
    out += ("/-- `Cell::closest_loc`: for every branch (coordinate written, coordinate of `self.loc` used, coordinate of `self.width` used) -/\n"
            "def closestLocAxes : List (Nat × Nat × Nat) := [%s]\n" % ', '.join("(%d, %d, %d)" % q for q in quads))
    # Cell::min_distance_to_face: the six terms `pos.A - self.loc.A` / `self.loc.A + self.width.A - pos.A`
    _, fbody, _ = find_fn(toks[cs:ce], 'min_distance_to_face')
    ft = [t[1] for t in fbody]
    terms = []
    i = 0
    while i + 4 < len(ft):
        if ft[i] == 'width' and ft[i + 1] == '.' and ft[i - 2] == 'self':
            terms.append('xyz'.index(ft[i + 2]))
        i += 1
    out += ("/-- `Cell::min_distance_to_face`: coordinates of `self.width` that occur, in source order -/\n"
            "def minDistToFaceWidthAxes : List Nat := [%s]\n" % ', '.join(str(x) for x in terms))
    # Space::knn: the ring termination bound `dist_to_face + r * <cell width>.<reduction>()`
    _, kbody, _ = find_fn(toks[s:e], 'knn')
    kt = [t[1] for t in kbody]
    red = None
    for i in range(len(kt) - 4):
        if kt[i] == 'min_dist_to_ring' and kt[i + 1] == '=':
            j = i
            while kt[j] != ';':
                if kt[j] == 'width' and kt[j + 1] == '.':
                    red = kt[j + 2]
                j += 1
            break
    if red is None:
        raise Unparsed("ring termination bound `min_dist_to_ring = ... width.<reduction>()` not found in knn")
    out += ("/-- `Space::knn`: the reduction of the cell width used in the ring termination bound -/\n"
            "def ringBoundWidthReduction : String := \"%s\"\n" % red)
    return out


# --------------------------------------------------------------------------
# Fragment 5: shape of the parallel loops of src/voronoi.rs (C09)
# --------------------------------------------------------------------------

def chain_of(tokens):
    """names of the method calls at nesting depth 0 of a statement: `a.b(..).c::<T>(..)` -> [b, c]"""
    out = []
    depth = 0
    i = 0
    while i < len(tokens):
        t = tokens[i][1]
        if t in '([{':
            depth += 1
        elif t in ')]}':
            depth -= 1
        elif t == '.' and depth == 0 and i + 2 < len(tokens) and tokens[i + 1][0] == 'id' and tokens[i + 2][1] in ('(', '::'):
            out.append(tokens[i + 1][1])
        i += 1
    return out


def stmt_after(tokens, i):
    """tokens of the statement starting at i, up to the `;` (or end of block) at depth 0"""
    depth = 0
    j = i
    while j < len(tokens):
        t = tokens[j][1]
        if t in '([{':
            depth += 1
        elif t in ')]}':
            if depth == 0:
                break
            depth -= 1
        elif t == ';' and depth == 0:
            break
        j += 1
    return tokens[i:j], j


def gen_par():
    src = read('src/voronoi.rs')
    toks = tokenize(src)
    macros = {}
    for name in ('cells_map', 'cells_map_par', 'cells_map_flatten', 'cells_map_flatten_par', 'flatten'):
        try:
            _, body = find_macro(toks, name)
            macros[name] = chain_of(body)
        except Unparsed:
            pass
    par, seq, helpers = [], [], []
    i = 0
    n = len(toks)
    while i < n:
        # `# [ cfg ( feature = "rayon" ) ]`  /  `# [ cfg ( not ( feature = "rayon" ) ) ]`
        if toks[i][1] == '#' and i + 2 < n and toks[i + 1][1] == '[' and toks[i + 2][1] == 'cfg':
            j = find_matching(toks, i + 1, '[', ']')
            attr = ' '.join(t[1] for t in toks[i + 2:j])
            if 'rayon' in attr:
                neg = 'not' in attr
                st, k = stmt_after(toks, j + 1)
                # an item (fn / impl / struct) that only exists with (or without) rayon: parallel code outside the modelled loop shapes
                head = [t[1] for t in st[:4]]
                if 'fn' in head or 'impl' in head or 'struct' in head:
                    nm = st[head.index('fn') + 1][1] if 'fn' in head and head.index('fn') + 1 < len(st) else head[0]
                    helpers.append(('seq:' if neg else 'par:') + nm)
                    jb = j + 1
                    while jb < n and toks[jb][1] != '{':
                        jb += 1
                    i = find_matching(toks, jb, '{', '}') + 1 if jb < n else k
                    continue
                if st and st[0][1] != 'use':
                    # a macro invocation `name ! ( .. )` anywhere at depth 0 contributes the macro's chain
                    ch = []
                    d = 0
                    q = 0
                    while q < len(st):
                        t = st[q][1]
                        if t in '([{':
                            d += 1
                        elif t in ')]}':
                            d -= 1
                        elif d == 0 and st[q][0] == 'id' and q + 1 < len(st) and st[q + 1][1] == '!':
                            if t not in macros:
                                raise Unparsed("unknown macro %s! in a rayon-guarded statement" % t)
                            ch.extend(macros[t])
                        q += 1
                    ch.extend(chain_of(st))
                    (seq if neg else par).append(ch)
                i = k
                continue
        i += 1
    if not par or len(par) != len(seq):
        raise Unparsed("rayon-guarded statements do not come in parallel/sequential pairs (%d vs %d)" % (len(par), len(seq)))
    # interior mutability / global state reachable from the loops: anything in src except the hooks module and test modules
    import re
    hits = []
    for root, _, files in os.walk(os.path.join(REPO, 'src')):
        for f in files:
            if not f.endswith('.rs') or f == 'verif_hooks.rs':
                continue
            text = open(os.path.join(root, f)).read()
            text = re.split(r"#\[cfg\(test\)\]", text)[0]
            text = re.sub(r"//.*", "", text)
            text = re.sub(r"#\[cfg\(meshless_voro_verif\)\]\s*\n[^\n]*\n", "", text)
            for m in re.finditer(r"\b(Mutex|RwLock|Atomic\w+|RefCell|UnsafeCell|OnceCell|static\s+mut|thread_rng|thread_local|unsafe|SystemTime|Instant)\b|\bCell<", text):
                hits.append("%s:%s" % (f, m.group(0)))

    def lean_list(l):
        return '[' + ', '.join('"%s"' % x for x in l) + ']'
    out = ["/-- method-call chains (nesting depth 0, macros expanded) of the statements guarded by `cfg(feature = \"rayon\")` in src/voronoi.rs, in source order -/",
           "def parLoops : List (List String) := [" + ', '.join(lean_list(c) for c in par) + "]",
           "/-- same for the statements guarded by `cfg(not(feature = \"rayon\"))` -/",
           "def seqLoops : List (List String) := [" + ', '.join(lean_list(c) for c in seq) + "]",
           "/-- occurrences of interior mutability / global state / clocks / randomness / unsafe in src (hooks module and test modules excluded) -/",
           "def sharedStateHits : List String := " + lean_list(sorted(set(hits))),
           "/-- functions / items that exist only with (par:) or only without (seq:) the rayon feature -/",
           "def featureOnlyItems : List String := " + lean_list(helpers)]
    return '\n'.join(out) + '\n'


# --------------------------------------------------------------------------
# Fragment 6: the float helpers of src/geometry.rs, generic in the scalar (C19)
# --------------------------------------------------------------------------

class FloatEmitter:
    """Typed translation of the straight-line float helpers to Lean terms over `V3 α`, `Plane α`, `Sphere α`."""

    TYPES = {'DVec3': 'V3', 'f64': 'F', 'DVec4': 'V4', 'bool': 'B', 'Plane': 'Plane', 'Sphere': 'Sphere'}
    METHODS = {
        ('V3', 'dot'): ('F', 'V3.dot {0} {1}', ['V3']),
        ('V3', 'cross'): ('V3', 'V3.cross {0} {1}', ['V3']),
        ('V3', 'length'): ('F', 'V3.length {0}', []),
        ('V3', 'length_squared'): ('F', 'V3.norm2 {0}', []),
        ('V3', 'distance'): ('F', 'V3.distance {0} {1}', ['V3']),
        ('V3', 'distance_squared'): ('F', 'V3.distance2 {0} {1}', ['V3']),
        ('V3', 'normalize'): ('V3', 'V3.normalize {0}', []),
        ('V3', 'project_onto'): ('V3', 'V3.projectOnto {0} {1}', ['V3']),
        ('F', 'abs'): ('F', 'Scalar.abs {0}', []),
        ('V3', 'abs'): ('V3', 'V3.abs {0}', []),
        ('F', 'sqrt'): ('F', 'Scalar.sqrt {0}', []),
        ('F', 'signum'): ('F', 'Scalar.signum {0}', []),
        ('Plane', 'project_onto'): ('V3', 'projectOnto {0} {1}', ['V3']),
        ('Sphere', 'contains'): ('B', 'contains {0} {1}', ['V3']),
    }
    FIELDS = {('HalfSpace', 'plane'): 'Plane', ('HalfSpace', 'd'): 'F', ('HalfSpace', 'errb'): 'F', ('Plane', 'n'): 'V3', ('Plane', 'p'): 'V3', ('Sphere', 'center'): 'V3', ('Sphere', 'radius'): 'F',
              ('V3', 'x'): 'F', ('V3', 'y'): 'F', ('V3', 'z'): 'F', ('V4', 'x'): 'F', ('V4', 'y'): 'F', ('V4', 'z'): 'F', ('V4', 'w'): 'F'}
    FUNCS = {'intersect_planes': ('V3', 'intersectPlanes', ['Plane', 'Plane', 'Plane'])}

    def __init__(self, self_ty):
        self.self_ty = self_ty

    def decl_type(self, text):
        t = text.replace('&', '').replace('mut', '').strip()
        if t == 'Self':
            return self.self_ty
        if t in self.TYPES:
            return self.TYPES[t]
        if t.replace(' ', '').startswith('Option<'):
            return 'skip'          # bookkeeping parameters (right_idx, shift) do not enter the numbers
        raise Unparsed("parameter type %s" % text)

    def lit(self, text):
        from fractions import Fraction
        t = text.replace('_', '')
        for suf in ('f64', 'f32'):
            if t.endswith(suf):
                t = t[:-3]
        if 'e' in t or 'E' in t:
            mant, ex = t.lower().split('e')
            q = Fraction(mant.rstrip('.') or '0') * Fraction(10) ** int(ex)
        else:
            q = Fraction(t.rstrip('.') if t.rstrip('.') else '0')
        if q.denominator == 1:
            return "(N α %d)" % q.numerator
        if q == Fraction(1, 2):
            return "((N α 1) / (N α 2))"
        # m / 10^e
        e = 0
        d = q.denominator
        while d % 10 == 0:
            d //= 10
            e += 1
        if d != 1:
            e = 0
            x = q
            while x.denominator != 1:
                x *= 10
                e += 1
            return "(Scalar.lit %d %d)" % (x.numerator, e)
        return "(Scalar.lit %d %d)" % (q.numerator, e)

    def expr(self, e, env):
        """-> (lean text, type)"""
        k = e[0]
        if k == 'num':
            return self.lit(e[1]), 'F'
        if k == 'paren':
            t, ty = self.expr(e[1], env)
            return t, ty
        if k == 'path':
            if len(e[1]) == 1:
                if e[1][0] not in env:
                    raise Unparsed("unknown variable %s" % e[1][0])
                return env[e[1][0]]
            if e[1] == ['DVec4', 'ONE']:
                return "(V4.ones : V4 α)", 'V4'
            if len(e[1]) == 2 and e[1][0] == 'Self' and e[1][1] in getattr(self, 'consts', {}):
                return self.consts[e[1][1]], 'F'
            raise Unparsed("path %s" % '::'.join(e[1]))
        if k == 'un':
            t, ty = self.expr(e[2], env)
            if e[1] == '-' and ty in ('F', 'V3'):
                return "(-%s)" % t, ty
            if e[1] == '!' and ty == 'B':
                return "(!%s)" % t, 'B'
            raise Unparsed("unary %s on %s" % (e[1], ty))
        if k == 'bin':
            op = e[1]
            a, ta = self.expr(e[2], env)
            b, tb = self.expr(e[3], env)
            if op in '+-':
                if ta == tb and ta in ('F', 'V3'):
                    return "(%s %s %s)" % (a, op, b), ta
                if ta == tb == 'V4' and op == '+':
                    return "(V4.add %s %s)" % (a, b), 'V4'
            if op == '*':
                if ta == tb == 'F':
                    return "(%s * %s)" % (a, b), 'F'
                if ta == 'F' and tb == 'V3':
                    return "(V3.smul %s %s)" % (a, b), 'V3'
                if ta == 'V3' and tb == 'F':
                    return "(V3.smul %s %s)" % (b, a), 'V3'
                if ta == tb == 'V4':
                    return "(V4.mul %s %s)" % (a, b), 'V4'
            if op == '/':
                if ta == tb == 'F':
                    return "(%s / %s)" % (a, b), 'F'
                if ta == 'V3' and tb == 'F':
                    return "(V3.divs %s %s)" % (a, b), 'V3'
            if op in ('<', '<=', '>', '>=') and ta == tb == 'F':
                if op == '<':
                    return "(Scalar.lt %s %s)" % (a, b), 'B'
                if op == '<=':
                    return "(Scalar.le %s %s)" % (a, b), 'B'
                if op == '>':
                    return "(Scalar.lt %s %s)" % (b, a), 'B'
                return "(Scalar.le %s %s)" % (b, a), 'B'
            if op == '&&' and ta == tb == 'B':
                return "(%s && %s)" % (a, b), 'B'
            if op == '||' and ta == tb == 'B':
                return "(%s || %s)" % (a, b), 'B'
            raise Unparsed("operator %s on %s, %s" % (op, ta, tb))
        if k == 'field':
            t, ty = self.expr(e[1], env)
            if (ty, e[2]) in self.FIELDS:
                return "%s.%s" % (t, e[2]), self.FIELDS[(ty, e[2])]
            raise Unparsed("field %s of %s" % (e[2], ty))
        if k == 'mcall':
            recv = e[1]
            # DMatN::from_cols(..).determinant()
            if e[2] == 'determinant' and recv[0] == 'call' and recv[1][0] == 'path' and recv[1][1] in (['DMat3', 'from_cols'], ['DMat4', 'from_cols']):
                cols = [self.expr(x, env) for x in recv[2]]
                want = 'V3' if recv[1][1][0] == 'DMat3' else 'V4'
                if any(c[1] != want for c in cols) or len(cols) != (3 if want == 'V3' else 4):
                    raise Unparsed("from_cols arguments")
                return "(%s %s)" % ('det3cols' if want == 'V3' else 'det4cols', ' '.join(c[0] for c in cols)), 'F'
            t, ty = self.expr(recv, env)
            key = (ty, e[2])
            if key not in self.METHODS:
                raise Unparsed("method %s on %s" % (e[2], ty))
            rty, fmt, argtys = self.METHODS[key]
            args = [self.expr(x, env) for x in e[3]]
            if [a[1] for a in args] != argtys:
                raise Unparsed("arguments of %s" % e[2])
            return "(" + fmt.format(t, *[a[0] for a in args]) + ")", rty
        if k == 'call':
            f = e[1]
            if f[0] != 'path':
                raise Unparsed("call target")
            args = [self.expr(x, env) for x in e[2]]
            if f[1] in (['Plane', 'new'],) or (f[1] == ['Self', 'new'] and self.self_ty == 'Plane'):
                if [a[1] for a in args] != ['V3', 'V3']:
                    raise Unparsed("Plane::new arguments")
                return "(Plane.mk %s %s)" % (args[0][0], args[1][0]), 'Plane'
            if f[1] in (['Sphere', 'new'],) or (f[1] == ['Self', 'new'] and self.self_ty == 'Sphere'):
                if [a[1] for a in args] != ['V3', 'F']:
                    raise Unparsed("Sphere::new arguments")
                return "(Sphere.mk %s %s)" % (args[0][0], args[1][0]), 'Sphere'
            if len(f[1]) == 1 and f[1][0] in self.FUNCS:
                rty, name, argtys = self.FUNCS[f[1][0]]
                if [a[1] for a in args] != argtys:
                    raise Unparsed("arguments of %s" % f[1][0])
                return "(%s %s)" % (name, ' '.join(a[0] for a in args)), rty
            raise Unparsed("call %s" % '::'.join(f[1]))
        if k == 'if':
            c, ct = self.expr(e[1], env)
            if ct != 'B' or e[3] is None or e[2][1] or e[3][0] != 'block' or e[3][1] or e[2][2] is None or e[3][2] is None:
                raise Unparsed("if expression form")
            a, ta = self.expr(e[2][2], env)
            b, tb = self.expr(e[3][2], env)
            if ta != tb:
                raise Unparsed("if branches of different type")
            return "(if %s then %s else %s)" % (c, a, b), ta
        if k == 'struct':
            fields = dict(e[2])
            if e[1] in (['HalfSpace'], ['Self']) and self.self_ty == 'HalfSpace' and {'plane', 'd', 'errb'} <= set(fields):
                pl, tp = self.expr(fields['plane'], env)
                dd, td = self.expr(fields['d'], env)
                eb, te = self.expr(fields['errb'], env)
                if (tp, td, te) != ('Plane', 'F', 'F'):
                    raise Unparsed("HalfSpace literal")
                return "(HalfSpaceM.mk %s %s %s)" % (pl, dd, eb), 'HalfSpace'
            if e[1] == ['DVec4'] and set(fields) == set('xyzw'):
                parts = [self.expr(fields[c], env) for c in 'xyzw']
                if any(p[1] != 'F' for p in parts):
                    raise Unparsed("DVec4 literal")
                return "(V4.mk %s)" % ' '.join(p[0] for p in parts), 'V4'
            if e[1] == ['DVec3'] and set(fields) == set('xyz'):
                parts = [self.expr(fields[c], env) for c in 'xyz']
                if any(p[1] != 'F' for p in parts):
                    raise Unparsed("DVec3 literal")
                return "(V3.mk %s)" % ' '.join(p[0] for p in parts), 'V3'
            raise Unparsed("struct literal %s" % '::'.join(e[1]))
        raise Unparsed("expression kind %s" % k)

    def function(self, lean_name, params, body, mut_self=False):
        """-> Lean definition text"""
        env = {}
        binders = []
        for (nm, ty) in params_of(params):
            if nm == 'self':
                env['self'] = ('self_', self.self_ty)
                binders.append("(self_ : %s α)" % ('HalfSpaceM' if self.self_ty == 'HalfSpace' else self.self_ty))
            else:
                t = self.decl_type(ty)
                env[nm] = (nm, t)
                if t == 'skip':
                    continue
                binders.append("(%s : %s)" % (nm, {'F': 'α', 'V3': 'V3 α', 'V4': 'V4 α', 'Plane': 'Plane α', 'Sphere': 'Sphere α', 'B': 'Bool'}[t]))
        blk = parse_body(body)
        lines = []
        guards = []

        def stmts(ss, env, indent):
            for s in ss:
                if s[0] == 'let':
                    _, mut, pat, ty, init = s
                    if pat[0] != 'pvar' or init is None:
                        raise Unparsed("let form")
                    t, tt = self.expr(init, env)
                    lines.append("%slet %s := %s" % (indent, pat[1], t))
                    env[pat[1]] = (pat[1], tt)
                elif s[0] == 'expr' and s[1][0] == 'macro' and s[1][1] in ('assert', 'debug_assert'):
                    guards.append(' '.join(x[1] for x in s[1][2])[:80])
                elif s[0] == 'assign' and s[1] == '=' and s[2][0] == 'field' and s[2][1] == ('path', ['self']) and mut_self:
                    t, tt = self.expr(s[3], env)
                    if self.FIELDS.get((self.self_ty, s[2][2])) != tt:
                        raise Unparsed("assignment to self.%s" % s[2][2])
                    lines.append("%sself_ := { self_ with %s := %s }" % (indent, s[2][2], t))
                elif s[0] == 'expr' and s[1][0] == 'if' and s[1][3] is None and mut_self:
                    c, ct = self.expr(s[1][1], env)
                    if ct != 'B':
                        raise Unparsed("if condition")
                    lines.append("%sif %s then" % (indent, c))
                    inner = s[1][2]
                    if inner[2] is not None:
                        raise Unparsed("if block with a value")
                    stmts(inner[1], dict(env), indent + "  ")
                else:
                    raise Unparsed("statement %s" % s[0])
        retty = None
        if mut_self:
            lines.append("  let mut self_ := self_")
        stmts(blk[1], env, "  ")
        if blk[2] is None:
            raise Unparsed("function without a value")
        t, retty = self.expr(blk[2], env)
        lty = {'F': 'α', 'V3': 'V3 α', 'V4': 'V4 α', 'Plane': 'Plane α', 'Sphere': 'Sphere α', 'B': 'Bool', 'HalfSpace': 'HalfSpaceM α'}[retty]
        if mut_self:
            head = "def %s %s : %s := Id.run do" % (lean_name, ' '.join(binders), lty)
            return head + "\n" + '\n'.join(lines) + "\n  return %s\n" % t, guards
        head = "def %s %s : %s :=" % (lean_name, ' '.join(binders), lty)
        return head + "\n" + '\n'.join(lines) + ("\n" if lines else "") + "  %s\n" % t, guards


def gen_geom():
    src = strip_attrs_cfg(read('src/geometry.rs'))
    toks = tokenize(src)
    ps, pe = find_impl(toks, ['Plane'])
    ss, se = find_impl(toks, ['Sphere'])
    out = ["variable {α : Type} [Add α] [Sub α] [Mul α] [Div α] [Neg α] [NatCast α] [Scalar α]", ""]
    table = [
        ('projectOnto', 'Plane', toks[ps:pe], 'project_onto', False),
        ('intersectPlanes', None, toks, 'intersect_planes', False),
        ('projectOntoIntersection', 'Plane', toks[ps:pe], 'project_onto_intersection', False),
        ('signedVolumeTet', None, toks, 'signed_volume_tet', False),
        ('signedAreaTri', None, toks, 'signed_area_tri', False),
        ('sphere2', 'Sphere', toks[ss:se], 'from_two_points', False),
        ('sphere3', 'Sphere', toks[ss:se], 'from_three_points', False),
        ('sphere4', 'Sphere', toks[ss:se], 'from_four_points', False),
        ('contains', 'Sphere', toks[ss:se], 'contains', False),
        ('extend', 'Sphere', toks[ss:se], 'extend', True),
    ]
    for lean_name, self_ty, tk, rust_name, mut_self in table:
        params, body, _ = find_fn(tk, rust_name)
        fe = FloatEmitter(self_ty or 'Plane')
        text, guards = fe.function(lean_name, params, body, mut_self)
        out.append("/-- `%s`%s -/" % (rust_name, (' (guarded by: ' + '; '.join(guards).replace('-/', '- /') + ')') if guards else ''))
        out.append(text)
    return '\n'.join(out)


def gen_halfspace():
    src = strip_attrs_cfg(read('src/voronoi/half_space.rs'))
    toks = tokenize(src)
    hs, he = find_impl(toks, ['HalfSpace'])
    body = toks[hs:he]
    # const EPSILON: f64 = <lit>;
    eps = None
    for i in range(len(body) - 6):
        if body[i][1] == 'const' and body[i + 1][1] == 'EPSILON':
            j = i
            while body[j][1] != '=':
                j += 1
            eps = body[j + 1][1]
    if eps is None:
        raise Unparsed("const EPSILON not found")
    out = ["variable {α : Type} [Add α] [Sub α] [Mul α] [Div α] [Neg α] [NatCast α] [Scalar α]", ""]
    for lean_name, rust_name in (('halfSpaceNew', 'new'), ('halfSpaceClip', 'clip')):
        params, fbody, _ = find_fn(body, rust_name)
        fe = FloatEmitter('HalfSpace')
        fe.consts = {'EPSILON': fe.lit(eps)}
        text, guards = fe.function(lean_name, params, fbody, False)
        out.append("/-- `HalfSpace::%s` -/" % rust_name)
        out.append(text)
    return '\n'.join(out)


# --------------------------------------------------------------------------
# Fragment 8: input handling per dimensionality (C08, C13, C16): `Generator::new`, `Dimensionality::vector_is_valid`,
# the axis-normalisation block of both builders, the active-subspace radius of `Vertex::from_dual`,
# the safety radius formula
# --------------------------------------------------------------------------
import extract2
ProcEmitter = extract2.make_proc_emitter(FloatEmitter)
VARS = "variable {α : Type} [Add α] [Sub α] [Mul α] [Div α] [Neg α] [NatCast α] [Scalar α]\n"


def dim_stmt(s, dimname):
    """a statement of the normalisation block: `if let <dims> = dimensionality {..}` or `match dimensionality {..}`"""
    return s[0] == 'expr' and ((s[1][0] == 'iflet' and s[1][2] == ('path', [dimname])) or (s[1][0] == 'match' and s[1][1] == ('path', [dimname])))


def emit_normalise(name, params, body_tokens, what, lookup):
    pl = params_of(params)
    vecs = [nm for nm, ty in pl if 'DVec3' in ty and '[' not in ty]
    dimname = next((nm for nm, ty in pl if 'Dimensionality' in ty), None)
    if len(vecs) != 2 or dimname is None:
        raise Unparsed("parameters of %s" % what)
    aname, wname = vecs
    env = {aname: ('anchor', 'V3'), wname: ('width', 'V3'), dimname: ('dimensionality', 'Dim')}

    def is_helper_call(s):
        return (s[0] == 'expr' and s[1][0] == 'call' and s[1][1][0] == 'path' and len(s[1][1][1]) <= 2
                and {a[1][0] for a in s[1][2] if a[0] == 'path' and len(a[1]) == 1} >= {aname, wname, dimname} and lookup(s[1][1][1][-1]) is not None)
    ss = extract2.leading_stmts(body_tokens, lambda s: dim_stmt(s, dimname) or is_helper_call(s))
    if not ss:
        raise Unparsed("normalisation block of %s not found" % what)
    pe = ProcEmitter('Plane')
    lines = ["  let mut anchor := anchor", "  let mut width := width"]
    n = 0
    for st in ss:
        if is_helper_call(st):
            hp, hb = lookup(st[1][1][1][-1])
            hnames = [nm for nm, _ in params_of(hp)]
            if len(hnames) != len(st[1][2]) or any(a[0] != 'path' for a in st[1][2]):
                raise Unparsed("helper call in %s" % what)
            henv = {hn: env[a[1][0]] for hn, a in zip(hnames, st[1][2]) if a[1][0] in env}
            hblk = parse_body(hb)
            if hblk[2] is not None and not (hblk[2][0] in ('iflet', 'match')):
                raise Unparsed("helper of %s returns a value" % what)
            hs = hblk[1] + ([('expr', hblk[2])] if hblk[2] is not None else [])
            pe.stmts(hs, henv, lines, "  ")
            n += len(hs)
        else:
            pe.stmts([st], env, lines, "  ")
            n += 1
    return ("/-- the axis normalisation block at the top of `%s` (%d statements) -/\n" % (what, n) +
            "def %s (anchor width : V3 α) (dimensionality : Dim) : V3 α × V3 α := Id.run do\n" % name +
            '\n'.join(lines) + "\n  return (anchor, width)\n")


def gen_diminput():
    out = [VARS]
    # Generator::new
    toks = tokenize(strip_attrs_cfg(read('src/voronoi/generator.rs')))
    gs, ge = find_impl(toks, ['Generator'])
    params, body, _ = find_fn(toks[gs:ge], 'new')
    blk = parse_body(body)
    pe = ProcEmitter('Plane')
    pe.fn_lookup = make_lookup(toks)
    env = {}
    for nm, ty in params_of(params):
        if 'DVec3' in ty:
            env[nm] = ('loc', 'V3')
        elif 'Dimensionality' in ty:
            env[nm] = ('dimensionality', 'Dim')
    if sorted(v[1] for v in env.values()) != ['Dim', 'V3']:
        raise Unparsed("Generator::new parameters")
    lines = []
    pe.stmts(blk[1], env, lines, "  ")
    tail = blk[2]
    if tail is None or tail[0] != 'struct' or 'loc' not in dict(tail[2]):
        raise Unparsed("Generator::new result")
    t, ty = pe.expr(dict(tail[2])['loc'], env)
    if ty != 'V3':
        raise Unparsed("Generator::new loc type")
    out.append("/-- `Generator::new`: the stored position -/\ndef generatorNew (loc : V3 α) (dimensionality : Dim) : V3 α := Id.run do\n" +
               '\n'.join(lines) + ("\n" if lines else "") + "  return %s\n" % t)
    # Dimensionality::vector_is_valid
    vt = tokenize(strip_attrs_cfg(read('src/voronoi.rs')))
    ds, de = find_impl(vt, ['Dimensionality'])
    params, body, _ = find_fn(vt[ds:de], 'vector_is_valid')
    vname = next((nm for nm, ty in params_of(params) if 'DVec3' in ty), None)
    blk = parse_body(body)
    pe = ProcEmitter('Dim')
    env = {'self': ('self_', 'Dim'), vname: ('v', 'V3')}
    lines = []
    pe.ret_wrap = lambda e, env_: pe.expr(e, env_)[0]
    pe.stmts(blk[1], env, lines, "  ")
    if blk[2] is None:
        raise Unparsed("vector_is_valid body")
    t, ty = pe.expr(blk[2], env)
    if ty != 'B':
        raise Unparsed("vector_is_valid type")
    if lines:
        out.append("/-- `Dimensionality::vector_is_valid` -/\ndef vectorIsValid (self_ : Dim) (v : V3 α) : Bool := Id.run do\n%s\n  return %s\n" % ('\n'.join(lines), t))
    else:
        out.append("/-- `Dimensionality::vector_is_valid` -/\ndef vectorIsValid (self_ : Dim) (v : V3 α) : Bool :=\n  %s\n" % t)
    # normalisation blocks
    lookup = make_lookup(vt)
    params, body, _ = find_fn(vt, 'build_internal')
    out.append(emit_normalise('normaliseDirect', params, body, 'Voronoi::build_internal', lookup))
    params, body, _ = find_fn_in_impls(vt, 'VoronoiIntegrator', 'build')
    out.append(emit_normalise('normaliseIntegrator', params, body, 'VoronoiIntegrator::build', lookup))
    return '\n'.join(out)


def gen_vertexradius():
    out = [VARS]
    # Vertex::from_dual
    ct = tokenize(strip_attrs_cfg(read('src/voronoi/convex_cell.rs')))
    vs, ve = find_impl(ct, ['Vertex'])
    params, body, _ = find_fn(ct[vs:ve], 'from_dual')
    blk = parse_body(body)
    pe = ProcEmitter('Plane')
    pl = params_of(params)
    if len(pl) != 6 or any('usize' not in ty for _, ty in pl[:3]) or 'HalfSpace' not in pl[3][1] or 'DVec3' not in pl[4][1] or 'Dimensionality' not in pl[5][1]:
        raise Unparsed("from_dual parameters")
    idxnames = [nm for nm, _ in pl[:3]]
    hsname = pl[3][0]
    env = {pl[4][0]: ('gen_loc', 'V3'), pl[5][0]: ('dimensionality', 'Dim')}

    class FD(ProcEmitter):
        def expr(self, e, env):
            # `half_spaces[i].plane` -> the plane parameter `pi`
            if e[0] == 'field' and e[2] == 'plane' and e[1][0] == 'index' and e[1][1] == ('path', [hsname]) and e[1][2][0] == 'path' and e[1][2][1][0] in idxnames:
                return 'p' + 'ijk'[idxnames.index(e[1][2][1][0])], 'Plane'
            return ProcEmitter.expr(self, e, env)
    pe = FD('Plane')
    lines = []
    pe.stmts(blk[1], env, lines, "  ")
    tail = blk[2]
    if tail is None or tail[0] != 'struct':
        raise Unparsed("from_dual result")
    f = dict(tail[2])
    tl, tyl = pe.expr(f['loc'], env)
    tr, tyr = pe.expr(f['radius2'], env)
    if (tyl, tyr) != ('V3', 'F'):
        raise Unparsed("from_dual field types")
    dual = f['dual']
    if dual[0] != 'array' or any(x[0] != 'path' for x in dual[1]):
        raise Unparsed("from_dual dual")
    out.append("/-- `Vertex::from_dual`: position and squared radius in the active subspace -/\n"
               "def vertexFromDual (pi pj pk : Plane α) (gen_loc : V3 α) (dimensionality : Dim) : V3 α × α :=\n" +
               '\n'.join(lines) + "\n  (%s, %s)\n" % (tl, tr))
    if any(x[1][0] not in idxnames for x in dual[1]):
        raise Unparsed("from_dual dual entries")
    out.append("/-- order in which `from_dual` stores its three plane indices (by parameter position) -/\ndef vertexDualOrder : List String := [%s]\n" %
               ', '.join('"%s"' % 'ijk'[idxnames.index(x[1][0])] for x in dual[1]))
    # update_safety_radius
    cs, ce = find_impl(ct, ['ConvexCell'])
    _, body, _ = find_fn(ct, 'update_safety_radius')
    blk = parse_body(body)
    chain = None
    formula = None
    maxname = None
    for s in blk[1]:
        if s[0] == 'let' and s[2][0] == 'pvar' and s[4] is not None and chain is None:
            try:
                c = method_chain(s[4])
            except Unparsed:
                c = None
            if c and c[:2] == ['self', 'vertices']:
                chain = c
                maxname = s[2][1]
        if s[0] == 'assign' and s[1] == '=' and s[2] == ('field', ('path', ['self']), 'safety_radius') and maxname is not None:
            pe = ProcEmitter('Plane')
            formula, fty = pe.expr(s[3], {maxname: ('max_dist_2', 'F')})
            if fty != 'F':
                raise Unparsed("safety radius formula type")
    if chain is None or formula is None:
        raise Unparsed("update_safety_radius form")
    out.append("/-- `update_safety_radius`: the radius as a function of the maximal squared vertex distance -/\n"
               "def safetyRadiusOfMax (max_dist_2 : α) : α :=\n  %s\n" % formula)
    out.append("/-- how `update_safety_radius` obtains `max_dist_2` (method chain on `self`) -/\ndef safetyRadiusChain : List String := [%s]\n" %
               ', '.join('"%s"' % c for c in chain))
    return '\n'.join(out)


def make_lookup(*token_lists):
    """helper-function lookup over the token streams of the files a fragment reads"""
    def lookup(name):
        for toks in token_lists:
            try:
                p_, b_, _ = find_fn(toks, name)
                return p_, b_
            except Unparsed:
                continue
        return None
    return lookup


def with_aux(pe, text):
    """prepend the helper definitions an emitter met"""
    aux = ''.join(a + '\n' for a in pe.aux)
    pe.aux.clear()
    return aux + text


def find_fn_in_impls(tokens, type_name, fn_name):
    """`fn fn_name` inside any inherent `impl ... type_name ... {` block (no `for`)"""
    i = 0
    while i < len(tokens):
        if tokens[i] == ('id', 'impl'):
            k = i + 1
            while tokens[k][1] != '{':
                k += 1
            hdr = [t[1] for t in tokens[i + 1:k]]
            e = find_matching(tokens, k, '{', '}')
            if type_name in hdr and 'for' not in hdr:
                try:
                    return find_fn(tokens[k + 1:e], fn_name)
                except Unparsed:
                    pass
            i = e
        i += 1
    raise Unparsed("fn %s::%s not found" % (type_name, fn_name))


def method_chain(e):
    """`self.a.iter().map(|v| v.f).max_by(|a, b| a.partial_cmp(b)...)...` -> ["a", "iter", "map:f", "max_by:partial_cmp", ...]"""
    out = []
    while True:
        if e[0] == 'mcall':
            tag = e[2]
            if e[3] and e[3][0][0] == 'closure':
                b = e[3][0][2]
                while b[0] == 'mcall' and b[1][0] == 'mcall':
                    b = b[1]
                if b[0] == 'field':
                    tag += ':' + b[2]
                elif b[0] == 'mcall':
                    tag += ':' + b[2]
            out.append(tag)
            e = e[1]
        elif e[0] == 'field':
            out.append(e[2])
            e = e[1]
        elif e[0] == 'path':
            out.append('::'.join(e[1]))
            break
        else:
            raise Unparsed("method chain")
    return list(reversed(out))


# --------------------------------------------------------------------------
# Fragment 9: the per-cell construction steps of src/voronoi/convex_cell.rs and `HalfSpace::right_loc` (C01, C05, C10, C16, C18)
# --------------------------------------------------------------------------

def find_stmt(stmts, pred):
    for s in stmts:
        if pred(s):
            return s
    return None


def describe_point(e, hsname='p', vertexvar='dual'):
    """which point an argument of the exact predicate is: gen | dual0..2 | new"""
    # simulation_boundary.iloc(X)
    if e[0] == 'mcall' and e[2] == 'iloc' and len(e[3]) == 1:
        x = e[3][0]
        if x == ('field', ('path', ['self']), 'loc'):
            return 'gen'
        if x[0] == 'mcall' and x[2] == 'right_loc':
            args = x[3]
            if len(args) != 2 or args[0] != ('field', ('path', ['self']), 'idx'):
                raise Unparsed("right_loc arguments")
            r = x[1]
            if r == ('path', [hsname]):
                return 'new'
            if r[0] == 'index' and r[1] == ('field', ('path', ['self']), 'clipping_planes') and r[2][0] == 'index' and r[2][1] == ('path', [vertexvar]) and r[2][2][0] == 'num':
                return 'dual' + r[2][2][1]
    raise Unparsed("argument of the exact predicate")


def gen_cellinit():
    out = [VARS]
    ct = tokenize(strip_attrs_cfg(read('src/voronoi/convex_cell.rs')))
    # ---- ConvexCell::init: the eight initial dual triples
    _, body, _ = find_fn_in_impls(ct, 'ConvexCell', 'init')
    blk = parse_body(body)
    vs = find_stmt(blk[1], lambda s: s[0] == 'let' and s[2] == ('pvar', 'vertices'))
    if vs is None or vs[4][0] != 'macro' or vs[4][1] != 'vec':
        raise Unparsed("ConvexCell::init vertices")
    from rustmini import parse_expr_tokens
    triples = []
    for part in split_commas(vs[4][2]):
        e = parse_expr_tokens(part)
        if e[0] != 'call' or e[1] != ('path', ['Vertex', 'from_dual']) or any(a[0] != 'num' for a in e[2][:3]):
            raise Unparsed("initial vertex form")
        if e[2][3:] != [('path', ['clipping_planes']), ('path', ['loc']), ('path', ['dimensionality'])]:
            raise Unparsed("initial vertex arguments")
        triples.append(tuple(int(a[1]) for a in e[2][:3]))
    out.append("/-- the dual triples of the initial box, `ConvexCell::init` -/\ndef initialDuals : List (Nat × Nat × Nat) := [%s]\n" %
               ', '.join("(%d, %d, %d)" % t for t in triples))
    return '\n'.join(out)


def gen_buildstep():
    out = [VARS]
    ct = tokenize(strip_attrs_cfg(read('src/voronoi/convex_cell.rs')))
    # ---- ConvexCell::build: one round of the clipping loop
    _, body, _ = find_fn_in_impls(ct, 'ConvexCell', 'build')
    blk = parse_body(body)
    loop = find_stmt(blk[1], lambda s: s[0] == 'for')
    if loop is None or loop[1] != ('ptuple', [('pvar', 'idx'), ('pvar', 'shift')]) or loop[2] != ('path', ['nearest_neighbours']):
        raise Unparsed("clipping loop header")
    first = find_stmt(blk[1], lambda s: s[0] == 'expr' and s[1][0] == 'macro' and s[1][1] == 'assert_eq')
    if first is None:
        raise Unparsed("first-neighbour assertion not found")
    ftxt = ' '.join(t[1] for t in first[1][2])
    out.append("/-- the first candidate is consumed and must be the generator itself: `assert_eq!(%s)` -/\ndef firstCandidateConsumed : Bool := %s\n" %
               (ftxt[:120].replace('-/', '- /'), 'true' if ('nearest_neighbours . next ( )' in ftxt and 'cell . idx' in ftxt) else 'false'))

    class BS(ProcEmitter):
        def expr(self, e, env):
            if e == ('index', ('path', ['generators']), ('path', ['idx'])):
                return 'generator_loc', 'GenLoc'
            return ProcEmitter.expr(self, e, env)
    pe = BS('Plane')
    pe.ret_wrap = lambda e, env: 'none' if e == ('path', ['cell']) else (_ for _ in ()).throw(Unparsed("return value in the clipping loop"))
    env = {'cell': ('cell', 'CellRec'), 'shift': ('shift', 'OptV3')}
    body_stmts = loop[3][1]
    if loop[3][2] is not None or not body_stmts:
        raise Unparsed("clipping loop body")
    last = body_stmts[-1]
    lines = []
    pe.stmts(body_stmts[:-1], env, lines, "  ")
    if not (last[0] == 'expr' and last[1][0] == 'mcall' and last[1][1] == ('path', ['cell']) and last[1][2] == 'clip_by_plane'):
        raise Unparsed("clipping loop does not end with clip_by_plane")
    hs = last[1][3][0]
    if hs[0] != 'call' or hs[1] != ('path', ['HalfSpace', 'new']) or len(hs[2]) != 4:
        raise Unparsed("HalfSpace::new call")
    tn, tyn = pe.expr(hs[2][0], env)
    tp, typ = pe.expr(hs[2][1], env)
    if (tyn, typ) != ('V3', 'V3'):
        raise Unparsed("HalfSpace::new argument types")
    right_ok = hs[2][2] == ('call', ('path', ['Some']), [('path', ['idx'])]) and hs[2][3] == ('path', ['shift'])
    out.append("/-- one round of the clipping loop of `ConvexCell::build` (guards: %s) -/\n" % '; '.join(pe.guards).replace('-/', '- /') +
               "def buildStep (cell : CellRec α) (generator_loc : V3 α) (shift : Option (V3 α)) : Option (V3 α × V3 α) := Id.run do\n" +
               '\n'.join(lines) + "\n  return some (%s, %s)\n" % (tn, tp))
    out.append("/-- the new half space carries the candidate's index and shift: `HalfSpace::new(n, p, Some(idx), shift)` -/\ndef buildStepTagsNeighbour : Bool := %s\n" % ('true' if right_ok else 'false'))
    return '\n'.join(out)


def gen_clipvertex():
    out = [VARS]
    ct = tokenize(strip_attrs_cfg(read('src/voronoi/convex_cell.rs')))
    # ---- clip_by_plane: the decision for one vertex, the arguments of the exact predicate, the new vertices
    params, body, _ = find_fn_in_impls(ct, 'ConvexCell', 'clip_by_plane')
    hsname = next((nm for nm, ty in params_of(params) if 'HalfSpace' in ty), None)
    if hsname is None:
        raise Unparsed("clip_by_plane has no HalfSpace parameter")
    blk = parse_body(body)
    wl = find_stmt(blk[1], lambda s: s[0] == 'while')
    if wl is None:
        raise Unparsed("vertex loop of clip_by_plane")
    ws = [s for s in wl[2][1] if s[0] != 'attr'] + ([('expr', wl[2][2])] if wl[2][2] is not None else [])
    if len(ws) != 3 or ws[0][0] != 'let' or ws[0][2][0] != 'pvar' or ws[0][4][0] != 'mcall' or ws[0][4][2] != 'clip' or ws[0][4][1] != ('path', [hsname]):
        raise Unparsed("vertex loop: filter call")
    cv = ws[0][2][1]                       # the variable holding the filter result
    farg = ws[0][4][3]
    if len(farg) != 1 or farg[0][0] != 'field' or farg[0][2] != 'loc' or farg[0][1][0] != 'index' or farg[0][1][1] != ('field', ('path', ['self']), 'vertices'):
        raise Unparsed("vertex loop: filter argument")
    ivar = farg[0][1][2]                   # index of the tested vertex
    if ws[1][0] != 'expr' or ws[1][1][0] != 'if' or ws[1][1][3] is not None or ws[2][0] != 'expr' or ws[2][1][0] != 'if':
        raise Unparsed("vertex loop: decision statements")
    pe = ProcEmitter('Plane')
    env = {cv: ('clip', 'F')}
    c1, t1 = pe.expr(ws[1][1][1], env)
    c2, t2 = pe.expr(ws[2][1][1], env)
    if (t1, t2) != ('B', 'B'):
        raise Unparsed("vertex loop: conditions")
    inner = [s for s in ws[1][1][2][1] if s[0] != 'attr' and not (s[0] == 'expr' and s[1][0] == 'call')]
    lets = {}
    asg = None
    for st in inner:
        if st[0] == 'let' and st[2][0] == 'pvar':
            lets[st[2][1]] = st[4]
        elif st[0] == 'assign' and st[1] == '=' and st[2] == ('path', [cv]):
            asg = st[3]
        else:
            raise Unparsed("statement in the exact branch")
    hs_in = hsname
    vidx = ivar
    if asg is not None and asg[0] == 'mcall' and asg[1] == ('path', ['self']):
        # the exact branch lives in a helper method: follow it
        hp, hb, _ = find_fn_in_impls(ct, 'ConvexCell', asg[2])
        hpl = [x for x in params_of(hp) if x[0] != 'self']
        if len(hpl) != len(asg[3]):
            raise Unparsed("helper %s arity" % asg[2])
        for (nm, ty), arg in zip(hpl, asg[3]):
            if arg == ('path', [hsname]):
                hs_in = nm
            if arg == ivar:
                vidx = ('path', [nm])
        hblk = parse_body(hb)
        lets = {}
        for st in hblk[1]:
            if st[0] == 'let' and st[2][0] == 'pvar':
                lets[st[2][1]] = st[4]
            elif st[0] == 'attr' or (st[0] == 'expr' and st[1][0] == 'call'):
                pass
            else:
                raise Unparsed("statement in helper %s" % asg[2])
        asg = hblk[2]
    if asg is None or asg[0] != 'call' or asg[1] != ('path', ['in_sphere_test_exact']) or len(asg[2]) != 5:
        raise Unparsed("call of the exact predicate")
    # the variable holding the dual triple of the tested vertex
    dualvar = next((nm for nm, v in lets.items() if v == ('field', ('index', ('field', ('path', ['self']), 'vertices'), vidx), 'dual')), None)
    if dualvar is None:
        raise Unparsed("dual of the tested vertex")
    args = []
    for a_ in asg[2]:
        x = lets.get(a_[1][0]) if a_[0] == 'path' else a_
        if x is None:
            raise Unparsed("argument of the exact predicate")
        args.append(describe_point(x, hs_in, dualvar))
    out.append("/-- the decision `clip_by_plane` takes for one vertex (`true` = removed): `filter` = `HalfSpace::clip`, `exact` = exact predicate -/\n"
               "def clipRemoved (filter exact : α) : Bool := Id.run do\n  let mut clip := filter\n  if %s then\n    clip := exact\n  return %s\n" % (c1, c2))
    out.append("/-- the five points handed to the exact predicate, in order -/\ndef exactArgs : List String := [%s]\n" % ', '.join('"%s"' % a for a in args))
    # new vertices: `Vertex::from_dual(cur, next, <new plane>, ..)` inside the loop over the boundary walk
    push = extract2.find_node(blk, lambda n: n[0] == 'for' and extract2.find_node(n[3], lambda m: m[0] == 'call' and m[1] == ('path', ['Vertex', 'from_dual'])) is not None)
    if push is None or push[1][0] != 'pvar':
        raise Unparsed("new vertex loop")
    nxt = push[1][1]
    call = extract2.find_node(push[3], lambda m: m[0] == 'call' and m[1] == ('path', ['Vertex', 'from_dual']))
    nv = call[2][:3]
    if any(a_[0] != 'path' for a_ in nv):
        raise Unparsed("new vertex arguments")
    adv = next((st for st in push[3][1] if st[0] == 'assign' and st[1] == '=' and st[3] == ('path', [nxt])), None)
    cur = adv[2][1][0] if adv is not None and adv[2][0] == 'path' else None
    # the new plane index: the length of `clipping_planes` before the push
    # (`let p = self.clipping_planes.len()` before the push, or `… .len() - 1` after it)
    LEN = ('mcall', ('field', ('path', ['self']), 'clipping_planes'), 'len', [])

    def is_push(st):
        return st[0] == 'expr' and st[1][0] == 'mcall' and st[1][2] == 'push' and st[1][1] == ('field', ('path', ['self']), 'clipping_planes')

    def plane_index_var(node):
        if isinstance(node, tuple) and node and node[0] == 'block':
            stmts = node[1]
            k = next((i for i, st in enumerate(stmts) if is_push(st)), None)
            if k is not None:
                for i, st in enumerate(stmts):
                    if st[0] == 'let' and st[2][0] == 'pvar':
                        if i < k and st[4] == LEN:
                            return st[2][1]
                        if i > k and st[4] in (('bin', '-', LEN, ('num', '1')), ('paren', ('bin', '-', LEN, ('num', '1')))):
                            return st[2][1]
        if isinstance(node, (tuple, list)):
            for x in node:
                if isinstance(x, (tuple, list)):
                    r = plane_index_var(x)
                    if r is not None:
                        return r
        return None
    newp = plane_index_var(blk)
    role = {nxt: 'next'}
    if cur:
        role[cur] = 'cur'
    if newp:
        role[newp] = 'p_idx'
    out.append("/-- dual triple of a new vertex along the boundary cycle (`cur` = walk position, `next` = its successor, `p_idx` = the new plane) -/\n"
               "def newVertexDual : List String := [%s]\n" % ', '.join('"%s"' % role.get(a_[1][0], '?' + a_[1][0]) for a_ in nv))
    return '\n'.join(out)


def gen_rightloc():
    out = [VARS]
    # ---- HalfSpace::right_loc
    ht = tokenize(strip_attrs_cfg(read('src/voronoi/half_space.rs')))
    params, body, _ = find_fn_in_impls(ht, 'HalfSpace', 'right_loc')
    pl = [x for x in params_of(params) if x[0] != 'self']
    leftname = next((nm for nm, ty in pl if 'usize' in ty), None)
    gensname = next((nm for nm, ty in pl if 'Generator' in ty), None)
    if leftname is None or gensname is None:
        raise Unparsed("right_loc parameters")
    blk = parse_body(body)
    if blk[1] or blk[2] is None or blk[2][0] not in ('iflet', 'match'):
        raise Unparsed("right_loc body")

    class RL(ProcEmitter):
        def expr(self, e, env):
            if e[0] == 'index' and e[1] == ('path', [gensname]) and e[2][0] == 'path' and env.get(e[2][1][0]) == (e[2][1][0], 'Idx'):
                return 'right_gen_loc', 'GenLoc'
            if e == ('index', ('path', [gensname]), ('path', [leftname])):
                return 'left_loc', 'GenLoc'
            if e == ('field', ('path', ['self']), 'shift'):
                return 'shift', 'OptV3'
            some = none = None
            if e[0] == 'iflet' and e[2] == ('field', ('path', ['self']), 'right_idx') and e[4] is not None:
                some, none = (e[1], e[3]), e[4]
            if e[0] == 'match' and e[1] == ('field', ('path', ['self']), 'right_idx'):
                for pat, guard, body_ in e[2]:
                    if guard is not None:
                        raise Unparsed("right_loc guard")
                    if pat[0] == 'pctor' and pat[1] == ['Some']:
                        some = (pat, body_)
                    elif (pat[0] == 'pctor' and pat[1] == ['None']) or pat[0] == 'pwild':
                        none = body_
                if some is None or none is None:
                    raise Unparsed("right_loc arms")
            if some is not None:
                pat = some[0]
                if not (pat[0] == 'pctor' and pat[1] == ['Some'] and len(pat[2]) == 1 and pat[2][0][0] == 'pvar'):
                    raise Unparsed("right_loc pattern")
                env2 = dict(env)
                env2[pat[2][0][1]] = (pat[2][0][1], 'Idx')
                a_, ta = self.value(some[1], env2)
                b_, tb = self.value(none, dict(env))
                if ta != tb:
                    raise Unparsed("right_loc branch types")
                return "(match right_gen with\n    | some right_gen_loc => %s\n    | none => %s)" % (a_, b_), ta
            return ProcEmitter.expr(self, e, env)
    pe = RL('HalfSpace')
    t, ty = pe.expr(blk[2], {'self': ('self_', 'HalfSpace')})
    if ty != 'V3':
        raise Unparsed("right_loc type")
    out.append("/-- `HalfSpace::right_loc` (`right_gen` = position of `generators[right_idx]` when there is a right generator) -/\n"
               "def rightLoc (self_ : HalfSpaceM α) (right_gen : Option (V3 α)) (shift : Option (V3 α)) (left_loc : V3 α) : V3 α :=\n  %s\n" % t)
    return '\n'.join(out)


def flatten_expr(e):
    if e[0] == 'bin':
        return flatten_expr(e[2]) + [e[1]] + flatten_expr(e[3])
    if e[0] == 'field':
        return flatten_expr(e[1]) + ['.', e[2]]
    if e[0] == 'path':
        return ['::'.join(e[1])]
    if e[0] == 'num':
        return [e[1]]
    if e[0] == 'paren':
        return ['('] + flatten_expr(e[1]) + [')']
    raise Unparsed("expression in take()")


# --------------------------------------------------------------------------
# Fragment 10: keys and shifts of the periodic best-first search, src/rtree_nn.rs (C06, C17)
# --------------------------------------------------------------------------

def emit_method(pe, lean_name, self_name, self_ty, params, body, extra_env=None, doc=''):
    """translate a method `fn f(&self | &mut self | self | mut self, v: DVec3, ..)`; a method without value returns `self`"""
    env = dict(extra_env or {})
    binders = []
    mut_self = False
    for nm, ty in params_of(params):
        if nm == 'self':
            env['self'] = (self_name, self_ty)
            binders.append("(%s : %s)" % (self_name, extract2.LTY[self_ty]))
            mut_self = True
        elif nm in env:
            binders.append("(%s : %s)" % (env[nm][0], extract2.LTY[env[nm][1]]))
        else:
            t = pe.decl_type(ty)
            env[nm] = (nm, t)
            binders.append("(%s : %s)" % (nm, extract2.LTY[t]))
    blk = parse_body(body)
    lines = ["  let mut %s := %s" % (self_name, self_name)] if mut_self else []
    pe.ret_wrap = lambda e, env_: pe.expr(e, env_)[0]
    pe.stmts(blk[1], env, lines, "  ")
    if blk[2] is None:
        if not mut_self:
            raise Unparsed("method %s has no value" % lean_name)
        t, ty = self_name, self_ty
    else:
        t, ty = pe.expr(blk[2], env)
    return "/-- %s -/\ndef %s %s : %s := Id.run do\n%s\n  return %s\n" % (doc, lean_name, ' '.join(binders), extract2.LTY[ty], '\n'.join(lines), t)


def int_lit(e):
    if e[0] == 'num':
        return int(e[1])
    if e[0] == 'un' and e[1] == '-' and e[2][0] == 'num':
        return -int(e[2][1])
    raise Unparsed("integer literal")


def range_pair(e):
    if e[0] == 'bin' and e[1] == '..=':
        return int_lit(e[2]), int_lit(e[3])
    if e[0] == 'mcall' and e[2] == 'clone' and e[1][0] == 'path':
        return e[1][1][0]
    raise Unparsed("inclusive range")


def gen_nn():
    out = [VARS]
    toks = tokenize(strip_attrs_cfg(read('src/rtree_nn.rs')))
    lookup = make_lookup(toks)
    # reported shift: closure of wrapping_nn_iter
    _, body, _ = find_fn(toks, 'wrapping_nn_iter')
    blk = parse_body(body)
    cl = extract2.find_node(blk[2], lambda n: n[0] == 'closure')
    if cl is None or len(cl[1]) != 1 or cl[1][0][0] != 'ptuple' or len(cl[1][0][1]) != 3 or cl[1][0][1][-1][0] != 'pvar' or cl[1][0][1][0][0] != 'pvar' or cl[2][0] != 'block':
        raise Unparsed("closure of wrapping_nn_iter")
    gname, sname = cl[1][0][1][0][1], cl[1][0][1][-1][1]
    pe = ProcEmitter('Plane')
    pe.fn_lookup = lookup
    env = {sname: ('shift', 'A3')}
    lines = []
    pe.stmts(cl[2][1], env, lines, "  ")
    tail = cl[2][2]
    if tail is None or tail[0] != 'tuple' or len(tail[1]) != 2 or tail[1][0] != ('mcall', ('path', [gname]), 'id', []):
        raise Unparsed("result of the closure of wrapping_nn_iter")
    t, ty = pe.expr(tail[1][1], env)
    if ty != 'OptV3':
        raise Unparsed("reported shift type")
    out.append(with_aux(pe, "/-- the shift `wrapping_nn_iter` reports for the query shift of a visited leaf -/\ndef reportedShift (shift : V3 α) : Option (V3 α) :=\n" +
               '\n'.join(lines) + ("\n" if lines else "") + "  %s\n" % t))
    # leaf key
    gs, ge = find_impl(toks, ['WrappingPointDistance', 'for', 'Generator'])
    params, body, _ = find_fn(toks[gs:ge], 'wrapping_distance_2')
    pn = [nm for nm, _ in params_of(params) if nm != 'self']
    if len(pn) != 2:
        raise Unparsed("leaf key parameters")
    pe = ProcEmitter('Plane')
    pe.fn_lookup = lookup
    txt = emit_method(pe, 'wrapPointDist2', 'self_loc', 'GenLoc', params, body,
                      {pn[0]: ('point', 'A3'), pn[1]: ('shift', 'A3')}, '`Generator::wrapping_distance_2`: key of a leaf under a query shift')
    out.append(with_aux(pe, txt))
    # envelope key
    es, ee = find_impl(toks, ['WrappingEnvelope', 'for', 'AABB'])
    params, body, _ = find_fn(toks[es:ee], 'wrapping_distance_2')
    pn = [nm for nm, _ in params_of(params) if nm != 'self']
    if len(pn) != 2:
        raise Unparsed("envelope key parameters")
    blk = parse_body(body)
    inner = [s for s in blk[1] if s[0] == 'fn']
    pe = ProcEmitter('Plane')
    pe.fn_lookup = lookup
    pe.local_fns = {}
    for f in inner:
        fe = ProcEmitter('Plane')
        fenv = {}
        fb = []
        for nm, ty in params_of(f[2]):
            fenv[nm] = (nm, fe.decl_type(ty))
            fb.append("(%s : %s)" % (nm, extract2.LTY[fenv[nm][1]]))
        if f[3][1] or f[3][2] is None:
            raise Unparsed("nested fn %s" % f[1])
        t, ty = fe.expr(f[3][2], fenv)
        lname = 'nn' + f[1][0].upper() + f[1][1:]
        out.append("/-- nested `fn %s` of `AABB::wrapping_distance_2` -/\ndef %s %s : %s :=\n  %s\n" % (f[1], lname, ' '.join(fb), extract2.LTY[ty], t))
        pe.local_fns[f[1]] = (ty, lname, [fenv[nm][1] for nm, _ in params_of(f[2])])
    env = {'self': ('self_', 'Box3'), pn[0]: ('point', 'A3'), pn[1]: ('shift', 'A3')}
    lines = []
    pe.stmts([s for s in blk[1] if s[0] != 'fn'], env, lines, "  ")
    t, ty = pe.expr(blk[2], env)
    if ty != 'F':
        raise Unparsed("envelope key type")
    out.append(with_aux(pe, "/-- `AABB::wrapping_distance_2`: key of an inner node (its envelope) under a query shift -/\n"
               "def wrapEnvDist2 (self_ : Box3 α) (point shift : V3 α) : α := Id.run do\n" + '\n'.join(lines) + "\n  return %s\n" % t))
    # image ranges and the query shift of `RTreeWrappingNearestNeighbourIter::new`
    params, body, _ = find_fn_in_impls(toks, 'RTreeWrappingNearestNeighbourIter', 'new')
    pl = params_of(params)
    dimname = next((nm for nm, ty in pl if 'Dimensionality' in ty), None)
    arr = [nm for nm, ty in pl if 'f64' in ty]
    if dimname is None or len(arr) != 2:
        raise Unparsed("parameters of the iterator constructor")
    wname = arr[1]
    blk = parse_body(body)
    ranges = {}
    for s in blk[1]:
        if s[0] == 'let' and s[2][0] == 'pvar' and s[4] is not None and s[4][0] == 'match' and s[4][1] == ('path', [dimname]):
            arms = []
            try:
                for pat, guard, b in s[4][2]:
                    alts = extract2.dim_alts(pat)
                    lo, hi = range_pair(b)
                    arms.append("| %s => (%d, %d)" % (' | '.join('.' + a for a in alts) if alts else '_', lo, hi))
            except Unparsed:
                continue
            ranges[s[2][1]] = arms
    loops = []
    cur = find_stmt(blk[1], lambda s: s[0] == 'for')
    inner_stmts = None
    while cur is not None:
        if cur[1][0] != 'pvar':
            raise Unparsed("image loop variable")
        loops.append((cur[1][1], range_pair(cur[2])))
        inner_stmts = cur[3][1]
        cur = find_stmt(cur[3][1], lambda s: s[0] == 'for')
    if len(loops) != 3 or loops[0][1] != (-1, 1) or loops[1][1] not in ranges or loops[2][1] not in ranges or loops[1][1] == loops[2][1]:
        raise Unparsed("image loops %r" % (loops,))
    out.append("/-- image offsets along x: `for i in -1..=1` -/\ndef imageRangeI : Int × Int := (%d, %d)\n" % loops[0][1])
    out.append("/-- image offsets along y per dimensionality -/\ndef imageRangeJ (dimensionality : Dim) : Int × Int :=\n  match dimensionality with %s\n" % ' '.join(ranges[loops[1][1]]))
    out.append("/-- image offsets along z per dimensionality -/\ndef imageRangeK (dimensionality : Dim) : Int × Int :=\n  match dimensionality with %s\n" % ' '.join(ranges[loops[2][1]]))
    sh = find_stmt(inner_stmts, lambda s: s[0] == 'let' and s[2][0] == 'pvar' and s[4] is not None and s[4][0] == 'array')
    if sh is None:
        raise Unparsed("query shift")
    pe = ProcEmitter('Plane')
    t, ty = pe.expr(sh[4], {loops[0][0]: ('i', 'F'), loops[1][0]: ('j', 'F'), loops[2][0]: ('k', 'F'), wname: ('width', 'A3')})
    if ty != 'A3':
        raise Unparsed("query shift type")
    out.append("/-- the query shift of image `(i, j, k)` -/\ndef queryShift (i j k : α) (width : V3 α) : V3 α :=\n  %s\n" % t)
    return '\n'.join(out)


# --------------------------------------------------------------------------
# Fragment 11: `collect` / `finalize` of the built-in integrals (C01, C02, C04, C13, C14)
# --------------------------------------------------------------------------

def gen_integrals():
    out = [VARS]
    it = tokenize(strip_attrs_cfg(read('src/voronoi/integrals.rs')))
    ft = tokenize(strip_attrs_cfg(read('src/voronoi/voronoi_face.rs')))
    table = [
        (it, ['CellIntegral', 'for', 'VolumeCentroidIntegral'], 'VolAcc', 'volCentroid'),
        (it, ['CellIntegral', 'for', 'VolumeIntegral'], 'VolOnly', 'volOnly'),
        (it, ['FaceIntegral', 'for', 'AreaCentroidIntegral'], 'FaceAcc', 'areaCentroid'),
        (it, ['FaceIntegral', 'for', 'AreaIntegral'], 'AreaOnly', 'areaOnly'),
        (ft, ['FaceIntegral', 'for', 'VoronoiFaceIntegral'], 'FaceNAcc', 'voronoiFace'),
    ]
    lookup = make_lookup(it, ft)
    for toks, hdr, ty, name in table:
        s0, e0 = find_impl(toks, hdr)
        for meth in ('collect', 'finalize'):
            params, body, _ = find_fn(toks[s0:e0], meth)
            pe = ProcEmitter('Plane')
            pe.fn_lookup = lookup
            out.append(emit_method(pe, name + meth.capitalize(), 'self_', ty, params, body, None, '`%s::%s`' % (hdr[-1], meth)))
    return '\n'.join(out)


# --------------------------------------------------------------------------
# Fragment 12: the bookkeeping rules (C03, C07, C12, C13): which faces a cell stores, the symmetric skip,
# the links of `finalize`, `neighbour_ids`
# --------------------------------------------------------------------------

def gen_rules():
    out = []
    RE = extract2.RuleEmitter
    # ---- should_construct_face
    vt = tokenize(strip_attrs_cfg(read('src/voronoi/voronoi_cell.rs')))
    _, body, _ = find_fn_in_impls(vt, 'VoronoiCell', 'from_convex_cell')
    blk = parse_body(body)
    let = extract2.find_node(blk, lambda n: n[0] == 'let' and n[2] == ('pvar', 'should_construct_face'))
    if let is None:
        raise Unparsed("should_construct_face not found")

    class SC(RE):
        def expr(self, e, env):
            # `convex_cell.dimensionality.vector_is_valid(half_space.normal())` -> the parameter `valid`
            if e[0] == 'mcall' and e[2] == 'vector_is_valid' and len(e[3]) == 1 and e[3][0] == ('mcall', ('path', ['half_space']), 'normal', []):
                return 'valid', 'B'
            return RE.expr(self, e, env)
    env = {'half_space': ('hs', 'HS'), 'idx': ('idx', 'N'), 'mask': ('mask', 'OMASK')}
    t, ty = SC().expr(let[4], env)
    if ty != 'B':
        raise Unparsed("should_construct_face type")
    out.append("/-- `should_construct_face` of `VoronoiCell::from_convex_cell` (`valid` = the plane normal is valid for the dimensionality) -/\n"
               "def shouldConstructFace (valid : Bool) (hs_right : Option Nat) (hs_shift : Option Unit) (idx : Nat) (mask : Option (Nat → Bool)) : Bool :=\n  %s\n" % t)
    # ---- the two face-integral loops of ConvexCell
    ct = tokenize(strip_attrs_cfg(read('src/voronoi/convex_cell.rs')))

    _, body, _ = find_fn_in_impls(ct, 'ConvexCell', 'compute_face_integrals_sym')
    b2 = parse_body(body)
    m = extract2.find_node(b2, lambda n: n[0] == 'match' and n[1][0] == 'index' and n[1][1] == ('field', ('path', ['self']), 'clipping_planes'))
    if m is None:
        raise Unparsed("skip rule of compute_face_integrals_sym")
    mscrut = m[1]
    mparams = params_of(find_fn_in_impls(ct, 'ConvexCell', 'compute_face_integrals_sym')[0])
    maskname = next((nm for nm, ty in mparams if 'bool' in ty), None)
    if maskname is None:
        raise Unparsed("mask parameter of compute_face_integrals_sym")

    class SY(RE):
        def expr(self, e, env):
            if e == mscrut:
                return 'hs', 'HS'
            return RE.expr(self, e, env)
    t, ty = SY().expr(m, {'self': ('self_', 'SELF'), maskname: ('mask', 'MASK')})
    if ty != 'B':
        raise Unparsed("skip rule type")
    out.append("/-- the skip rule of `compute_face_integrals_sym` (`true` = this tetrahedron's face is skipped) -/\n"
               "def symSkip (hs_right : Option Nat) (hs_shift : Option Unit) (idx : Nat) (mask : Nat → Bool) : Bool :=\n  %s\n" % t)
    # ---- finalize: links of a stored face, offsets
    vt2 = tokenize(strip_attrs_cfg(read('src/voronoi.rs')))
    _, body, _ = find_fn_in_impls(vt2, 'Voronoi', 'finalize')
    blk = parse_body(body)
    loop = extract2.find_node(blk, lambda n: n[0] == 'for' and n[1][0] == 'ptuple' and len(n[1][1]) == 2 and all(q[0] == 'pvar' for q in n[1][1])
                              and n[2] == ('mcall', ('mcall', ('field', ('path', ['self']), 'faces'), 'iter', []), 'enumerate', []))
    if loop is None:
        raise Unparsed("face loop of finalize")
    ivar, fvar = loop[1][1][0][1], loop[1][1][1][1]
    env = {fvar: ('face', 'FACE')}
    parts = []
    container = [None]
    for st in loop[3][1] + ([('expr', loop[3][2])] if loop[3][2] is not None else []):
        def push_target(s):
            if s[0] == 'expr' and s[1][0] == 'mcall' and s[1][2] == 'push' and s[1][3] == [('path', [ivar])] and s[1][1][0] == 'index' and s[1][1][1][0] == 'path':
                if container[0] is None:
                    container[0] = s[1][1][1]
                if s[1][1][1] == container[0]:
                    return s[1][1][2]
            return None
        tg = push_target(st)
        if tg is not None:
            t, ty = RE().expr(tg, env)
            if ty != 'N':
                raise Unparsed("push target type")
            parts.append("[%s]" % t)
        elif st[0] == 'expr' and st[1][0] == 'iflet' and st[1][1][0] == 'ptuple' and st[1][2][0] == 'tuple' and st[1][4] is None:
            pats, scr = st[1][1][1], st[1][2][1]
            if len(pats) != 2 or len(scr) != 2:
                raise Unparsed("if-let tuple of finalize")
            re_ = RE()
            s1, t1 = re_.expr(scr[0], env)
            s2, t2 = re_.expr(scr[1], env)
            if (t1, t2) != ('ON', 'OS'):
                raise Unparsed("if-let scrutinee types")
            p1, v1 = re_.pat(pats[0], 'ON')
            p2, v2 = re_.pat(pats[1], 'OS')
            env2 = dict(env)
            for v, vt_ in list(v1.items()) + list(v2.items()):
                env2[v] = (v, vt_)
            inner = []
            for s2_ in st[1][3][1]:
                tg = push_target(s2_)
                if tg is None:
                    raise Unparsed("statement in the right-link branch")
                t, ty = re_.expr(tg, env2)
                inner.append("[%s]" % t)
            parts.append("(match %s, %s with | %s, %s => %s | _, _ => [])" % (s1, s2, p1, p2, ' ++ '.join(inner) if inner else '[]'))
        else:
            raise Unparsed("statement in the face loop of finalize")
    out.append("/-- cells a stored face is linked to by `finalize`, in order -/\ndef links (left : Nat) (right : Option Nat) (shift : Option Unit) : List Nat :=\n  %s\n" % ' ++ '.join(parts))
    # ---- VoronoiFace::is_periodic / is_boundary, VoronoiCell::neighbour_ids
    ft = tokenize(strip_attrs_cfg(read('src/voronoi/voronoi_face.rs')))
    for fn, lean, arg in (('is_periodic', 'facePeriodic', 'shift : Option Unit'), ('is_boundary', 'faceBoundary', 'right : Option Nat')):
        _, body, _ = find_fn_in_impls(ft, 'VoronoiFace', fn)
        b = parse_body(body)
        if b[1] or b[2] is None:
            raise Unparsed(fn)
        t, ty = RE().expr(b[2], {'self': ('self_', 'SELFFACE')})
        if ty != 'B':
            raise Unparsed(fn + " type")
        out.append("/-- `VoronoiFace::%s` -/\ndef %s (%s) : Bool :=\n  %s\n" % (fn, lean, arg, t))
    _, body, _ = find_fn_in_impls(vt, 'VoronoiCell', 'neighbour_ids')
    blk = parse_body(body)
    cl = extract2.find_node(blk, lambda n: n[0] == 'closure')
    if cl is None or cl[2][0] != 'block':
        raise Unparsed("closure of neighbour_ids")
    ss = cl[2][1]
    if not (len(ss) == 2 and ss[0][0] == 'let' and ss[0][2][0] == 'pvar' and ss[1][0] == 'expr' and ss[1][1][0] == 'if' and ss[1][1][3] is None):
        raise Unparsed("closure body of neighbour_ids")
    ret = ss[1][1][2][1]
    if ret != [('expr', ('return', ('path', ['None'])))]:
        raise Unparsed("early return of neighbour_ids")
    env = {ss[0][2][1]: ('face', 'FACE'), 'self': ('self_', 'SELF')}
    c, tc = RE().expr(ss[1][1][1], env)
    v, tv = RE().expr(cl[2][2], env)
    if tc != 'B' or tv != 'ON':
        raise Unparsed("neighbour_ids types")
    out.append("/-- the closure of `VoronoiCell::neighbour_ids` applied to one listed face -/\n"
               "def neighbourOf (left : Nat) (right : Option Nat) (shift : Option Unit) (idx : Nat) : Option Nat :=\n  if %s then none else %s\n" % (c, v))
    return '\n'.join(out)



# --------------------------------------------------------------------------
# Cycle: `SimpleCycle` (src/simple_cycle.rs), every method, statement by statement (tools/extract3.py)
# --------------------------------------------------------------------------
def gen_cycle():
    import extract3
    src = strip_attrs_cfg(read('src/simple_cycle.rs'))
    toks = tokenize(src)
    # ---- field roles from the struct definitions (names are free): the `Vec<usize>` field is the successor array, the public
    #      `len` is the length (used by `clip_by_plane`), the remaining `usize` field is the start; the iterator holds a reference
    #      to the cycle and a `usize`
    import re as _re
    m = _re.search(r"pub\s+struct\s+SimpleCycle\s*\{([^}]*)\}", src)
    if not m:
        raise Unparsed("struct SimpleCycle")
    fdecl = [x.strip() for x in m.group(1).split(',') if x.strip()]
    roles = {}
    for d in fdecl:
        nm, ty = [y.strip() for y in d.replace('pub ', '').split(':', 1)]
        if ty.replace(' ', '') == 'Vec<usize>':
            roles[nm] = 'ptrs'
        elif ty == 'usize' and nm == 'len':
            roles[nm] = 'len'
        elif ty == 'usize':
            roles[nm] = 'start'
        else:
            raise Unparsed("field %s : %s of SimpleCycle" % (nm, ty))
    if sorted(roles.values()) != ['len', 'ptrs', 'start']:
        raise Unparsed("fields of SimpleCycle")
    mi = _re.search(r"pub\s+struct\s+(\w+)\s*<'a>\s*\{([^}]*)\}", src)
    if not mi:
        raise Unparsed("iterator struct")
    iroles = {}
    for d in [x.strip() for x in mi.group(2).split(',') if x.strip()]:
        nm, ty = [y.strip() for y in d.replace('pub ', '').split(':', 1)]
        if 'SimpleCycle' in ty:
            iroles[nm] = 'simple_cycle'
        elif ty == 'usize':
            iroles[nm] = 'next'
        else:
            raise Unparsed("field %s : %s of the iterator" % (nm, ty))
    if sorted(iroles.values()) != ['next', 'simple_cycle']:
        raise Unparsed("fields of the iterator")
    ITER = mi.group(1)

    def rename_fields(node):
        """canonical field names in the AST"""
        if isinstance(node, tuple):
            if node and node[0] == 'field' and isinstance(node[2], str):
                base = rename_fields(node[1])
                nm = node[2]
                nm = roles.get(nm, iroles.get(nm, nm))
                return ('field', base, nm)
            if node and node[0] == 'struct':
                return ('struct', node[1], [(roles.get(f, iroles.get(f, f)), rename_fields(v)) for f, v in node[2]], rename_fields(node[3]) if node[3] is not None else None)
            return tuple(rename_fields(x) if isinstance(x, (tuple, list)) else x for x in node)
        if isinstance(node, list):
            return [rename_fields(x) for x in node]
        return node

    structs = {'Cycle': {'ptrs': 'PTRS', 'start': 'N', 'len': 'N'},
               'CycleIter': {'simple_cycle': 'Cycle', 'next': 'N'}}
    out = ["namespace Cycle\n"]

    def fn(name):
        params, body, _ = find_fn(toks, name)
        ps = params_of(params)
        blk = rename_fields(parse_body(body))
        return ps, (blk[0], extract3.unroll_literal_loops(blk[1]), blk[2])

    def args_of(ps):
        for n, t in ps:
            if n != 'self' and t != 'usize':
                raise Unparsed("parameter %s : %s" % (n, t))
        return [n for n, _ in ps if n != 'self']

    def defn(lean, doc, ps, ret_ty, lines, selfty='Cycle'):
        names = args_of(ps)
        sig = ''.join(" (%s : Nat)" % imp.name(n) for n in names)
        me = " (self_ : %s)" % selfty if any(n == 'self' for n, _ in ps) else ''
        out.append("/-- `%s` -/\ndef %s%s%s : %s :=\n%s\n" % (doc, lean, me, sig, ret_ty, '\n'.join(lines)))

    # the private membership test may have any name: the `fn NAME(&self, _: usize) -> bool` of the file
    mc = _re.search(r"fn\s+(\w+)\s*\(\s*&self\s*,\s*\w+\s*:\s*usize\s*\)\s*->\s*bool", src)
    if not mc:
        raise Unparsed("membership test")
    CONTAINS = mc.group(1)
    imp = extract3.Imp('Cycle', structs, {CONTAINS: 'B'}, 'Cycle.')
    imp.pure_name = lambda n: 'contains' if n == CONTAINS else n
    value = lambda env, v: imp.expr(v, env)[0]

    def ret_self(env, v):
        if v is not None:
            raise Unparsed("value returned from a unit method")
        return 'self_'

    def ret_result(env, v):
        if v is None:
            raise Unparsed("try_extend falls off its end")
        t, ty = imp.expr(v, env)
        if ty != 'RES':
            raise Unparsed("try_extend returns %s" % ty)
        return '(some self_)' if t == 'Ok' else 'none'

    # new
    ps, blk = fn('new')
    env = {n: 'N' for n in args_of(ps)}
    lines = imp.block(blk[1], blk[2], env, lambda env, v: value(env, v), '  ')
    defn('new', 'SimpleCycle::new', ps, 'Cycle', lines)
    # contains (before its users)
    ps, blk = fn(CONTAINS)
    env = dict({n: 'N' for n in args_of(ps)}, self='Cycle')
    defn('contains', 'SimpleCycle::contains', ps, 'Bool', imp.block(blk[1], blk[2], env, lambda env, v: value(env, v), '  '))
    # grow, init
    for name in ('grow', 'init'):
        ps, blk = fn(name)
        env = dict({n: 'N' for n in args_of(ps)}, self='Cycle')
        defn(name, 'SimpleCycle::' + name, ps, 'Cycle', imp.block(blk[1], blk[2], env, ret_self, '  '))
    # try_extend
    ps, blk = fn('try_extend')
    env = dict({n: 'N' for n in args_of(ps)}, self='Cycle')
    defn('tryExtend', 'SimpleCycle::try_extend` (`Ok(())` = `some` of the new cycle, `Err(())` = `none`)', ps, 'Option Cycle',
         imp.block(blk[1], blk[2], env, ret_result, '  '))
    # iter: the iterator starts at ...
    ps, blk = fn('iter')
    if blk[1] or blk[2] is None or blk[2][0] != 'struct' or blk[2][3] is not None:
        raise Unparsed("iter body")
    fields = dict(blk[2][2])
    if blk[2][1] != [ITER]:
        raise Unparsed("iter returns another type")
    if sorted(fields) != ['next', 'simple_cycle'] or fields['simple_cycle'] != ('path', ['self']):
        raise Unparsed("iterator fields")
    t, ty = imp.expr(fields['next'], {'self': 'Cycle'})
    if ty != 'N':
        raise Unparsed("iterator start")
    out.append("/-- `SimpleCycle::iter`: the iterator borrows the cycle and starts at -/\ndef iter (self_ : Cycle) : CycleIter :=\n  { simple_cycle := self_, next := %s }\n" % t)
    # Iterator::next
    it = extract3.Imp('CycleIter', structs, {}, '')
    ps, blk = fn('next')
    if args_of(ps):
        raise Unparsed("next takes arguments")

    def ret_next(env, v):
        if v is None:
            raise Unparsed("next without value")
        t, ty = it.expr(v, env)
        if ty != 'ON':
            raise Unparsed("next returns %s" % ty)
        return "(%s, self_)" % t
    defn('iterNext', 'Iterator::next` of the cycle iterator (item, iterator afterwards)', ps, 'Option Nat × CycleIter',
         it.block(blk[1], blk[2], {'self': 'CycleIter'}, ret_next, '  '), selfty='CycleIter')
    out.append("end Cycle")
    return '\n'.join(out)



# --------------------------------------------------------------------------
# Boundary: `ConvexCell::compute_boundary` (greedy reconstruction of the boundary of the removed region)
# --------------------------------------------------------------------------
def gen_boundary():
    import extract3
    toks = tokenize(strip_attrs_cfg(read('src/voronoi/convex_cell.rs')))
    params, body, _ = find_fn(toks, 'compute_boundary')
    ps = params_of(params)
    if [n for n, _ in ps] != ['boundary', 'vertices'] or 'SimpleCycle' not in ps[0][1] or 'Vertex' not in ps[1][1]:
        raise Unparsed("parameters of compute_boundary")
    blk = parse_body(body)
    imp = extract3.ImpP('Cycle', {'Cycle': {'ptrs': 'PTRS', 'start': 'N', 'len': 'N'}}, {}, '',
                        elem_fields={'dual': ('dual', 'DUAL')},
                        mut_methods={'init': ('Gen.Cycle.init', False, 'Cycle'), 'grow': ('Gen.Cycle.grow', False, 'Cycle'),
                                     'try_extend': ('Gen.Cycle.tryExtend', True, 'Cycle')})
    env = {'boundary': 'Cycle', 'vertices': 'AV'}
    imp.fn_name, imp.prefix_params, imp.prefix_args = 'computeBoundary', '{V : Type} (dual : V → Dual)', ' dual'
    lines = imp.blockP(extract3.stmts_of(blk), env, lambda env2, ind: [ind + "some (boundary, vertices)"], {'panic': 'none', 'brk': None}, '  ')
    fuels = ''.join(" (fuel%d : Nat)" % (i + 1) for i in range(imp.nfuel))
    return '\n'.join(imp.aux) + ("\n/-- `ConvexCell::compute_boundary(boundary, vertices)`: `none` = a panic (index out of range, or the assertion\n"
            "\"No suitable vertex found to extend boundary!\"); `dual` reads the dual triple of a vertex; `fuel…` bound the passes of the `loop`s -/\n"
            "def computeBoundary {V : Type} (dual : V → Dual)%s (boundary : Cycle) (vertices : Array V) : Option (Cycle × Array V) :=\n%s\n"
            % (fuels, '\n'.join(lines)))

# --------------------------------------------------------------------------
FRAGMENTS = [
    # (module name, source files, generator, imports)
    ('InSphere', ['src/geometry.rs'], gen_insphere, ['MVoro.Model.InSphere']),
    ('Face', ['src/voronoi/convex_cell.rs', 'src/voronoi/voronoi_face.rs'], gen_face, []),
    ('Grid', ['src/voronoi/boundary.rs'], gen_grid, []),
    ('Space', ['src/space.rs'], gen_space, []),
    ('Par', ['src/voronoi.rs'], gen_par, []),
    ('Geom', ['src/geometry.rs'], gen_geom, ['MVoro.Model.Geom']),
    ('HalfSpace', ['src/voronoi/half_space.rs'], gen_halfspace, ['MVoro.Model.Geom']),
    ('DimInput', ['src/voronoi/generator.rs', 'src/voronoi.rs'], gen_diminput, ['MVoro.Model.Build']),
    ('VertexRadius', ['src/voronoi/convex_cell.rs'], gen_vertexradius, ['MVoro.Model.Build', 'MVoro.Gen.Geom']),
    ('CellInit', ['src/voronoi/convex_cell.rs'], gen_cellinit, ['MVoro.Model.Build']),
    ('BuildStep', ['src/voronoi/convex_cell.rs'], gen_buildstep, ['MVoro.Model.Build']),
    ('ClipVertex', ['src/voronoi/convex_cell.rs'], gen_clipvertex, ['MVoro.Model.Build']),
    ('RightLoc', ['src/voronoi/half_space.rs'], gen_rightloc, ['MVoro.Model.Build', 'MVoro.Gen.Geom']),
    ('Rules', ['src/voronoi/voronoi_cell.rs', 'src/voronoi/convex_cell.rs', 'src/voronoi.rs', 'src/voronoi/voronoi_face.rs'], gen_rules, []),
    ('NN', ['src/rtree_nn.rs'], gen_nn, ['MVoro.Model.Build']),
    ('Cycle', ['src/simple_cycle.rs'], gen_cycle, ['MVoro.Model.Cycle']),
    ('Boundary', ['src/voronoi/convex_cell.rs'], gen_boundary, ['MVoro.Model.Clip', 'MVoro.Gen.Cycle']),
    ('Integrals', ['src/voronoi/integrals.rs', 'src/voronoi/voronoi_face.rs'], gen_integrals, ['MVoro.Model.Build', 'MVoro.Gen.Geom']),
]


# definitions with the right signatures but no content: keep the driver compiling when a fragment is unparsed
STUBS = {
    'InSphere': "def inSphereDet (a b c d v : I3 Int) : Int := 0\n" + ''.join("def signExtract_%s (determinant : Int) : Int := 0\n" % b for b in BACKENDS),
    'Face': "def clipNormalSign : Int := 0\ndef storedNormalSign : Int := 0\n",
    'Geom': "",
    'HalfSpace': "",
    'Par': "def parLoops : List (List String) := []\ndef seqLoops : List (List String) := []\ndef sharedStateHits : List String := []\ndef featureOnlyItems : List String := []\n",
    'Space': "def cellLocAxes : List Nat := []\ndef closestLocAxes : List (Nat × Nat × Nat) := []\ndef minDistToFaceWidthAxes : List Nat := []\ndef ringBoundWidthReduction : String := \"\"\n",
    'Grid': "def gridPad : Rat := 0\ndef gridSpan : Rat := 1\ndef mantissaMask : Nat := 0\ndef gridSharedScale : Bool := false\n",
}


def main():
    os.makedirs(OUT, exist_ok=True)
    status = {}
    for mod, files, gen, imports in FRAGMENTS:
        h = hashlib.sha256()
        for f in files:
            h.update(read(f).encode())
        head = "-- GENERATED by tools/extract.py from %s (sha256 %s) — do not edit\n" % (', '.join(files), h.hexdigest()[:16])
        head += ''.join("import %s\n" % i for i in imports)
        head += "set_option linter.unusedVariables false\nnamespace MVoro.Gen\nopen MVoro\n\n"
        try:
            body = gen()
            status[mod] = {'state': 'ok', 'sha': h.hexdigest()[:16]}
        except Unparsed as ex:
            body = "/-- translator could not parse this fragment: %s -/\ndef unparsed_%s : Unit := ()\n" % (str(ex).replace('-/', '- /'), mod)
            body += STUBS.get(mod, '')
            status[mod] = {'state': 'unparsed', 'why': str(ex), 'sha': h.hexdigest()[:16]}
        text = head + body + "\nend MVoro.Gen\n"
        status[mod]['changed'] = write_if_changed(os.path.join(OUT, mod + '.lean'), text)
    with open(os.path.join(OUT, 'gen_status.json'), 'w') as f:
        json.dump(status, f, indent=1, sort_keys=True)
    print(json.dumps(status))


if __name__ == '__main__':
    main()
