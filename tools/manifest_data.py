HOOK_COMMITS = ['fe2120e']
NOT_APPLICABLE = {}
NOTE = ('Trusted: Lean 4.33 kernel + Mathlib, axioms propext/Classical.choice/Quot.sound only (audited per theorem on every run); the hand-written executable model MVoro/Model/* and the translator '
        'tools/extract.py for the fragments it covers; the correspondence harness, its input generators and the tolerances of DESIGN §3.6 (scaled by the conditioning number of the input). '
        'Modelled, not verified: IEEE rounding, rstar/rayon/glam/big-integer crates, and trusted-base item 2 of DESIGN §4 (combinatorial cell = polytope). ')
def claim(technique, text, note=''):
    return {'technique': technique, 'text': text, 'note': NOTE + note}
CLAIMS = {
 'C01': claim('Lean 4 proof (early-terminating clipping loop = nearest-generator region, for all point sets and dimensions) + exact rational cell oracle in Lean compared with the real cells',
  'Theorems: half space = closer-to-g; run_eq_voronoi: for candidates in order of distance and any valid radius function the loop with security-radius termination returns {x in B | forall q, dist x g <= dist x q}; unclipped planes are irrelevant; vertex radius is a valid radius. Correspondence: every cell built by the implementation (volume, centroid, faces keyed by neighbour+shift, polytope Hausdorff distance) against the exact rational cell on all input families.',
  'Partial: that the H- and V-representation maintained by clipping describe the same polytope is certified per cell at run time (feasibility, brute-force rebuild), not proved. KNOWN findings F1, F2.'),
 'C02': claim('Lean 4 proof (cells cover; overlaps lie in a proper hyperplane; generator strictly inside; unit thickness) + exact rational volumes summing exactly to the box + correspondence',
  'Covering and null-overlap are proved for every finite generator family in any real inner-product space; the final measure-theoretic step (sum of Lebesgue measures) is not formalised and is replaced by the exact oracle certificate: its rational volumes sum exactly to the box volume on every tessellation. Implementation volumes are compared with the exact ones and their sum with the box measure, all families, 1D/2D/3D, periodic or not.',
  'Partial (sum_volume_eq_partial): see text.'),
 'C03': claim('Lean 4 proof (face i j = face j i as sets; storage rule exactly-once; listed by both; antisymmetric flux cancels; alternating determinant) + correspondence on all-pairs non-symmetric face integrals',
  'Set-level reciprocity and the bookkeeping theorems hold for all inputs/masks; the implementation is checked for every non-negligible face (i,j,s) to have the partner (j,i,-s) with equal area and shifted centroid, and for the storage clauses.', ''),
 'C04': claim('Lean 4 proof (closure, apex independence, divergence identity for closed oriented surfaces; orientation convention) + translator obligation on the stored-normal sign + correspondence',
  'The sign of the stored normal relative to g-q is re-extracted from the source on every run and must be -1 (decide); closure/divergence are proved for every closed oriented triangulated surface; implementation faces are checked for unit length, direction, centroid on plane, closure and divergence.',
  'KNOWN finding F2 (wall faces of generators on that wall).'),
 'C05': claim('Lean 4 proof of the logic around the run-time behaviour (generator never clipped, grid range with margin on translated constants, consistent tie decisions) + differential runs in debug and release on degenerate families',
  'Panic-freedom of float code is not a theorem about the model (labelled partial): the check proves what the model carries and samples the degenerate families in both build profiles against the exact oracle and the C02/C04 predicates.',
  'Partial by nature. KNOWN findings F1 (topology panics on near-degenerate families), F2.'),
 'C07': claim('Lean 4 proof on the bookkeeping model (cell independent of mask, face storage under masks) + exhaustive-mask bitwise comparison full vs partial',
  'Theorems for all masks on Model/Tess; implementation: all 2^n masks for n<=6 and random masks above, selected cells bitwise equal, face sets equal, storage clauses.', ''),
 'C10': claim('Lean 4 proof (ring identity: determinant = orientation x power of point, for all integers; alternating; i64 subtraction exact; grid range/monotonicity) + translator-regenerated model with Gen=Ref obligations + differential correspondence',
  'The polynomial the code expands (re-translated from the macros on every run, proved equal to the reference by ring) equals orient*(|v-o|^2-|a-o|^2) over any commutative ring; Int64 subtraction is exact below 2^52; the translated grid constants put every queried position in [17/16,31/16]; the real predicate and iloc are compared on exhaustive/random/adversarial inputs.', ''),
 'C12': claim('Lean 4 proof on the bookkeeping model (finalize = prefix sums + slices; neighbour_ids spec) + exact correspondence of both construction routes',
  'Induction proofs over the face list for all inputs; the implementation structure (offsets, counts, connectivity, neighbour lists) must equal the model token by token and satisfy the C12 statement directly.', ''),
 'C13': claim('Lean 4 proof (routes_equal, sym = filtered non-sym, stored = sym, order of cell integrals) + bitwise implementation-vs-implementation comparison',
  'Model theorems for all masks; implementation: direct vs converted bitwise, integrals vs stored bitwise incl. order, sym vs filter, with-faces route within tolerance.', 'KNOWN finding F2.'),
 'C16': claim('Lean 4 proof (hull in ball, neighbour within 2*distance, security radius, far generators irrelevant, subspace form) + correspondence against the exact farthest vertex and add-far experiments',
  'Set-level theorems for all inputs; implementation: safety radius >= 2*exact farthest vertex distance and >= every face neighbour distance; cell unchanged when generators are added outside the safety ball.', ''),
 'C19': claim('Lean 4 proof (defining equations of every exported helper over the reals, non-degenerate arguments) + the same reference definitions executed over Rat/Float against the real helpers',
  'Theorems: intersection on all three planes and unique; projections on the plane / on both planes, along the normal / orthogonal to the line, idempotent; tetrahedron volume antisymmetric with the documented sign; triangle area absolute value, antisymmetry, sign convention; spheres through 2/3/4 points (3-point centre in their plane); extend = smallest sphere containing both; contains monotone. Correspondence: every helper on random and structured arguments, defining equations evaluated exactly on the implementation results, results compared with Ref.* over Rat within rounding.', ''),
}
