HOOK_COMMITS = ['fe2120e']
NOT_APPLICABLE = {}
CLAIMS = {
 'C10': {
  'technique': 'Lean 4 proof (ring identity: determinant = orientation x power of point, for all integers) + translator-regenerated model with Gen=Ref obligation + differential correspondence on the real predicate',
  'text': 'Theorems (all inputs): the polynomial the code expands equals orient(a,b,c,d) * (|v-o|^2 - |a-o|^2) for any equidistant centre, over any commutative ring; sign corollaries over Z; the code text is re-translated to Lean on every run and proved equal to the reference polynomial by `ring`; the real in_sphere_test_exact is compared with the model on exhaustive/random/adversarial co-spherical tuples.',
  'note': 'Trusted: Lean kernel + 3 standard axioms; translator for the macro fragment; big-integer crates implement Z; IEEE rounding inside iloc modelled as a monotone map. The correspondence samples inputs; its generators are listed in the evidence.',
 },
}
