"""Shared machinery of the per-property checks: translator run, Lean build + axiom audit,
harness build/run, driver run, record parsing, verdicts, evidence."""
import fcntl
import json
import os
import re
import subprocess
import sys
import time
from fractions import Fraction

# exact rationals of the oracle can have thousands of digits
if hasattr(sys, 'set_int_max_str_digits'):
    sys.set_int_max_str_digits(0)

VERIF = os.path.dirname(os.path.dirname(os.path.abspath(__file__)))
LEAN = os.path.join(VERIF, 'lean')
HARNESS = os.path.join(VERIF, 'harness')
WORK = os.path.join(VERIF, 'work')
REPLAYS = os.path.join(VERIF, 'replays')
EVIDENCE = os.path.join(VERIF, 'evidence')
REPO = '/repo'
ALLOWED_AXIOMS = {'propext', 'Classical.choice', 'Quot.sound'}
ENV = dict(os.environ, CARGO_NET_OFFLINE='true', CARGO_TERM_COLOR='never')
NCPU = os.cpu_count() or 4


def log(*a):
    print(*a, file=sys.stderr, flush=True)


class Lock:
    def __init__(self, name):
        os.makedirs(WORK, exist_ok=True)
        self.path = os.path.join(WORK, name + '.lock')

    def __enter__(self):
        self.f = open(self.path, 'w')
        fcntl.flock(self.f, fcntl.LOCK_EX)

    def __exit__(self, *a):
        fcntl.flock(self.f, fcntl.LOCK_UN)
        self.f.close()


def sh(cmd, cwd=None, timeout=None, env=None, stdin=None):
    p = subprocess.run(cmd, cwd=cwd, env=env or ENV, stdout=subprocess.PIPE, stderr=subprocess.PIPE,
                       text=True, timeout=timeout, input=stdin)
    return p.returncode, p.stdout, p.stderr


# ----------------------------------------------------------------------------- translator
def run_extract():
    rc, out, err = sh([sys.executable, os.path.join(VERIF, 'tools', 'extract.py')])
    if rc != 0:
        return {'__error__': err[-2000:]}
    return json.loads(out.strip().splitlines()[-1])


# ----------------------------------------------------------------------------- lean
def lake_build(targets):
    """Build lake targets; returns (ok, log, failed_targets)."""
    with Lock('lake'):
        rc, out, err = sh(['lake', 'build'] + targets, cwd=LEAN, timeout=3600)
    text = out + err
    failed = re.findall(r"✖ \[\d+/\d+\] (?:Building|Built) (\S+)", text)
    return rc == 0, text, failed


def lean_errors_by_theorem(module_file, text):
    """Map `file:line:col: error` of a build log to enclosing theorem names of `module_file`."""
    rel = os.path.relpath(module_file, LEAN)
    lines = open(module_file).read().splitlines()
    decl_at = []
    for i, l in enumerate(lines):
        m = re.match(r"\s*(?:private |protected )?(?:theorem|lemma|example|def|instance)\s+(\S+)?", l)
        if m:
            decl_at.append((i + 1, m.group(1) or 'example'))
    bad = []
    for m in re.finditer(re.escape(rel) + r":(\d+):\d+: error", text):
        ln = int(m.group(1))
        name = None
        for (l0, n) in decl_at:
            if l0 <= ln:
                name = n
        if name and name not in bad:
            bad.append(name)
    return bad


def theorems_of(module):
    """Fully qualified theorem names declared in a module (regex scan, tracks `namespace`)."""
    path = os.path.join(LEAN, module.replace('.', '/') + '.lean')
    ns = []
    out = []
    src = open(path).read()
    src = re.sub(r"/-.*?-/", lambda m: '\n' * m.group(0).count('\n'), src, flags=re.S)
    for l in src.splitlines():
        l = re.sub(r"--.*", "", l)
        m = re.match(r"\s*namespace\s+(\S+)", l)
        if m:
            ns.append(m.group(1))
            continue
        m = re.match(r"\s*end\s+(\S+)", l)
        if m and ns and ns[-1] == m.group(1):
            ns.pop()
            continue
        m = re.match(r"\s*(private\s+)?(?:protected\s+)?(?:theorem|lemma)\s+([^\s:({\[]+)", l)
        if m and not m.group(1):
            out.append('.'.join(ns + [m.group(2)]))
    return out


FORBIDDEN = re.compile(r"\b(sorry|admit|native_decide|bv_decide|implemented_by|unsafe)\b|^\s*axiom\s|maxHeartbeats 0")


def grep_forbidden():
    hits = []
    for root, _, files in os.walk(os.path.join(LEAN, 'MVoro')):
        for f in files:
            if not f.endswith('.lean'):
                continue
            p = os.path.join(root, f)
            src = open(p).read()
            src = re.sub(r"/-.*?-/", lambda m: '\n' * m.group(0).count('\n'), src, flags=re.S)
            for i, l in enumerate(src.splitlines()):
                l2 = re.sub(r"--.*", "", l)
                l2 = re.sub(r'"[^"]*"', '""', l2)
                if FORBIDDEN.search(l2):
                    hits.append("%s:%d: %s" % (os.path.relpath(p, VERIF), i + 1, l.strip()))
    return hits


def audit(modules, tag):
    """#print axioms for every theorem of `modules`. Returns list of dicts."""
    names = []
    for m in modules:
        for t in theorems_of(m):
            names.append((m, t))
    os.makedirs(os.path.join(WORK, tag), exist_ok=True)
    f = os.path.join(WORK, tag, 'Audit.lean')
    with open(f, 'w') as fh:
        for m in modules:
            fh.write("import %s\n" % m)
        for _, t in names:
            fh.write("#print axioms %s\n" % t)
    rc, out, err = sh(['lake', 'env', 'lean', f], cwd=LEAN, timeout=1800)
    text = out + err
    res = []
    for m, t in names:
        mm = re.search(r"'%s' depends on axioms: \[([^\]]*)\]" % re.escape(t), text)
        if mm:
            ax = [a.strip() for a in mm.group(1).replace('\n', ' ').split(',') if a.strip()]
            res.append({'module': m, 'theorem': t, 'axioms': ax, 'ok': set(ax) <= ALLOWED_AXIOMS})
        elif re.search(r"'%s' does not depend on any axioms" % re.escape(t), text):
            res.append({'module': m, 'theorem': t, 'axioms': [], 'ok': True})
        else:
            res.append({'module': m, 'theorem': t, 'axioms': None, 'ok': False})
    return res


# ----------------------------------------------------------------------------- harness
def cargo_build(features='ibig,rayon', release=False):
    """Build the harness against the current /repo tree. Returns (binary path or None, log)."""
    tdir = os.path.join(HARNESS, 'target')
    cmd = ['cargo', 'build', '--offline', '--no-default-features', '--features', features]
    if release:
        cmd.append('--release')
    # one target dir per feature set so that alternating checks do not rebuild everything
    tsub = os.path.join(tdir, features.replace(',', '_'))
    cmd += ['--target-dir', tsub]
    with Lock('cargo_' + features.replace(',', '_')):
        rc, out, err = sh(cmd, cwd=HARNESS, timeout=3600)
    if rc != 0:
        return None, (out + err)
    return os.path.join(tsub, 'release' if release else 'debug', 'mv_harness'), out + err


def run_harness(binary, op, seed, tier, outfile, extra=(), env_extra=None, timeout=3600):
    env = dict(ENV)
    if env_extra:
        env.update(env_extra)
    cmd = [binary, op, '--seed', str(seed), '--tier', tier, '--out', outfile] + list(extra)
    rc, out, err = sh(cmd, timeout=timeout, env=env)
    fams = {}
    m = re.search(r"FAMILIES (.*)", err)
    if m:
        for kv in m.group(1).split():
            k, v = kv.split('=')
            fams[k] = int(v)
    return rc, fams, err


def run_driver(records_file, outfile):
    drv = os.path.join(LEAN, '.lake', 'build', 'bin', 'driver')
    with open(records_file) as fin, open(outfile, 'w') as fout:
        p = subprocess.run([drv], stdin=fin, stdout=fout, stderr=subprocess.PIPE, text=True)
    return p.returncode, p.stderr


class Rec:
    __slots__ = ('op', 'id', 'family', 'inp', 'res', 'line')

    def __init__(self, line):
        self.line = line.rstrip('\n')
        left, _, right = self.line.partition(' | ')
        t = left.split(' ')
        self.op, self.id, self.family = t[0], int(t[1]), t[2]
        self.inp = t[3:]
        self.res = right.split(' ') if right else []


def release_parity(chk, op, recs, features='ibig,rayon'):
    """the same op in the release build (optimised, NO debug assertions): every record must be bitwise the record of the debug
    build (code that does its work inside a debug_assert!, overflow that wraps instead of panicking, ...)"""
    if chk.only is not None:
        return
    binary, blog = cargo_build(features, release=True)
    if binary is None:
        chk.violation('build', 'release harness does not build against /repo', None)
        chk.notes.append(blog[-1500:])
        return
    rel_f = os.path.join(chk.wdir(), op + '_release.rec')
    rc, _, err = run_harness(binary, op, chk.seed, chk.tier, rel_f)
    if rc != 0:
        chk.violation('harness', 'release harness op %s failed: %s' % (op, err[-300:]), None)
        return
    rel = {(r.op, r.id): r for r in read_records(rel_f)}
    same = 0
    for r in recs:
        q = rel.get((r.op, r.id))
        if q is None or q.line != r.line:
            a, b = r.line.split(' '), (q.line.split(' ') if q is not None else [])
            k = next((i for i, (x, y) in enumerate(zip(a, b)) if x != y), min(len(a), len(b)))
            chk.violation('impl-vs-impl', 'op %s gives another result in the release build (no debug assertions) than in the debug build: record %d (%s) differs from token %d on (%s vs %s)'
                          % (op, r.id, r.family, k, ' '.join(a[k:k + 6])[:120], ' '.join(b[k:k + 6])[:120]),
                          {'op': op, 'ids': [r.id], 'family': r.family, 'build': 'release vs debug', 'record': r.line[:3000]}, key='release-parity')
            break
        same += 1
    chk.extra_cov['records_bitwise_equal_in_release_build_' + op] = same


def read_records(path):
    with open(path) as f:
        return [Rec(l) for l in f if l.strip()]


def read_model(path):
    out = {}
    with open(path) as f:
        for l in f:
            t = l.split()
            if t and t[0].isdigit():
                out[int(t[0])] = t[1:]
    return out


# ----------------------------------------------------------------------------- numbers
def hex_to_float(s):
    import struct
    return struct.unpack('>d', bytes.fromhex(s))[0]


def hex_to_frac(s):
    """exact value of a double token; None for non-finite"""
    import math
    x = hex_to_float(s)
    if math.isnan(x) or math.isinf(x):
        return None
    return Fraction(x)


def frac(s):
    """model rational token `n` or `n/d`"""
    return Fraction(s)


# ----------------------------------------------------------------------------- verdict
def load_known_findings():
    p = os.path.join(VERIF, 'known_findings.json')
    if not os.path.exists(p):
        return {'findings': [], 'fixed': []}
    return json.load(open(p))


class Check:
    """Accumulates everything one property check does; writes evidence; produces the verdict."""

    def __init__(self, pid, tier, seed):
        self.pid, self.tier, self.seed = pid, tier, seed
        self.t0 = time.time()
        self.obligations = []      # {'theorem','module','ok','axioms'}
        self.gen = {}
        self.violations = []       # {'kind','what','replay':{...}}
        self.known_hits = []
        self.evaluations = 0
        self.nontrivial = set()
        self.samples = []
        self.families = {}
        self.traces = 0
        self.notes = []
        self.assumptions = []
        self.trusted_base = []
        self.rule = ''
        self.checker_cmd = ''
        self.extra_cov = {}
        self.soft = []
        os.makedirs(os.path.join(WORK, pid), exist_ok=True)
        os.makedirs(REPLAYS, exist_ok=True)
        os.makedirs(EVIDENCE, exist_ok=True)
        self.known = [f for f in load_known_findings().get('findings', []) if f.get('property') == pid]

    def wdir(self):
        return os.path.join(WORK, self.pid)

    # --- lean side
    def lean(self, prop_modules, obl_modules=(), gen_fragments=(), optional=()):
        """extract, build, audit. Records obligations. Returns True when all discharged.

        `optional` = [(fragment, obligation module, [fragments it depends on])]: control-flow fragments (third translator
        generation) whose property is ALSO tied to the code by an exact (integer) correspondence.  When such a fragment parses,
        its obligations count like any other (a failing one is a violation).  When the source has left the translated subset
        (`unparsed`), its obligations cannot be stated; the check then relies on the correspondence alone, widened to the
        thorough sizes (`self.escalate`), and says so in the evidence (DESIGN §10.9)."""
        st = run_extract()
        self.gen = st
        if '__error__' in st:
            self.violations.append({'kind': 'translator', 'what': 'translator crashed: ' + st['__error__'][-300:], 'replay': None})
        unparsed = [k for k in gen_fragments if st.get(k, {}).get('state') != 'ok']
        obl_modules = list(obl_modules)
        self.escalate = False
        outside = {}
        for frag, mod, deps in optional:
            bad = [f for f in [frag] + list(deps) if st.get(f, {}).get('state') != 'ok']
            if bad:
                outside[frag] = '; '.join('%s: %s' % (f, st.get(f, {}).get('why', 'missing')) for f in bad)
            else:
                obl_modules.append(mod)
        if outside:
            self.escalate = True
            self.extra_cov['translator_fragments_outside_subset'] = outside
            self.notes.append('source left the translated subset for ' + ', '.join(sorted(outside)) + ': obligations of these fragments not stated on this run; correspondence widened to the thorough sizes')
        mods = list(prop_modules) + list(obl_modules)
        ok, text, failed = lake_build(mods + ['driver'])
        with open(os.path.join(self.wdir(), 'lake.log'), 'w') as f:
            f.write(text)
        self.checker_cmd = 'cd /verif/lean && lake build ' + ' '.join(mods) + ' && lake env lean <#print axioms audit>'
        built_ok = {}
        for m in mods:
            path = os.path.join(LEAN, m.replace('.', '/') + '.lean')
            bad = lean_errors_by_theorem(path, text)
            modfailed = (not ok) and (m in failed or bad)
            built_ok[m] = (not modfailed, bad)
        good_mods = [m for m in mods if built_ok[m][0]]
        aud = audit(good_mods, self.pid) if good_mods else []
        for a in aud:
            self.obligations.append({'theorem': a['theorem'], 'module': a['module'], 'ok': a['ok'], 'axioms': a['axioms']})
        for m in mods:
            if not built_ok[m][0]:
                bad = built_ok[m][1]
                short = set(b.split('.')[-1] for b in bad)
                for t in theorems_of(m):
                    # a module that failed to build discharges nothing; name the theorems whose proofs broke
                    self.obligations.append({'theorem': t, 'module': m, 'ok': False, 'axioms': None,
                                             'broke_here': t.split('.')[-1] in short})
        forb = grep_forbidden()
        if forb:
            for h in forb:
                self.obligations.append({'theorem': 'source-scan: ' + h, 'module': '-', 'ok': False, 'axioms': None})
        self.unparsed = unparsed
        self.driver_ok = os.path.exists(os.path.join(LEAN, '.lake', 'build', 'bin', 'driver')) and 'driver' not in failed and ('Main' not in failed)
        if not ok and 'Main' in text and re.search(r"✖ .*(Main|driver)", text):
            self.driver_ok = False
        return all(o['ok'] for o in self.obligations)

    def failed_obligations(self):
        return [o for o in self.obligations if not o['ok']]

    # --- counting
    def count(self, n=1):
        self.evaluations += n

    def nontriv(self, key):
        self.nontrivial.add(key)

    def sample(self, s, cap=6):
        if len(self.samples) < cap:
            self.samples.append(s)

    # --- panics of the implementation inside a check that is not about totality
    GENERIC = ('uniform', 'pair', 'single')

    def panic_record(self, r, msg, rp):
        """a panic on a generic input family is a violation of whatever property is being checked (nothing can hold of a
        result that does not exist); on the measure-zero / near-degenerate families it is C05's business (known finding F1)
        and the record is only counted"""
        m = re.match(r"^([a-z_]+?)[123][pr]_", r.family)
        base = m.group(1) if m else r.family
        if base in self.GENERIC and '_tiny_' not in r.family:
            self.violation('panic', 'the implementation panicked on a generic input (%s, record %d): %s' % (r.family, r.id, str(msg)[:200]), rp, key=r.family + ' ' + str(msg)[:120])
        else:
            self.extra_cov['skipped_panics'] = self.extra_cov.get('skipped_panics', 0) + 1

    # --- violations
    def violation(self, kind, what, replay=None, key=None):
        for k in self.known:
            if k.get('match_kind') == kind and (k.get('match_key') is None or (key is not None and re.search(k['match_key'], key))):
                hit = (k['id'], k['what'])
                if hit not in self.known_hits:
                    self.known_hits.append(hit)
                return
        if len(self.violations) < 50:
            self.violations.append({'kind': kind, 'what': what, 'replay': replay, 'key': key})

    def finish(self, level_note=None):
        """Write evidence, print verdict lines, return exit code."""
        failed = self.failed_obligations()
        n_obl = len(self.obligations)
        n_ok = n_obl - len(failed)
        lines = []
        for (fid, what) in self.known_hits:
            lines.append("KNOWN-FINDING: property=%s %s (%s)" % (self.pid, what, fid))
        rc = 0
        concrete = [v for v in self.violations if v.get('replay')]
        if concrete:
            rc = 1
            v = concrete[0]
            rp = self.write_replay(v)
            lines.append("VIOLATION property=%s replay=%s" % (self.pid, rp))
            log("violation: %s" % v['what'])
        elif self.violations or failed:
            rc = 1
            what = {'kind': 'no-failing-input-found',
                    'broken_obligations': [o['theorem'] for o in failed],
                    'broken_correspondence': [v['what'] for v in self.violations],
                    'gen_status': self.gen}
            rp = self.write_replay({'kind': 'unproved', 'what': 'property no longer shown to hold', 'replay': what})
            lines.append("VIOLATION property=%s replay=%s no-failing-input-found" % (self.pid, rp))
        cov = {
            'obligations': max(n_obl, 0),
            'discharged': n_ok,
            'checker_cmd': self.checker_cmd or 'lake build',
            'trusted_base': self.trusted_base,
            'evaluations': self.evaluations,
            'distinct_nontrivial': len(self.nontrivial),
            'rule': self.rule,
            'samples': self.samples if self.samples else [o['theorem'] for o in self.obligations[:3]],
            'traces_validated_against_impl': self.traces,
            'families': self.families,
            'theorems': [{'name': o['theorem'], 'ok': o['ok'], 'axioms': o['axioms']} for o in self.obligations],
            'gen_fragments': self.gen,
            'known_findings_hit': [h[0] for h in self.known_hits],
            'softened': self.soft,
        }
        cov.update(self.extra_cov)
        ev = {
            'property_id': self.pid, 'tier': self.tier, 'seed': self.seed, 'level': 'proof',
            'coverage': cov, 'assumptions': self.assumptions, 'wall_s': round(time.time() - self.t0, 2),
            'violations': len(self.violations) + len(failed),
        }
        if self.notes:
            ev['notes'] = self.notes
        with open(os.path.join(EVIDENCE, self.pid + '.json'), 'w') as f:
            json.dump(ev, f, indent=1, default=str)
        for l in lines:
            print(l)
        sys.stdout.flush()
        log("[%s] obligations %d/%d, evaluations %d, nontrivial %d, violations %d, known %d, %.1fs" %
            (self.pid, n_ok, n_obl, self.evaluations, len(self.nontrivial), len(self.violations), len(self.known_hits), time.time() - self.t0))
        return rc

    def write_replay(self, v):
        n = 0
        while True:
            p = os.path.join(REPLAYS, "%s-%d-%d.json" % (self.pid, self.seed, n))
            if not os.path.exists(p):
                break
            n += 1
        with open(p, 'w') as f:
            json.dump({'property': self.pid, 'seed': self.seed, 'tier': self.tier, 'kind': v['kind'],
                       'what': v['what'], 'replay': v['replay']}, f, indent=1, default=str)
        return p
