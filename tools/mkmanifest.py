#!/usr/bin/env python3
"""Regenerate MANIFEST.json from tools/manifest_data.py (keeps it schema-valid)."""
import json, os, sys
sys.path.insert(0, os.path.dirname(os.path.abspath(__file__)))
from manifest_data import CLAIMS, NOT_APPLICABLE, HOOK_COMMITS
V = os.path.dirname(os.path.dirname(os.path.abspath(__file__)))
ids = [json.loads(l)['id'] for l in open(os.path.join(V, 'properties.jsonl'))]
checks = []
for pid in ids:
    if pid in CLAIMS:
        c = CLAIMS[pid]
        checks.append({
            'property_id': pid,
            'quick_cmd': './check %s --tier quick' % pid,
            'thorough_cmd': './check %s --tier thorough' % pid,
            'evidence_file': '/verif/evidence/%s.json' % pid,
            'replay_cmd_template': './check %s --replay {path}' % pid,
            'engine': 'lean4-mvoro',
            'level_claimed': {'category': 'proof', 'text': c['text'], 'design_ref': c.get('design_ref', 'DESIGN.md §6 ' + pid)},
            'level_note': c['note'],
            'technique': c['technique'],
        })
na = [{'property_id': p, 'reason': NOT_APPLICABLE.get(p, 'check not built yet in this session; see DESIGN.md §6')} for p in ids if p not in CLAIMS]
man = {
    'version': 1,
    'setup_cmd': './setup.sh',
    'hooks': {
        'guard': '--cfg meshless_voro_verif',
        'enable': 'RUSTFLAGS="--cfg meshless_voro_verif" (set in /verif/harness/.cargo/config.toml; the harness crate has a path dependency on /repo)',
        'baseline_off_cmd': 'cd /repo && cargo test --workspace --no-fail-fast --offline',
        'source_commits': HOOK_COMMITS,
        'add_only': True,
    },
    'engines': [{'name': 'lean4-mvoro', 'path': '/verif/lean', 'serves_properties': sorted(CLAIMS),
                 'kind_free_text': 'Lean 4 model (MVoro/Model), theorems (MVoro/Props), translator output (MVoro/Gen) with obligations (MVoro/Obl); Rust harness /verif/harness drives the real code; tools/*.py orchestrate, compare, write evidence'}],
    'checks': checks,
    'not_applicable': na,
    'notes': 'See DESIGN.md. Every check: translator -> lake build of the property theorems + obligations -> #print axioms audit -> harness built from /repo working tree with hooks -> Lean driver on the same records -> comparison -> verdict.',
}
json.dump(man, open(os.path.join(V, 'MANIFEST.json'), 'w'), indent=1)
print('claimed', sorted(CLAIMS))
