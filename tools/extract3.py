"""Third generation of translator fragments: imperative integer / array code (`usize`, `Vec<usize>`, `bool`) is turned
into pure Lean with explicit state passing.

  * `x = e`, `x += e`, `self.f = e`, `self.ptrs[i] = e`  ->  `let x := …` (shadowing; `self` is a value that is rebuilt)
  * `if` without a `return` inside                        ->  `let <mutated> := if c then … else …`
  * `if` with a `return` inside                           ->  `if c then <branch; rest> else <else; rest>`
  * `for _ in a..b` with literal bounds                   ->  unrolled (loop variable substituted)
  * `for _ in a..b` otherwise                             ->  `MVoro.loopRange a b (fun i st => …) st` over the tuple of mutated variables
  * `return e` / tail expression                          ->  the function's value (`&mut self` methods return the new `self`,
                                                              `Result<(), ()>` becomes `Option` of the new `self`)

Array reads and writes on `self.ptrs` go through the two primitives `Cycle.get` / `Cycle.set` of `Model/Cycle` (out-of-range
behaviour documented there); everything else — which entries are read, compared and written, in which order, under which
conditions — is generated from the Rust text.
"""
from rustmini import Unparsed
import extract2

NUM_SUFFIX = ('usize', 'u64', 'i64', 'u32', 'i32')


def stmts_of(block):
    """statements of a unit-valued block, its tail expression (if any) as a last expression statement"""
    return list(block[1]) + ([('expr', block[2])] if block[2] is not None else [])


def has_return(n):
    if isinstance(n, tuple):
        if n and n[0] == 'return':
            return True
        if n and n[0] == 'closure':
            return False
        return any(has_return(x) for x in n[1:])
    if isinstance(n, list):
        return any(has_return(x) for x in n)
    return False


def has_break(n):
    if isinstance(n, tuple):
        if n and n[0] in ('break', 'continue'):
            return True
        if n and n[0] in ('closure', 'for', 'while', 'loop'):
            return False
        return any(has_break(x) for x in n[1:])
    if isinstance(n, list):
        return any(has_break(x) for x in n)
    return False


def root_var(e):
    """the local variable (or `self`) an assignment target belongs to"""
    while e[0] in ('field', 'index', 'paren'):
        e = e[1]
    if e[0] == 'path' and len(e[1]) == 1:
        return e[1][0]
    raise Unparsed("assignment target")


def assigned(stmts):
    """variables assigned in a statement list that were not declared inside it (in first-assignment order)"""
    out, declared = [], set()

    def add(v):
        if v not in declared and v not in out:
            out.append(v)

    def walk_block(b, decl):
        nonlocal declared
        saved = set(declared)
        for s in stmts_of(b):
            walk(s)
        declared = saved

    def walk_expr(e):
        if not isinstance(e, tuple):
            return
        if e[0] == 'if':
            walk_block(e[2], None)
            if e[3] is not None:
                if e[3][0] == 'block':
                    walk_block(e[3], None)
                else:
                    walk_expr(e[3])
        elif e[0] == 'block':
            walk_block(e, None)
        elif e[0] == 'match':
            walk_expr(e[1])
            for (_, _, body) in e[2]:
                if body[0] == 'assignexpr':
                    add(root_var(body[2]))
                else:
                    walk_expr(body)
        elif e[0] == 'mcall' and e[1][0] == 'path' and len(e[1][1]) == 1 and e[2] in MUT_METHODS:
            add(e[1][1][0])
        elif e[0] == 'mcall' and e[1][0] == 'field' and e[2] in ('push', 'swap', 'truncate'):
            add(root_var(e[1]))

    def walk(s):
        if s[0] == 'let':
            if s[2][0] == 'pvar':
                declared.add(s[2][1])
        elif s[0] == 'assign':
            add(root_var(s[2]))
        elif s[0] == 'expr':
            walk_expr(s[1])
        elif s[0] in ('for',):
            walk_block(s[3], None)
        elif s[0] == 'while':
            walk_block(s[2], None)
        elif s[0] == 'loop':
            walk_block(s[1], None)

    for s in stmts:
        walk(s)
    return out


# methods that mutate their receiver (receiver variable counts as assigned)
MUT_METHODS = {'init', 'try_extend', 'grow', 'swap', 'push', 'truncate'}


class Imp:
    """translator for one `impl` block; `fields` : field name -> type tag, `selfty` : Lean structure name"""

    def __init__(self, selfty, structs, pure_methods=None, lean_ns=''):
        self.selfty = selfty
        self.structs = structs
        self.fields = structs[selfty]
        self.pure_ret = dict(pure_methods or {})
        self.pure = set(self.pure_ret)
        self.ns = lean_ns

    # ---------------------------------------------------------------- expressions
    def name(self, v):
        return {'self': 'self_', 'next': 'next_', 'end': 'end_', 'from': 'from_', 'at': 'at_'}.get(v, v)

    def expr(self, e, env):
        k = e[0]
        if k == 'num':
            s = e[1].replace('_', '')
            for suf in NUM_SUFFIX:
                if s.endswith(suf):
                    s = s[:-len(suf)]
            if not s.isdigit():
                raise Unparsed("non-integer literal %s" % e[1])
            return s, 'N'
        if k == 'paren':
            t, ty = self.expr(e[1], env)
            return t, ty
        if k == 'raw':
            return e[1], e[2]
        if k == 'path':
            if len(e[1]) == 1:
                v = e[1][0]
                if v in ('true', 'false'):
                    return v, 'B'
                if v not in env:
                    raise Unparsed("unknown variable %s" % v)
                if env[v] is None:
                    raise Unparsed("variable %s read before it is assigned" % v)
                return self.name(v), env[v]
            raise Unparsed("path %s" % '::'.join(e[1]))
        if k == 'field':
            b, tb = self.expr(e[1], env)
            if tb in self.structs and e[2] in self.structs[tb]:
                return "%s.%s" % (b, e[2]), self.structs[tb][e[2]]
            raise Unparsed("field .%s of %s" % (e[2], tb))
        if k == 'index':
            b, tb = self.expr(e[1], env)
            i, ti = self.expr(e[2], env)
            if ti != 'N':
                raise Unparsed("index type")
            if tb == 'PTRS':
                owner = b[:-len('.ptrs')]
                return "(Cycle.get %s %s)" % (owner, i), 'N'
            if tb == 'AN':
                return "(%s.getD %s 0)" % (b, i), 'N'
            if tb == 'AB':
                return "(%s.getD %s false)" % (b, i), 'B'
            raise Unparsed("indexing a %s" % tb)
        if k == 'un':
            t, ty = self.expr(e[2], env)
            if e[1] == '!' and ty == 'B':
                return "(!%s)" % t, 'B'
            raise Unparsed("unary %s on %s" % (e[1], ty))
        if k == 'bin':
            op = e[1]
            l, tl = self.expr(e[2], env)
            r, tr = self.expr(e[3], env)
            if op in ('+', '-', '*', '%', '/') and tl == tr == 'N':
                return "(%s %s %s)" % (l, op, r), 'N'
            if op in ('==', '!=') and tl == tr and tl in ('N', 'B'):
                return "(%s %s %s)" % (l, op, r), 'B'
            if op in ('<', '>', '<=', '>=') and tl == tr == 'N':
                return "(decide (%s %s %s))" % (l, {'<=': '≤', '>=': '≥'}.get(op, op), r), 'B'
            if op in ('&&', '||') and tl == tr == 'B':
                return "(%s %s %s)" % (l, op, r), 'B'
            raise Unparsed("binary %s on %s, %s" % (op, tl, tr))
        if k == 'array':
            items = [self.expr(x, env) for x in e[1]]
            tys = {t for _, t in items}
            if tys == {'N'}:
                return "#[%s]" % ', '.join(t for t, _ in items), 'AN'
            if tys == {'B'}:
                return "#[%s]" % ', '.join(t for t, _ in items), 'AB'
            raise Unparsed("array literal of %s" % tys)
        if k == 'mcall':
            recv, name, args = e[1], e[2], e[3]
            if name == 'len' and not args:
                b, tb = self.expr(recv, env)
                if tb in ('PTRS', 'AN', 'AB'):
                    return "%s.size" % b, 'N'
                raise Unparsed(".len() of %s" % tb)
            if name == 'collect' and not args and recv[0] == 'paren' and recv[1][0] == 'bin' and recv[1][1] == '..':
                lo, tlo = self.expr(recv[1][2], env)
                hi, thi = self.expr(recv[1][3], env)
                if lo != '0' or thi != 'N':
                    raise Unparsed("collect of a range not starting at 0")
                return "(Array.range %s)" % hi, 'PTRS' if False else 'AN'
            if name in self.pure:
                b, tb = self.expr(recv, env)
                if tb != self.selfty:
                    raise Unparsed("method %s on %s" % (name, tb))
                ts = [self.expr(a, env) for a in args]
                return "(%s%s %s%s)" % (self.ns, self.pure_name(name), b, ''.join(' ' + t for t, _ in ts)), self.pure_ret[name]
            raise Unparsed("method call .%s" % name)
        if k == 'struct':
            if e[1] != ['Self'] or e[3] is not None:
                raise Unparsed("struct literal %s" % '::'.join(e[1]))
            fs = []
            for f, v in e[2]:
                t, ty = self.expr(v, env)
                want = self.fields.get(f)
                if want is None or (ty != want and not (want == 'PTRS' and ty == 'AN')):
                    raise Unparsed("field %s : %s" % (f, ty))
                fs.append("%s := %s" % (f, t))
            if sorted(f for f, _ in e[2]) != sorted(self.fields):
                raise Unparsed("struct literal does not set every field")
            return "({ %s } : %s)" % (', '.join(fs), self.selfty), self.selfty
        if k == 'call' and e[1][0] == 'path':
            f = e[1][1]
            if f == ['Some'] and len(e[2]) == 1:
                t, ty = self.expr(e[2][0], env)
                if ty == 'N':
                    return "(some %s)" % t, 'ON'
            if f in (['Ok'], ['Err']) and len(e[2]) == 1 and e[2][0] == ('tuple', []):
                return f[0], 'RES'
            raise Unparsed("call %s" % '::'.join(f))
        raise Unparsed("expression %s" % k)

    def pure_name(self, n):
        parts = n.split('_')
        return parts[0] + ''.join(p.capitalize() for p in parts[1:])

    # ---------------------------------------------------------------- statements
    def tuple_of(self, vs):
        if len(vs) == 1:
            return self.name(vs[0])
        return "(%s)" % ', '.join(self.name(v) for v in vs)

    def unpack(self, vs, src, ind):
        """lines that rebind the variables `vs` from the tuple expression named `src`"""
        if len(vs) == 1:
            return []
        out = []
        for i, v in enumerate(vs):
            proj = src + ''.join('.2' for _ in range(i)) + ('.1' if i < len(vs) - 1 else '')
            out.append("%slet %s := %s" % (ind, self.name(v), proj))
        return out

    def tuple_type(self, vs, env):
        ty = {'N': 'Nat', 'B': 'Bool', 'AN': 'Array Nat'}
        return ' × '.join(ty.get(env[v], env[v]) for v in vs)

    def block(self, stmts, tail, env, ret, ind):
        """lines for `stmts; tail`; `ret(env, value_or_None)` renders the value the surrounding function/branch yields"""
        env = dict(env)
        lines = []
        for idx, s in enumerate(stmts):
            rest = stmts[idx + 1:]
            k = s[0]
            if k == 'let':
                if s[2][0] != 'pvar':
                    raise Unparsed("let pattern")
                v = s[2][1]
                if s[4] is None:
                    env[v] = None
                    continue
                t, ty = self.expr(s[4], env)
                env[v] = ty
                lines.append("%slet %s := %s" % (ind, self.name(v), t))
                continue
            if k == 'assign':
                lines += self.assign(s[1], s[2], s[3], env, ind)
                continue
            if k == 'expr' and s[1][0] == 'mcall' and s[1][2] == 'push' and s[1][1][0] == 'field':
                owner, to = self.expr(s[1][1][1], env)
                fld = s[1][1][2]
                if to not in self.structs or self.structs[to].get(fld) != 'PTRS':
                    raise Unparsed("push on %s.%s" % (to, fld))
                a, ta = self.expr(s[1][3][0], env)
                if ta != 'N':
                    raise Unparsed("push of %s" % ta)
                lines.append("%slet %s := { %s with %s := %s.%s.push %s }" % (ind, owner, owner, fld, owner, fld, a))
                continue
            if k == 'expr' and s[1][0] == 'return':
                lines.append(ind + ret(env, s[1][1]))
                return lines
            if k == 'expr' and s[1][0] == 'if':
                e = s[1]
                if has_return(e):
                    lines += self.if_return(e, rest, tail, env, ret, ind)
                    return lines
                m = [v for v in assigned([s]) if v in env and env[v] is not None]
                if not m:
                    continue
                src = self.tuple_of(m) if len(m) == 1 else 'st_'
                lines.append("%slet %s :=" % (ind, src))
                lines += self.if_value(e, env, m, ind + '  ')
                lines += self.unpack(m, 'st_', ind)
                continue
            if k == 'for':
                lines += self.for_loop(s, env, ind)
                continue
            if k == 'expr' and s[1][0] == 'macro' and s[1][1] in ('assert', 'debug_assert', 'assert_eq', 'debug_assert_eq'):
                continue
            raise Unparsed("statement %s" % (k if k != 'expr' else 'expr/' + s[1][0]))
        lines.append(ind + ret(env, tail))
        return lines

    def assign(self, op, target, rhs, env, ind):
        r, tr = self.expr(rhs, env)
        if op != '=':
            cur, tc = self.expr(target, env)
            if tc != 'N' or tr != 'N':
                raise Unparsed("compound assignment on %s" % tc)
            r = "(%s %s %s)" % (cur, op[0], r)
        if target[0] == 'path' and len(target[1]) == 1:
            v = target[1][0]
            if v not in env:
                raise Unparsed("assignment to unknown %s" % v)
            if env[v] is not None and env[v] != tr:
                raise Unparsed("assignment changes the type of %s" % v)
            env[v] = tr
            return ["%slet %s := %s" % (ind, self.name(v), r)]
        if target[0] == 'field':
            owner, to = self.expr(target[1], env)
            if to in self.structs and self.structs[to].get(target[2]) == tr:
                return ["%slet %s := { %s with %s := %s }" % (ind, owner, owner, target[2], r)]
            raise Unparsed("assignment to field %s" % target[2])
        if target[0] == 'index':
            b, tb = self.expr(target[1], env)
            i, ti = self.expr(target[2], env)
            if tb == 'PTRS' and ti == 'N' and tr == 'N':
                owner = b[:-len('.ptrs')]
                return ["%slet %s := Cycle.set %s %s %s" % (ind, owner, owner, i, r)]
            raise Unparsed("indexed assignment into %s" % tb)
        raise Unparsed("assignment target %s" % target[0])

    def if_value(self, e, env, m, ind):
        """`if` without return as a value: the tuple of the mutated variables `m`"""
        c, tc = self.expr(e[1], env)
        if tc != 'B':
            raise Unparsed("if condition type")
        fin = lambda env2, v: self.tuple_of(m)
        out = ["%sif %s then" % (ind, c)]
        out += self.block(stmts_of(e[2]), None, env, fin, ind + '  ')
        out.append("%selse" % ind)
        if e[3] is None:
            out.append(ind + '  ' + self.tuple_of(m))
        elif e[3][0] == 'block':
            out += self.block(stmts_of(e[3]), None, env, fin, ind + '  ')
        else:
            out += self.if_value(e[3], env, m, ind + '  ')
        return out

    def if_return(self, e, rest, tail, env, ret, ind):
        c, tc = self.expr(e[1], env)
        if tc != 'B':
            raise Unparsed("if condition type")
        out = ["%sif %s then" % (ind, c)]
        out += self.block(stmts_of(e[2]) + rest, tail, env, ret, ind + '  ')
        out.append("%selse" % ind)
        if e[3] is None:
            out += self.block(rest, tail, env, ret, ind + '  ')
        elif e[3][0] == 'block':
            out += self.block(stmts_of(e[3]) + rest, tail, env, ret, ind + '  ')
        else:
            out += self.if_return(e[3], rest, tail, env, ret, ind + '  ') if has_return(e[3]) else \
                self.block([('expr', e[3])] + rest, tail, env, ret, ind + '  ')
        return out

    def for_loop(self, s, env, ind):
        pat, it, body = s[1], s[2], s[3]
        if it[0] != 'bin' or it[1] != '..' or it[3] is None:
            raise Unparsed("for over a non-range")
        if has_return(body) or has_break(body):
            if not (it[2][0] == 'num' and it[3][0] == 'num'):
                raise Unparsed("return/break inside a loop with non-literal bounds")
        var = None
        if pat[0] == 'pvar':
            var = pat[1]
        elif pat[0] != 'pwild':
            raise Unparsed("for pattern")
        if it[2][0] == 'num' and it[3][0] == 'num':
            raise Unparsed("literal loop must be unrolled by the caller")
        lo, tlo = self.expr(it[2], env)
        hi, thi = self.expr(it[3], env)
        if tlo != 'N' or thi != 'N':
            raise Unparsed("loop bounds")
        m = [v for v in assigned(stmts_of(body)) if v in env and env[v] is not None]
        if not m:
            return []
        env2 = dict(env)
        if var:
            env2[var] = 'N'
        out = ["%slet st_ := MVoro.loopRange %s %s (fun %s (st_ : %s) =>" % (ind, lo, hi, self.name(var) if var else '_', self.tuple_type(m, env))]
        out += self.unpack(m, 'st_', ind + '    ') if len(m) > 1 else ["%slet %s := st_" % (ind + '    ', self.name(m[0]))]
        out += self.block(stmts_of(body), None, env2, lambda env3, v: self.tuple_of(m), ind + '    ')
        out[-1] += ") %s" % self.tuple_of(m)
        out += self.unpack(m, 'st_', ind) if len(m) > 1 else ["%slet %s := st_" % (ind, self.name(m[0]))]
        return out


def unroll_literal_loops(node):
    """`for i in a..b { body }` with literal bounds -> the bodies in sequence with `i` substituted (as nested blocks are not
    needed for this subset, the statements are spliced into the surrounding list)"""
    if isinstance(node, list):
        out = []
        for s in node:
            if isinstance(s, tuple) and s and s[0] == 'for' and s[2][0] == 'bin' and s[2][1] == '..' and s[2][3] is not None \
                    and s[2][2][0] == 'num' and s[2][3][0] == 'num' and s[1][0] in ('pvar', 'pwild'):
                lo, hi = int(s[2][2][1]), int(s[2][3][1])
                if hi - lo > 16:
                    raise Unparsed("literal loop too long to unroll")
                for i in range(lo, hi):
                    body = stmts_of(s[3])
                    if s[1][0] == 'pvar':
                        body = extract2.subst_num(body, s[1][1], str(i))
                    out += unroll_literal_loops(list(body))
            else:
                out.append(unroll_literal_loops(s))
        return out
    if isinstance(node, tuple):
        return tuple(unroll_literal_loops(x) if isinstance(x, (list, tuple)) else x for x in node)
    return node


# ----------------------------------------------------------------------------------------------------------------------
# second emitter: code that can panic and that loops (`loop … break`, `while`, `for` with a body that may panic)
# ----------------------------------------------------------------------------------------------------------------------

class NeedGuard(Exception):
    def __init__(self, arr, idx):
        self.arr, self.idx = arr, idx


def mentions(node, pred):
    if isinstance(node, tuple):
        if pred(node):
            return True
        return any(mentions(x, pred) for x in node[1:])
    if isinstance(node, list):
        return any(mentions(x, pred) for x in node)
    return False


def is_complex(node):
    """contains something that needs continuation-passing translation: break, return, loops, assert, result matches"""
    return mentions(node, lambda n: n and n[0] in ('break', 'continue', 'return', 'loop', 'while', 'for', 'match')
                    or (n and n[0] == 'macro' and n[1] in ('assert', 'panic', 'unreachable')))


class ImpP(Imp):
    """translator with panics (`none` / `LoopStep.panic`), `loop`/`break`, result matches and guarded slice reads.

    `elem_fields` : field name -> (Lean function applied to an element, type tag), e.g. {'dual': ('dual', 'DUAL')}
    `mut_methods` : method name -> (Lean function, returns Option?) for `&mut self` methods of struct-typed locals"""

    def __init__(self, selfty, structs, pure_methods=None, lean_ns='', elem_fields=None, mut_methods=None):
        Imp.__init__(self, selfty, structs, pure_methods, lean_ns)
        self.elem_fields = elem_fields or {}
        self.mut_methods = mut_methods or {}
        self.guards = {}
        self.nguard = 0
        self.nfuel = 0
        self.nloop = 0
        self.aux = []            # lambda-lifted loop bodies (Lean definitions), innermost first
        self.fn_name = 'f'
        self.prefix_params = ''  # e.g. "{V : Type} (dual : V → Dual)"
        self.prefix_args = ''    # e.g. " dual"

    LEAN_TY = {'N': 'Nat', 'B': 'Bool', 'AN': 'Array Nat', 'AV': 'Array V', 'DUAL': 'Dual', 'V': 'V'}

    def lift(self, kind, env, m, loopvar, body_lines, ret_ty):
        """emit the body of a loop as a separate definition; returns the Lean term that denotes it (captured variables applied)"""
        self.nloop += 1
        name = "%s_loop%d" % (self.fn_name, self.nloop)
        cap = [v for v in env if env[v] is not None and v not in m and v != loopvar]
        fuels = sorted({w for l in body_lines for w in l.replace('(', ' ').replace(')', ' ').split() if w.startswith('fuel') and w[4:].isdigit()})
        params = self.prefix_params + ''.join(" (%s : Nat)" % f for f in fuels) + ''.join(" (%s : %s)" % (self.name(v), self.LEAN_TY.get(env[v], env[v])) for v in cap)
        if loopvar:
            params += " (%s : Nat)" % self.name(loopvar)
        st_ty = self.state_type(m, env)
        self.aux.append("/-- body of loop %d of `%s` (%s) -/\ndef %s %s (st_ : %s) : %s :=\n%s\n"
                        % (self.nloop, self.fn_name, kind, name, params.strip(), st_ty, ret_ty.replace('%s', st_ty), '\n'.join(body_lines)))
        return "(%s%s%s%s)" % (name, self.prefix_args, ''.join(' ' + f for f in fuels), ''.join(' ' + self.name(v) for v in cap))

    def expr(self, e, env):
        k = e[0]
        if k == 'index':
            b, tb = self.expr(e[1], env)
            if tb == 'AV':
                i, ti = self.expr(e[2], env)
                if ti != 'N':
                    raise Unparsed("index type")
                h = self.guards.get((b, i))
                if h is None:
                    raise NeedGuard(b, i)
                return "%s[%s]" % (b, i), 'V'
            if tb == 'DUAL':
                if e[2][0] != 'num' or e[2][1] not in ('0', '1', '2'):
                    raise Unparsed("dual triple indexed by a non-literal")
                return "%s.%s" % (b, 'abc'[int(e[2][1])]), 'N'
            return Imp.expr(self, ('index', ('raw', b, tb), e[2]), env)
        if k == 'field':
            b, tb = self.expr(e[1], env)
            if tb == 'V' and e[2] in self.elem_fields:
                fn, ty = self.elem_fields[e[2]]
                return "(%s %s)" % (fn, b), ty
            if tb in self.structs and e[2] in self.structs[tb]:
                return "%s.%s" % (b, e[2]), self.structs[tb][e[2]]
            raise Unparsed("field .%s of %s" % (e[2], tb))
        if k == 'mcall' and e[2] == 'len' and not e[3]:
            b, tb = self.expr(e[1], env)
            if tb in ('AV', 'AN', 'AB', 'PTRS'):
                return "%s.size" % b, 'N'
        if k == 'un' or k == 'bin' or k == 'paren':
            # re-dispatch so that nested index / field nodes come back here
            if k == 'paren':
                return self.expr(e[1], env)
            if k == 'un':
                t, ty = self.expr(e[2], env)
                if e[1] == '!' and ty == 'B':
                    return "(!%s)" % t, 'B'
                raise Unparsed("unary %s on %s" % (e[1], ty))
            sub = Imp.expr
            l, tl = self.expr(e[2], env)
            r, tr = self.expr(e[3], env)
            return Imp.expr(self, ('bin', e[1], ('raw', l, tl), ('raw', r, tr)), env)
        if k == 'raw':
            return e[1], e[2]
        return Imp.expr(self, e, env)

    def drop_guards(self, var):
        nm = self.name(var)
        self.guards = {k: v for k, v in self.guards.items() if nm not in (k[0],) and nm not in k[1].replace('(', ' ').replace(')', ' ').split()}

    def rebind(self, m, src, env, ind):
        for v in m:
            self.drop_guards(v)
        return self.unpack(m, src, ind) if len(m) > 1 else ["%slet %s := %s" % (ind, self.name(m[0]), src)]

    def blockP(self, stmts, env, k, ctx, ind):
        """lines for `stmts`, then `k(env, ind)` for what follows; ctx = {'panic': text, 'brk': fn(env, ind) or None}"""
        env = dict(env)
        saved_guards = dict(self.guards)
        try:
            return self._blockP(stmts, env, k, ctx, ind)
        finally:
            self.guards = saved_guards

    def _blockP(self, stmts, env, k, ctx, ind):
        lines = []
        for pos, s in enumerate(stmts):
            rest = stmts[pos + 1:]
            try:
                done, new = self.stmtP(s, rest, env, k, ctx, ind)
            except NeedGuard as g:
                self.nguard += 1
                h = "h%d" % self.nguard
                lines.append("%sif %s : %s < %s.size then" % (ind, h, g.idx, g.arr))
                self.guards[(g.arr, g.idx)] = h
                lines += self._blockP(stmts[pos:], env, k, ctx, ind + '  ')
                lines.append("%selse %s" % (ind, ctx['panic']))
                return lines
            lines += new
            if done:
                return lines
        lines += k(env, ind)
        return lines

    def stmtP(self, s, rest, env, k, ctx, ind):
        """(finished?, lines): finished = the statement consumed `rest` and the continuation itself"""
        kd = s[0]
        if kd == 'let':
            if s[2][0] != 'pvar':
                raise Unparsed("let pattern")
            v = s[2][1]
            if s[4] is None:
                env[v] = None
                return False, []
            t, ty = self.expr(s[4], env)
            env[v] = ty
            self.drop_guards(v)
            return False, ["%slet %s := %s" % (ind, self.name(v), t)]
        if kd == 'assign':
            ls = self.assign(s[1], s[2], s[3], env, ind)
            self.drop_guards(root_var(s[2]))
            return False, ls
        if kd == 'expr':
            e = s[1]
            if e[0] == 'break':
                if ctx.get('brk') is None:
                    raise Unparsed("break outside a translated loop")
                return True, ctx['brk'](env, ind)
            if e[0] == 'macro' and e[1] in ('assert', 'debug_assert'):
                toks = e[2]
                parts = extract2_split(toks)
                from rustmini import parse_expr_tokens
                c, tc = self.expr(parse_expr_tokens(parts[0]), env)
                if tc != 'B':
                    raise Unparsed("assert condition")
                if e[1] == 'debug_assert':
                    return False, []
                out = ["%sif %s then" % (ind, c)]
                out += self.blockP(rest, env, k, ctx, ind + '  ')
                out.append("%selse %s" % (ind, ctx['panic']))
                return True, out
            if e[0] == 'mcall' and e[1][0] == 'path' and len(e[1][1]) == 1:
                v = e[1][1][0]
                if v in env and e[2] in self.mut_methods and not self.mut_methods[e[2]][1]:
                    if env[v] != self.mut_methods[e[2]][2]:
                        raise Unparsed("method %s on %s" % (e[2], env[v]))
                    args = [self.expr(a, env) for a in e[3]]
                    if any(t != 'N' for _, t in args):
                        raise Unparsed("argument types of %s" % e[2])
                    self.drop_guards(v)
                    return False, ["%slet %s := %s %s%s" % (ind, self.name(v), self.mut_methods[e[2]][0], self.name(v), ''.join(' ' + a for a, _ in args))]
                if v in env and env[v] == 'AV' and e[2] == 'swap' and len(e[3]) == 2:
                    a, ta = self.expr(e[3][0], env)
                    b, tb = self.expr(e[3][1], env)
                    if ta != 'N' or tb != 'N':
                        raise Unparsed("swap arguments")
                    self.drop_guards(v)
                    return False, ["%slet %s := %s.swapIfInBounds %s %s" % (ind, self.name(v), self.name(v), a, b)]
            if e[0] == 'if':
                if not is_complex(e):
                    m = [v for v in assigned([s]) if v in env and env[v] is not None]
                    if not m:
                        return False, []
                    out = ["%slet %s :=" % (ind, self.tuple_of(m) if len(m) == 1 else 'st_')]
                    out += self.if_valueP(e, env, m, ctx, ind + '  ')
                    if len(m) > 1:
                        out += self.rebind(m, 'st_', env, ind)
                    else:
                        self.drop_guards(m[0])
                    return False, out
                c, tc = self.expr(e[1], env)
                if tc != 'B':
                    raise Unparsed("if condition type")
                out = ["%sif %s then" % (ind, c)]
                out += self.blockP(stmts_of(e[2]) + rest, env, k, ctx, ind + '  ')
                out.append("%selse" % ind)
                els = [] if e[3] is None else (stmts_of(e[3]) if e[3][0] == 'block' else [('expr', e[3])])
                out += self.blockP(els + rest, env, k, ctx, ind + '  ')
                return True, out
            if e[0] == 'match':
                return True, self.matchP(e, rest, env, k, ctx, ind)
            if e[0] == 'loop':
                return True, self.loopP(e[1], None, rest, env, k, ctx, ind)
            if e[0] == 'block':
                return True, self.blockP(stmts_of(e) + rest, env, k, ctx, ind)
        if kd == 'loop':
            return True, self.loopP(s[1], None, rest, env, k, ctx, ind)
        if kd == 'while':
            return True, self.loopP(s[2], s[1], rest, env, k, ctx, ind)
        if kd == 'for':
            return True, self.forP(s, rest, env, k, ctx, ind)
        raise Unparsed("statement %s" % (kd if kd != 'expr' else 'expr/' + s[1][0]))

    def if_valueP(self, e, env, m, ctx, ind):
        c, tc = self.expr(e[1], env)
        if tc != 'B':
            raise Unparsed("if condition type")
        fin = lambda env2, ind2: [ind2 + self.tuple_of(m)]
        out = ["%sif %s then" % (ind, c)]
        out += self.blockP(stmts_of(e[2]), env, fin, ctx, ind + '  ')
        out.append("%selse" % ind)
        if e[3] is None:
            out.append(ind + '  ' + self.tuple_of(m))
        elif e[3][0] == 'block':
            out += self.blockP(stmts_of(e[3]), env, fin, ctx, ind + '  ')
        else:
            out += self.if_valueP(e[3], env, m, ctx, ind + '  ')
        return out

    def matchP(self, e, rest, env, k, ctx, ind):
        scr = e[1]
        if not (scr[0] == 'mcall' and scr[1][0] == 'path' and len(scr[1][1]) == 1 and scr[2] in self.mut_methods and self.mut_methods[scr[2]][1]):
            raise Unparsed("match scrutinee")
        v = scr[1][1][0]
        if env.get(v) != self.mut_methods[scr[2]][2]:
            raise Unparsed("method %s on %s" % (scr[2], env.get(v)))
        args = [self.expr(a, env) for a in scr[3]]
        if any(t != 'N' for _, t in args):
            raise Unparsed("argument types of %s" % scr[2])
        arms = {}
        for pat, guard, body in e[2]:
            if guard is not None or pat[0] != 'pctor' or pat[1] not in (['Ok'], ['Err']) or pat[2] != [('ptuple', [])]:
                raise Unparsed("match arm pattern")
            arms[pat[1][0]] = body
        if sorted(arms) != ['Err', 'Ok']:
            raise Unparsed("match arms")

        def arm_stmts(b):
            if b[0] == 'block':
                return stmts_of(b)
            if b[0] == 'assignexpr':
                return [('assign', b[1], b[2], b[3])]
            return [('expr', b)]
        out = ["%smatch %s %s%s with" % (ind, self.mut_methods[scr[2]][0], self.name(v), ''.join(' ' + a for a, _ in args))]
        out.append("%s| some %s =>" % (ind, self.name(v)))
        saved = dict(self.guards)
        self.drop_guards(v)
        out += self.blockP(arm_stmts(arms['Ok']) + rest, env, k, ctx, ind + '  ')
        self.guards = saved
        out.append("%s| none =>" % ind)
        out += self.blockP(arm_stmts(arms['Err']) + rest, env, k, ctx, ind + '  ')
        return out

    def state_type(self, vs, env):
        ty = {'N': 'Nat', 'B': 'Bool', 'AN': 'Array Nat', 'AV': 'Array V'}
        return ' × '.join(ty.get(env[v], env[v]) for v in vs)

    def loopP(self, body, cond, rest, env, k, ctx, ind):
        """`loop { body }` / `while cond { body }`"""
        stmts = stmts_of(body)
        m = [v for v in assigned(stmts) if v in env and env[v] is not None]
        if not m:
            raise Unparsed("loop without state")
        self.nfuel += 1
        fuel = "fuel%d" % self.nfuel
        tup = self.tuple_of(m)
        saved = dict(self.guards)
        self.guards = {}
        bl = self.rebind(m, 'st_', env, '  ')
        nxt = lambda env2, ind2: ["%s.next %s" % (ind2, self.tuple_of(m))]
        brk = lambda env2, ind2: ["%s.done %s" % (ind2, self.tuple_of(m))]
        ictx = {'panic': '.panic', 'brk': brk}
        if cond is not None:
            c, tc = self.expr(cond, env)
            if tc != 'B':
                raise Unparsed("while condition")
            bl.append("  if %s then" % c)
            bl += self.blockP(stmts, env, nxt, ictx, '    ')
            bl.append("  else .done %s" % tup)
        else:
            bl += self.blockP(stmts, env, nxt, ictx, '  ')
        self.guards = saved
        fn = self.lift('loop' if cond is None else 'while', env, m, None, bl, "LoopStep (%s) (%s)")
        out = ["%smatch MVoro.loopFuel %s %s %s with" % (ind, fuel, fn, tup)]
        out.append("%s| none => %s" % (ind, ctx['panic']))
        out.append("%s| some st_ =>" % ind)
        out += self.rebind(m, 'st_', env, ind + '  ')
        out += self.blockP(rest, env, k, ctx, ind + '  ')
        return out

    def forP(self, s, rest, env, k, ctx, ind):
        pat, it, body = s[1], s[2], s[3]
        if it[0] != 'bin' or it[1] != '..' or it[3] is None:
            raise Unparsed("for over a non-range")
        if has_return(body) or has_break(body):
            raise Unparsed("return/break out of a for loop")
        var = pat[1] if pat[0] == 'pvar' else None
        if pat[0] not in ('pvar', 'pwild'):
            raise Unparsed("for pattern")
        lo, tlo = self.expr(it[2], env)
        hi, thi = self.expr(it[3], env)
        if tlo != 'N' or thi != 'N':
            raise Unparsed("loop bounds")
        stmts = stmts_of(body)
        m = [v for v in assigned(stmts) if v in env and env[v] is not None]
        if not m:
            raise Unparsed("for loop without state")
        env2 = dict(env)
        if var:
            env2[var] = 'N'
        tup = self.tuple_of(m)
        saved = dict(self.guards)
        self.guards = {}
        bl = self.rebind(m, 'st_', env, '  ')
        bl += self.blockP(stmts, env2, lambda env3, ind3: ["%ssome %s" % (ind3, self.tuple_of(m))], {'panic': 'none', 'brk': None}, '  ')
        self.guards = saved
        fn = self.lift('for', env, m, var or '_', bl, "Option (%s)")
        out = ["%smatch MVoro.loopRangeOpt %s %s %s %s with" % (ind, lo, hi, fn, tup)]
        out.append("%s| none => %s" % (ind, ctx['panic']))
        out.append("%s| some st_ =>" % ind)
        out += self.rebind(m, 'st_', env, ind + '  ')
        out += self.blockP(rest, env, k, ctx, ind + '  ')
        return out


def extract2_split(tokens):
    from rustmini import split_commas
    return split_commas(tokens)
