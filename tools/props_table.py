TB = ('MVoro.Proofs.TessBook', 'MVoro.TessBook')
def tb(name, orig, doc): return (name, TB[0], TB[1], orig, doc)
CB = ('MVoro.Proofs.CycleBoundary', 'MVoro.CycleBoundary')
def cb(name, orig, doc): return (name, CB[0], CB[1], orig, doc)
GH = ('MVoro.Proofs.GeomHelpers', 'MVoro.GeomHelpers')
def gh(name, orig, doc): return (name, GH[0], GH[1], orig, doc)
PE = ('MVoro.Proofs.Periodic', 'MVoro.Periodic')
def pe(name, orig, doc): return (name, PE[0], PE[1], orig, doc)

prop('C12', 'cell-face connectivity is a consistent index structure', ['MVoro.Proofs.TessBook'], [
  tb('conn_is_concatenation', 'connLists_eq', 'T12.1 the per-cell lists built by the `finalize` loop are, for every cell, the ascending list of face indices linked to it (with multiplicity)'),
  tb('conn_total_length', 'conn_length', 'T12.1(a) the length of the connectivity array is the total number of links'),
  tb('offsets_are_prefix_sums', 'offsets_prefix', 'T12.1(b) offsets are the prefix sums of the face counts; the counts sum to the array length; idx/constructed are carried through'),
  tb('last_offset_plus_count', 'last_offset_count', 'T12.1(b) last offset + count = array length'),
  tb('face_indices_are_slices', 'faceIndices_spec', 'T12.1(c) `face_indices` of cell c is exactly its slice specification'),
  tb('face_listed_by_left_and_linked_right_only', "faceIndices_mem'", 'T12.1(c) a face is listed by its left cell, by its right cell iff it has a right generator and no shift, and by no other cell'),
  tb('neighbour_ids_spec', 'neighbourIds_spec', 'T12.2 for a cell whose stored idx equals its position, `neighbour_ids` yields the other side of each listed non-wall, non-periodic face'),
  tb('neighbour_ids_correct', 'neighbourIds_props', 'T12.2 under no-self-faces and one-face-per-pair: never the cell itself, no duplicates, exactly the generators across its unshifted interior faces'),
])
prop('C13', 'integrator and direct routes agree; built-in integrals reproduce stored values', ['MVoro.Proofs.TessBook'], [
  tb('routes_equal', 'routes_equal', 'T13.1 converting the integrator gives the same tessellation as the direct build, for every mask'),
  tb('sym_is_filtered_nonsym_cell', 'sym_eq_filter', 'T13.3 per cell: symmetric face integrals = non-symmetric ones minus the skipped faces'),
  tb('sym_is_filtered_nonsym', 'integrator_sym_eq_filter', 'T13.3 whole integrator: the symmetric variant is the non-symmetric result minus exactly the faces already reported by a constructed lower-index neighbour without shift'),
  tb('stored_faces_eq_sym_cell', 'stored_eq_sym', 'T13.3 the faces a cell stores are its symmetric face integrals (same order)'),
  tb('stored_faces_eq_sym', 'build_faces_eq_sym', 'T13.2/3 the stored face list equals the symmetric face integral list, in the same order'),
  tb('cell_integrals_order', 'zipData_fst', 'T13.2 cell integrals come in index order of the constructed cells'),
])
prop('C07', 'partial construction equals the full tessellation restricted to the mask', ['MVoro.Proofs.TessBook'], [
  tb('cell_indep_of_mask', 'cell_indep_of_mask', 'T07.1/T07.3 the cell of a selected index is the same `cellOf i` whatever the mask; unselected cells are the default record'),
  tb('no_unselected_left', 'no_inactive_left', 'T07.2 no stored face has an unselected left cell'),
  tb('faces_of_selected', 'faces_of_active', 'T07.2 the faces with left = i are exactly the faces cell i decides to store, none for unselected cells'),
  tb('selected_vs_unselected_face', 'storage_active_inactive', 'T07.2 a face towards an unselected neighbour is always stored by the selected side'),
  tb('both_selected_once', 'storage_exactly_one', 'T07.2/T03.2 between two selected cells exactly one side stores the unshifted face'),
])
prop('C03', 'faces are reciprocal: both sides see the same face, stored once', ['MVoro.Proofs.TessBook', 'MVoro.Proofs.VorSet'], [
  tb('stored_once_no_mask', 'storage_exactly_one_no_mask', 'T03.2 full build: exactly one of the two cells stores an unshifted interior face'),
  tb('stored_once_masked', 'storage_exactly_one', 'T03.2 partial build, both selected: exactly one stores it'),
  tb('stored_by_lower_index', 'storage_no_mask', 'T03.2 it is the lower index that stores it'),
  tb('shifted_and_wall_always_stored', 'storage_shifted_or_wall', 'T03.2 periodic (shifted) and wall faces are stored from each constructed side'),
  tb('listed_by_both', "faceIndices_mem'", 'T03.2 a stored unshifted face is listed by both of its cells'),
  tb('antisymmetric_flux_cancels', 'flux_cancels', 'T03.3 an antisymmetric flux summed over all cells leaves only wall and periodic faces'),
])
CW = ('MVoro.Proofs.CycleWalk', 'MVoro.CycleWalk')
def cw(name, orig, doc): return (name, CW[0], CW[1], orig, doc)
CM = ('MVoro.Proofs.ClipModel', 'MVoro.ClipModel')
def cm(name, orig, doc): return (name, CM[0], CM[1], orig, doc)
prop('C18', 'clipping a cell is independent of vertex storage order', ['MVoro.Proofs.CycleBoundary', 'MVoro.Proofs.CycleWalk', 'MVoro.Proofs.ClipModel', 'MVoro.Proofs.ModelReach', 'MVoro.Proofs.ClipOrder'], [
  cb('step_keeps_boundary', 'step_closed', 'T18.2 one successful `try_extend` keeps "cycle edges = boundary of the triangles added so far"'),
  cb('init_boundary', 'init_inv', 'T18.2 after `init` the cycle is the boundary of the first triangle'),
  cb('closing_triangle_excluded_necessarily', 'step_del_closing_false', 'T18.2 the closing triangle of a full sphere must be excluded: the code would leave a wrong 2-cycle'),
  cb('greedy_gives_boundary', 'greedy_inv', 'T18.3 whenever the greedy reconstruction succeeds the cycle is exactly the boundary of the removed set'),
  cb('boundary_perm_invariant', 'bdry_perm', 'T18.3 the boundary does not depend on the storage order of the removed vertices'),
  cb('boundary_rot_invariant', 'bdry_rot', 'T18.3 nor on the rotation of a dual triple'),
  cb('greedy_canonical', 'greedy_canonical', 'T18.3 two successful runs on permuted / rotated inputs end with the same successor function'),
  cb('array_refines_abstract', 'tryExtend_refines', 'T18.1 the array `try_extend` implements the abstract step (success and failure)'),
  cb('init_refines', 'init_get', 'T18.1 `init` (reset walk + triangle) gives the triangle successor function'),
  cb('compute_boundary_is_boundary', 'computeBoundary_bdry', 'T18.3 on the executable model: a successful `compute_boundary` ends with the boundary of the removed set'),
  cb('compute_boundary_canonical', 'computeBoundary_canonical', 'T18.3 on the executable model: same final cycle for every storage order and rotation'),
  cb('new_vertices_are_boundary_edges', 'pairs_closedWalk_perm', 'T18.3 the new vertices are one per boundary edge'),
  cb('closed_preserved', 'closed_preserved', 'T18.4 the clipped triple set is again a closed surface'),
  cb('greedy_closed', 'greedy_closed', 'T18.4 same, from a successful greedy run'),
  cb('no_closed_part_automatic', 'greedy_of_raw', 'T18.2 the side condition (triangle still open) is automatic when the removed set has no closed part, and the cycle stays a single cycle'),
  cw('walk_visits_cycle_once', 'walk_spec', 'T18.1 (bookkeeping) if `start` lies on the cycle and `len` is the number of entries on it, `len` steps from `start` visit every entry of the (single, injective) cycle exactly once'),
  cw('init_establishes_bookkeeping', 'init_cw', 'T18.1 `init` (reset walk + triangle) leaves `start`/`len` describing the triangle'),
  cw('try_extend_keeps_bookkeeping', 'tryExtend_cw', 'T18.1 every successful `try_extend` (insert: `len + 1`; delete: `len - 1`, `start` moved off the deleted entry) keeps `start`/`len` describing the stored cycle'),
  cw('compute_boundary_keeps_bookkeeping', 'computeBoundary_cw', 'T18.1 after a successful `compute_boundary` `start`/`len` describe the stored cycle'),
  cw('new_vertex_pairs_are_boundary_edges', 'computeBoundary_pairs', 'T18.3 end to end: the `(cur, next)` pairs read from `iter().take(len + 1)` after `compute_boundary` are exactly the boundary edges of the removed region, each once'),
  cw('next_clip_may_reset', 'computeBoundary_reset', 'T18.1 the state left behind satisfies the reset invariant the next `init` needs'),
  cm('partition_loop_spec', 'partitionLoop_spec', 'the partition loop of `clip_by_plane` returns a permutation of the vertex array whose first `num_v` entries are exactly the kept vertices'),
  ('abstract_clip_order_independent', 'MVoro.Proofs.ClipOrder', 'MVoro.ClipOrder', 'clipDuals_sameUpToRot', 'C18 itself, abstractly: two lists holding the same triples up to rotation, with corresponding triples removed in both or in neither, are clipped to two lists holding the same triples up to rotation'),
  ('model_clip_order_independent', 'MVoro.Proofs.ClipOrder', 'MVoro.ClipOrder', 'model_clip_order_independent', 'C18 itself, for the executable model of clip_by_plane: whatever the storage order of the vertices and the rotation of their plane triples, two successful clips with the same decisions give the same set of vertices as cyclically ordered plane triples'),
  ('invariants_independent_of_storage_order', 'MVoro.Proofs.ModelReach', 'MVoro.ModelReach', 'sgood_perm', 'T18.4 closedness, three planes per vertex, one umbrella per plane and Euler do not depend on the storage order of the vertices'),
  ('model_clip_keeps_polytope_invariants', 'MVoro.Proofs.ModelReach', 'MVoro.ModelReach', 'model_clip_good', 'T18.4 at full strength for the executable model: if the duals of the vertex array form a closed surface with three planes per vertex, one umbrella per plane and V - E + F = 2, and `clip_by_plane` (model) succeeds, the duals of the new vertex array do again'),
  cm('clip_is_clipDuals', 'clip_spec', 'T18.3/T18.4 `clip_by_plane` (executable model) end to end: the clipped vertex array is, as a multiset of dual triples, `clipDuals T R p` = kept triples + one `(cur, next, p)` per boundary edge of the removed region - for every storage order and every rotation of the triples'),
])
prop('C19', 'public geometry helpers satisfy their defining equations', ['MVoro.Proofs.GeomHelpers'], [
  gh('intersect_planes_on', 'intersectPlanes_on', 'T19.1 the three-plane intersection lies on all three planes'),
  gh('intersect_planes_unique', 'intersectPlanes_unique', 'T19.1 and is the only such point'),
  gh('project_onto_on_plane', 'projectOnto_on_plane', 'T19.2 the projection lands on the plane'),
  gh('project_onto_along_normal', 'projectOnto_parallel', 'T19.2 along the normal'),
  gh('project_onto_idempotent', 'projectOnto_idem', 'T19.2 idempotent'),
  gh('project_onto_intersection_on', 'projectOntoIntersection_on', 'T19.2 the projection onto the intersection lies on both planes and is orthogonal'),
  gh('project_onto_intersection_idempotent', 'projectOntoIntersection_idem', 'T19.2 idempotent'),
  gh('tet_swap01', 'signedVolumeTet_swap01', 'T19.3 antisymmetry'), gh('tet_swap12', 'signedVolumeTet_swap12', 'T19.3 antisymmetry'),
  gh('tet_swap02', 'signedVolumeTet_swap02', 'T19.3 antisymmetry'), gh('tet_swap23', 'signedVolumeTet_swap23', 'T19.3 antisymmetry'),
  gh('tet_sign_convention', 'signedVolumeTet_pos_iff', 'T19.3 positive iff v0 v1 v2 counter-clockwise seen from v3'),
  gh('tet_example', 'signedVolumeTet_example', 'T19.3 the documented sign on the unit corner tetrahedron'),
  gh('tri_abs', 'signedAreaTri_abs', 'T19.3 absolute value is the triangle area'),
  gh('tri_swap', 'signedAreaTri_swap', 'T19.3 antisymmetric (apex strictly off the plane)'),
  gh('tri_indep_apex', 'signedAreaTri_indep_t', 'T19.3 independent of the apex on one side'),
  gh('tri_sign', 'signedAreaTri_pos_iff', 'T19.3 sign convention'),
  gh('sphere_two_points', 'sphere2_on', 'T19.4'), gh('sphere_three_points', 'sphere3_on', 'T19.4 through the points, centre in their plane'),
  gh('sphere_four_points', 'sphere4_on', 'T19.4'),
  gh('extend_contains', 'extend_contains_point', 'T19.4 the extended sphere passes through the point and contains the old sphere'),
  gh('extend_smallest', 'extend_minimal', 'T19.4 and is the smallest such sphere'),
  gh('contains_monotone', 'contains_mono', 'T19.4'),
])
prop('C06', 'periodic tessellation equals that of the infinitely replicated point set', ['MVoro.Proofs.Periodic', 'MVoro.Proofs.VorSet'], [
  pe('closer_image_1d', 'closer_image_1d', 'T06.1 one axis: an image with |k| >= 2 is never closer than the best of k in {-1,0,1}'),
  pe('clamp_image', 'clamp_image', 'T06.1 all axes'),
  pe('own_images_bound', 'own_images_bound', 'T06.1 the cell lies within half a period of its generator'),
  pe('cell_strictly_inside_tripled_box', 'cell_in_tripled_box', 'T06.1 hence strictly inside the tripled box: no boundary faces along periodic axes'),
  pe('images27_suffice', "images27_suffice'", 'T06.1 the 3^d images decide membership in the periodic cell'),
  pe('query_shift_is_image', 'shift_equiv_image', 'T06.4 searching with the query shifted by s looks at the image shifted by -s'),
  pe('reported_shift', 'reportedShift_spec', 'T06.4 the reported shift is absent iff zero and has components in {-w,0,w}'),
  pe('wrapped_generator_same_images', 'images_of_wrapped', 'T06.3 wrapping a translated generator back into the box leaves the set of its periodic images unchanged'),
  pe('image_of_translate', 'image_translate', 'T06.3 translating a generator translates all its images'),
  ('cell_translates', 'MVoro.Proofs.VorSet', 'MVoro.VorSet', 'Vor_translate', 'T06.3 translating all sites translates every Voronoi region (any index set, e.g. all periodic images): measures are unchanged'),
  ('face_translates', 'MVoro.Proofs.VorSet', 'MVoro.VorSet', 'face_translate', 'T06.3 and every face'),
])
LD = ('MVoro.Proofs.LowDim', 'MVoro.LowDim')
def ld(name, orig, doc): return (name, LD[0], LD[1], orig, doc)
prop('C08', '1D and 2D tessellations depend only on the active coordinates', ['MVoro.Proofs.Periodic', 'MVoro.Proofs.VorSet', 'MVoro.Proofs.LowDim'], [
  ld('generator_projection_indep', 'projectGen_indep', 'T08.1 `Generator::new` forgets the unused coordinates'),
  ld('axis_normalisation_indep', 'normalise_indep', 'T08.1 the axis normalisation forgets the unused components of anchor and width'),
  ld('internal_problem_indep_of_unused_coordinates', 'norm_indep', 'T08.1 two inputs that agree on the active coordinates are normalised to the same internal problem; every later step is a function of it'),
  ld('unit_box_on_unused_axes_1d', 'norm_unused_1d', 'T08.1 1D: unused axes carry the box [-1/2,1/2] and generator coordinate 0'),
  ld('unit_box_on_unused_axes_2d', 'norm_unused_2d', 'T08.1 2D: same for z'),
  ('half_space_depends_on_projection', 'MVoro.Proofs.VorSet', 'MVoro.VorSet', 'HS_proj', 'T08.3 prism: for generators inside a subspace K, membership of x in H(g,q) depends only on the orthogonal projection of x onto K: the 3D cell is base x (unused axes)'),
  pe('cell_1d_closed_form', 'cell_1d_eq', 'T08.2 the 1D cell is the interval between the midpoints to the sorted neighbours (walls at the ends)'),
  pe('unit_thickness', 'prism_volume', 'T02.3/T08 unit thickness: the measure of the prism is the measure of its base'),
  pe('slab_centroid', 'slab_centroid', 'T08 the centroid of the unit slab is 0 along unused axes'),
])
BF = ('MVoro.Proofs.BestFirst', 'MVoro.BestFirst')
def bf(name, orig, doc): return (name, BF[0], BF[1], orig, doc)
prop('C17', 'neighbour candidates are enumerated completely and in order of distance', ['MVoro.Proofs.BestFirst', 'MVoro.Proofs.Periodic'], [
  bf('every_leaf_once_per_initial_entry', 'bestFirst_complete', 'T17.1a with enough fuel every leaf below the queue is emitted exactly once, with the shift of the entry it came from — for ANY tie-breaking that pops a minimal entry (covers BinaryHeap)'),
  bf('emitted_in_key_order', 'bestFirst_sorted', 'T17.1b the emitted keys are non-decreasing whenever parent keys are lower bounds of their children (LB)'),
  bf('each_generator_once_per_shift', 'bestFirst_initQueue', 'T17.3 from the initial queue (root children under every shift) the output is a permutation of {generators} x {shifts}'),
  bf('visit_count', 'visits_per_generator', 'T17.3 hence every generator is visited exactly #shifts times (3^d periodic, 1 otherwise)'),
  bf('self_first', 'self_first', 'T17.3 the unique key-0 pair (the generator itself, zero shift) is emitted first when all other keys are positive (distinct generators)'),
  bf('first_min_is_valid_choice', 'argminFirst_valid', 'the executable tie-breaking of the driver (first minimum) is one of the admissible choices'),
  bf('clamp_is_closest_point', 'clamp_lower_bound', 'T17.2 one axis: the clamped coordinate is at least as close as any point of the interval'),
  bf('envelope_distance_lower_bound', 'envDist2_le_dist2', 'T17.2 the envelope key is a lower bound of the squared distance to every point inside the envelope'),
  bf('envelope_distance_nested', 'envDist2_nested', 'T17.2 and of the key of every nested envelope'),
  bf('envelope_key_has_LB', 'LB_boxKey', 'T17.2 so the key the code uses has the lower-bound property on any tree whose parent envelopes contain their children (rstar invariant, checked on every dumped tree)'),
  bf('leaf_key_is_distance', 'boxKey_leaf', 'T17.2 for a leaf the key is the squared distance to the shifted query point'),
  pe('query_shift_is_image', 'shift_equiv_image', 'T06.4 searching with the query shifted by s looks at the image shifted by -s'),
  pe('reported_shift', 'reportedShift_spec', 'T06.4/T17.3 the reported shift is absent iff zero and has components in {-w,0,w}'),
])
KN = ('MVoro.Proofs.Aux20', 'MVoro.KnnProofs')
def kn(name, orig, doc): return (name, KN[0], KN[1], orig, doc)
SP = ('MVoro.Proofs.Aux20', 'MVoro.SphereProofs')
def sp(name, orig, doc): return (name, SP[0], SP[1], orig, doc)
prop('C20', 'auxiliary structures return exact nearest neighbours and enclosing spheres', ['MVoro.Proofs.Aux20', 'MVoro.Proofs.MEBProofs', 'MVoro.Proofs.KnnCorrect', 'MVoro.Proofs.GridWF', 'MVoro.Proofs.RingWF', 'MVoro.Proofs.KnnFull'], [
  kn('cell_lower_bound', 'minDist2_lower_bound', 'T20.1 `min_distance_squared` of a grid cell is a lower bound of the squared distance to every point inside the cell (needs the cell extent loc .. loc+width componentwise)'),
  kn('closest_loc_in_cell', 'closestLoc_inBox', 'T20.1 `closest_loc` lies in the cell'),
  kn('bounded_heap_insert', 'insertK_spec', 'T20.1 one insertion into the bounded heap keeps "the k smallest distances seen so far, ascending"'),
  kn('bounded_heap_fold', 'foldl_insertK_spec', 'T20.1 scanning any list of particles leaves the k smallest distances of everything scanned'),
  kn('skip_is_safe', 'skip_safe', 'T20.1 a cell whose lower bound exceeds the current k-th distance cannot change the heap'),
  kn('scan_with_skip_eq_without', 'scanCell_eq_noskip', 'T20.1 hence scanning with the skip test gives the same heap as scanning every particle of the cell'),
  kn('ring_termination_bound', 'ring_bound_3d', 'T20.1 every particle in a cell at ring distance > r is farther than dist_to_face + r * min width: the termination test is safe'),
  ('ring_loop_returns_fold_over_all_rings', 'MVoro.Proofs.KnnCorrect', 'MVoro.KnnCorrect', 'knnLoop_eq_fold', 'T20.1 whatever the early exits do (skipped cells, termination test), the ring loop returns the plain fold of the bounded heap over ALL particles of ALL rings — for every grid whose cells contain their particles (hbox), whose rings end (hend) and whose rings are at least `dist_to_face + r * min width` away (hfar)'),
  ('ring_loop_correct', 'MVoro.Proofs.KnnCorrect', 'MVoro.KnnCorrect', 'knnLoop_correct', 'T20.1 hence the result is sorted by distance, has min(k, number of candidates) entries, its distances are the k smallest, and every entry is a real candidate'),
  ('ring_loop_eq_brute_force', 'MVoro.Proofs.KnnCorrect', 'MVoro.KnnCorrect', 'knnLoop_eq_spec', 'T20.1 if moreover the cells of the rings hold every particle exactly once, the distances returned are those of the brute-force specification `knnSpec` (k nearest OTHER particles, increasing)'),
  ('space_new_builds_a_wellformed_grid', 'MVoro.Proofs.GridWF', 'MVoro.GridWF', 'mkSpace_gridOK', 'T20.1 Space::new (componentwise placement): for a box of positive extents, a positive maximal cell width and particles inside the half-open box the grid certificate holds: non-negative cell widths, every particle registered in a cell lies in the box of that cell (binning by floor brackets the coordinate), the cells hold every particle exactly once (row-major index arithmetic)'),
  ('space_new_meets_the_hypotheses_of_the_ring_loop', 'MVoro.Proofs.GridWF', 'MVoro.GridWF', 'mkSpace_wellformed', 'T20.1 hence hbox and the partition property assumed by knnLoop_eq_spec hold for the grid of Space::new'),
  ('get_r_ring_is_the_chebyshev_ring', 'MVoro.Proofs.RingWF', 'MVoro.RingWF', 'mem_ring', 'T20.1 get_r_ring(cid, r) lists exactly the cells of the grid whose index triple is at Chebyshev distance r from that of cid (r = 0: the cell itself)'),
  ('get_r_ring_lists_each_cell_once', 'MVoro.Proofs.RingWF', 'MVoro.RingWF', 'nodup_ring', 'T20.1 ... each once'),
  ('rings_end', 'MVoro.Proofs.RingWF', 'MVoro.RingWF', 'ring_empty', 'T20.1 from ring cx + cy + cz on the rings are empty (hypothesis hend of the ring loop; the loop has fuel cx + cy + cz + 2)'),
  ('farther_rings_are_farther', 'MVoro.Proofs.KnnFull', 'MVoro.KnnFull', 'far_bound', 'T20.1 a particle registered in a cell at Chebyshev index distance >= r + 1 is at least dist_to_face + r * min width away (hypothesis hfar: ring_bound_3d composed over the ring structure and the binning)'),
  ('rings_partition_the_particles', 'MVoro.Proofs.KnnFull', 'MVoro.KnnFull', 'rings_perm', 'T20.1 the cells of the rings around any cell hold every particle exactly once (hypothesis hpart)'),
  ('knn_entries_on_the_grid_of_space_new', 'MVoro.Proofs.KnnFull', 'MVoro.KnnFull', 'knnLoop_mkSpace_entries', 'T20.1 every returned pair is (squared distance to particle q, q) for another particle q < n, the list is sorted by distance and has min(k, n - 1) entries'),
  ('knn_on_the_grid_of_space_new_is_brute_force', 'MVoro.Proofs.KnnFull', 'MVoro.KnnFull', 'knn_mkSpace_eq_spec', 'T20.1 at full strength for the model: knn on the grid that Space::new builds equals knnSpec (the k nearest OTHER particles in increasing distance) for every k >= 1, every box of positive extents, every positive maximal cell width and all particles inside the half-open box'),
  kn('pinned_placement_breaks_lower_bound', 'pinned_lower_bound_fails', 'T20.1 (negative) with `c_width.x` on all axes (the pinned tree) a particle lies outside the extent of its cell and the lower bound fails'),
  kn('pinned_placement_wrong_answer', 'pinned_knn_ne_spec', 'T20.1 (negative) concrete non-cubic box on which the pinned placement returns a wrong nearest neighbour; the componentwise placement returns the right one'),
  sp('certificate_implies_minimal', 'minimal_of_certificate_V3', 'T20.3 a ball containing all points whose centre is a convex combination of points on its boundary is the minimal enclosing ball'),
  ('certificate_checker_sound', 'MVoro.Proofs.MEBProofs', 'MVoro.MEBProofs', 'checkCert_sound', 'T20.3 (executable form, over Q) a ball accepted by `MEB.checkCert` contains every point and no enclosing ball has a smaller squared radius: what the driver reports as the exact minimum IS the minimum'),
  sp('two_point_sphere_minimal', 'sphere2_minimal', 'T20.3 `from_two_points` is the minimal sphere containing both'),
  sp('extend_keeps_points', 'extend_keeps_contained', 'T20.2 `extend` keeps every previously contained point'),
  sp('extend_contains_new_point', 'extend_contains_new', 'T20.2 and contains the new one'),
  sp('extension_loop_contains_all', 'fold_extend_contains_all', 'T20.2 the extension loop over all points ends with a sphere containing all of them'),
  sp('epos6_contains_all', 'epos6_contains_all', 'T20.2 EPOS-6: whatever the initial guess (positive radius), the result contains every point'),
  sp('sphere_of_spheres_step', 'sphere_of_spheres_step', 'T20.2 one extension step of the sphere-of-spheres loop contains the old bounding sphere and the new sphere'),
])
SC = ('MVoro.Proofs.Misc', 'MVoro.SchedProofs')
def sc(name, orig, doc): return (name, SC[0], SC[1], orig, doc)
prop('C09', 'results are a pure function of the input, independent of thread schedule', ['MVoro.Proofs.Misc'], [
  sc('any_completion_order', 'runOrder_perm', 'T09.1 slot view: whatever order the n tasks complete in (any permutation) and whatever the slots held before, slot i ends up holding f i'),
  sc('any_two_orders_agree', 'runOrder_any_two', 'T09.1 two completion orders give the same vector'),
  sc('any_split_tree', 'collect_eq', 'T09.1 split view: any recursive splitting of the index range, concatenated in order, is the sequential map'),
  sc('any_two_split_trees_agree', 'collect_any_two', 'T09.1 two split trees give the same vector'),
  sc('flatten_after_collect', 'flattenCollect_eq', 'T09.1 filter_map + flatten after an indexed collect is the sequential filter_map + flatten: faces come out in cell order'),
])
SU = ('MVoro.Proofs.Surface', 'MVoro.Surface')
def su(name, orig, doc): return (name, SU[0], SU[1], orig, doc)
prop('C14', 'custom integrals receive an exact signed decomposition of the cell', ['MVoro.Proofs.Surface', 'MVoro.Proofs.TessBook'], [
  su('volume_indep_of_apex', 'volume_apex_indep', "T14.1 for a closed oriented triangulated surface the signed sum of apex-tetrahedron volumes does not depend on the apex (degree 0)"),
  su('first_moment_indep_of_apex', 'm1_apex_indep', 'T14.1 nor does the signed sum of first moments (degree 1)'),
  su('second_moment_indep_of_apex', 'm2_apex_indep', 'T14.1 nor the signed sum of second moments, for every pair of directions (degree 2)'),
  su('closure', 'closure', 'T04.2/T14 the vector areas of a closed oriented surface sum to zero'),
  su('divergence_identity', 'divergence', 'T04.2 one third of sum (vector area . (triangle centroid - g)) is the signed tetrahedron sum'),
  su('tetrahedron_is_closed_surface', 'tetFaces_closed', 'non-vacuity: the four faces of any tetrahedron satisfy the hypothesis ClosedSurf'),
  su('edge_split_area', 'split_edge_area', 'T14.2 splitting an edge (a,b) at any point of its line (the foot point used by the decomposition without faces) does not change the signed vector area seen from P'),
  su('edge_split_area_normal', 'split_edge_areaN', 'T14.2 same, projected on the face normal'),
  su('edge_split_first_moment', 'split_edge_moment1', 'T14.2 nor the first moment'),
  su('fan_origin_indep', 'fan_origin_indep', 'T14.2 the fan triangulation of a closed polygon has the same vector area from every origin: decomposition with faces = without faces as signed measures on each face'),
  tb('data_alignment', 'zipData_mem', 'T14.4 zipping the unfiltered cell list with the data delivers data[i] to the cell with index i, for every mask'),
  tb('data_alignment_order', 'zipData_spec', 'T14.4 and in increasing index order'),
])
FP = ('MVoro.Proofs.FacesProofs', 'MVoro.FacesProofs')
def fp(name, orig, doc): return (name, FP[0], FP[1], orig, doc)
TS = ('MVoro.Proofs.Misc', 'MVoro.TypeStateProofs')
def ts(name, orig, doc): return (name, TS[0], TS[1], orig, doc)
prop('C15', 'extracted vertices and face polygons form a valid convex polytope', ['MVoro.Proofs.FacesProofs', 'MVoro.Proofs.Misc', 'MVoro.Proofs.GeomHelpers', 'MVoro.Proofs.Euler', 'MVoro.Proofs.EulerClip', 'MVoro.Proofs.LinkClip', 'MVoro.Proofs.EulerReach', 'MVoro.Proofs.ReachAll', 'MVoro.Proofs.FaceCycle', 'MVoro.Proofs.SortCycle', 'MVoro.Proofs.EulerLists'], [
  gh('vertex_on_its_three_planes', 'intersectPlanes_on', 'T15.1 `Vertex::from_dual` = intersect_planes of the three listed planes lies on all three (exact arithmetic, det != 0)'),
  fp('ordering_is_a_permutation', 'sortFaceVertices_perm', 'T15.2a whenever `sort_face_vertices` succeeds its result is a permutation of the vertices collected for the plane: no vertex is lost or duplicated by the ordering'),
  fp('vertex_listed_per_occurrence', 'count_collected', 'T15.2b vertex i is collected under plane p exactly as often as p occurs in its dual triple'),
  fp('distinct_planes_once_each', 'occ_distinct', 'T15.2b for three distinct planes: once under each of them, never under another plane'),
  fp('every_vertex_in_three_faces', 'total_occ_three', 'T15.2c summed over all planes every vertex is listed exactly three times'),
  ts('face_data_always_present', 'run_never_ub', 'T15.4 in every state reachable from `new` by with_faces / discard_faces / accessor operations the unchecked reads of the face data never hit None'),
  ts('invariant_step', 'step_good', 'T15.4 one operation keeps the invariant "marker = WithFaces iff face data present"'),
  ts('with_faces_rejected_low_dim', 'withFaces_rejected_lowdim', 'T15.4 with_faces on a 1D/2D cell is the error state (panic), never a cell with nonsense faces'),
  ts('discard_then_with_faces_identity', 'discard_withFaces_id', 'T15.4 discard_faces followed by with_faces reproduces planes, vertices and (re-derived) faces'),
  ('interior_planes_vanish', 'MVoro.Proofs.Euler', 'MVoro.Euler', 'interior_gone', 'T15.3 a plane of the removed region that is not on its boundary cycle has ALL its triples in the removed region, if the triples at that plane form a single umbrella (link connected): the face vanishes from the cell'),
  ('plane_survives_iff_not_interior', 'MVoro.Proofs.Euler', 'MVoro.Euler', 'plane_survives_iff', 'T15.3 a face of the cell is still a face after the clip iff it is not interior to the removed region'),
  ('new_plane_is_a_face', 'MVoro.Proofs.Euler', 'MVoro.Euler', 'new_plane_present', 'T15.3 the new plane is a face of the clipped cell'),
  ('euler_bookkeeping', 'MVoro.Proofs.Euler', 'MVoro.Euler', 'euler_arith', 'T15.3 bookkeeping: V vertices, F faces, k removed vertices, b new vertices, m vanished faces with the disc relation 2m + b = k + 2 keep V + 4 = 2F, i.e. V - E + F = 2 with E = 3V/2'),
  ('removed_region_is_a_disc', 'MVoro.Proofs.EulerClip', 'MVoro.EulerClip', 'disc_relation', 'T15.3 every removed region on which the greedy boundary reconstruction succeeds satisfies the Euler relation of a disc, 2m + b = k + 2 (induction over the greedy run: an inserted triangle adds a boundary vertex - a NEW plane, by interior_gone - a closed corner turns a boundary vertex into an interior one)'),
  ('euler_preserved_by_clip', 'MVoro.Proofs.EulerClip', 'MVoro.EulerClip', 'euler_preserved', 'T15.3 V + 4 = 2F (V - E + F = 2) for the cell implies it for the clipped cell, for link-connected closed surfaces'),
  ('no_pinched_plane_after_clip', 'MVoro.Proofs.LinkClip', 'MVoro.LinkClip', 'linkConn_preserved', 'T15.2/T15.3 link-connectedness (the vertices of every face form ONE umbrella / cycle - no pinched face) is preserved by a clip whose boundary is a single injective cycle'),
  ('clip_keeps_all_combinatorial_invariants', 'MVoro.Proofs.EulerReach', 'MVoro.EulerReach', 'cstep_good', 'T15.3 closed surface, no repeated vertex, three different planes per vertex, one umbrella per plane, Euler: all preserved by every successful clip'),
  ('start_box_good', 'MVoro.Proofs.EulerReach', 'MVoro.EulerReach', 'box8_good', 'T15.3 the eight dual triples of ConvexCell::init satisfy them (8 + 4 = 2 * 6)'),
  ('euler_for_every_reachable_cell', 'MVoro.Proofs.EulerReach', 'MVoro.EulerReach', 'euler_reach', 'T15.3 at full strength for the combinatorial model: every surface reachable from the start box by successful clips satisfies V - E + F = 2 and has no pinched plane'),
  ('face_is_one_simple_cycle', 'MVoro.Proofs.FaceCycle', 'MVoro.FaceCycle', 'face_cycle', 'T15.2 in a closed surface with three planes per vertex whose triples at plane p form one umbrella, walking from any vertex of the face across the edge that leaves p lists every vertex of the face exactly once, consecutive ones share a second plane, and the walk returns to its start: the order sort_face_vertices produces'),
  ('every_face_of_a_reachable_cell_is_one_cycle', 'MVoro.Proofs.FaceCycle', 'MVoro.FaceCycle', 'reachable_face_cycle', 'T15.2 for every surface reachable from the start box by successful clips'),
  ('sort_face_vertices_returns_the_cycle', 'MVoro.Proofs.SortCycle', 'MVoro.SortCycle', 'sortFaceVertices_cycle', 'T15.2 the array algorithm of with_faces (model Faces.sortFaceVertices, compared token by token with the code): on a vertex list that is a bijection onto a cycle in which only c k and c (k+1) contain the plane after p of c k, none of its expect/assert! fires and the result is the cycle in order; core Lean only'),
  ('sort_face_vertices_on_a_closed_surface', 'MVoro.Proofs.SortCycle', 'MVoro.SortCycle', 'sort_of_surface', 'T15.2 the hypotheses of the previous theorem hold for every face of a closed surface with distinct edges, distinct planes per vertex and connected links, with c k = (nx T p)^[k] d0: the collected list (with_faces collection step) is ordered as the face cycle of FaceCycle'),
  ('sort_face_vertices_on_reachable_cells', 'MVoro.Proofs.SortCycle', 'MVoro.SortCycle', 'reachable_sort', 'T15.2 for every surface reachable from the start box by successful clips, every face'),
  ('sorted_face_is_a_closed_walk', 'MVoro.Proofs.SortCycle', 'MVoro.SortCycle', 'sorted_closed_walk', 'T15.2 in the ordered face every vertex is joined to the next and the last to the first by crossing the edge that leaves the face plane'),
  ('with_faces_succeeds_on_reachable_cells', 'MVoro.Proofs.SortCycle', 'MVoro.SortCycle', 'reachable_withFaces', 'T15.2 the whole with_faces model (collection, ordering of every face, removal of empty faces) returns a result, i.e. no expect/assert! of the ordering step fires for any face of a reachable cell'),
  ('euler_relation_of_the_returned_face_lists', 'MVoro.Proofs.EulerLists', 'MVoro.EulerLists', 'reachable_euler_lists', 'T15.1 for every cell reachable from the start box whose planes are below nplanes, with_faces returns face lists whose Euler characteristic V - E + F (E = half the sum of the list lengths, F = number of non-empty lists: the quantity the check computes from the implementation) is 2'),
  ('no_face_with_one_vertex', 'MVoro.Proofs.EulerLists', 'MVoro.EulerLists', 'M_ne_one', 'T15.1 no face of a closed surface with connected links has exactly one vertex'),
  ('all_invariants_for_every_reachable_cell', 'MVoro.Proofs.ReachAll', 'MVoro.ReachAll', 'reachable_all', 'T15/T01.4/T10.5 combined: every cell reachable from the start cell by exact clips is geometrically good (vertices on their planes, positively oriented, inside all half spaces, closed surface) and combinatorially good (Euler, no pinched plane)'),
])
