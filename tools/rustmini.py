"""A small tokenizer + parser for the subset of Rust the translator understands.

Only what the translated fragments need: items are located by name, bodies are
parsed into a tiny AST.  Anything outside the subset raises `Unparsed`, which
the translator reports as an unparsed fragment (never silently ignored).
"""
import re


class Unparsed(Exception):
    pass


TOKEN_RE = re.compile(r"""
    (?P<ws>\s+|//[^\n]*|/\*.*?\*/)
  | (?P<num>\d[\d_]*\.\d[\d_]*(?:[eE][+-]?\d+)?(?:f64|f32)?|\d[\d_]*\.(?![\.\w])|\d[\d_]*[eE][+-]?\d+(?:f64)?|0x[0-9a-fA-F_]+(?:u64|i64|usize)?|\d[\d_]*(?:f64|u64|i64|usize|i32|u32)?)
  | (?P<str>"(?:\\.|[^"\\])*")
  | (?P<life>'[a-zA-Z_]\w*(?!'))
  | (?P<id>[A-Za-z_]\w*|\$[A-Za-z_]\w*)
  | (?P<op>\.\.=|\.\.|::|->|=>|==|!=|<=|>=|&&|\|\||\+=|-=|\*=|/=|[-+*/%=<>!&|.,;:(){}\[\]#?@^])
""", re.X | re.S)


def tokenize(src):
    out = []
    pos = 0
    while pos < len(src):
        m = TOKEN_RE.match(src, pos)
        if not m:
            raise Unparsed("cannot tokenize at %r" % src[pos:pos + 30])
        pos = m.end()
        if m.lastgroup == 'ws':
            continue
        out.append((m.lastgroup, m.group(m.lastgroup)))
    return out


def strip_attrs_cfg(src):
    """Remove doc comments; keep code."""
    return re.sub(r"///[^\n]*\n", "\n", src)


def find_matching(tokens, i, open_, close):
    depth = 0
    while i < len(tokens):
        t = tokens[i][1]
        if t == open_:
            depth += 1
        elif t == close:
            depth -= 1
            if depth == 0:
                return i
        i += 1
    raise Unparsed("unbalanced %s" % open_)


def find_fn(tokens, name, after=0):
    """Return (params_tokens, body_tokens, end_index) of `fn name`, searching from `after`."""
    i = after
    while i < len(tokens) - 1:
        if tokens[i] == ('id', 'fn') and tokens[i + 1] == ('id', name):
            j = i + 2
            # generics
            if tokens[j][1] == '<':
                depth = 0
                while True:
                    if tokens[j][1] == '<':
                        depth += 1
                    elif tokens[j][1] == '>':
                        depth -= 1
                        if depth == 0:
                            break
                    elif tokens[j][1] == '->':
                        pass
                    j += 1
                j += 1
            assert tokens[j][1] == '(', tokens[j]
            pe = find_matching(tokens, j, '(', ')')
            params = tokens[j + 1:pe]
            k = pe + 1
            depth = 0
            while not (tokens[k][1] == '{' and depth == 0):
                if tokens[k][1] in '([':
                    depth += 1
                elif tokens[k][1] in ')]':
                    depth -= 1
                elif tokens[k][1] == ';' and depth == 0:
                    raise Unparsed("fn %s has no body" % name)
                k += 1
            be = find_matching(tokens, k, '{', '}')
            return params, tokens[k:be + 1], be + 1
        i += 1
    raise Unparsed("fn %s not found" % name)


def find_impl(tokens, header):
    """Find `impl ... header-tokens ... {` and return the body token range (start, end).
    `header` is a list of token strings that must appear consecutively between `impl` and `{`."""
    i = 0
    n = len(header)
    while i < len(tokens):
        if tokens[i] == ('id', 'impl'):
            j = i + 1
            k = j
            while tokens[k][1] != '{':
                k += 1
            hdr = [t[1] for t in tokens[j:k]]
            for s in range(len(hdr) - n + 1):
                if hdr[s:s + n] == header:
                    e = find_matching(tokens, k, '{', '}')
                    return k + 1, e
            i = k
        i += 1
    raise Unparsed("impl %s not found" % ' '.join(header))


def find_macro(tokens, name):
    """Return (param_names, body_tokens) of `macro_rules! name` (single arm)."""
    i = 0
    while i < len(tokens) - 3:
        if tokens[i] == ('id', 'macro_rules') and tokens[i + 1][1] == '!' and tokens[i + 2] == ('id', name):
            j = i + 3
            assert tokens[j][1] == '{'
            end = find_matching(tokens, j, '{', '}')
            j += 1
            assert tokens[j][1] == '('
            pe = find_matching(tokens, j, '(', ')')
            params = [t[1] for t in tokens[j + 1:pe] if t[0] == 'id' and t[1].startswith('$')]
            k = pe + 1
            assert tokens[k][1] == '=>', tokens[k]
            k += 1
            assert tokens[k][1] == '{'
            be = find_matching(tokens, k, '{', '}')
            body = tokens[k + 1:be]
            # `{{ ... }}` form
            if body and body[0][1] == '{' and find_matching(body, 0, '{', '}') == len(body) - 1:
                body = body[1:-1]
            return params, body
        i += 1
    raise Unparsed("macro %s not found" % name)


def split_commas(tokens):
    parts, cur, depth = [], [], 0
    for t in tokens:
        if t[1] in '([{':
            depth += 1
        elif t[1] in ')]}':
            depth -= 1
        if t[1] == ',' and depth == 0:
            parts.append(cur)
            cur = []
        else:
            cur.append(t)
    if cur:
        parts.append(cur)
    return parts


BINPREC = {
    '||': 1, '&&': 2,
    '==': 3, '!=': 3, '<': 3, '>': 3, '<=': 3, '>=': 3,
    '|': 4, '^': 5, '&': 6,
    '+': 8, '-': 8, '*': 9, '/': 9, '%': 9,
}


class Parser:
    def __init__(self, tokens, macros=None):
        self.t = tokens
        self.i = 0
        self.macros = macros or {}
        self.no_struct = 0

    def peek(self, k=0):
        return self.t[self.i + k][1] if self.i + k < len(self.t) else None

    def peekkind(self, k=0):
        return self.t[self.i + k][0] if self.i + k < len(self.t) else None

    def eat(self, s=None):
        if self.i >= len(self.t):
            raise Unparsed("unexpected end, wanted %r" % s)
        tok = self.t[self.i]
        if s is not None and tok[1] != s:
            raise Unparsed("expected %r got %r at %d: ...%s" % (s, tok[1], self.i, ' '.join(x[1] for x in self.t[max(0, self.i - 8):self.i + 4])))
        self.i += 1
        return tok[1]

    def done(self):
        return self.i >= len(self.t)

    # ---------------- types (skipped) ----------------
    def skip_type(self):
        depth = 0
        start = self.i
        while not self.done():
            p = self.peek()
            if p in ('<', '(', '['):
                depth += 1
            elif p in ('>', ')', ']'):
                if depth == 0:
                    break
                depth -= 1
            elif p in ('=', ';', ',', '{', '|') and depth == 0:
                break
            self.i += 1
        return ' '.join(x[1] for x in self.t[start:self.i])

    # ---------------- patterns ----------------
    def parse_pattern(self):
        """Very small pattern language; returns a pattern AST."""
        alts = [self.parse_pattern1()]
        while self.peek() == '|':
            self.eat('|')
            alts.append(self.parse_pattern1())
        return alts[0] if len(alts) == 1 else ('por', alts)

    def parse_pattern1(self):
        p = self.peek()
        if p == '&':
            self.eat()
            return self.parse_pattern1()
        if p == '_':
            self.eat()
            return ('pwild',)
        if p == '(':
            self.eat('(')
            items = []
            while self.peek() != ')':
                items.append(self.parse_pattern())
                if self.peek() == ',':
                    self.eat()
            self.eat(')')
            return ('ptuple', items)
        if self.peekkind() == 'num' or p == '-':
            neg = ''
            if p == '-':
                self.eat()
                neg = '-'
            return ('plit', neg + self.eat())
        if self.peekkind() == 'id':
            if p in ('ref', 'mut'):
                self.eat()
                return self.parse_pattern1()
            path = [self.eat()]
            while self.peek() == '::':
                self.eat()
                path.append(self.eat())
            if self.peek() == '(':
                self.eat('(')
                items = []
                while self.peek() != ')':
                    items.append(self.parse_pattern())
                    if self.peek() == ',':
                        self.eat()
                self.eat(')')
                return ('pctor', path, items)
            if self.peek() == '{':
                self.eat('{')
                fields = []
                rest = False
                while self.peek() != '}':
                    if self.peek() == '..':
                        self.eat()
                        rest = True
                    else:
                        f = self.eat()
                        if self.peek() == ':':
                            self.eat(':')
                            fields.append((f, self.parse_pattern()))
                        else:
                            fields.append((f, ('pvar', f)))
                    if self.peek() == ',':
                        self.eat()
                self.eat('}')
                return ('pstruct', path, fields, rest)
            if len(path) == 1 and (path[0][0].islower() or path[0][0] == '_'):
                return ('pvar', path[0])
            return ('pctor', path, [])
        raise Unparsed("pattern at %r" % p)

    # ---------------- expressions ----------------
    def parse_expr(self, prec=0):
        lhs = self.parse_unary()
        while True:
            op = self.peek()
            if op in ('..', '..=') and prec < 0.5:
                self.eat()
                if self.peek() in (']', ')', '}', ',', ';', '{'):
                    lhs = ('bin', op, lhs, None)
                else:
                    lhs = ('bin', op, lhs, self.parse_expr(0.5))
            elif op in BINPREC and BINPREC[op] > prec:
                # `<` could be generics only after `::`, which parse_postfix handles
                self.eat()
                rhs = self.parse_expr(BINPREC[op])
                lhs = ('bin', op, lhs, rhs)
            elif op == 'as':
                self.eat()
                # the type of a cast in expression position: a path `a::b::c` (casts bind tighter than any binary operator)
                parts = [self.eat()]
                while self.peek() == '::':
                    self.eat()
                    parts.append(self.eat())
                lhs = ('cast', lhs, '::'.join(parts))
            else:
                return lhs

    def parse_unary(self):
        p = self.peek()
        if p == '-':
            self.eat()
            return ('un', '-', self.parse_unary())
        if p == '!':
            self.eat()
            return ('un', '!', self.parse_unary())
        if p == '&':
            self.eat()
            if self.peek() == 'mut':
                self.eat()
            return self.parse_unary()
        if p == '*':
            self.eat()
            return self.parse_unary()
        return self.parse_postfix(self.parse_primary())

    def parse_args(self):
        self.eat('(')
        args = []
        saved = self.no_struct
        self.no_struct = 0
        while self.peek() != ')':
            args.append(self.parse_expr())
            if self.peek() == ',':
                self.eat()
        self.eat(')')
        self.no_struct = saved
        return args

    def parse_postfix(self, e):
        while True:
            p = self.peek()
            if p == '.':
                self.eat()
                name = self.eat()
                if self.peek() == '::':  # turbofish
                    self.eat()
                    self.eat('<')
                    depth = 1
                    while depth:
                        q = self.eat()
                        if q == '<':
                            depth += 1
                        elif q == '>':
                            depth -= 1
                if self.peek() == '(':
                    args = self.parse_args()
                    e = ('mcall', e, name, args)
                else:
                    e = ('field', e, name)
            elif p == '[':
                self.eat()
                saved = self.no_struct
                self.no_struct = 0
                idx = self.parse_expr()
                self.no_struct = saved
                self.eat(']')
                e = ('index', e, idx)
            elif p == '(':
                args = self.parse_args()
                e = ('call', e, args)
            elif p == '?':
                raise Unparsed("? operator")
            else:
                return e

    def parse_block(self):
        self.eat('{')
        saved = self.no_struct
        self.no_struct = 0
        stmts = []
        tail = None
        while self.peek() != '}':
            s = self.parse_stmt()
            if s[0] == 'tail':
                tail = s[1]
                break
            stmts.append(s)
        self.eat('}')
        self.no_struct = saved
        return ('block', stmts, tail)

    def parse_primary(self):
        k, p = self.peekkind(), self.peek()
        if k == 'num':
            self.eat()
            return ('num', p)
        if k == 'str':
            self.eat()
            return ('str', p)
        if p == '(':
            self.eat('(')
            saved = self.no_struct
            self.no_struct = 0
            if self.peek() == ')':
                self.eat(')')
                self.no_struct = saved
                return ('tuple', [])
            e = self.parse_expr()
            if self.peek() == ',':
                items = [e]
                while self.peek() == ',':
                    self.eat()
                    if self.peek() == ')':
                        break
                    items.append(self.parse_expr())
                self.eat(')')
                self.no_struct = saved
                return ('tuple', items)
            self.eat(')')
            self.no_struct = saved
            return ('paren', e)
        if p == '[':
            self.eat('[')
            items = []
            saved = self.no_struct
            self.no_struct = 0
            while self.peek() != ']':
                items.append(self.parse_expr())
                if self.peek() == ',':
                    self.eat()
                elif self.peek() == ';':
                    self.eat()
                    n = self.parse_expr()
                    self.eat(']')
                    self.no_struct = saved
                    return ('repeat', items[0], n)
            self.eat(']')
            self.no_struct = saved
            return ('array', items)
        if p == '{':
            return self.parse_block()
        if p == 'if':
            return self.parse_if()
        if p == 'match':
            self.eat()
            self.no_struct += 1
            scrut = self.parse_expr()
            self.no_struct -= 1
            self.eat('{')
            arms = []
            while self.peek() != '}':
                pat = self.parse_pattern()
                guard = None
                if self.peek() == 'if':
                    self.eat()
                    guard = self.parse_expr()
                self.eat('=>')
                body = self.parse_expr()
                if self.peek() in ('=', '+=', '-=', '*=', '/='):
                    # an assignment as the body of an arm: `Pat => x.f = e,`
                    op = self.eat()
                    body = ('assignexpr', op, body, self.parse_expr())
                if self.peek() == ',':
                    self.eat()
                arms.append((pat, guard, body))
            self.eat('}')
            return ('match', scrut, arms)
        if p == 'move' and self.peek(1) in ('|', '||'):
            self.eat()
            p = self.peek()
        if p == '||':
            self.eat()
            return ('closure', [], self.parse_expr())
        if p == '|':
            # closure with simple parameters `|a, &b, (c, d)|` (patterns, optional `: type` skipped)
            self.eat('|')
            params = []
            while self.peek() != '|':
                params.append(self.parse_pattern1())
                if self.peek() == ':':
                    self.eat(':')
                    self.skip_type()
                if self.peek() == ',':
                    self.eat()
            self.eat('|')
            saved = self.no_struct
            self.no_struct = 0
            body = self.parse_expr()
            self.no_struct = saved
            return ('closure', params, body)
        if p == 'return':
            self.eat()
            if self.peek() in (';', '}'):
                return ('return', None)
            return ('return', self.parse_expr())
        if p in ('continue', 'break'):
            self.eat()
            return (p,)
        if k == 'id':
            path = [self.eat()]
            while self.peek() == '::':
                self.eat()
                if self.peek() == '<':
                    self.eat('<')
                    depth = 1
                    while depth:
                        q = self.eat()
                        if q == '<':
                            depth += 1
                        elif q == '>':
                            depth -= 1
                    continue
                path.append(self.eat())
            if self.peek() == '!' and self.peek(1) in ('(', '[', '{'):
                self.eat('!')
                o = self.peek()
                c = {'(': ')', '[': ']', '{': '}'}[o]
                end = find_matching(self.t, self.i, o, c)
                args = self.t[self.i + 1:end]
                self.i = end + 1
                return ('macro', path[-1], args)
            if self.peek() == '{' and not self.no_struct and (path[-1][0].isupper()):
                # struct literal
                self.eat('{')
                fields = []
                base = None
                while self.peek() != '}':
                    if self.peek() == '..':
                        self.eat()
                        base = self.parse_expr()
                        break
                    f = self.eat()
                    if self.peek() == ':':
                        self.eat(':')
                        fields.append((f, self.parse_expr()))
                    else:
                        fields.append((f, ('path', [f])))
                    if self.peek() == ',':
                        self.eat()
                self.eat('}')
                return ('struct', path, fields, base)
            return ('path', path)
        raise Unparsed("primary at %r (%s)" % (p, ' '.join(x[1] for x in self.t[max(0, self.i - 6):self.i + 6])))

    def parse_if(self):
        self.eat('if')
        if self.peek() == 'let':
            self.eat('let')
            pat = self.parse_pattern()
            self.eat('=')
            self.no_struct += 1
            e = self.parse_expr()
            self.no_struct -= 1
            then = self.parse_block()
            els = None
            if self.peek() == 'else':
                self.eat()
                els = self.parse_if() if self.peek() == 'if' else self.parse_block()
            return ('iflet', pat, e, then, els)
        self.no_struct += 1
        c = self.parse_expr()
        self.no_struct -= 1
        then = self.parse_block()
        els = None
        if self.peek() == 'else':
            self.eat()
            els = self.parse_if() if self.peek() == 'if' else self.parse_block()
        return ('if', c, then, els)

    # ---------------- statements ----------------
    def parse_stmt(self):
        p = self.peek()
        if p == '#':
            # attribute: keep as a statement so callers can see cfg arms
            self.eat('#')
            self.eat('[')
            end = find_matching(self.t, self.i - 1, '[', ']')
            attr = ' '.join(x[1] for x in self.t[self.i:end])
            self.i = end + 1
            inner = self.parse_stmt()
            return ('attr', attr, inner)
        if p == 'let':
            self.eat('let')
            mut = False
            if self.peek() == 'mut':
                self.eat()
                mut = True
            pat = self.parse_pattern()
            ty = None
            if self.peek() == ':':
                self.eat(':')
                ty = self.skip_type()
            init = None
            if self.peek() == '=':
                self.eat('=')
                init = self.parse_expr()
            self.eat(';')
            return ('let', mut, pat, ty, init)
        if p == 'fn' and self.peekkind(1) == 'id':
            # nested function item
            self.eat('fn')
            name = self.eat()
            self.eat('(')
            start = self.i
            end = find_matching(self.t, self.i - 1, '(', ')')
            params = self.t[start:end]
            self.i = end + 1
            while self.peek() != '{':
                self.i += 1
            body = self.parse_block()
            return ('fn', name, params, body)
        if p == 'for':
            self.eat('for')
            pat = self.parse_pattern()
            self.eat('in')
            self.no_struct += 1
            it = self.parse_expr()
            self.no_struct -= 1
            body = self.parse_block()
            return ('for', pat, it, body)
        if p == 'while' and self.peek(1) != 'let':
            self.eat('while')
            self.no_struct += 1
            c = self.parse_expr()
            self.no_struct -= 1
            return ('while', c, self.parse_block())
        if p == 'loop':
            self.eat('loop')
            return ('loop', self.parse_block())
        if p == 'while':
            raise Unparsed("while-let statement")
        e = self.parse_expr()
        q = self.peek()
        if q in ('=', '+=', '-=', '*=', '/='):
            self.eat()
            rhs = self.parse_expr()
            self.eat(';')
            return ('assign', q, e, rhs)
        if q == ';':
            self.eat(';')
            return ('expr', e)
        if q == '}':
            return ('tail', e)
        if e[0] in ('if', 'iflet', 'match', 'block', 'macro'):
            return ('expr', e)
        raise Unparsed("statement end at %r" % q)


def parse_body(tokens, macros=None):
    p = Parser(tokens, macros)
    b = p.parse_block()
    return b


def parse_stmts(tokens, macros=None):
    """Parse a brace-less statement list (macro body)."""
    p = Parser(tokens + [('op', '}')], macros)
    stmts, tail = [], None
    while p.peek() != '}':
        s = p.parse_stmt()
        if s[0] == 'tail':
            tail = s[1]
            break
        stmts.append(s)
    return ('block', stmts, tail)


def parse_expr_tokens(tokens):
    p = Parser(tokens)
    e = p.parse_expr()
    if not p.done():
        raise Unparsed("trailing tokens in expression")
    return e


def params_of(tokens):
    """[(name, type-text)] of a fn parameter token list (self included as ('self', ''))."""
    out = []
    for part in split_commas(tokens):
        names = [t[1] for t in part]
        if 'self' in names and ':' not in names:
            out.append(('self', ''))
            continue
        j = names.index(':')
        nm = [x for x in names[:j] if x not in ('mut', '&')][-1]
        out.append((nm, ' '.join(names[j + 1:])))
    return out
