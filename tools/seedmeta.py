#!/usr/bin/env python3
"""write seeded/<id>/meta.json: usage: seedmeta.py <id> <property> <caught-by comma list> <needs...>"""
import json, os, sys
V = os.path.dirname(os.path.dirname(os.path.abspath(__file__)))
sid, prop, caught = sys.argv[1], sys.argv[2], sys.argv[3]
needs = ' '.join(sys.argv[4:])
d = os.path.join(V, 'seeded', sid)
meta = {
    'id': sid, 'breaks_property': prop, 'needs_to_manifest': needs,
    'origin': 'written by an independent sub-agent that was given only the text of the property and a scratch worktree of /repo (nothing from /verif)',
    'confirmed_by': ['tools/confirm_seed.sh %s  (scratch worktree: unchanged source -> suite baseline 40 ok + 1 known failure, demo passes; patched source -> identical suite lines, demo fails; builds with --cfg meshless_voro_verif)' % sid],
    'checked_with': 'python3 tools/seedtest.py seeded/%s/patch.diff <checks>  (git -C /repo apply; ./check ...; git -C /repo checkout -- .)' % sid,
    'caught_by': [c for c in caught.split(',') if c and c != '-'],
    'files': sorted(os.listdir(d)),
}
json.dump(meta, open(os.path.join(d, 'meta.json'), 'w'), indent=1)
print('wrote', os.path.join(d, 'meta.json'))
