"""Parsing of `tess` / `cells` records (implementation side) and of the exact model output,
plus the tolerances of DESIGN §3.6."""
from fractions import Fraction
from common import hex_to_frac, hex_to_float, frac

F0 = Fraction(0)


class Tok:
    def __init__(self, toks):
        self.t = toks
        self.i = 0

    def next(self):
        v = self.t[self.i]
        self.i += 1
        return v

    def peek(self):
        return self.t[self.i] if self.i < len(self.t) else None

    def expect(self, s):
        v = self.next()
        if v != s:
            raise ValueError("expected %s got %s at %d" % (s, v, self.i))

    def int(self):
        return int(self.next())

    def f(self):
        """float token -> (Fraction or None)"""
        return hex_to_frac(self.next())

    def v3(self):
        return [self.f(), self.f(), self.f()]

    def q(self):
        return frac(self.next())

    def q3(self):
        return [self.q(), self.q(), self.q()]

    def optint(self):
        v = self.next()
        return None if v == '-' else int(v)


class Input:
    pass


def parse_input(toks):
    """`dim periodic anchor(3) width(3) n gens(3n) M mask flags...` -> Input"""
    t = Tok(toks)
    inp = Input()
    inp.dim = t.int()
    inp.periodic = t.next() == '1'
    inp.anchor = t.v3()
    inp.width = t.v3()
    n = t.int()
    inp.gens = [t.v3() for _ in range(n)]
    inp.mask = None
    if t.peek() == 'M':
        t.next()
        m = t.next()
        inp.mask = None if m == '-' else [c == '1' for c in m]
    inp.flags = t.t[t.i:]
    # normalised box (unused axes: anchor -1/2, width 1; generator coordinates 0)
    a = list(inp.anchor)
    w = list(inp.width)
    if inp.dim == 1:
        a[1], w[1] = Fraction(-1, 2), Fraction(1)
    if inp.dim <= 2:
        a[2], w[2] = Fraction(-1, 2), Fraction(1)
    inp.na, inp.nw = a, w
    inp.ngens = [[g[i] if i < inp.dim else F0 for i in range(3)] for g in inp.gens]
    inp.n = n
    return inp


def conditioning(inp):
    """kappa = (one ulp of the largest coordinate) / (smallest distance between two distinct sites,
    periodic images included): the relative tilt of a bisector caused by one-ulp input perturbations."""
    import itertools
    d = inp.dim
    mx = Fraction(0)
    for i in range(d):
        mx = max(mx, abs(inp.na[i]), abs(inp.na[i] + inp.nw[i]))
    shifts = [(0, 0, 0)]
    if inp.periodic:
        r = (-1, 0, 1)
        shifts = [(a, b if d >= 2 else 0, c if d >= 3 else 0) for a in r for b in (r if d >= 2 else (0,)) for c in (r if d >= 3 else (0,))]
    g = inp.ngens
    if len(g) > 40:
        # large inputs: closest pair by a sweep along x in floating point (the result is a float heuristic anyway)
        pts = []
        for i, p in enumerate(g):
            fp = [float(p[k]) for k in range(3)]
            for s in shifts:
                pts.append((fp[0] - s[0] * float(inp.nw[0]), fp[1] - s[1] * float(inp.nw[1]), fp[2] - s[2] * float(inp.nw[2])))
        pts.sort()
        bestf = None
        for i in range(len(pts)):
            a = pts[i]
            for j in range(i + 1, len(pts)):
                b = pts[j]
                dx = b[0] - a[0]
                if bestf is not None and dx * dx >= bestf:
                    break
                dd = dx * dx + (b[1] - a[1]) ** 2 + (b[2] - a[2]) ** 2
                if dd > 0 and (bestf is None or dd < bestf):
                    bestf = dd
        if bestf is None:
            return 0.0
        return float(mx) * 2.0 ** -52 / bestf ** 0.5
    best = None
    for i in range(len(g)):
        for j in range(i, len(g)):
            for s in shifts:
                if i == j and s == (0, 0, 0):
                    continue
                dd = sum((g[i][k] - g[j][k] - s[k] * inp.nw[k]) ** 2 for k in range(3))
                if dd > 0 and (best is None or dd < best):
                    best = dd
    if best is None:
        return 0.0
    return float(mx) * 2.0 ** -52 / float(best) ** 0.5


class Tol:
    """absolute tolerances relative to the box (DESIGN §3.6), widened for ill-conditioned inputs:
    relative tolerance = max(1e-9, 100 * kappa)"""

    def __init__(self, inp):
        w = inp.nw
        self.kappa = conditioning(inp)
        rel = max(1e-9, 100.0 * self.kappa)
        self.rel = rel
        relq = Fraction(rel)
        self.vol = relq * w[0] * w[1] * w[2]
        self.area = relq * max(w[0] * w[1], w[1] * w[2], w[0] * w[2])
        self.pos = relq * max(w[0], w[1], w[2])
        self.unit = Fraction(1, 10**12)
        self.boxvol = w[0] * w[1] * w[2]
        # inputs whose conditioning makes geometric comparison meaningless: only totality / bookkeeping is checked
        self.ill = rel > 1e-4


def shift_triple(shift, inp):
    """float shift vector -> integer triple in units of the width (None if not integral)"""
    if shift is None:
        return None
    out = []
    for i in range(3):
        w = inp.nw[i]
        if shift[i] is None:
            return 'nonfinite'
        k = shift[i] / w
        r = round(k)
        if abs(k - r) > Fraction(1, 10**6):
            return 'nonintegral'
        out.append(int(r))
    return tuple(out)


# ---------------------------------------------------------------- implementation results
class ICell:
    pass


class IFace:
    pass


def parse_opt_v3(t):
    k = t.next()
    if k == 'N':
        return None
    return t.v3()


def parse_tess_impl(res):
    """`X exact OK NC n c.. NF m f.. CONN k ..`  or  `X exact PANIC loc msg`"""
    t = Tok(res)
    t.expect('X')
    ex = t.int()
    out = parse_voronoi_tok(t)
    out['exact'] = ex
    return out


def parse_voronoi_tok(t):
    """`OK NC n c.. NF m f.. CONN k ..` or `PANIC ...` from a token stream"""
    out = {}
    start = t.i
    st = t.next()
    if st == 'PANIC':
        out['panic'] = ' '.join(t.t[t.i:])
        t.i = len(t.t)
        return out
    t.expect('NC')
    n = t.int()
    cells = []
    for _ in range(n):
        t.expect('c')
        c = ICell()
        c.volume = t.f()
        c.centroid = t.v3()
        c.loc = t.v3()
        c.sr = t.f()
        c.off = t.int()
        c.cnt = t.int()
        k = t.int()
        c.nbrs = [t.int() for _ in range(k)]
        cells.append(c)
    t.expect('NF')
    m = t.int()
    faces = []
    for _ in range(m):
        t.expect('f')
        f = IFace()
        f.left = t.int()
        f.right = t.optint()
        f.shift = parse_opt_v3(t)
        f.area = t.f()
        f.centroid = t.v3()
        f.normal = t.v3()
        faces.append(f)
    t.expect('CONN')
    k = t.int()
    out['conn'] = [t.int() for _ in range(k)]
    out['cells'] = cells
    out['faces'] = faces
    if t.i < len(t.t) and t.peek() == 'META':
        t.next()
        out['meta'] = {'anchor': t.v3(), 'width': t.v3(), 'dim': t.int(), 'periodic': t.int()}
    if t.i < len(t.t) and t.peek() == 'ACC':
        t.next()
        nc = t.int()
        fi, fc = [], []
        for _ in range(nc):
            k = t.int()
            fi.append([t.int() for _ in range(k)])
            fc.append(t.int())
        nf = t.int()
        out['acc'] = {'face_indices': fi, 'faces_count': fc, 'pb': [t.next() for _ in range(nf)]}
    out['tokens'] = t.t[start:t.i]
    return out


def parse_model_vor(t):
    """model structure `NC n {off cnt k nbrs} NF m {left right shifted} CONN k ...`"""
    t.expect('NC')
    n = t.int()
    cells = []
    for _ in range(n):
        off, cnt, k = t.int(), t.int(), t.int()
        cells.append((off, cnt, [t.int() for _ in range(k)]))
    t.expect('NF')
    m = t.int()
    faces = []
    for _ in range(m):
        faces.append((t.int(), t.optint(), t.next() == '1'))
    t.expect('CONN')
    k = t.int()
    conn = [t.int() for _ in range(k)]
    return {'cells': cells, 'faces': faces, 'conn': conn}


def impl_structure(v):
    return {'cells': [(c.off, c.cnt, c.nbrs) for c in v['cells']],
            'faces': [(f.left, f.right, f.shift is not None) for f in v['faces']],
            'conn': v['conn']}


def parse_cells_impl(res):
    """`X exact OK NC n {C idx vol cent loc nplanes NF k {F right shift area cent} NV k {loc dual}} SR ...`"""
    t = Tok(res)
    t.expect('X')
    out = {'exact': t.int()}
    st = t.next()
    if st == 'PANIC':
        out['panic'] = ' '.join(t.t[t.i:])
        return out
    t.expect('NC')
    n = t.int()
    cells = []
    for _ in range(n):
        t.expect('C')
        c = ICell()
        c.idx = t.int()
        c.volume = t.f()
        c.centroid = t.v3()
        c.loc = t.v3()
        c.nplanes = t.int()
        t.expect('NF')
        k = t.int()
        c.faces = []
        for _ in range(k):
            t.expect('F')
            f = IFace()
            f.right = t.optint()
            f.shift = parse_opt_v3(t)
            f.area = t.f()
            f.centroid = t.v3()
            c.faces.append(f)
        t.expect('NV')
        k = t.int()
        c.verts = []
        for _ in range(k):
            loc = t.v3()
            dual = (t.int(), t.int(), t.int())
            c.verts.append((loc, dual))
        c.planes = []
        if t.peek() == 'NP':
            t.next()
            k = t.int()
            for _ in range(k):
                n = t.v3()
                pp = t.v3()
                c.planes.append((n, pp))
        cells.append(c)
    t.expect('SR')
    out['sr'] = []
    while t.peek() is not None:
        out['sr'].append(t.f())
    out['cells'] = cells
    return out


# ---------------------------------------------------------------- model results
class MCell:
    pass


class MFace:
    pass


def parse_model(toks):
    """`NC k {C idx vol cs(3) maxR2 consumed nplanes failed brute feasible NF m {F ...} NV v {xyz}} T boxvol`"""
    t = Tok(toks)
    if t.peek() != 'NC':
        return None
    t.next()
    k = t.int()
    cells = []
    for _ in range(k):
        t.expect('C')
        c = MCell()
        c.idx = t.int()
        c.vol = t.q()
        c.csum = t.q3()
        c.maxr2 = t.q()
        c.consumed = t.int()
        c.nplanes = t.int()
        c.failed = t.next()
        c.brute = t.next() == 'true'
        c.feasible = t.next() == 'true'
        c.centroid = [x / (4 * c.vol) for x in c.csum] if c.vol > 0 else [F0, F0, F0]
        t.expect('NF')
        m = t.int()
        c.faces = []
        for _ in range(m):
            t.expect('F')
            f = MFace()
            f.plane = t.int()
            f.right = t.optint()
            s = t.next()
            f.shift = None if s == 'N' else (t.int(), t.int(), t.int())
            f.valid = t.next() == 'true'
            f.areaN = t.q()
            f.NN = t.q()
            f.csum = t.q3()
            f.n = t.q3()
            f.d = t.q()
            f.area2 = f.areaN * f.areaN / f.NN
            f.centroid = [x / (3 * f.areaN) for x in f.csum] if f.areaN > 0 else None
            c.faces.append(f)
        c.planes_all = [(f.n, f.d, f.NN) for f in c.faces]
        t.expect('NV')
        v = t.int()
        c.verts = [t.q3() for _ in range(v)]
        c.m2 = None
        if t.peek() == 'M2':
            t.next()
            c.m2 = [t.q() for _ in range(6)]
        cells.append(c)
    t.expect('T')
    boxvol = t.q()
    return {'cells': cells, 'boxvol': boxvol}


def area_close(impl_area, area2, tol):
    """|impl_area - sqrt(area2)| <= tol, decided exactly"""
    if impl_area is None:
        return False
    lo = impl_area - tol
    hi = impl_area + tol
    if hi < 0:
        return False
    ok_hi = hi * hi >= area2
    ok_lo = lo <= 0 or lo * lo <= area2
    return ok_hi and ok_lo


def area_gt(area2, tol):
    """sqrt(area2) > tol"""
    return area2 > tol * tol


def dist2(a, b):
    return sum((a[i] - b[i]) ** 2 for i in range(3))


def close3(a, b, tol):
    if a is None or b is None or any(x is None for x in a):
        return False
    return all(abs(a[i] - b[i]) <= tol for i in range(3))


def gen_on_wall(inp, i):
    """does generator i lie exactly on a wall of a reflective box (active axes only)?"""
    if inp.periodic:
        return False
    g = inp.ngens[i]
    for ax in range(inp.dim):
        # the upper wall sits at the float sum anchor + width (that is what the boundary planes are built from)
        up = Fraction(float(inp.na[ax]) + float(inp.nw[ax]))
        if g[ax] == inp.na[ax] or g[ax] == inp.na[ax] + inp.nw[ax] or g[ax] == up:
            return True
    return False


def accessor_problems(v):
    """derived accessors of a serialised tessellation: `face_indices` = the slice of the connectivity array, `faces()` yields as
    many faces, `is_periodic` <=> the face carries a shift, `is_boundary` <=> it has no right generator"""
    probs = []
    acc = v.get('acc')
    if not acc:
        return probs
    for i, c in enumerate(v['cells']):
        if i < len(acc['face_indices']):
            if acc['face_indices'][i] != v['conn'][c.off:c.off + c.cnt]:
                probs.append('face_indices of cell %d is %s, its slice of the connectivity array is %s' % (i, acc['face_indices'][i], v['conn'][c.off:c.off + c.cnt]))
            if acc['faces_count'][i] != c.cnt:
                probs.append('faces() of cell %d yields %d faces, face_count is %d' % (i, acc['faces_count'][i], c.cnt))
    for j, f in enumerate(v['faces']):
        if j < len(acc['pb']):
            want = ('1' if f.shift is not None else '0') + ('1' if f.right is None else '0')
            if acc['pb'][j] != want:
                probs.append('face %d (left %s right %s shift %s): is_periodic/is_boundary = %s, expected %s' % (j, f.left, f.right, 'yes' if f.shift is not None else 'no', acc['pb'][j], want))
    return probs
