#!/bin/sh
# usage: tools/confirm_seed.sh <seed id> [worktree]   -- confirms a seeded change in its scratch worktree:
# unchanged source: suite baseline + demo passes; patched source: suite identical + demo fails.
id=$1; wt=${2:-/tmp/seed_$id}
cd $wt || exit 2
export CARGO_NET_OFFLINE=true
demo=$(ls tests/demo_test.rs examples/demo.rs 2>/dev/null | head -1)
run_suite() { mv $demo /tmp/_demo_$id.rs; cargo test --workspace --no-fail-fast --offline 2>&1 | grep -E "^test .* \.\.\. " | sed 's/ *$//' | sort > $1; mv /tmp/_demo_$id.rs $demo; }
# a demonstration that uses the guarded hooks is built with the cfg flag (own target dir)
if grep -q verif_hooks $demo; then DEMOFLAGS="--cfg meshless_voro_verif"; DEMOTD="--target-dir target/verifcfg"; else DEMOFLAGS=""; DEMOTD=""; fi
run_demo() { export RUSTFLAGS="$DEMOFLAGS"; case $demo in tests/*) cargo test --offline $DEMOTD --test demo_test >/dev/null 2>&1;; *) cargo run --offline $DEMOTD --example demo >/dev/null 2>&1;; esac; rc=$?; unset RUSTFLAGS; echo $rc; }
git apply -R seed/patch.diff || { echo "cannot revert patch"; exit 2; }
run_suite /tmp/_suite_before_$id.txt; d0=$(run_demo)
git apply seed/patch.diff
run_suite /tmp/_suite_after_$id.txt; d1=$(run_demo)
RUSTFLAGS="--cfg meshless_voro_verif" cargo build --offline --target-dir target/verifcfg >/dev/null 2>&1; b=$?
echo "seed $id: demo unchanged rc=$d0, demo patched rc=$d1, cfg build rc=$b, suite lines before=$(wc -l < /tmp/_suite_before_$id.txt) pass=$(grep -c ' ok$' /tmp/_suite_before_$id.txt), suite identical: $(cmp -s /tmp/_suite_before_$id.txt /tmp/_suite_after_$id.txt && echo yes || echo NO)"
rm -f /tmp/_suite_before_$id.txt /tmp/_suite_after_$id.txt
