#!/bin/sh
# Build the framework from files on disk only (offline).
set -e
cd "$(dirname "$0")"
export CARGO_NET_OFFLINE=true
python3 tools/extract.py >/dev/null
(cd lean && lake build MVoro driver)
(cd harness && cargo build --offline --no-default-features --features ibig,rayon --target-dir target/ibig_rayon)
(cd harness && cargo build --offline --release --no-default-features --features ibig,rayon --target-dir target/ibig_rayon)
# further feature sets used by C09 (no rayon) and C11 (other big-integer backends)
for f in ibig dashu,rayon malachite,rayon num_bigint,rayon; do
  (cd harness && cargo build --offline --no-default-features --features $f --target-dir target/$(echo $f | tr , _))
done
# the downstream crate of C14 (public API only)
(cd downstream && cargo build --offline --target-dir target) || echo "downstream crate does not build (C14 will report it)"
