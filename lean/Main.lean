/-
Line-protocol driver: reads records `op id family inputs | impl-results` on
stdin, evaluates the executable model (and the translator output `Gen`) on the
inputs, prints `id model-results`.  Imports only import-free modules so that it
can be compiled (`lake build driver`).
-/
import MVoro.Model.Num
import MVoro.Model.InSphere
import MVoro.Gen.InSphere
import MVoro.Model.Oracle
import MVoro.Model.Tess
import MVoro.Model.Grid
import MVoro.Gen.Grid
import MVoro.Gen.Face
import MVoro.Drv.Parse
import MVoro.Drv.Geom
import MVoro.Drv.Clip
import MVoro.Drv.NN
import MVoro.Drv.Aux20
import MVoro.Drv.Faces

open MVoro MVoro.Drv

def pts3 : List Int → List (I3 Int)
  | a :: b :: c :: rest => ⟨a, b, c⟩ :: pts3 rest
  | _ => []

def opInsphere (args : List String) : String :=
  match toInts args with
  | none => "bad-op"
  | some xs =>
    match pts3 xs with
    | [a, b, c, d, v] =>
      let g := Gen.inSphereDet a b c d v
      let r := Ref.inSphereDet a b c d v
      let sg := [Gen.signExtract_ibig g, Gen.signExtract_dashu g, Gen.signExtract_rug g,
                 Gen.signExtract_malachite g, Gen.signExtract_num_bigint g]
      s!"{Int.sign r} {g} {r} {Ref.orient a b c d} " ++ " ".intercalate (sg.map toString)
    | _ => "bad-op"

/-- `dim periodic anchor width n gens…` -/
def parseTessIn (ts : List String) : Option (Oracle.TessIn × List String) :=
  match ts with
  | dim :: per :: rest => do
    let dim ← dim.toNat?
    let (anchor, rest) ← takeV3 rest
    let (width, rest) ← takeV3 rest
    match rest with
    | n :: rest =>
      let n ← n.toNat?
      let (gs, rest) ← takeV3s n rest
      pure ({ dim := dim, periodic := per == "1", anchor := anchor, width := width, gens := gs.toArray }, rest)
    | _ => none
  | _ => none

def parseMask (n : Nat) (ts : List String) : Option (List Bool × List String) :=
  match ts with
  | "M" :: "-" :: rest => some (List.replicate n true, rest)
  | "M" :: m :: rest => some (m.toList.map (· == '1'), rest)
  | _ => none

/-- op `tess`: exact cells of all constructed generators.
flags after the mask: `brute` (also build without early termination), `verts` (list vertices) -/
def opTess (args : List String) : String :=
  match parseTessIn args with
  | none => "bad-op"
  | some (t0, rest) =>
    match parseMask t0.gens.size rest with
    | none => "bad-op"
    | some (mask, rest) =>
      let t := t0.norm
      let brute := rest.contains "brute"
      let verts := rest.contains "verts"
      let m2 := rest.contains "m2"
      let cells := (List.range t.gens.size).filterMap fun i =>
        if mask.getD i false then some (Oracle.cellStr t (Oracle.buildCell t i brute) verts m2) else none
      s!"NC {cells.length} " ++ " ".intercalate cells ++ s!" T {ratStr (Oracle.boxVolume t)}"

/-- op `lowdim` (C08): exact cells of all generators of the first input of the record (what follows it is ignored) -/
def opLowdim (args : List String) : String :=
  match parseTessIn args with
  | none => "bad-op"
  | some (t0, _) =>
    let t := t0.norm
    let cells := (List.range t.gens.size).map fun i => Oracle.cellStr t (Oracle.buildCell t i false) false false
    s!"NC {cells.length} " ++ " ".intercalate cells ++ s!" T {ratStr (Oracle.boxVolume t)}"

/-- `PI k {C idx np {right shifted valid hastet}}` -/
def parsePlaneInfo (ts : List String) : Option (List Tess.CellInfo) :=
  let rec planes : Nat → List String → Option (List Tess.PlaneInfo × List String)
    | 0, ts => some ([], ts)
    | k + 1, r :: s :: v :: h :: ts => do
      let right : Option Nat ← (if r == "-" then some none else r.toNat?.map some)
      let (ps, ts) ← planes k ts
      pure (⟨right, s == "1", v == "1", h == "1"⟩ :: ps, ts)
    | _, _ => none
  let rec cells : Nat → List String → Option (List Tess.CellInfo)
    | 0, _ => some []
    | k + 1, "C" :: idx :: np :: ts => do
      let idx ← idx.toNat?
      let np ← np.toNat?
      let (ps, ts) ← planes np ts
      let cs ← cells k ts
      pure (⟨idx, ps⟩ :: cs)
    | _, _ => none
  match ts with
  | "PI" :: k :: ts => do
    let k ← k.toNat?
    cells k ts
  | _ => none

def optNatStr : Option Nat → String
  | none => "-"
  | some n => toString n

def faceStr (f : Tess.Face) : String := s!"{f.left} {optNatStr f.right} {if f.shifted then 1 else 0}"

def vorStr (v : Tess.Voronoi) : String :=
  let cs := v.cells.map fun c =>
    let nb := Tess.neighbourIds v c
    s!"{c.offset} {c.count} {nb.length} " ++ " ".intercalate (nb.map toString)
  s!"NC {v.cells.length} " ++ " ".intercalate cs ++ s!" NF {v.faces.length} " ++ " ".intercalate (v.faces.map faceStr)
    ++ s!" CONN {v.conn.length} " ++ " ".intercalate (v.conn.map toString)

/-- op `routes`: the bookkeeping model on the plane facts of the constructed cells -/
def opRoutes (args : List String) : String :=
  match parseTessIn args with
  | none => "bad-op"
  | some (t0, rest) =>
    let n := t0.gens.size
    match rest with
    | "M" :: m :: rest =>
      let mask : Option (List Bool) := if m == "-" then none else some (m.toList.map (· == '1'))
      match parsePlaneInfo rest with
      | none => "bad-op"
      | some cells =>
        let cellOf (i : Nat) : Tess.CellInfo := (cells.find? (·.idx == i)).getD ⟨i, []⟩
        let active : List Bool := match mask with | none => List.replicate n true | some m => m
        let d0 := Tess.build (fun _ => 0) n cellOf mask
        let d1 := Tess.build id n cellOf mask
        let v1 := Tess.buildViaIntegrator id n cellOf mask
        let ns := Tess.integratorFacesNonSym n cellOf active
        let sy := Tess.integratorFacesSym n cellOf active
        let zd := Tess.zipData n active (List.range n)
        s!"D0 {vorStr d0} D1 {vorStr d1} V1 {vorStr v1} NS {ns.length} " ++ " ".intercalate (ns.map faceStr)
          ++ s!" SY {sy.length} " ++ " ".intercalate (sy.map faceStr)
          ++ s!" ZD {zd.length} " ++ " ".intercalate (zd.map fun (i, d) => s!"{i} {d}")
    | _ => "bad-op"

/-- op `iloc`: exact rescaled coordinate and grid coordinate per axis with the translated domain constants -/
def opIloc (args : List String) : String :=
  match args with
  | dim :: per :: rest =>
    match dim.toNat?, takeV3 rest with
    | some dim, some (a, rest) =>
      match takeV3 rest with
      | some (w, rest) =>
        match takeV3 rest with
        | some (p, _) =>
          let periodic := per == "1"
          -- the builders normalise the unused axes before the boundary is built
          let (a, w) := Oracle.normalise dim a w
          let t0 := Grid.tripled a.x w.x periodic
          let t1 := Grid.tripled a.y w.y (periodic && dim ≥ 2)
          let t2 := Grid.tripled a.z w.z (periodic && dim ≥ 3)
          let ax (t : Rat × Rat) (axis : Nat) (x : Rat) : String :=
            let g := Grid.gridWidth Gen.gridSharedScale dim t0.2 t1.2 t2.2 axis
            let r := Grid.rescaleExactG Gen.gridPad Gen.gridSpan t.1 t.2 g x
            let m := Grid.mantissa r
            s!"{ratStr r} {m.floor}"
          ax t0 0 p.x ++ " " ++ ax t1 1 p.y ++ " " ++ ax t2 2 p.z
        | none => "bad-op"
      | none => "bad-op"
    | _, _ => "bad-op"
  | _ => "bad-op"

def handle (line : String) : String :=
  let line := line.trimAscii.toString
  let inputPart := (line.splitOn " | ").headD ""
  match inputPart.splitOn " " with
  | op :: id :: _fam :: args =>
    let res := match op with
      | "insphere" => opInsphere args
      | "clip1" => opInsphere args
      | "tess" => opTess args
      | "cells" => opTess args
      | "tets" => opTess args
      | "routes" => opRoutes args
      | "iloc" => opIloc args
      | "geom" => opGeom args
      | "withfaces" => opWithFaces args
      | "knn" => opKnn args
      | "sphere" => opSphere args
      | "nnvisit" => (match parseTessIn args with | some (t0, rest) => opNNVisit t0 rest | none => "bad-op")
      | "clipperm" => opClipperm args
      | "cycle" => opCycle args
      | "lowdim" => opLowdim args
      | "addfar" => "-"
      | "partial" => "-"
      | _ => "unknown-op"
    id ++ " " ++ res
  | _ => "? bad-line"

partial def loop (h : IO.FS.Stream) (out : IO.FS.Stream) : IO Unit := do
  let line ← h.getLine
  if line.isEmpty then return ()
  if line.trimAscii.toString.isEmpty then loop h out else
  out.putStrLn (handle line)
  loop h out

def main : IO Unit := do
  let stdin ← IO.getStdin
  let stdout ← IO.getStdout
  loop stdin stdout
