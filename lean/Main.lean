/-
Line-protocol driver: reads records `op id family inputs | impl-results` on
stdin, evaluates the executable model (and the translator output `Gen`) on the
inputs, prints `id model-results`.  Imports only import-free modules so that it
can be compiled (`lake build driver`).
-/
import MVoro.Model.Num
import MVoro.Model.InSphere
import MVoro.Gen.InSphere

open MVoro

def toInts (ts : List String) : Option (List Int) := ts.mapM String.toInt?

def pts3 : List Int → List (I3 Int)
  | a :: b :: c :: rest => ⟨a, b, c⟩ :: pts3 rest
  | _ => []

def opInsphere (args : List String) : String :=
  match toInts args with
  | none => "bad-op"
  | some xs =>
    match pts3 xs with
    | [a, b, c, d, v] =>
      let g := Gen.inSphereDet a b c d v
      let r := Ref.inSphereDet a b c d v
      let sg := [Gen.signExtract_ibig g, Gen.signExtract_dashu g, Gen.signExtract_rug g,
                 Gen.signExtract_malachite g, Gen.signExtract_num_bigint g]
      s!"{Int.sign r} {g} {r} {Ref.orient a b c d} " ++ " ".intercalate (sg.map toString)
    | _ => "bad-op"

def handle (line : String) : String :=
  let line := line.trimAscii.toString
  let inputPart := (line.splitOn " | ").headD ""
  match inputPart.splitOn " " with
  | op :: id :: _fam :: args =>
    let res := match op with
      | "insphere" => opInsphere args
      | _ => "unknown-op"
    id ++ " " ++ res
  | _ => "? bad-line"

partial def loop (h : IO.FS.Stream) (out : IO.FS.Stream) : IO Unit := do
  let line ← h.getLine
  if line.isEmpty then return ()
  if line.trimAscii.toString.isEmpty then loop h out else
  out.putStrLn (handle line)
  loop h out

def main : IO Unit := do
  let stdin ← IO.getStdin
  let stdout ← IO.getStdout
  loop stdin stdout
