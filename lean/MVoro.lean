import MVoro.Model.Num
import MVoro.Model.InSphere
