/-
Abstract model of the parallel loops of src/voronoi.rs: every loop is an indexed parallel iterator
(`par_iter[_mut]().enumerate().map(f).collect()`, optionally `.zip`, `.filter_map`, `.flatten`) over a
pure per-index function.  Two views of "any schedule":
* slot view: tasks complete in any order, task `i` writes slot `i`;
* split view: rayon splits the index range recursively and concatenates the pieces in order.
Import-free, executable.
-/
namespace MVoro.Sched

/-- tasks complete in the order `order`; task `i` writes `f i` into slot `i` -/
def runOrder {β : Type} (f : Nat → β) (order : List Nat) (slots : List (Option β)) : List (Option β) :=
  order.foldl (fun s i => s.set i (some (f i))) slots

/-- a recursive split of the index range `[lo, lo+len)` -/
inductive Split where
  | seq : Split                       -- process the whole piece sequentially
  | cut : Nat → Split → Split → Split -- split after `k` elements, left and right halves possibly in parallel
deriving Repr, Inhabited

/-- indexed collect over a split tree: pieces are concatenated in index order -/
def collect {β : Type} (f : Nat → β) : Split → Nat → Nat → List β
  | .seq, lo, len => (List.range len).map (fun i => f (lo + i))
  | .cut k l r, lo, len =>
    let k := min k len
    collect f l lo k ++ collect f r (lo + k) (len - k)

/-- `filter_map` + `flatten` after a collect, as the face lists are assembled -/
def flattenCollect {β : Type} (f : Nat → Option (List β)) (s : Split) (n : Nat) : List β :=
  ((collect f s 0 n).filterMap id).flatten

end MVoro.Sched
