/-
Exact model of the signed tetrahedral decomposition without face data
(`DecompositionWithoutFaces`, src/voronoi/convex_cell.rs:131-187) and of the integrals the
library derives from it: volume/centroid (`VolumeCentroidIntegral`), face area/centroid
(`VoronoiFaceIntegral`, `AreaCentroidIntegral`).  Import-free, executable.

Areas are kept sqrt-free: for a face in the plane with (unnormalised) inward normal `N` every
triangle has vector area `nₜ ∥ N`, its signed area is `(nₜ·N)/|N|` (the sign the code takes from
`(gen - v0)·nₜ` equals the sign of `nₜ·N` because the generator is on the inner side), so
`area = areaN / |N|` with `areaN = Σ nₜ·N` rational.
-/
import MVoro.Model.Cell
namespace MVoro.Decomp
open MVoro

structure Tet where
  plane : Nat
  v0 : Q3
  v1 : Q3
  v2 : Q3
deriving Inhabited

/-- `Plane::project_onto` for an exact half space -/
def projOnto (p : HPlane) (x : Q3) : Q3 :=
  x + V3.smul ((p.d - V3.dot p.n x) / V3.dot p.n p.n) p.n

/-- `next.project_onto_intersection(cur, x)`: intersection of both planes with the plane through `x`
perpendicular to both -/
def projOntoInter (self other : HPlane) (x : Q3) : Q3 :=
  let nn := V3.cross self.n other.n
  let perp : HPlane := ⟨nn, V3.dot nn x, none, none⟩
  (Cell.intersect self other perp).getD x

/-- the six tetrahedra of one vertex (`load_vertex` + `next`) -/
def vertexTets (c : Cell) (v : Vtx) : List Tet :=
  let d : Array Nat := #[v.dual.a, v.dual.b, v.dual.c]
  let proj (t : Nat) : Q3 :=
    let i := t / 2
    let cur := c.planes[d[i]!]!
    if t % 2 == 0 then projOnto cur c.loc
    else
      let next := c.planes[d[(i + 1) % 3]!]!
      projOntoInter next cur c.loc
  (List.range 6).map fun t => ⟨d[t / 2]!, proj t, proj ((t + 5) % 6), v.loc⟩

/-- decomposition without faces -/
def tets (c : Cell) : List Tet := c.verts.toList.flatMap (vertexTets c)

/-- `signed_volume_tet(v0, v1, v2, g)` -/
def tetVol (g : Q3) (t : Tet) : Rat :=
  V3.dot (g - t.v0) (V3.cross (t.v1 - t.v0) (t.v2 - t.v0)) / 6

/-- volume and unnormalised centroid sum `Σ vol · (v0+v1+v2+g)` -/
def volCentroid (g : Q3) (ts : List Tet) : Rat × Q3 :=
  ts.foldl (fun (acc : Rat × Q3) t =>
    let v := tetVol g t
    (acc.1 + v, acc.2 + V3.smul v (t.v0 + t.v1 + t.v2 + g))) (0, ⟨0, 0, 0⟩)

def centroidOf (vc : Rat × Q3) : Q3 := if vc.1 > 0 then V3.smul (1 / (4 * vc.1)) vc.2 else ⟨0, 0, 0⟩

/-- second moments `∫ x xᵀ` of a tetrahedron with vertices a b c d and signed volume V:
`V/20 · (Σ pᵢ pᵢᵀ + (Σ pᵢ)(Σ pᵢ)ᵀ)`; returned as (xx, yy, zz, xy, xz, yz) -/
def tetMoment2 (g : Q3) (t : Tet) : Array Rat :=
  let v := tetVol g t
  let ps := [t.v0, t.v1, t.v2, g]
  let s : Q3 := ps.foldl (· + ·) ⟨0, 0, 0⟩
  let m (f h : Q3 → Rat) : Rat := v / 20 * (ps.foldl (fun acc p => acc + f p * h p) 0 + f s * h s)
  #[m (·.x) (·.x), m (·.y) (·.y), m (·.z) (·.z), m (·.x) (·.y), m (·.x) (·.z), m (·.y) (·.z)]

structure FaceAcc where
  plane : Nat
  /-- `Σ nₜ·N` over the triangles of the face (`area · |N|`) -/
  areaN : Rat
  /-- `Σ (nₜ·N)(v0+v1+v2)` -/
  cent : Q3
deriving Inhabited

/-- vector area of the base triangle `½ (v1-v0)×(v2-v0)` -/
def triArea (t : Tet) : Q3 := V3.smul (1/2) (V3.cross (t.v1 - t.v0) (t.v2 - t.v0))

/-- per-plane accumulation of the face integrals, in plane order, only for planes that receive a tetrahedron -/
def faceAccs (c : Cell) (ts : List Tet) : List FaceAcc :=
  let init : Array (Option FaceAcc) := Array.replicate c.planes.size none
  let acc := ts.foldl (fun (acc : Array (Option FaceAcc)) t =>
    let N := c.planes[t.plane]!.n
    let a := V3.dot (triArea t) N
    let cur := (acc[t.plane]!).getD ⟨t.plane, 0, ⟨0, 0, 0⟩⟩
    acc.set! t.plane (some { cur with areaN := cur.areaN + a, cent := cur.cent + V3.smul a (t.v0 + t.v1 + t.v2) })) init
  acc.toList.filterMap id

/-- `Dimensionality::vector_is_valid` -/
def vectorIsValid (dim : Nat) (v : Q3) : Bool :=
  if dim == 1 then v.y == 0 && v.z == 0 else if dim == 2 then v.z == 0 else true

end MVoro.Decomp
