/-
Exact certificate checker for minimal enclosing balls (C20, bounding_sphere.rs).  Import-free.

A ball `(c, r²)` is the minimal enclosing ball of `pts` as soon as it contains every point and its
centre is a convex combination of points lying exactly on its boundary (`checkCert`); soundness is
`MVoro.SphereProofs.checkCert_sound` (Proofs/Aux20).
-/
import MVoro.Model.Num
namespace MVoro.MEB
open MVoro

/-- `supp` = list of `(index into pts, weight λ)` -/
def checkCert (pts : Array Q3) (c : Q3) (r2 : Rat) (supp : List (Nat × Rat)) : Bool :=
  pts.all (fun p => decide (V3.norm2 (p - c) ≤ r2)) &&
  supp.all (fun s => decide (s.1 < pts.size) && decide (0 ≤ s.2) && decide (V3.norm2 (pts[s.1]! - c) = r2)) &&
  decide ((supp.map (·.2)).sum = 1) &&
  decide ((supp.map (fun s => s.2 * (pts[s.1]!).x)).sum = c.x) &&
  decide ((supp.map (fun s => s.2 * (pts[s.1]!).y)).sum = c.y) &&
  decide ((supp.map (fun s => s.2 * (pts[s.1]!).z)).sum = c.z)

end MVoro.MEB
