/-
Loop combinators used by the generated (translated) code: Rust's `for`, `while` and `loop … break` become folds over an
explicit state.  Import-free.  A `panic!` / failed `assert!` is `none` (`LoopStep.panic` inside a loop body).
-/
namespace MVoro

/-- `for i in lo..hi { st = f i st }` -/
def loopRange {σ : Type} (lo hi : Nat) (f : Nat → σ → σ) (s : σ) : σ :=
  (List.range' lo (hi - lo)).foldl (fun s i => f i s) s

/-- `for i in lo..hi { st = f i st? }` where the body may panic -/
def loopRangeOpt {σ : Type} (lo hi : Nat) (f : Nat → σ → Option σ) (s : σ) : Option σ :=
  (List.range' lo (hi - lo)).foldlM (fun s i => f i s) s

/-- what one pass through the body of a `loop` / `while` does -/
inductive LoopStep (σ β : Type) where
  /-- the end of the body is reached (or `continue`): go round again with the new state -/
  | next : σ → LoopStep σ β
  /-- `break` (or a `while` condition that is false) -/
  | done : β → LoopStep σ β
  /-- `panic!`, failed `assert!`, `expect` on `None` -/
  | panic : LoopStep σ β

/-- `loop { body }` run for at most `fuel` passes; `none` = panic, or the fuel ran out -/
def loopFuel {σ β : Type} : Nat → (σ → LoopStep σ β) → σ → Option β
  | 0, _, _ => none
  | fuel + 1, body, s =>
    match body s with
    | .next s' => loopFuel fuel body s'
    | .done b => some b
    | .panic => none

end MVoro
