/-
Reference model of the exact in-sphere predicate (src/geometry.rs,
`in_sphere_test_exact` and its three macros).  Import-free.

The definitions are generic in the scalar so that the same text is the integer
predicate (`α = Int`, what the code computes), and can be instantiated at a
field in the proofs (rational circumcentre).
-/
namespace MVoro

/-- three grid coordinates (`[i64; 3]` in the code, read as integers) -/
structure I3 (α : Type) where
  c0 : α
  c1 : α
  c2 : α
deriving Repr, DecidableEq

/-- result of `big_int!(a, b)`: the difference and its squared norm -/
structure I4 (α : Type) where
  c0 : α
  c1 : α
  c2 : α
  c3 : α
deriving Repr, DecidableEq

namespace Ref
variable {α : Type} [Add α] [Sub α] [Mul α]

/-- `big_int!(a, b)` -/
def bigInt (a b : I3 α) : I4 α :=
  let d0 := a.c0 - b.c0
  let d1 := a.c1 - b.c1
  let d2 := a.c2 - b.c2
  ⟨d0, d1, d2, d0 * d0 + d1 * d1 + d2 * d2⟩

/-- `big_int_det2x2!(a, b, c, d)` = `a*d - b*c` -/
def det2 (a b c d : α) : α := a * d - b * c

/-- `big_int_det3x3!` : rows `(a0 a1 a2) (b0 b1 b2) (c0 c1 c2)`, expansion along the first row -/
def det3 (a0 a1 a2 b0 b1 b2 c0 c1 c2 : α) : α :=
  a0 * det2 b1 b2 c1 c2 - a1 * det2 b0 b2 c0 c2 + a2 * det2 b0 b1 c0 c1

/-- The 4×4 determinant with columns `b-a, c-a, d-a, v-a` (each extended by its
squared norm), developed along the last column exactly as the code does. -/
def inSphereDet (a b c d v : I3 α) : α :=
  let b := bigInt b a
  let c := bigInt c a
  let d := bigInt d a
  let v := bigInt v a
  v.c1 * det3 b.c0 c.c0 d.c0 b.c2 c.c2 d.c2 b.c3 c.c3 d.c3
    - v.c0 * det3 b.c1 c.c1 d.c1 b.c2 c.c2 d.c2 b.c3 c.c3 d.c3
    - v.c2 * det3 b.c0 c.c0 d.c0 b.c1 c.c1 d.c1 b.c3 c.c3 d.c3
    + v.c3 * det3 b.c0 c.c0 d.c0 b.c1 c.c1 d.c1 b.c2 c.c2 d.c2

/-- orientation determinant of the tetrahedron `a b c d`: `det [b-a, c-a, d-a]` (rows) -/
def orient (a b c d : I3 α) : α :=
  let b := bigInt b a
  let c := bigInt c a
  let d := bigInt d a
  det3 b.c0 c.c0 d.c0 b.c1 c.c1 d.c1 b.c2 c.c2 d.c2

end Ref

/-- the value the code returns: the sign of the determinant as -1 / 0 / 1 -/
def Ref.inSphereSign (a b c d v : I3 Int) : Int := Int.sign (Ref.inSphereDet a b c d v)

end MVoro
