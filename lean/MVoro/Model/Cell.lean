/-
Exact (rational) model of the per-cell construction: `SimulationBoundary::cuboid`,
`ConvexCell::init`, `ConvexCell::build`, `clip_by_plane`, `Vertex::from_dual`,
`update_safety_radius` (src/voronoi/convex_cell.rs, boundary.rs).  Import-free, executable.

Differences to the float code, on purpose (this is the *oracle*):
* half spaces keep the unnormalised rational normal `g - q` (the code divides by the float length);
* the clip decision is the exact sign of `n·v - d`; a vertex exactly on the plane is kept
  (the code: float filter, then the in-sphere predicate on the integer grid);
* distances are compared squared.
-/
import MVoro.Model.Num
import MVoro.Model.Clip
namespace MVoro

/-- exact half space `{x | n·x - d ≥ 0}` -/
structure HPlane where
  n : Q3
  d : Rat
  right : Option Nat
  /-- periodic shift in units of the box width (integers -1,0,1 per axis); `none` = no shift -/
  shift : Option (Int × Int × Int)
deriving Repr, Inhabited

structure Vtx where
  dual : Dual
  loc : Q3
  r2 : Rat
deriving Repr, Inhabited

structure Cell where
  idx : Nat
  loc : Q3
  dim : Nat
  planes : Array HPlane
  verts : Array Vtx
  cyc : Cycle
  /-- max of `r2` over the vertices: `safety_radius = 2 * sqrt maxR2` -/
  maxR2 : Rat
  /-- set when the combinatorial clipping got stuck ("No suitable vertex found") or a 3-plane system was singular -/
  failed : Option String := none
deriving Inhabited

namespace Cell

/-- `intersect_planes` (Cramer); `none` when the three normals are dependent -/
def intersect (p0 p1 p2 : HPlane) : Option Q3 :=
  let det := V3.det3 p0.n p1.n p2.n
  if det == 0 then none
  else
    let s := V3.smul p0.d (V3.cross p1.n p2.n) + V3.smul p1.d (V3.cross p2.n p0.n) + V3.smul p2.d (V3.cross p0.n p1.n)
    some (V3.smul (1 / det) s)

/-- squared distance in the active subspace (`Vertex::from_dual`'s `radius2`) -/
def radius2 (dim : Nat) (g v : Q3) : Rat :=
  let dl : Q3 := if dim == 1 then ⟨v.x, 0, 0⟩ else if dim == 2 then ⟨v.x, v.y, 0⟩ else v
  V3.norm2 (g - dl)

def mkVtx (planes : Array HPlane) (g : Q3) (dim : Nat) (i j k : Nat) : Vtx :=
  match intersect planes[i]! planes[j]! planes[k]! with
  | some loc => ⟨⟨i, j, k⟩, loc, radius2 dim g loc⟩
  | none => ⟨⟨i, j, k⟩, ⟨0, 0, 0⟩, -1⟩   -- flagged by `r2 = -1`

def maxR2Of (vs : Array Vtx) : Rat := vs.foldl (fun m v => if v.r2 > m then v.r2 else m) 0

/-- the six wall half spaces of `SimulationBoundary::cuboid` (exact arithmetic) -/
def boxPlanes (anchor width : Q3) (periodic : Bool) (dim : Nat) : Array HPlane :=
  let tr (a w : Rat) (on : Bool) : Rat × Rat := if on then (a - w, 3 * w) else (a, w)
  let (ax, wx) := tr anchor.x width.x periodic
  let (ay, wy) := tr anchor.y width.y (periodic && dim ≥ 2)
  let (az, wz) := tr anchor.z width.z (periodic && dim ≥ 3)
  let wall (n : Q3) (p : Q3) : HPlane := ⟨n, V3.dot n p, none, none⟩
  let lo : Q3 := ⟨ax, ay, az⟩
  let hi : Q3 := ⟨ax + wx, ay + wy, az + wz⟩
  #[wall ⟨1, 0, 0⟩ lo, wall ⟨-1, 0, 0⟩ hi, wall ⟨0, 1, 0⟩ lo, wall ⟨0, -1, 0⟩ hi, wall ⟨0, 0, 1⟩ lo, wall ⟨0, 0, -1⟩ hi]

/-- the 8 initial dual triples of `ConvexCell::init` -/
def initDuals : List (Nat × Nat × Nat) :=
  [(2, 5, 0), (5, 3, 0), (1, 5, 2), (5, 1, 3), (4, 2, 0), (4, 0, 3), (2, 4, 1), (4, 3, 1)]

def init (g : Q3) (idx : Nat) (dim : Nat) (planes : Array HPlane) : Cell :=
  let verts := (initDuals.map fun (i, j, k) => mkVtx planes g dim i j k).toArray
  { idx := idx, loc := g, dim := dim, planes := planes, verts := verts,
    cyc := Cycle.new planes.size, maxR2 := maxR2Of verts }

/-- exact clip value `n·v - d` -/
def side (p : HPlane) (v : Q3) : Rat := V3.dot p.n v - p.d

/-- `clip_by_plane` with exact decisions -/
def clip (c : Cell) (p : HPlane) : Cell :=
  if c.failed.isSome then c else
  let pIdx := c.planes.size
  let planes' := c.planes.push p
  match Clip.clip (fun v : Vtx => v.dual) (fun i j k => mkVtx planes' c.loc c.dim i j k)
      (fun v => decide (side p v.loc < 0)) pIdx c.cyc c.verts with
  | .unchanged => c
  | .stuck => { c with failed := some "stuck" }
  | .clipped cyc verts =>
    let bad := verts.any (fun v => v.r2 < 0)
    { c with planes := planes', cyc := cyc, verts := verts, maxR2 := maxR2Of verts,
             failed := if bad then some "singular" else none }

/-- the bisector half space of `ConvexCell::build`, unnormalised: `n = g - q`, through the midpoint -/
def bisector (g q : Q3) (right : Nat) (shift : Option (Int × Int × Int)) : HPlane :=
  let n := g - q
  ⟨n, V3.dot n (V3.smul (1/2) (g + q)), some right, shift⟩

/-- a candidate neighbour: generator index, shift (in widths), position, squared distance from `g` -/
structure Cand where
  id : Nat
  shift : Option (Int × Int × Int)
  pos : Q3
  d2 : Rat
deriving Inhabited

/-- the loop of `ConvexCell::build` over candidates sorted by distance, with the security radius
termination `safety_radius < dist`  (`4 maxR2 < d2`).  Returns the cell and the number of candidates consumed. -/
def buildLoop : List Cand → Cell → Nat → Cell × Nat
  | [], c, k => (c, k)
  | q :: qs, c, k =>
    if 4 * c.maxR2 < q.d2 then (c, k)
    else buildLoop qs (clip c (bisector c.loc q.pos q.id q.shift)) (k + 1)

/-- the same without early termination (brute force over all candidates) -/
def buildAll (cands : List Cand) (c : Cell) : Cell :=
  cands.foldl (fun c q => clip c (bisector c.loc q.pos q.id q.shift)) c

end Cell
end MVoro
