/-
Exact model of the uniform-grid k-nearest-neighbour search (`Space::{new, add_parts, knn}`,
src/space.rs).  The bounded max-heap is a list kept sorted by squared distance (ascending), of
length ≤ k.  Import-free, executable.
-/
import MVoro.Model.Num
namespace MVoro.Knn
open MVoro

structure GCell where
  loc : Q3
  width : Q3
  parts : List Nat      -- particle ids, in the order of `parts` after the stable sort by cell id
deriving Inhabited

structure Space where
  anchor : Q3
  width : Q3
  cdim : Nat × Nat × Nat
  cwidth : Q3
  cells : Array GCell    -- index i*cy*cz + j*cz + k
  pos : Array Q3
deriving Inhabited

def ceilDiv (a b : Rat) : Nat := (Rat.ceil (a / b)).toNat

/-- `Space::new`.  `perAxis = false` reproduces the pinned tree, which places the grid cells with
`c_width.x` on all three axes; `true` is the componentwise placement. -/
def mkSpace (perAxis : Bool) (anchor width : Q3) (maxCellWidth : Rat) (pos : Array Q3) : Space :=
  let cx := ceilDiv width.x maxCellWidth
  let cy := ceilDiv width.y maxCellWidth
  let cz := ceilDiv width.z maxCellWidth
  let cw : Q3 := ⟨width.x / cx, width.y / cy, width.z / cz⟩
  let cellIdx (p : Q3) : Nat :=
    let i := (Rat.floor ((p.x - anchor.x) / width.x * cx)).toNat
    let j := (Rat.floor ((p.y - anchor.y) / width.y * cy)).toNat
    let k := (Rat.floor ((p.z - anchor.z) / width.z * cz)).toNat
    i * cy * cz + j * cz + k
  let cells := (List.range (cx * cy * cz)).map fun c =>
    let i := c / (cy * cz)
    let j := (c % (cy * cz)) / cz
    let k := c % cz
    let loc : Q3 := if perAxis then ⟨anchor.x + i * cw.x, anchor.y + j * cw.y, anchor.z + k * cw.z⟩
                    else ⟨anchor.x + i * cw.x, anchor.y + j * cw.x, anchor.z + k * cw.x⟩
    ({ loc := loc, width := cw, parts := (List.range pos.size).filter (fun p => cellIdx pos[p]! == c) } : GCell)
  { anchor := anchor, width := width, cdim := (cx, cy, cz), cwidth := cw, cells := cells.toArray, pos := pos }

def clampAxis (x lo w : Rat) : Rat := if x > lo then min x (lo + w) else lo

/-- `Cell::closest_loc` -/
def closestLoc (c : GCell) (p : Q3) : Q3 :=
  ⟨clampAxis p.x c.loc.x c.width.x, clampAxis p.y c.loc.y c.width.y, clampAxis p.z c.loc.z c.width.z⟩

/-- `Cell::min_distance_squared` -/
def minDist2 (c : GCell) (p : Q3) : Rat := V3.norm2 (closestLoc c p - p)

/-- `Cell::min_distance_to_face` -/
def minDistToFace (c : GCell) (p : Q3) : Rat :=
  min (min (min (p.x - c.loc.x) (c.loc.x + c.width.x - p.x)) (min (p.y - c.loc.y) (c.loc.y + c.width.y - p.y)))
      (min (p.z - c.loc.z) (c.loc.z + c.width.z - p.z))

/-- insert into the bounded list (ascending by distance, at most `k` entries): the `BinaryHeap` logic of `knn` -/
def insertK (k : Nat) (h : List (Rat × Nat)) (e : Rat × Nat) : List (Rat × Nat) :=
  if h.length < k then (h ++ [e]).mergeSort (fun a b => a.1 ≤ b.1)
  else match h.getLast? with
    | some m => if e.1 < m.1 then (h.dropLast ++ [e]).mergeSort (fun a b => a.1 ≤ b.1) else h
    | none => h

/-- `get_r_ring`: cell ids at Chebyshev index distance exactly `r` -/
def ring (s : Space) (cid : Nat) (r : Nat) : List Nat :=
  let (cx, cy, cz) := s.cdim
  let i : Int := cid / (cy * cz)
  let j : Int := (cid % (cy * cz)) / cz
  let k : Int := cid % cz
  if r == 0 then [cid] else
  let rr : Int := r
  let ds : List Int := (List.range (2 * r + 1)).map (fun (t : Nat) => Int.ofNat t - rr)
  ds.flatMap fun di => ds.flatMap fun dj => ds.filterMap fun dk =>
    if max (max di.natAbs dj.natAbs) dk.natAbs < r then none
    else
      let (a, b, c) := (i + di, j + dj, k + dk)
      if a < 0 || b < 0 || c < 0 || a ≥ cx || b ≥ cy || c ≥ cz then none
      else some (a.toNat * cy * cz + b.toNat * cz + c.toNat)

/-- scan one cell for particle `pid` -/
def scanCell (s : Space) (k : Nat) (pid : Nat) (h : List (Rat × Nat)) (c : GCell) : List (Rat × Nat) :=
  let x := s.pos[pid]!
  match h.getLast? with
  | some m => if h.length == k && m.1 < minDist2 c x then h else
      c.parts.foldl (fun h q => if q == pid then h else insertK k h (V3.norm2 (x - s.pos[q]!), q)) h
  | none => c.parts.foldl (fun h q => if q == pid then h else insertK k h (V3.norm2 (x - s.pos[q]!), q)) h

/-- the ring loop of `knn` for one particle -/
def knnLoop (s : Space) (k : Nat) (pid cid : Nat) (distToFace : Rat) : Nat → Nat → List (Rat × Nat) → List (Rat × Nat)
  | 0, _, h => h
  | fuel + 1, r, h =>
    let h := (ring s cid r).foldl (fun h c => scanCell s k pid h s.cells[c]!) h
    let minw := min (min s.cwidth.x s.cwidth.y) s.cwidth.z
    let d := distToFace + r * minw
    match h.getLast? with
    | some m => if h.length == k && d * d > m.1 then h else knnLoop s k pid cid distToFace fuel (r + 1) h
    | none => knnLoop s k pid cid distToFace fuel (r + 1) h

def cellOf (s : Space) (pid : Nat) : Nat :=
  ((List.range s.cells.size).find? (fun c => s.cells[c]!.parts.contains pid)).getD 0

/-- `knn(k)`: for every particle the ids of its k nearest other particles in increasing distance -/
def knn (s : Space) (k : Nat) : List (List (Rat × Nat)) :=
  (List.range s.pos.size).map fun pid =>
    if k == 0 then [] else
    let cid := cellOf s pid
    let (cx, cy, cz) := s.cdim
    knnLoop s k pid cid (minDistToFace s.cells[cid]! s.pos[pid]!) (cx + cy + cz + 2) 0 []

/-- decidable form of "the point lies in the box `[loc, loc + width]` of the cell" -/
def inBoxB (c : GCell) (p : Q3) : Bool :=
  decide (c.loc.x ≤ p.x) && decide (p.x ≤ c.loc.x + c.width.x) && decide (c.loc.y ≤ p.y) && decide (p.y ≤ c.loc.y + c.width.y) &&
  decide (c.loc.z ≤ p.z) && decide (p.z ≤ c.loc.z + c.width.z)

/-- run-time certificate of a grid: cell widths are non-negative, every particle registered in a cell lies in the box of
that cell, and the cells hold every particle exactly once -/
def gridOK (s : Space) : Bool :=
  s.cells.toList.all (fun c => decide (0 ≤ c.width.x) && decide (0 ≤ c.width.y) && decide (0 ≤ c.width.z) &&
    c.parts.all (fun q => inBoxB c s.pos[q]!)) &&
  ((s.cells.toList.flatMap (·.parts)).mergeSort (· ≤ ·) == List.range s.pos.size)

/-- brute force specification -/
def knnSpec (pos : Array Q3) (k : Nat) : List (List Rat) :=
  (List.range pos.size).map fun pid =>
    (((List.range pos.size).filter (· != pid)).map (fun q => V3.norm2 (pos[pid]! - pos[q]!))).mergeSort (· ≤ ·) |>.take k

end MVoro.Knn
