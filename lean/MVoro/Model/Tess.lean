/-
Model of the tessellation bookkeeping (src/voronoi.rs, src/voronoi/voronoi_cell.rs,
the `_sym` filter of src/voronoi/convex_cell.rs): which faces a cell stores, flattening,
`finalize` (cell -> face index), `face_indices`, `neighbour_ids`, the integrator routes.
Geometry is abstracted: a constructed cell is the list of its clipping planes with the
facts the bookkeeping looks at.  Import-free, executable.
-/
namespace MVoro.Tess

/-- what the bookkeeping sees of one clipping plane of a `ConvexCell` -/
structure PlaneInfo where
  /-- `right_idx` -/
  right : Option Nat
  /-- `shift.is_some()` -/
  shifted : Bool
  /-- `dimensionality.vector_is_valid(normal)` -/
  valid : Bool
  /-- the decomposition yields at least one tetrahedron for this plane (some vertex lies on it) -/
  hasTet : Bool
deriving Repr, DecidableEq, Inhabited

/-- a constructed `ConvexCell`, as far as bookkeeping is concerned -/
structure CellInfo where
  idx : Nat
  planes : List PlaneInfo
deriving Repr, DecidableEq, Inhabited

/-- a stored face / a `FaceIntegrator` header; `plane` remembers which plane of `left` it came from -/
structure Face where
  left : Nat
  right : Option Nat
  shifted : Bool
  plane : Nat
deriving Repr, DecidableEq, Inhabited

/-- `mask.map_or(false, |mask| !mask[r])` -/
def maskedOut (mask : Option (List Bool)) (r : Nat) : Bool :=
  match mask with
  | none => false
  | some m => !(m.getD r true)

/-- `should_construct_face` of `VoronoiCell::from_convex_cell` -/
def shouldConstruct (idx : Nat) (mask : Option (List Bool)) (p : PlaneInfo) : Bool :=
  p.valid && (match p.right, p.shifted with
    | some r, false => decide (r > idx) || maskedOut mask r
    | _, _ => true)

def enumFrom {α} : Nat → List α → List (Nat × α)
  | _, [] => []
  | n, x :: xs => (n, x) :: enumFrom (n + 1) xs

/-- faces pushed by `from_convex_cell` (plane order) -/
def cellFaces (mask : Option (List Bool)) (c : CellInfo) : List Face :=
  (enumFrom 0 c.planes).filterMap fun (k, p) =>
    if p.hasTet && shouldConstruct c.idx mask p then some ⟨c.idx, p.right, p.shifted, k⟩ else none

/-- `compute_face_integrals` of one cell (non symmetric): every valid plane that has a tetrahedron -/
def cellFacesNonSym (c : CellInfo) : List Face :=
  (enumFrom 0 c.planes).filterMap fun (k, p) =>
    if p.hasTet && p.valid then some ⟨c.idx, p.right, p.shifted, k⟩ else none

/-- the skip rule of `compute_face_integrals_sym` -/
def symSkip (idx : Nat) (active : List Bool) (f : Face) : Bool :=
  match f.right, f.shifted with
  | some r, false => decide (r < idx) && active.getD r false
  | _, _ => false

/-- `compute_face_integrals_sym` of one cell -/
def cellFacesSym (active : List Bool) (c : CellInfo) : List Face :=
  (enumFrom 0 c.planes).filterMap fun (k, p) =>
    let f : Face := ⟨c.idx, p.right, p.shifted, k⟩
    if p.hasTet && p.valid && !(symSkip c.idx active f) then some f else none

/-- is generator `i` constructed under `mask`? (`mask.map_or(true, |m| m[i])`) -/
def isActive (mask : Option (List Bool)) (i : Nat) : Bool :=
  match mask with
  | none => true
  | some m => m.getD i false

/-- per-cell records of the compact tessellation -/
structure VCell where
  /-- stored `idx` (0 for `VoronoiCell::default()`) -/
  idx : Nat
  constructed : Bool
  offset : Nat
  count : Nat
deriving Repr, DecidableEq, Inhabited

structure Voronoi where
  cells : List VCell
  faces : List Face
  conn : List Nat
deriving Repr, DecidableEq, Inhabited

/-- `finalize`: per-cell lists of face indices. `links f` = cells a face is linked to. -/
def links (f : Face) : List Nat :=
  match f.right, f.shifted with
  | some r, false => [f.left, r]
  | _, _ => [f.left]

def pushAt (acc : List (List Nat)) (c : Nat) (i : Nat) : List (List Nat) :=
  acc.modify c (· ++ [i])

/-- the loop of `finalize` over the faces -/
def connLists (n : Nat) (faces : List Face) : List (List Nat) :=
  (enumFrom 0 faces).foldl (fun acc (i, f) => (links f).foldl (fun a c => pushAt a c i) acc) (List.replicate n [])

def offsets : Nat → List (List Nat) → List (Nat × Nat)
  | _, [] => []
  | off, l :: ls => (off, l.length) :: offsets (off + l.length) ls

/-- `Voronoi::finalize` -/
def finalize (cells : List (Nat × Bool)) (faces : List Face) : Voronoi :=
  let cl := connLists cells.length faces
  let offs := offsets 0 cl
  { cells := (cells.zip offs).map (fun ((idx, con), (o, k)) => ⟨idx, con, o, k⟩)
    faces := faces
    conn := cl.flatten }

/-- `unconstructedIdx i` is the `idx` field an unconstructed cell at position `i` carries:
`VoronoiCell::default()` gives 0 on the pinned tree; after the C12 repair it is `i`.  The
correspondence check reports which one the implementation shows. -/
def build (unconstructedIdx : Nat → Nat) (n : Nat) (cellOf : Nat → CellInfo) (mask : Option (List Bool)) : Voronoi :=
  let idxs := List.range n
  let cells := idxs.map fun i => if isActive mask i then ((cellOf i).idx, true) else (unconstructedIdx i, false)
  let faces := (idxs.map fun i => if isActive mask i then cellFaces mask (cellOf i) else []).flatten
  finalize cells faces

/-- `From<&VoronoiIntegrator>`: the integrator keeps `cell_is_active = mask or all-true` and passes it as `Some` -/
def buildViaIntegrator (unconstructedIdx : Nat → Nat) (n : Nat) (cellOf : Nat → CellInfo) (mask : Option (List Bool)) : Voronoi :=
  let active : List Bool := match mask with | none => List.replicate n true | some m => m
  let idxs := List.range n
  let cells := idxs.map fun i => if active.getD i false then ((cellOf i).idx, true) else (unconstructedIdx i, false)
  let faces := (idxs.map fun i => if active.getD i false then cellFaces (some active) (cellOf i) else []).flatten
  finalize cells faces

/-- `face_indices` -/
def faceIndices (v : Voronoi) (c : VCell) : List Nat := (v.conn.drop c.offset).take c.count

/-- `neighbour_ids` -/
def neighbourIds (v : Voronoi) (c : VCell) : List Nat :=
  (faceIndices v c).filterMap fun i =>
    match v.faces[i]? with
    | none => none
    | some f =>
      if f.shifted || f.right.isNone then none
      else some (if f.left == c.idx then f.right.getD 0 else f.left)

/-- `VoronoiIntegrator::compute_face_integrals` (headers only) -/
def integratorFacesNonSym (n : Nat) (cellOf : Nat → CellInfo) (active : List Bool) : List Face :=
  ((List.range n).map fun i => if active.getD i false then cellFacesNonSym (cellOf i) else []).flatten

def integratorFacesSym (n : Nat) (cellOf : Nat → CellInfo) (active : List Bool) : List Face :=
  ((List.range n).map fun i => if active.getD i false then cellFacesSym active (cellOf i) else []).flatten

/-- `compute_cell_integrals_with_data`: `cells.zip(data).filter_map(...)`: which datum goes to which cell -/
def zipData {D} (n : Nat) (active : List Bool) (data : List D) : List (Nat × D) :=
  ((List.range n).zip data).filterMap fun (i, d) => if active.getD i false then some (i, d) else none

end MVoro.Tess
