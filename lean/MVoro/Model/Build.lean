/-
Reference definitions for the per-cell construction steps that the translator regenerates from the source on every
run (second generation of fragments, `tools/extract2.py`): dimensionality handling (`Generator::new`,
`Dimensionality::vector_is_valid`, the axis normalisation of both builders, the active-subspace radius of
`Vertex::from_dual`, the safety radius), the body of the clipping loop of `ConvexCell::build` (neighbour position,
termination test, bisector plane), `HalfSpace::right_loc`, the decision taken for one vertex in `clip_by_plane`,
the keys of the periodic best-first search (`wrapping_distance_2` for leaves and envelopes, reported shift), and the
`collect` / `finalize` steps of the built-in integrals.  Generic in the scalar, import-free.
-/
import MVoro.Model.Geom
namespace MVoro

/-- `Dimensionality` -/
inductive Dim where
  | OneD | TwoD | ThreeD
deriving DecidableEq, Repr, Inhabited

def Dim.toNat : Dim → Nat
  | .OneD => 1 | .TwoD => 2 | .ThreeD => 3

def Dim.fromNat (n : Nat) : Dim := if n == 1 then .OneD else if n == 2 then .TwoD else .ThreeD

/-- the part of a `ConvexCell` the clipping loop reads -/
structure CellRec (α : Type) where
  loc : V3 α
  safety_radius : α

/-- an axis-aligned box (`AABB<[f64; 3]>`) -/
structure Box3 (α : Type) where
  lower : V3 α
  upper : V3 α

/-- accumulator of `VolumeCentroidIntegral` -/
structure VolAcc (α : Type) where
  volume : α
  centroid : V3 α
/-- accumulator of `VolumeIntegral` -/
structure VolOnly (α : Type) where
  volume : α
/-- accumulator of `AreaCentroidIntegral` -/
structure FaceAcc (α : Type) where
  area : α
  centroid : V3 α
/-- accumulator of `AreaIntegral` -/
structure AreaOnly (α : Type) where
  area : α
/-- accumulator of `VoronoiFaceIntegral` (the stored normal is set by `init` and never changed) -/
structure FaceNAcc (α : Type) where
  area : α
  centroid : V3 α
  normal : V3 α

namespace Scalar
variable {α : Type} [Scalar α]
/-- `f64::max` on non-NaN arguments -/
def max (a b : α) : α := if Scalar.le a b then b else a
/-- `f64::min` on non-NaN arguments -/
def min (a b : α) : α := if Scalar.le a b then a else b
/-- `a == b` for floats, as the translator writes it -/
def eqb (a b : α) : Bool := Scalar.le a b && Scalar.le b a
end Scalar

section
variable {α : Type} [Add α] [Sub α] [Mul α] [Div α] [Neg α] [NatCast α] [Scalar α]

namespace Ref

/-- projection of a position onto the active subspace: `Generator::new`, and `d_loc` of `Vertex::from_dual` -/
def activeLoc (loc : V3 α) (d : Dim) : V3 α :=
  match d with
  | .OneD => ⟨loc.x, N α 0, N α 0⟩
  | .TwoD => ⟨loc.x, loc.y, N α 0⟩
  | .ThreeD => loc

/-- `Dimensionality::vector_is_valid` -/
def vectorIsValid (d : Dim) (v : V3 α) : Bool :=
  match d with
  | .OneD => Scalar.eqb v.y (N α 0) && Scalar.eqb v.z (N α 0)
  | .TwoD => Scalar.eqb v.z (N α 0)
  | .ThreeD => true

/-- the axis normalisation block of `Voronoi::build_internal` and of `VoronoiIntegrator::build` -/
def normalise (anchor width : V3 α) (d : Dim) : V3 α × V3 α :=
  let h : α := -((N α 1) / (N α 2))
  match d with
  | .OneD => (⟨anchor.x, h, h⟩, ⟨width.x, N α 1, N α 1⟩)
  | .TwoD => (⟨anchor.x, anchor.y, h⟩, ⟨width.x, width.y, N α 1⟩)
  | .ThreeD => (anchor, width)

/-- `Vertex::from_dual`: position, squared distance from the generator in the active subspace -/
def vertexFromDual (pi pj pk : Plane α) (genLoc : V3 α) (d : Dim) : V3 α × α :=
  let loc := Ref.intersectPlanes pi pj pk
  (loc, V3.distance2 genLoc (activeLoc loc d))

/-- `update_safety_radius` -/
def safetyRadiusOfMax (maxDist2 : α) : α := (N α 2) * Scalar.sqrt maxDist2

/-- position of a neighbour candidate: generator plus reported shift -/
def ngbLoc (genLoc : V3 α) (shift : Option (V3 α)) : V3 α :=
  match shift with
  | some s => genLoc + s
  | none => genLoc

/-- one round of the clipping loop of `ConvexCell::build`: `none` = the security radius test ends the loop,
`some (n, p)` = clip with the plane through `p` with unit normal `n` -/
def buildStep (cell : CellRec α) (genLoc : V3 α) (shift : Option (V3 α)) : Option (V3 α × V3 α) :=
  let q := ngbLoc genLoc shift
  let dx := cell.loc - q
  let dist := V3.length dx
  if Scalar.lt cell.safety_radius dist then none
  else some (V3.divs dx dist, V3.smul ((N α 1) / (N α 2)) (cell.loc + q))

/-- `HalfSpace::right_loc`: the point on the other side of a clipping plane — the neighbour (plus shift), or the mirror
image of the generator through a wall -/
def rightLoc (h : HalfSpaceM α) (rightGen : Option (V3 α)) (shift : Option (V3 α)) (leftLoc : V3 α) : V3 α :=
  match rightGen with
  | some g => ngbLoc g shift
  | none => V3.smul (N α 2) (Ref.projectOnto h.plane leftLoc) - leftLoc

/-- the decision `clip_by_plane` takes for one vertex: `filter` is the result of `HalfSpace::clip`, `exact` the result of
the exact predicate (only consulted on a filter tie); `true` = the vertex is removed -/
def clipRemoved (filter exact : α) : Bool :=
  let clip := if Scalar.eqb filter (N α 0) then exact else filter
  Scalar.lt clip (N α 0)

/-- `Generator::wrapping_distance_2` -/
def wrapPointDist2 (loc point shift : V3 α) : α :=
  V3.norm2 (point + shift - loc)

/-- `clamp` of rtree_nn.rs -/
def clamp (x lo hi : α) : α := Scalar.min (Scalar.max x lo) hi

/-- `AABB::wrapping_distance_2` -/
def wrapEnvDist2 (b : Box3 α) (point shift : V3 α) : α :=
  let d (x s lo hi : α) : α := clamp (x + s) lo hi - x - s
  let dx := d point.x shift.x b.lower.x b.upper.x
  let dy := d point.y shift.y b.lower.y b.upper.y
  let dz := d point.z shift.z b.lower.z b.upper.z
  dx * dx + dy * dy + dz * dz

/-- the shift `wrapping_nn_iter` reports for a query shift -/
def reportedShift (shift : V3 α) : Option (V3 α) :=
  if Scalar.eqb shift.x (N α 0) && Scalar.eqb shift.y (N α 0) && Scalar.eqb shift.z (N α 0) then none
  else some (-shift)

/-- `VolumeCentroidIntegral::collect` -/
def volCollect (acc : VolAcc α) (v0 v1 v2 gen : V3 α) : VolAcc α :=
  let vol := Ref.signedVolumeTet v0 v1 v2 gen
  ⟨acc.volume + vol, acc.centroid + V3.smul vol (v0 + v1 + v2 + gen)⟩

/-- `VolumeCentroidIntegral::finalize`: centroid = accumulated first moment / (4 · volume), `0` for a non-positive volume -/
def volFinalize (acc : VolAcc α) : VolAcc α :=
  let k := if Scalar.lt (N α 0) acc.volume then ((N α 1) / (N α 4)) / acc.volume else N α 0
  ⟨acc.volume, V3.smul k acc.centroid⟩

/-- `AreaCentroidIntegral::collect` and `VoronoiFaceIntegral::collect`: (area, first moment) -/
def faceCollect (area : α) (centroid : V3 α) (v0 v1 v2 gen : V3 α) : α × V3 α :=
  let a := Ref.signedAreaTri v0 v1 v2 gen
  (area + a, centroid + V3.smul a (v0 + v1 + v2))

/-- `AreaCentroidIntegral::finalize` and `VoronoiFaceIntegral::finalize`: the normalisation factor of the centroid -/
def faceNorm (area : α) : α :=
  if Scalar.lt (N α 0) area then (N α 1) / ((N α 3) * area) else N α 0

end Ref
end
end MVoro
