/-
Numeric basics of the executable model: exact decoding of IEEE-754 doubles to
`Rat`, 3-vectors over an arbitrary scalar, small determinants.  Import-free.
-/
namespace MVoro

/-- exact value of a finite double given by its bit pattern; `none` for inf / nan -/
def bitsToRat? (b : UInt64) : Option Rat :=
  let sign : Bool := (b >>> 63) != 0
  let e : Nat := ((b >>> 52) &&& 0x7FF).toNat
  let m : Nat := (b &&& 0xFFFFFFFFFFFFF).toNat
  if e == 0x7FF then none
  else
    let mag : Rat :=
      if e == 0 then (m : Rat) / ((2 : Rat) ^ 1074)
      else if e ≥ 1075 then ((m + 2 ^ 52 : Nat) : Rat) * ((2 : Rat) ^ (e - 1075))
      else ((m + 2 ^ 52 : Nat) : Rat) / ((2 : Rat) ^ (1075 - e))
    some (if sign then -mag else mag)

def bitsToRat (b : UInt64) : Rat := (bitsToRat? b).getD 0

def hexDigit? (c : Char) : Option Nat :=
  if '0' ≤ c ∧ c ≤ '9' then some (c.toNat - '0'.toNat)
  else if 'a' ≤ c ∧ c ≤ 'f' then some (c.toNat - 'a'.toNat + 10)
  else if 'A' ≤ c ∧ c ≤ 'F' then some (c.toNat - 'A'.toNat + 10)
  else none

def parseHex? (s : String) : Option Nat :=
  if s.isEmpty then none else
  s.foldl (fun acc c => match acc, hexDigit? c with
    | some a, some d => some (a * 16 + d)
    | _, _ => none) (some 0)

/-- a float token (16 hex digits) as exact rational; non-finite -> none -/
def parseF? (s : String) : Option Rat := do
  let n ← parseHex? s
  bitsToRat? (UInt64.ofNat n)

/-- 3-vector -/
structure V3 (α : Type) where
  x : α
  y : α
  z : α
deriving Repr, DecidableEq, Inhabited

namespace V3
variable {α : Type}

def add [Add α] (a b : V3 α) : V3 α := ⟨a.x + b.x, a.y + b.y, a.z + b.z⟩
def sub [Sub α] (a b : V3 α) : V3 α := ⟨a.x - b.x, a.y - b.y, a.z - b.z⟩
def neg [Neg α] (a : V3 α) : V3 α := ⟨-a.x, -a.y, -a.z⟩
def smul [Mul α] (k : α) (a : V3 α) : V3 α := ⟨k * a.x, k * a.y, k * a.z⟩
def dot [Add α] [Mul α] (a b : V3 α) : α := a.x * b.x + a.y * b.y + a.z * b.z
def cross [Sub α] [Mul α] (a b : V3 α) : V3 α :=
  ⟨a.y * b.z - b.y * a.z, a.z * b.x - b.z * a.x, a.x * b.y - b.x * a.y⟩
def norm2 [Add α] [Mul α] (a : V3 α) : α := dot a a
/-- determinant of the matrix with columns `a b c` -/
def det3 [Add α] [Sub α] [Mul α] (a b c : V3 α) : α := dot a (cross b c)

instance [Add α] : Add (V3 α) := ⟨add⟩
instance [Sub α] : Sub (V3 α) := ⟨sub⟩
instance [Neg α] : Neg (V3 α) := ⟨neg⟩

def get (a : V3 α) (i : Nat) : α := if i == 0 then a.x else if i == 1 then a.y else a.z
def set (a : V3 α) (i : Nat) (v : α) : V3 α :=
  if i == 0 then { a with x := v } else if i == 1 then { a with y := v } else { a with z := v }

end V3

abbrev Q3 := V3 Rat

def ratStr (r : Rat) : String :=
  if r.den == 1 then toString r.num else toString r.num ++ "/" ++ toString r.den

def q3Str (v : Q3) : String := ratStr v.x ++ " " ++ ratStr v.y ++ " " ++ ratStr v.z

end MVoro
