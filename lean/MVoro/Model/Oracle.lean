/-
Exact tessellation oracle: input handling of `Voronoi::build*` / `VoronoiIntegrator::build`
(axis normalisation, generator projection, candidate enumeration in order of distance —
the *specification* of what `nn_iter` / `wrapping_nn_iter` deliver) around the exact cell model.
Import-free, executable.
-/
import MVoro.Model.Cell
import MVoro.Model.Decomp
namespace MVoro.Oracle
open MVoro

structure TessIn where
  dim : Nat
  periodic : Bool
  anchor : Q3
  width : Q3
  gens : Array Q3
deriving Inhabited

/-- the normalisation block of `build_internal` / `VoronoiIntegrator::build` -/
def normalise (dim : Nat) (anchor width : Q3) : Q3 × Q3 :=
  let (a, w) := if dim == 1 then ({ anchor with y := -1/2 }, { width with y := 1 }) else (anchor, width)
  if dim == 1 || dim == 2 then ({ a with z := -1/2 }, { w with z := 1 }) else (a, w)

/-- `Generator::new` -/
def projectGen (dim : Nat) (g : Q3) : Q3 :=
  if dim == 1 then ⟨g.x, 0, 0⟩ else if dim == 2 then ⟨g.x, g.y, 0⟩ else g

def TessIn.norm (t : TessIn) : TessIn :=
  let (a, w) := normalise t.dim t.anchor t.width
  { t with anchor := a, width := w, gens := t.gens.map (projectGen t.dim) }

/-- shifts enumerated by `RTreeWrappingNearestNeighbourIter::new` -/
def shifts (dim : Nat) : List (Int × Int × Int) :=
  let r : List Int := [-1, 0, 1]
  let js : List Int := if dim ≥ 2 then r else [0]
  let ks : List Int := if dim ≥ 3 then r else [0]
  r.flatMap fun i => js.flatMap fun j => ks.map fun k => (i, j, k)

/-- all candidates of generator `i` (itself excluded), sorted by exact squared distance.
Periodic: every generator under every shift; the *reported* shift is minus the query shift, i.e. the
candidate position is `q + s·w` for the reported `s`. -/
def candidates (t : TessIn) (i : Nat) : List Cell.Cand :=
  let g := t.gens[i]!
  let all : List Cell.Cand :=
    if t.periodic then
      (List.range t.gens.size).flatMap fun j =>
        (shifts t.dim).filterMap fun (s : Int × Int × Int) =>
          if j == i && s == (0, 0, 0) then none
          else
            let q := t.gens[j]!
            let pos : Q3 := ⟨q.x + s.1 * t.width.x, q.y + s.2.1 * t.width.y, q.z + s.2.2 * t.width.z⟩
            some ⟨j, if s == (0, 0, 0) then none else some s, pos, V3.norm2 (g - pos)⟩
    else
      (List.range t.gens.size).filterMap fun j =>
        if j == i then none else
          let q := t.gens[j]!
          some ⟨j, none, q, V3.norm2 (g - q)⟩
  all.mergeSort (fun a b => a.d2 ≤ b.d2)

structure CellOut where
  cell : Cell
  consumed : Nat
  vol : Rat
  centSum : Q3
  faces : List Decomp.FaceAcc
  /-- the cell built without early termination has the same volume and vertex count -/
  bruteSame : Bool
  /-- every vertex satisfies every candidate half space -/
  feasible : Bool

/-- `t` must already be normalised -/
def buildCell (t : TessIn) (i : Nat) (brute : Bool) : CellOut :=
  let g := t.gens[i]!
  let planes := Cell.boxPlanes t.anchor t.width t.periodic t.dim
  let c0 := Cell.init g i t.dim planes
  let cands := candidates t i
  let (c, k) := Cell.buildLoop cands c0 0
  let ts := Decomp.tets c
  let vc := Decomp.volCentroid g ts
  let faces := Decomp.faceAccs c ts
  let feasible := c.verts.all fun v => cands.all fun q => Cell.side (Cell.bisector g q.pos q.id q.shift) v.loc ≥ 0
  let bruteSame :=
    if brute then
      let cb := Cell.buildAll cands c0
      let vb := Decomp.volCentroid g (Decomp.tets cb)
      vb.1 == vc.1 && vb.2 == vc.2 && cb.failed.isNone
    else true
  ⟨c, k, vc.1, vc.2, faces, bruteSame, feasible⟩

def boxVolume (t : TessIn) : Rat := t.width.x * t.width.y * t.width.z

def shiftStr : Option (Int × Int × Int) → String
  | none => "N"
  | some (a, b, c) => s!"S {a} {b} {c}"

def optNat : Option Nat → String
  | none => "-"
  | some n => toString n

/-- one cell as tokens:
`C idx vol cSum(3) maxR2 consumed nplanes failed bruteSame feasible  NF {F plane right shift valid areaN NN centSum(3) n(3) d}  NV {x y z}` -/
def cellStr (t : TessIn) (o : CellOut) (withVerts : Bool) (withM2 : Bool := false) : String :=
  let c := o.cell
  let hdr := s!"C {c.idx} {ratStr o.vol} {q3Str o.centSum} {ratStr c.maxR2} {o.consumed} {c.planes.size} {c.failed.getD "ok"} {o.bruteSame} {o.feasible}"
  let fs := o.faces.map fun f =>
    let p := c.planes[f.plane]!
    s!"F {f.plane} {optNat p.right} {shiftStr p.shift} {Decomp.vectorIsValid t.dim p.n} {ratStr f.areaN} {ratStr (V3.norm2 p.n)} {q3Str f.cent} {q3Str p.n} {ratStr p.d}"
  let vs := if withVerts then c.verts.toList.map (fun v => q3Str v.loc) else []
  let m2 :=
    if withM2 then
      let z : Array Rat := #[0, 0, 0, 0, 0, 0]
      let acc := (Decomp.tets c).foldl (fun (a : Array Rat) tt => (a.zip (Decomp.tetMoment2 c.loc tt)).map (fun (x, y) => x + y)) z
      " M2 " ++ " ".intercalate (acc.toList.map ratStr)
    else ""
  hdr ++ s!" NF {fs.length} " ++ " ".intercalate fs ++ s!" NV {vs.length} " ++ " ".intercalate vs ++ m2

end MVoro.Oracle
