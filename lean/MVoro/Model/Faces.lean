/-
Model of `ConvexCell::with_faces` / `sort_face_vertices` (src/voronoi/convex_cell.rs:461-543):
collect the vertices of every clipping plane, then order each list by walking from a vertex to the
vertex that shares the "next" plane.  Import-free, executable.
-/
import MVoro.Model.Clip
namespace MVoro.Faces
open MVoro

/-- `Vertex::plane_idx`: position (0,1,2) of plane `p` in the dual triple -/
def planeIdx (d : Dual) (p : Nat) : Option Nat :=
  if d.a == p then some 0 else if d.b == p then some 1 else if d.c == p then some 2 else none

def dualGet (d : Dual) (i : Nat) : Nat :=
  if i % 3 == 0 then d.a else if i % 3 == 1 then d.b else d.c

def dualContains (d : Dual) (p : Nat) : Bool := d.a == p || d.b == p || d.c == p

/-- the plane after `p` in the (counter-clockwise) triple -/
def nextPlaneOf (d : Dual) (p : Nat) : Option Nat := (planeIdx d p).map fun i => dualGet d (i + 1)

/-- inner loop: first position `t ≥ start` whose vertex contains `nextPlane`; `none` = the assertion
"There always must be a next vertex connected to the current one!" (or the `expect`) fails -/
def findNext (duals : Array Dual) (p nextPlane : Nat) (vs : Array Nat) : Nat → Nat → Option Nat
  | 0, _ => none
  | fuel + 1, t =>
    if h : t < vs.size then
      let d := duals.getD vs[t] default
      match planeIdx d p with
      | none => none                      -- "All given vertices must contain clipping plane"
      | some _ => if dualContains d nextPlane then some t else findNext duals p nextPlane vs fuel (t + 1)
    else none

/-- outer loop of `sort_face_vertices` from position `cur` -/
def sortLoop (duals : Array Dual) (p : Nat) : Nat → Nat → Nat → Array Nat → Option (Array Nat)
  | 0, _, _, vs => some vs
  | fuel + 1, cur, nextPlane, vs =>
    if cur + 1 < vs.size then
      match findNext duals p nextPlane vs (vs.size - cur) cur with
      | none => none
      | some t =>
        let d := duals.getD (vs.getD t 0) default
        match nextPlaneOf d p with
        | none => none
        | some np => sortLoop duals p fuel (cur + 1) np (vs.swapIfInBounds cur t)
    else some vs

/-- `sort_face_vertices(vert_idx, clipping_plane_idx)` -/
def sortFaceVertices (duals : Array Dual) (p : Nat) (vs : Array Nat) : Option (Array Nat) :=
  if h : 0 < vs.size then
    match nextPlaneOf (duals.getD vs[0] default) p with
    | none => none                        -- "Plane contained in vertex by construction"
    | some np => sortLoop duals p vs.size 1 np vs
  else some vs

/-- the collection step: for every plane the indices of the vertices containing it, in vertex order
(a vertex is pushed once per occurrence of the plane in its triple, as in the code) -/
def collect (duals : Array Dual) (nplanes : Nat) : List (Array Nat) :=
  (List.range nplanes).map fun p =>
    ((List.range duals.size).flatMap fun i =>
      let d := duals.getD i default
      (if d.a == p then [i] else []) ++ (if d.b == p then [i] else []) ++ (if d.c == p then [i] else [])).toArray

/-- `with_faces`: `(clipping plane, ordered vertex list)` for every plane with at least one vertex;
`none` when an assertion of `sort_face_vertices` fails -/
def withFaces (duals : Array Dual) (nplanes : Nat) : Option (List (Nat × List Nat)) :=
  let lists := collect duals nplanes
  let sorted := (lists.zip (List.range nplanes)).map fun (vs, p) => (sortFaceVertices duals p vs).map fun s => (p, s.toList)
  if sorted.all Option.isSome then some ((sorted.filterMap id).filter fun f => !f.2.isEmpty) else none

/-- Euler characteristic `V - E + F` computed from the face lists (an edge = a pair of cyclically
consecutive vertices of a face, each edge is seen from its two faces) -/
def euler (nv : Nat) (faces : List (Nat × List Nat)) : Int :=
  let halfEdges := (faces.map fun f => if f.2.length ≥ 3 then f.2.length else if f.2.length == 2 then 2 else 0).sum
  (nv : Int) - (halfEdges / 2 : Nat) + faces.length

end MVoro.Faces
