/-
Model of the candidate enumeration of `wrapping_nn_iter` (src/rtree_nn.rs): a best-first search
over the r-tree, started from the root's children under each of the 3^d query shifts, popping a
minimal entry of a priority queue, expanding parents (children inherit the shift) and emitting leaves.
Abstract in the key function and in the tie-breaking of the queue (`choose`).  Import-free, executable.
-/
namespace MVoro.Cand

inductive Tree where
  | leaf : Nat → Tree
  | node : List Tree → Tree
deriving Repr, Inhabited

/-- a queue entry: a subtree together with the query shift it is searched under -/
structure Entry (τ : Type) where
  t : Tree
  tag : τ
deriving Inhabited

mutual
/-- number of nodes (fuel for the search) -/
def Tree.size : Tree → Nat
  | .leaf _ => 1
  | .node cs => 1 + sizeList cs
def sizeList : List Tree → Nat
  | [] => 0
  | c :: cs => c.size + sizeList cs
end

mutual
/-- leaves of a subtree -/
def Tree.leaves : Tree → List Nat
  | .leaf i => [i]
  | .node cs => leavesList cs
def leavesList : List Tree → List Nat
  | [] => []
  | c :: cs => c.leaves ++ leavesList cs
end

/-- remove the element at index `i` -/
def removeAt {α} : List α → Nat → List α
  | [], _ => []
  | _ :: xs, 0 => xs
  | x :: xs, i + 1 => x :: removeAt xs i

/-- `next()` iterated: pop the entry `choose` selects (a minimal one), expand or emit -/
def bestFirst {τ : Type} (choose : List (Entry τ) → Nat) : Nat → List (Entry τ) → List (Nat × τ)
  | 0, _ => []
  | _ + 1, [] => []
  | fuel + 1, q =>
    let i := choose q
    match q[i]? with
    | none => []
    | some e =>
      let rest := removeAt q i
      match e.t with
      | .leaf id => (id, e.tag) :: bestFirst choose fuel rest
      | .node cs => bestFirst choose fuel (rest ++ cs.map (fun c => ⟨c, e.tag⟩))

/-- index of the first entry with minimal key -/
def argminFirst {α} (key : α → Rat) : List α → Nat
  | [] => 0
  | x :: xs =>
    let rec go (best : Rat) (bi : Nat) (i : Nat) : List α → Nat
      | [] => bi
      | y :: ys => if key y < best then go (key y) i (i + 1) ys else go best bi (i + 1) ys
    go (key x) 0 1 xs

/-- the initial queue: the root's children under every shift -/
def initQueue {τ : Type} (root : Tree) (shifts : List τ) : List (Entry τ) :=
  match root with
  | .leaf i => shifts.map (fun s => ⟨.leaf i, s⟩)
  | .node cs => shifts.flatMap (fun s => cs.map (fun c => ⟨c, s⟩))

def totalFuel {τ : Type} (q : List (Entry τ)) : Nat := (q.map (fun e => e.t.size)).sum

end MVoro.Cand
