/-
Model of the combinatorial part of `ConvexCell::clip_by_plane` and `compute_boundary`
(src/voronoi/convex_cell.rs:358-441).  Generic in the vertex payload.  Import-free.
-/
import MVoro.Model.Cycle
namespace MVoro

/-- dual triple of a vertex: indices of its three planes, counter-clockwise -/
structure Dual where
  a : Nat
  b : Nat
  c : Nat
deriving Repr, DecidableEq, Inhabited, BEq, Hashable

namespace Dual
/-- rotation-normalised form: smallest index first, cyclic order kept -/
def canon (d : Dual) : Dual :=
  if d.a ≤ d.b ∧ d.a ≤ d.c then d
  else if d.b ≤ d.a ∧ d.b ≤ d.c then ⟨d.b, d.c, d.a⟩
  else ⟨d.c, d.a, d.b⟩
def rot (d : Dual) : Dual := ⟨d.b, d.c, d.a⟩
/-- directed edges of the (dual) triangle -/
def edges (d : Dual) : List (Nat × Nat) := [(d.a, d.b), (d.b, d.c), (d.c, d.a)]
def lt (x y : Dual) : Bool :=
  x.a < y.a || (x.a == y.a && (x.b < y.b || (x.b == y.b && x.c < y.c)))
end Dual

namespace Clip
variable {V : Type}

/-- inner search loop of `compute_boundary`: first index `idx ≥ i` whose triangle extends the cycle -/
def findExt (dual : V → Dual) (c : Cycle) (vs : Array V) : Nat → Nat → Option (Nat × Cycle)
  | 0, _ => none
  | fuel + 1, idx =>
    if h : idx < vs.size then
      let d := dual vs[idx]
      match c.tryExtend d.a d.b d.c with
      | some c' => some (idx, c')
      | none => findExt dual c vs fuel (idx + 1)
    else none   -- assertion "No suitable vertex found to extend boundary!"

/-- outer loop of `compute_boundary` from position `i` -/
def boundaryLoop (dual : V → Dual) : Nat → Nat → Cycle → Array V → Option (Cycle × Array V)
  | 0, _, c, vs => some (c, vs)
  | fuel + 1, i, c, vs =>
    if i < vs.size then
      match findExt dual c vs (vs.size - i) i with
      | none => none
      | some (idx, c') => boundaryLoop dual fuel (i + 1) c' (if idx > i then vs.swapIfInBounds i idx else vs)
    else some (c, vs)

/-- `compute_boundary(boundary, vertices)`; `none` = the assertion fails -/
def computeBoundary (dual : V → Dual) (c : Cycle) (vs : Array V) : Option (Cycle × Array V) :=
  if h : 0 < vs.size then
    let d := dual vs[0]
    boundaryLoop dual vs.size 1 (c.init d.a d.b d.c) vs
  else none

/-- the partition loop at the start of `clip_by_plane`: removed vertices are swapped to the tail.
Returns the permuted array and `num_v`. -/
def partitionLoop (removed : V → Bool) : Nat → Nat → Nat → Array V → Array V × Nat
  | 0, _, numV, vs => (vs, numV)
  | fuel + 1, i, numV, vs =>
    if h : i < numV ∧ i < vs.size then
      if removed vs[i] then
        partitionLoop removed fuel i (numV - 1) (vs.swapIfInBounds i (numV - 1))
      else partitionLoop removed fuel (i + 1) numV vs
    else (vs, numV)

/-- pairs `(cur, next)` of consecutive entries -/
def pairs : List Nat → List (Nat × Nat)
  | a :: b :: rest => (a, b) :: pairs (b :: rest)
  | _ => []

inductive Outcome (V : Type) where
  /-- no vertex removed: the plane is not added -/
  | unchanged : Outcome V
  /-- clipped: new cycle state and new vertex array (kept vertices, then one new vertex per boundary edge) -/
  | clipped : Cycle → Array V → Outcome V
  /-- "No suitable vertex found to extend boundary!" -/
  | stuck : Outcome V

/-- `clip_by_plane` after the sign decisions: `pIdx` is the index the new plane gets,
`mk cur next pIdx` builds the new vertex (`Vertex::from_dual`). -/
def clip (dual : V → Dual) (mk : Nat → Nat → Nat → V) (removed : V → Bool) (pIdx : Nat)
    (cyc : Cycle) (vs : Array V) : Outcome V :=
  let (vs, numV) := partitionLoop removed (2 * vs.size + 1) 0 vs.size vs
  if numV == vs.size then .unchanged
  else
    let cyc := cyc.grow
    let tail := vs.extract numV vs.size
    match computeBoundary dual cyc tail with
    | none => .stuck
    | some (cyc, _) =>
      let kept := vs.extract 0 numV
      let news := (pairs cyc.closedWalk).map (fun (cur, next) => mk cur next pIdx)
      .clipped cyc (kept ++ news.toArray)

end Clip
end MVoro
