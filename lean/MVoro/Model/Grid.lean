/-
Model of the integer grid (`SimulationBoundary::{cuboid, iloc}`, src/voronoi/boundary.rs).
`cuboidDomain` gives, per axis, the anchor and the inverse width the struct stores; `rescaleExact`
is the real-number value of the expression `1 + (loc - anchor) * inverse_width`; `ilocWith rnd`
evaluates the same expression with an abstract rounding after each floating-point operation.
Parameters `(padNum/padDen, span)` describe the domain: anchor' = anchor - pad·width,
inverse width = 1/(span·width).  Pinned tree: pad = 1, span = 3.  After the repair: pad = 3/2, span = 4.
Import-free, executable.
-/
namespace MVoro.Grid

/-- per-axis box after the periodic tripling of `cuboid` -/
def tripled (a w : Rat) (periodicAxis : Bool) : Rat × Rat :=
  if periodicAxis then (a - w, 3 * w) else (a, w)

/-- exact value of `1 + (x - (A - pad·W)) / (span·W)` -/
def rescaleExact (pad span : Rat) (A W x : Rat) : Rat := 1 + (x - (A - pad * W)) * (1 / (span * W))

/-- exact value of `1 + (x - (A - pad·W)) / (span·G)`: anchor from the box width `W`, scale from the grid width `G`
(after the repair `29187d1`: `G` = largest active extent, `G ≥ W`) -/
def rescaleExactG (pad span : Rat) (A W G x : Rat) : Rat := 1 + (x - (A - pad * W)) * (1 / (span * G))

/-- the grid width of an axis: with a shared scale every active axis uses the largest active (tripled) extent,
inactive (normalised) axes keep their own; without, every axis uses its own extent.
`w` = per-axis widths after tripling, `axis` ∈ {0,1,2}, `dim` = number of active axes -/
def gridWidth (shared : Bool) (dim : Nat) (w0 w1 w2 : Rat) (axis : Nat) : Rat :=
  let own := if axis == 0 then w0 else if axis == 1 then w1 else w2
  if !shared || axis ≥ dim then own
  else if dim == 1 then w0 else if dim == 2 then max w0 w1 else max (max w0 w1) w2

/-- the same with a rounding after every operation (`anchor'` and `iw` are the stored, already rounded fields) -/
def rescaleWith (rnd : Rat → Rat) (anchor' iw x : Rat) : Rat := rnd (1 + rnd (rnd (x - anchor') * iw))

/-- mantissa of a double in `[1, 2)`: `(y - 1)·2^52` -/
def mantissa (y : Rat) : Rat := (y - 1) * (2 ^ 52 : Nat)

/-- positions the algorithm can query on one axis, for a generator coordinate `g` in the closed box `[A, A+W]`
(`A`, `W` already tripled when periodic): the generator, its mirror images through both walls, any other
position inside the (tripled) box -/
def mirrorLow (A g : Rat) : Rat := 2 * A - g
def mirrorHigh (A W g : Rat) : Rat := 2 * (A + W) - g

end MVoro.Grid
