/-
Model of `SimpleCycle` (src/simple_cycle.rs): a cycle over plane indices stored as a
successor array.  `ptrs[x] = x` means "x is not on the cycle".  Import-free, executable.

Out-of-range reads return the index itself ("not contained") and out-of-range writes are
dropped; the Rust code would panic there.  All theorems are stated under the guard that the
indices are in range (the harness never leaves it, and `oob` reports whether an op would).
-/
import MVoro.Model.Loop
namespace MVoro

structure Cycle where
  ptrs : Array Nat
  start : Nat
  len : Nat
deriving Repr, DecidableEq, Inhabited

namespace Cycle

/-- `ptrs[i]` -/
@[inline] def get (c : Cycle) (i : Nat) : Nat := c.ptrs.getD i i
/-- `ptrs[i] = v` -/
@[inline] def set (c : Cycle) (i v : Nat) : Cycle := { c with ptrs := c.ptrs.setIfInBounds i v }

/-- `SimpleCycle::new(capacity)` -/
def new (capacity : Nat) : Cycle := ⟨Array.range capacity, 0, 0⟩

/-- `grow` -/
def grow (c : Cycle) : Cycle := { c with ptrs := c.ptrs.push c.ptrs.size }

/-- `contains` -/
def contains (c : Cycle) (i : Nat) : Bool := c.get i != i

/-- the reset walk of `init`: `fuel` steps from `cur`, each visited entry is made a self pointer -/
def resetWalk : Nat → Cycle → Nat → Cycle
  | 0, c, _ => c
  | fuel + 1, c, cur =>
    let next := c.get cur
    resetWalk fuel (c.set cur cur) next

/-- `init(a, b, c)` -/
def init (c : Cycle) (a b d : Nat) : Cycle :=
  let c := resetWalk c.len c c.start
  let c := { c with len := 3, start := a }
  let c := c.set a b
  let c := c.set b d
  c.set d a

/-- one rotation `(ti, tj, tk)` of the triangle in `try_extend`; `none` when neither case applies -/
def tryRot (c : Cycle) (ti tj tk : Nat) : Option Cycle :=
  let ci := c.contains ti
  let cj := c.contains tj
  let ck := c.contains tk
  if !ci && cj && ck && c.get tk == tj then
    -- insert ti between tk and tj
    let c := c.set tk ti
    let c := c.set ti tj
    some { c with len := c.len + 1 }
  else if ci && cj && ck && c.get tk == tj && c.get tj == ti then
    -- remove tj: tk -> ti
    let c := c.set tk ti
    let c := c.set tj tj
    let c := if c.start == tj then { c with start := ti } else c
    some { c with len := c.len - 1 }
  else none

/-- `try_extend(a, b, c)`: the three rotations `i = 0, 1, 2` with `j = i+1`, `k = i+2` (mod 3) in order -/
def tryExtend (c : Cycle) (a b d : Nat) : Option Cycle :=
  match tryRot c a b d with
  | some r => some r
  | none =>
    match tryRot c b d a with
    | some r => some r
    | none => tryRot c d a b

/-- `iter().take(n)` -/
def walk : Nat → Cycle → Nat → List Nat
  | 0, _, _ => []
  | n + 1, c, cur => cur :: walk n c (c.get cur)

/-- `iter().take(len + 1)` as used by `clip_by_plane` -/
def closedWalk (c : Cycle) : List Nat := walk (c.len + 1) c c.start

end Cycle

/-- state of `SimpleCycle2Iterator`: the borrowed cycle and the entry it yields next -/
structure CycleIter where
  simple_cycle : Cycle
  next : Nat
deriving Repr, DecidableEq, Inhabited

end MVoro
