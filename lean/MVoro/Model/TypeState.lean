/-
Model of the type-state of `ConvexCell<M>` (src/voronoi/convex_cell.rs): the marker `M` is a
compile-time tag, the face data are run-time `Option`s read with `unwrap_unchecked` in the
`WithFaces` state.  Import-free, executable.
-/
namespace MVoro.TypeState

inductive Marker where
  | withoutFaces
  | withFaces
deriving Repr, DecidableEq, Inhabited

/-- a cell as far as the type-state is concerned: the payload `P` (planes, vertices) and optional face data `F` -/
structure Cell (P F : Type) where
  marker : Marker
  dim : Nat
  payload : P
  faces : Option F
deriving Repr

/-- `ConvexCell::new` (the only constructor; used by `init` and `From<ConvexCellAlternative>`) -/
def new {P F} (dim : Nat) (p : P) : Cell P F := ⟨.withoutFaces, dim, p, none⟩

inductive Op (P F : Type) where
  /-- `with_faces`: only for `WithoutFaces`; asserts `dim = 3`; `derive` computes the face data from the payload -/
  | withFaces : Op P F
  /-- `discard_faces`: only for `WithFaces` -/
  | discardFaces : Op P F
  /-- `clip_by_plane` etc.: only for `WithoutFaces`, changes the payload -/
  | mutate : (P → P) → Op P F
  /-- `face_count`, `face_vertices`, …: only for `WithFaces`; reads the face data unchecked -/
  | readFaces : Op P F

inductive Res (P F : Type) where
  | ok : Cell P F → Res P F
  /-- rejected at compile time (method does not exist for this marker) -/
  | typeError : Res P F
  /-- run-time rejection: `assert_eq!(dimensionality, ThreeD)` -/
  | rejected : Res P F
  /-- undefined behaviour: `unwrap_unchecked` on `None` -/
  | ub : Res P F

def step {P F} (derive : P → F) (c : Cell P F) : Op P F → Res P F
  | .withFaces =>
    match c.marker with
    | .withFaces => .typeError
    | .withoutFaces => if c.dim = 3 then .ok { c with marker := .withFaces, faces := some (derive c.payload) } else .rejected
  | .discardFaces =>
    match c.marker with
    | .withoutFaces => .typeError
    | .withFaces => .ok { c with marker := .withoutFaces, faces := none }
  | .mutate g =>
    match c.marker with
    | .withFaces => .typeError
    | .withoutFaces => .ok { c with payload := g c.payload }
  | .readFaces =>
    match c.marker with
    | .withoutFaces => .typeError
    | .withFaces => if c.faces.isSome then .ok c else .ub

/-- run a program; stops at the first non-ok result -/
def run {P F} (derive : P → F) : Cell P F → List (Op P F) → Res P F
  | c, [] => .ok c
  | c, op :: ops =>
    match step derive c op with
    | .ok c' => run derive c' ops
    | r => r

end MVoro.TypeState
