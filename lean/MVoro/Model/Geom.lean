/-
Reference definitions of the public geometry helpers (src/geometry.rs), generic in the scalar:
instantiated at `ℝ` for the theorems, at `Rat` for sqrt-free fragments in the driver and at
`Float` to validate the translator.  glam's vector/matrix methods are modelled by `V3.*`
(`Model/Num`) and the small functions below.  Import-free.
-/
import MVoro.Model.Num
namespace MVoro

/-- the non-ring operations of `f64` the helpers use -/
class Scalar (α : Type) where
  sqrt : α → α
  abs : α → α
  /-- Rust `f64::signum`: `1` for positive numbers and `+0`, `-1` for negative numbers -/
  signum : α → α
  /-- decimal literal `m · 10^(-e)` -/
  lit : Nat → Nat → α
  lt : α → α → Bool
  le : α → α → Bool

/-- numeric literal `k` as a scalar -/
abbrev N (α : Type) [NatCast α] (k : Nat) : α := (k : α)

structure Plane (α : Type) where
  n : V3 α
  p : V3 α
deriving Repr, Inhabited

structure Sphere (α : Type) where
  center : V3 α
  radius : α
deriving Repr, Inhabited

/-- the half space of src/voronoi/half_space.rs: plane, cached offset `d = n·p`, error bound of the float filter -/
structure HalfSpaceM (α : Type) where
  plane : Plane α
  d : α
  errb : α

/-- 4-vector (glam `DVec4`) -/
structure V4 (α : Type) where
  x : α
  y : α
  z : α
  w : α
deriving Repr, Inhabited

section
variable {α : Type} [Add α] [Sub α] [Mul α] [Div α] [Neg α] [NatCast α]

namespace V3
/-- glam `project_onto`: `rhs * self.dot(rhs) * rhs.dot(rhs).recip()` -/
def projectOnto (a b : V3 α) : V3 α := V3.smul ((N α 1) / V3.dot b b) (V3.smul (V3.dot a b) b)
def length [Scalar α] (a : V3 α) : α := Scalar.sqrt (V3.norm2 a)
def distance [Scalar α] (a b : V3 α) : α := length (a - b)
def distance2 (a b : V3 α) : α := V3.norm2 (a - b)
/-- glam `normalize`: `self * self.length_recip()` -/
def normalize [Scalar α] (a : V3 α) : V3 α := V3.smul ((N α 1) / length a) a
end V3

namespace V3
/-- glam `DVec3::abs` (componentwise) -/
def abs [Scalar α] (a : V3 α) : V3 α := ⟨Scalar.abs a.x, Scalar.abs a.y, Scalar.abs a.z⟩
/-- glam `DVec3 / f64` -/
def divs (a : V3 α) (k : α) : V3 α := ⟨a.x / k, a.y / k, a.z / k⟩
end V3

namespace V4
/-- glam `DVec4 * DVec4` (componentwise) -/
def mul (a b : V4 α) : V4 α := ⟨a.x * b.x, a.y * b.y, a.z * b.z, a.w * b.w⟩
/-- glam `DVec4 + DVec4` -/
def add (a b : V4 α) : V4 α := ⟨a.x + b.x, a.y + b.y, a.z + b.z, a.w + b.w⟩
/-- glam `DVec4::ONE` -/
def ones : V4 α := ⟨N α 1, N α 1, N α 1, N α 1⟩
end V4

/-- glam `DMat3::from_cols(a,b,c).determinant()` = `c · (a × b)` -/
def det3cols (a b c : V3 α) : α := V3.dot c (V3.cross a b)

/-- determinant of the 4×4 matrix with columns `a b c d` (glam `DMat4::determinant`), Laplace expansion along the last row -/
def det4cols (a b c d : V4 α) : α :=
  let m3 (a b c : V3 α) : α := det3cols a b c
  let t (v : V4 α) : V3 α := ⟨v.x, v.y, v.z⟩
  d.w * m3 (t a) (t b) (t c) - c.w * m3 (t a) (t b) (t d) + b.w * m3 (t a) (t c) (t d) - a.w * m3 (t b) (t c) (t d)

namespace Ref

/-- `Plane::project_onto` -/
def projectOnto (pl : Plane α) (point : V3 α) : V3 α := point + V3.projectOnto (pl.p - point) pl.n

/-- `intersect_planes` (the `det != 0` assertion is the caller's guard) -/
def intersectPlanes (p0 p1 p2 : Plane α) : V3 α :=
  let det := det3cols p0.n p1.n p2.n
  let s := V3.smul (V3.dot p0.p p0.n) (V3.cross p1.n p2.n)
         + V3.smul (V3.dot p1.p p1.n) (V3.cross p2.n p0.n)
         + V3.smul (V3.dot p2.p p2.n) (V3.cross p0.n p1.n)
  ⟨s.x / det, s.y / det, s.z / det⟩

/-- `Plane::project_onto_intersection` -/
def projectOntoIntersection (self other : Plane α) (point : V3 α) : V3 α :=
  intersectPlanes self other ⟨V3.cross self.n other.n, point⟩

/-- `signed_volume_tet` -/
def signedVolumeTet (v0 v1 v2 v3 : V3 α) : α :=
  det3cols (v1 - v0) (v2 - v0) (v3 - v0) / (N α 6)

/-- `signed_area_tri` -/
def signedAreaTri [Scalar α] (v0 v1 v2 t : V3 α) : α :=
  let n := V3.smul ((N α 1) / (N α 2)) (V3.cross (v1 - v0) (v2 - v0))
  let sign := Scalar.signum (V3.dot (t - v0) n)
  V3.length n * sign

/-- `Sphere::from_two_points` -/
def sphere2 [Scalar α] (a b : V3 α) : Sphere α :=
  ⟨V3.smul ((N α 1) / (N α 2)) (a + b), ((N α 1) / (N α 2)) * V3.distance a b⟩

/-- `Sphere::from_three_points` -/
def sphere3 [Scalar α] (a b c : V3 α) : Sphere α :=
  let a' := a - c
  let b' := b - c
  let a2 := V3.norm2 a'
  let b2 := V3.norm2 b'
  let axb := V3.cross a' b'
  let inv := (N α 1) / V3.norm2 axb
  let oneOverSin2 := (a2 * b2) * inv
  let radius := ((N α 1) / (N α 2)) * Scalar.sqrt (oneOverSin2 * V3.norm2 (a' - b'))
  let center := V3.smul inv (V3.smul ((N α 1) / (N α 2)) (V3.cross (V3.smul a2 b' - V3.smul b2 a') axb)) + c
  ⟨center, radius⟩

/-- `Sphere::from_four_points` -/
def sphere4 [Scalar α] (a b c d : V3 α) : Sphere α :=
  let x : V4 α := ⟨a.x, b.x, c.x, d.x⟩
  let y : V4 α := ⟨a.y, b.y, c.y, d.y⟩
  let z : V4 α := ⟨a.z, b.z, c.z, d.z⟩
  let n2 : V4 α := ⟨x.x * x.x + y.x * y.x + z.x * z.x, x.y * x.y + y.y * y.y + z.y * z.y,
                    x.z * x.z + y.z * y.z + z.z * z.z, x.w * x.w + y.w * y.w + z.w * z.w⟩
  let one : V4 α := ⟨(N α 1), (N α 1), (N α 1), (N α 1)⟩
  let aa := det4cols x y z one
  let dx := det4cols n2 y z one
  let dy := -det4cols n2 x z one
  let dz := det4cols n2 x y one
  let cc := det4cols n2 x y z
  let oneOver2a := ((N α 1) / (N α 2)) / aa
  let radius := Scalar.sqrt (dx * dx + dy * dy + dz * dz - (N α 4) * aa * cc) * Scalar.abs oneOver2a
  ⟨⟨dx * oneOver2a, dy * oneOver2a, dz * oneOver2a⟩, radius⟩

/-- `HalfSpace::new`: the filter's error bound `EPSILON · (1 + |n|·|p|)` (componentwise absolute values: it scales with the
SIZE of the terms of `n·p`, not with the value of the sum) and the cached offset -/
def halfSpaceNew [Scalar α] (n p : V3 α) : HalfSpaceM α :=
  ⟨⟨n, p⟩, V3.dot n p, Scalar.lit 1 13 * ((N α 1) + V3.dot (V3.abs n) (V3.abs p))⟩

/-- `HalfSpace::clip`: `0` = "ask the exact predicate", otherwise the sign of `n·v - d` -/
def halfSpaceClip [Scalar α] (h : HalfSpaceM α) (vertex : V3 α) : α :=
  let clip := V3.dot h.plane.n vertex - h.d
  if Scalar.lt (Scalar.abs clip) h.errb then (N α 0) else Scalar.signum clip

/-- `Sphere::contains` -/
def contains [Scalar α] (s : Sphere α) (x : V3 α) : Bool :=
  Scalar.lt (N α 0) s.radius &&
    Scalar.le (V3.distance2 x s.center) (s.radius * s.radius * ((N α 1) + Scalar.lit 1 10))

/-- `Sphere::extend` -/
def extend [Scalar α] (s : Sphere α) (x : V3 α) : Sphere α :=
  if contains s x then s
  else
    let opposite := s.center - V3.smul s.radius (V3.normalize (x - s.center))
    let center := V3.smul ((N α 1) / (N α 2)) (opposite + x)
    ⟨center, V3.distance center x⟩

end Ref
end
end MVoro
