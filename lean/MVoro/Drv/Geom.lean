/-
Driver op `geom`: the reference definitions `MVoro.Ref.*` of the public geometry helpers evaluated
(a) over `Rat` (exact; only sqrt-free results are reported) and (b) over `Float` (same bits in).
-/
import MVoro.Drv.Parse
namespace MVoro.Drv
open MVoro

def q1 (r : Rat) : String := ratStr r

def sphQ (s : Sphere Rat) (onPt : Q3) : String :=
  q3Str s.center ++ " " ++ q1 (V3.distance2 s.center onPt)

def sphF (s : Sphere Float) : String := fl3Str s.center ++ " " ++ flStr s.radius

def sgn (r : Rat) : String := if r < 0 then "-1" else if r > 0 then "1" else "0"

/-- `kind args…` → `exact-results… F float-results…` -/
def opGeom (args : List String) : String :=
  match args with
  | kind :: rest =>
    match parseAllF rest with
    | none => "nonfinite"
    | some (qs, fs) =>
      let q := v3s qs
      let f := v3s fs
      match kind, q, f with
      | "ip", [n0, p0, n1, p1, n2, p2], [m0, r0, m1, r1, m2, r2] =>
        let det := det3cols n0 n1 n2
        if det == 0 then "singular" else
        q3Str (Ref.intersectPlanes ⟨n0, p0⟩ ⟨n1, p1⟩ ⟨n2, p2⟩) ++ " " ++ q1 det ++ " F " ++
          fl3Str (Ref.intersectPlanes ⟨m0, r0⟩ ⟨m1, r1⟩ ⟨m2, r2⟩)
      | "po", [n, p, x], [m, r, y] =>
        if V3.norm2 n == 0 then "singular" else
        q3Str (Ref.projectOnto ⟨n, p⟩ x) ++ " F " ++ fl3Str (Ref.projectOnto ⟨m, r⟩ y)
      | "poi", [n0, p0, n1, p1, x], [m0, r0, m1, r1, y] =>
        if V3.norm2 (V3.cross n0 n1) == 0 then "singular" else
        q3Str (Ref.projectOntoIntersection ⟨n0, p0⟩ ⟨n1, p1⟩ x) ++ " F " ++
          fl3Str (Ref.projectOntoIntersection ⟨m0, r0⟩ ⟨m1, r1⟩ y)
      | "tet", [v0, v1, v2, v3], [w0, w1, w2, w3] =>
        q1 (Ref.signedVolumeTet v0 v1 v2 v3) ++ " F " ++ flStr (Ref.signedVolumeTet w0 w1 w2 w3)
      | "tri", [v0, v1, v2, t, ts, to], [w0, w1, w2, u, _, _] =>
        let n := V3.smul ((1 : Rat) / 2) (V3.cross (v1 - v0) (v2 - v0))
        q1 (V3.norm2 n) ++ " " ++ sgn (V3.dot (t - v0) n) ++ " " ++ sgn (V3.dot (ts - v0) n) ++ " " ++ sgn (V3.dot (to - v0) n)
          ++ " F " ++ flStr (Ref.signedAreaTri w0 w1 w2 u)
      | "s2", [a, b], [a', b'] =>
        sphQ (Ref.sphere2 a b) a ++ " F " ++ sphF (Ref.sphere2 a' b')
      | "s3", [a, b, c], [a', b', c'] =>
        if V3.norm2 (V3.cross (a - c) (b - c)) == 0 then "singular" else
        sphQ (Ref.sphere3 a b c) a ++ " F " ++ sphF (Ref.sphere3 a' b' c')
      | "sb3", [a, b, c], [a', b', c'] =>
        if V3.norm2 (V3.cross (a - c) (b - c)) == 0 then "singular" else
        sphQ (Ref.sphere3 a b c) a ++ " F " ++ sphF (Ref.sphere3 a' b' c')
      | "s4", [a, b, c, d], [a', b', c', d'] =>
        if Ref.signedVolumeTet a b c d == 0 then "singular" else
        sphQ (Ref.sphere4 a b c d) a ++ " F " ++ sphF (Ref.sphere4 a' b' c' d')
      | _, _, _ =>
        -- `ext c(3) r x(3)`: 7 scalars
        match kind, qs, fs with
        | "ext", [cx, cy, cz, r, xx, xy, xz], [dx, dy, dz, s, yx, yy, yz] =>
          let sq : Sphere Rat := ⟨⟨cx, cy, cz⟩, r⟩
          let sf : Sphere Float := ⟨⟨dx, dy, dz⟩, s⟩
          (if Ref.contains sq ⟨xx, xy, xz⟩ then "1" else "0") ++ " " ++ q1 (V3.distance2 (⟨xx, xy, xz⟩ : Q3) sq.center)
            ++ " F " ++ sphF (Ref.extend sf ⟨yx, yy, yz⟩)
        | _, _, _ => "bad-op"
  | _ => "bad-op"

end MVoro.Drv
