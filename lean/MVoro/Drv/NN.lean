/-
Driver op `nnvisit` (C17): `MVoro.Cand.bestFirst` run on the r-tree the harness dumped, with the
exact envelope distance as key.
-/
import MVoro.Drv.Parse
import MVoro.Model.Cand
import MVoro.Model.Oracle
import Std.Data.HashMap
namespace MVoro.Drv
open MVoro MVoro.Cand

structure DNode where
  depth : Nat
  leaf : Option Nat
  lo : Q3
  hi : Q3
deriving Inhabited

def parseDump : Nat → List String → Option (List DNode × List String)
  | 0, ts => some ([], ts)
  | n + 1, d :: l :: _nch :: rest => do
    let d ← d.toNat?
    let l : Option Nat ← (if l == "-" then some none else l.toNat?.map some)
    let (lo, rest) ← takeV3 rest
    let (hi, rest) ← takeV3 rest
    let (ns, rest) ← parseDump n rest
    pure (⟨d, l, lo, hi⟩ :: ns, rest)
  | _, _ => none

/-- rebuild the tree from the preorder dump: returns the subtree starting at the head of the list
(whose depth is `d`) and the remaining nodes; also checks that every child envelope lies inside its parent's -/
def buildTree : Nat → List DNode → Option (Tree × Bool × List DNode)
  | 0, _ => none
  | _, [] => none
  | fuel + 1, nd :: rest =>
    match nd.leaf with
    | some i => some (.leaf i, decide (nd.lo = nd.hi), rest)
    | none =>
      let rec kids (f : Nat) (rest : List DNode) (acc : List Tree) (ok : Bool) : Option (List Tree × Bool × List DNode) :=
        match f with
        | 0 => none
        | f + 1 =>
          match rest with
          | c :: _ =>
            if c.depth == nd.depth + 1 then
              match buildTree fuel rest with
              | none => none
              | some (t, okc, rest') =>
                let inside := nd.lo.x ≤ c.lo.x && nd.lo.y ≤ c.lo.y && nd.lo.z ≤ c.lo.z && c.hi.x ≤ nd.hi.x && c.hi.y ≤ nd.hi.y && c.hi.z ≤ nd.hi.z
                  && c.lo.x ≤ c.hi.x && c.lo.y ≤ c.hi.y && c.lo.z ≤ c.hi.z
                kids f rest' (t :: acc) (ok && okc && inside)
            else some (acc.reverse, ok, rest)
          | [] => some (acc.reverse, ok, rest)
      match kids (rest.length + 1) rest [] true with
      | none => none
      | some (cs, ok, rest') => some (.node cs, ok, rest')

mutual
/-- tight bounding box of the leaves of a subtree -/
def boxOf (pos : Nat → Q3) : Tree → Q3 × Q3
  | .leaf i => (pos i, pos i)
  | .node cs => boxOfList pos cs
def boxOfList (pos : Nat → Q3) : List Tree → Q3 × Q3
  | [] => (⟨0, 0, 0⟩, ⟨0, 0, 0⟩)
  | [c] => boxOf pos c
  | c :: cs =>
    let (l1, h1) := boxOf pos c
    let (l2, h2) := boxOfList pos cs
    (⟨min l1.x l2.x, min l1.y l2.y, min l1.z l2.z⟩, ⟨max h1.x h2.x, max h1.y h2.y, max h1.z h2.z⟩)
end

mutual
def firstLeaf : Tree → Nat
  | .leaf i => i
  | .node cs => firstLeafList cs
def firstLeafList : List Tree → Nat
  | [] => 0
  | c :: _ => firstLeaf c
end

mutual
def lastLeaf : Tree → Nat
  | .leaf i => i
  | .node cs => lastLeafList cs
def lastLeafList : List Tree → Nat
  | [] => 0
  | [c] => lastLeaf c
  | _ :: cs => lastLeafList cs
end

mutual
/-- memo table of `boxOf`, keyed by the (first, last) leaf of a subtree: a subtree is a contiguous range of
leaves in preorder, so equal keys mean equal leaf sets and hence equal boxes (leaf ids are distinct) -/
def boxTable (pos : Nat → Q3) (m : Std.HashMap (Nat × Nat) (Q3 × Q3)) : Tree → Std.HashMap (Nat × Nat) (Q3 × Q3)
  | .leaf i => m.insert (i, i) (pos i, pos i)
  | .node cs => (boxTableList pos m cs).insert (firstLeafList cs, lastLeafList cs) (boxOfList pos cs)
def boxTableList (pos : Nat → Q3) (m : Std.HashMap (Nat × Nat) (Q3 × Q3)) : List Tree → Std.HashMap (Nat × Nat) (Q3 × Q3)
  | [] => m
  | c :: cs => boxTableList pos (boxTable pos m c) cs
end

def clampQ (lo hi x : Rat) : Rat := min (max x lo) hi

def envDist2Q (lo hi x : Q3) : Rat :=
  let dx := clampQ lo.x hi.x x.x - x.x
  let dy := clampQ lo.y hi.y x.y - x.y
  let dz := clampQ lo.z hi.z x.z - x.z
  dx * dx + dy * dy + dz * dz

/-- do the dumped envelopes equal the tight boxes of the rebuilt subtrees? (preorder walk in lockstep) -/
def tightOk (pos : Nat → Q3) (ds : List DNode) (t : Tree) : Bool :=
  -- only the root is compared here; nesting of the dumped envelopes is checked by `buildTree`
  match ds with
  | d :: _ => let (l, h) := boxOf pos t; decide (l = d.lo) && decide (h = d.hi)
  | [] => false

/-- `<tess input> Q q mode T n {depth leaf nch lo hi}…` -/
def opNNVisit (t0 : Oracle.TessIn) (rest : List String) : String :=
  match rest with
  | "Q" :: q :: mode :: "T" :: n :: rest =>
    match q.toNat?, n.toNat? with
    | some q, some n =>
      if mode != "model" then "-" else
      match parseDump n rest with
      | none => "bad-op"
      | some (ds, _) =>
        let t := t0.norm
        match buildTree (ds.length + 1) ds with
        | none => "bad-tree"
        | some (tree, nested, _) =>
          let pos (i : Nat) : Q3 := t.gens[i]!
          let g := pos q
          let shifts : List (Int × Int × Int) := if t.periodic then Oracle.shifts t.dim else [(0, 0, 0)]
          let pt (s : Int × Int × Int) : Q3 := ⟨g.x + s.1 * t.width.x, g.y + s.2.1 * t.width.y, g.z + s.2.2 * t.width.z⟩
          let tbl := boxTable pos {} tree
          -- the key of every (subtree, shift) pair is computed once; the table travels in the tag
          -- (children inherit the tag of their parent), so `key` is a lookup
          let keyOf (s : Int × Int × Int) (b : Q3 × Q3) : Rat := envDist2Q b.1 b.2 (pt s)
          let tagOf (s : Int × Int × Int) : (Int × Int × Int) × Std.HashMap (Nat × Nat) Rat :=
            (s, tbl.fold (fun m k b => m.insert k (keyOf s b)) {})
          let key (e : Entry ((Int × Int × Int) × Std.HashMap (Nat × Nat) Rat)) : Rat :=
            match e.tag.2[(firstLeaf e.t, lastLeaf e.t)]? with
            | some k => k
            | none => keyOf e.tag.1 (boxOf pos e.t)
          let q0 := initQueue tree (shifts.map tagOf)
          let seq := (bestFirst (argminFirst key) (totalFuel q0) q0).map fun (i, tg) => (i, tg.1)
          let tight := tightOk pos ds tree
          s!"NEST {nested} {tight} SEQ {seq.length}" ++ String.join (seq.map fun (i, s) => s!" {i} {-s.1} {-s.2.1} {-s.2.2}")
    | _, _ => "bad-op"
  | _ => "bad-op"

end MVoro.Drv
