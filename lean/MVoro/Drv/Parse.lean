/-
Parsing helpers of the line-protocol driver.  Import-free (core only).
-/
import MVoro.Model.Num
import MVoro.Model.Geom
namespace MVoro.Drv
open MVoro

def toInts (ts : List String) : Option (List Int) := ts.mapM String.toInt?

/-- parse `k` float tokens (bit patterns) as exact rationals -/
def takeF (k : Nat) (ts : List String) : Option (List Rat × List String) :=
  if ts.length < k then none else
  match (ts.take k).mapM parseF? with
  | some xs => some (xs, ts.drop k)
  | none => none

def takeV3 (ts : List String) : Option (Q3 × List String) :=
  match takeF 3 ts with
  | some ([a, b, c], rest) => some (⟨a, b, c⟩, rest)
  | _ => none

def takeV3s : Nat → List String → Option (List Q3 × List String)
  | 0, ts => some ([], ts)
  | n + 1, ts => do
    let (v, ts) ← takeV3 ts
    let (vs, ts) ← takeV3s n ts
    pure (v :: vs, ts)

/-- a float token as a Lean `Float` with the same bits -/
def parseFl? (s : String) : Option Float := do
  let n ← parseHex? s
  pure (Float.ofBits (UInt64.ofNat n))

/-- all tokens as (exact rational, float) pairs; `none` if a token is not a finite float -/
def parseAllF (ts : List String) : Option (List Rat × List Float) := do
  let qs ← ts.mapM parseF?
  let fs ← ts.mapM parseFl?
  pure (qs, fs)

def v3s {α} : List α → List (V3 α)
  | a :: b :: c :: rest => ⟨a, b, c⟩ :: v3s rest
  | _ => []

def hex16 (n : Nat) : String :=
  let ds := (Nat.toDigits 16 n)
  String.ofList (List.replicate (16 - ds.length) '0' ++ ds)

def flStr (x : Float) : String := hex16 x.toBits.toNat
def fl3Str (v : V3 Float) : String := flStr v.x ++ " " ++ flStr v.y ++ " " ++ flStr v.z

instance : NatCast Float := ⟨Float.ofNat⟩

/-- `f64` operations the helpers use, on Lean's IEEE doubles -/
instance : Scalar Float where
  sqrt := Float.sqrt
  abs := Float.abs
  signum x := if x.isNaN then x else if x > 0 || (x == 0 && (x.toBits >>> 63) == 0) then 1 else -1
  lit m e := Float.ofScientific m true e
  lt a b := a < b
  le a b := a ≤ b

/-- exact rationals; `sqrt` is NOT available: this instance is only used for the sqrt-free results
(centres, squared radii); the `sqrt` field is the identity and every value computed through it is discarded -/
instance : Scalar Rat where
  sqrt x := x
  abs x := if x < 0 then -x else x
  signum x := if x < 0 then -1 else 1
  lit m e := (m : Rat) / ((10 : Rat) ^ e)
  lt a b := a < b
  le a b := a ≤ b

end MVoro.Drv
