/-
Driver ops `clipperm` and `cycle` (C18): the executable models `MVoro.Clip.clip` and `MVoro.Cycle`
on the vertex arrays / operation sequences the harness handed to the real code.
-/
import MVoro.Model.Clip
namespace MVoro.Drv
open MVoro

def dualsStr (ds : List Dual) : String :=
  let ds := (ds.map Dual.canon).toArray.qsort Dual.lt |>.toList
  s!"{ds.length}" ++ String.join (ds.map fun d => s!" {d.a} {d.b} {d.c}")

def parseVerts : Nat → List String → Option (List (Dual × Bool))
  | 0, _ => some []
  | n + 1, a :: b :: c :: r :: rest => do
    let a ← a.toNat?
    let b ← b.toNat?
    let c ← c.toNat?
    let vs ← parseVerts n rest
    pure ((⟨a, b, c⟩, r == "1") :: vs)
  | _, _ => none

/-- `S sid k np nv {a b c removed}…` → `OK nplanes count duals…` | `STUCK` -/
def opClipperm (args : List String) : String :=
  match args with
  | "S" :: _ :: _ :: np :: nv :: rest =>
    match np.toNat?, nv.toNat? with
    | some np, some nv =>
      match parseVerts nv rest with
      | none => "bad-op"
      | some vs =>
        match Clip.clip (V := Dual × Bool) (·.1) (fun cur next p => (⟨cur, next, p⟩, false)) (·.2) np (Cycle.new np) vs.toArray with
        | .unchanged => s!"OK {np} " ++ dualsStr (vs.map (·.1))
        | .stuck => "STUCK"
        | .clipped _ vs' => s!"OK {np + 1} " ++ dualsStr (vs'.toList.map (·.1))
    | _, _ => "bad-op"
  | _ => "bad-op"

/-- `cap ops…` with ops `g`, `i a b c`, `e a b c`, `w` → per op observable, same format as the harness -/
def opCycle (args : List String) : String :=
  match args with
  | cap :: ops =>
    match cap.toNat? with
    | none => "bad-op"
    | some cap =>
      let rec go (fuel : Nat) (c : Cycle) (ops : List String) (acc : List String) : List String :=
        match fuel with
        | 0 => acc.reverse
        | fuel + 1 =>
          match ops with
          | [] => acc.reverse
          | "g" :: rest => go fuel c.grow rest ("g" :: acc)
          | "w" :: rest => go fuel c rest (("w" ++ ",".intercalate (c.closedWalk.map toString)) :: acc)
          | "i" :: a :: b :: d :: rest =>
            match a.toNat?, b.toNat?, d.toNat? with
            | some a, some b, some d =>
              let c := c.init a b d
              go fuel c rest (s!"i{c.len}" :: acc)
            | _, _, _ => ("bad-op" :: acc).reverse
          | "e" :: a :: b :: d :: rest =>
            match a.toNat?, b.toNat?, d.toNat? with
            | some a, some b, some d =>
              match c.tryExtend a b d with
              | some c' => go fuel c' rest (s!"e1:{c'.len}" :: acc)
              | none => go fuel c rest (s!"e0:{c.len}" :: acc)
            | _, _, _ => ("bad-op" :: acc).reverse
          | _ => ("bad-op" :: acc).reverse
      " ".intercalate (go (ops.length + 1) (Cycle.new cap) ops [])
  | _ => "bad-op"

end MVoro.Drv
