/-
Driver op `withfaces` (C15): `MVoro.Faces.withFaces` on the dual triples the implementation reports.
Input tokens after the tess input: the implementation result is not visible to the driver, so the harness
repeats the triples in the input part: `DU k {nplanes nv {a b c}}`.
-/
import MVoro.Model.Faces
namespace MVoro.Drv
open MVoro

def parseDuals : Nat → List String → Option (List Dual × List String)
  | 0, ts => some ([], ts)
  | n + 1, a :: b :: c :: rest => do
    let a ← a.toNat?
    let b ← b.toNat?
    let c ← c.toNat?
    let (ds, rest) ← parseDuals n rest
    pure (⟨a, b, c⟩ :: ds, rest)
  | _, _ => none

def cellsDU : Nat → List String → List String
  | 0, _ => []
  | k + 1, np :: nv :: rest =>
    match np.toNat?, nv.toNat? with
    | some np, some nv =>
      match parseDuals nv rest with
      | some (ds, rest) =>
        let r := match Faces.withFaces ds.toArray np with
          | none => "FAIL"
          | some fs => s!"F {fs.length} E {Faces.euler nv fs}" ++ String.join (fs.map fun (p, vs) => s!" {p} {vs.length}" ++ String.join (vs.map fun v => s!" {v}"))
        r :: cellsDU k rest
      | none => ["bad-op"]
    | _, _ => ["bad-op"]
  | _, _ => ["bad-op"]

def opWithFaces (args : List String) : String :=
  match args.dropWhile (· != "DU") with
  | "DU" :: k :: rest =>
    match k.toNat? with
    | some k => " | ".intercalate (cellsDU k rest)
    | none => "bad-op"
  | _ => "-"

end MVoro.Drv
