/-
Driver ops `knn` and `sphere` (C20).
`knn`: the exact grid search `MVoro.Knn.knn` (componentwise cell placement).
`sphere`: exact minimal enclosing ball by brute force over support sets of size ≤ 4; the answer is only
reported if it passes the certificate checker `MVoro.MEB.checkCert` (the search itself is untrusted).
-/
import MVoro.Drv.Parse
import MVoro.Model.Knn
import MVoro.Model.Sphere
namespace MVoro.Drv
open MVoro

def opKnn (args : List String) : String :=
  match takeV3 args with
  | some (anchor, rest) =>
    match takeV3 rest with
    | some (width, rest) =>
      match takeF 1 rest with
      | some ([mcw], k :: n :: rest) =>
        match k.toNat?, n.toNat? with
        | some k, some n =>
          match takeV3s n rest with
          | some (pts, _) =>
            let s := Knn.mkSpace true anchor width mcw pts.toArray
            let res := Knn.knn s k
            -- run-time certificate of the grid (`KnnCorrect.gridOK_sound`): boxes contain their particles, cells partition them
            (if Knn.gridOK s then "OK" else "GRIDBAD") ++ String.join (res.map fun l => String.join (l.map fun (_, i) => s!" {i}"))
          | none => "bad-op"
        | _, _ => "bad-op"
      | _ => "bad-op"
    | none => "bad-op"
  | none => "bad-op"

/-- circumcentre candidates with barycentric weights -/
def cand2 (a b : Q3) : Q3 × List Rat := (V3.smul (1/2) (a + b), [1/2, 1/2])

def cand3 (a b c : Q3) : Option (Q3 × List Rat) :=
  let n := V3.cross (b - a) (c - a)
  let nn := V3.norm2 n
  if nn == 0 then none else
  let ctr := (Ref.sphere3 a b c).center
  let w (p q : Q3) : Rat := V3.dot (V3.cross (p - ctr) (q - ctr)) n / nn
  some (ctr, [w b c, w c a, w a b])

def cand4 (a b c d : Q3) : Option (Q3 × List Rat) :=
  let v := Ref.signedVolumeTet a b c d
  if v == 0 then none else
  let ctr := (Ref.sphere4 a b c d).center
  some (ctr, [Ref.signedVolumeTet ctr b c d / v, Ref.signedVolumeTet a ctr c d / v,
              Ref.signedVolumeTet a b ctr d / v, Ref.signedVolumeTet a b c ctr / v])

def subsetsOfSize : Nat → List Nat → List (List Nat)
  | 0, _ => [[]]
  | _ + 1, [] => []
  | k + 1, x :: xs => (subsetsOfSize k xs).map (x :: ·) ++ subsetsOfSize (k + 1) xs

def minBall (pts : Array Q3) : Option (Q3 × Rat × List (Nat × Rat)) :=
  let idx := List.range pts.size
  let cands : List (Q3 × List (Nat × Rat)) :=
    (if pts.size == 1 then [(pts[0]!, [(0, (1 : Rat))])] else []) ++
    (subsetsOfSize 2 idx).filterMap (fun s => match s with
      | [i, j] => let (c, w) := cand2 pts[i]! pts[j]!; some (c, [i, j].zip w)
      | _ => none) ++
    (subsetsOfSize 3 idx).filterMap (fun s => match s with
      | [i, j, k] => (cand3 pts[i]! pts[j]! pts[k]!).map fun (c, w) => (c, [i, j, k].zip w)
      | _ => none) ++
    (subsetsOfSize 4 idx).filterMap (fun s => match s with
      | [i, j, k, l] => (cand4 pts[i]! pts[j]! pts[k]! pts[l]!).map fun (c, w) => (c, [i, j, k, l].zip w)
      | _ => none)
  cands.findSome? fun (c, supp) =>
    match supp with
    | (i, _) :: _ =>
      let r2 := V3.norm2 (pts[i]! - c)
      if MEB.checkCert pts c r2 supp then some (c, r2, supp) else none
    | [] => none

def opSphere (args : List String) : String :=
  match args with
  | "P" :: n :: rest =>
    match n.toNat? with
    | some n =>
      match takeV3s n rest with
      | some (pts, _) =>
        if n > 14 then "MEB skipped" else
        match minBall pts.toArray with
        | some (c, r2, supp) => s!"MEB {q3Str c} {ratStr r2} {supp.length}"
        | none => "MEB none"
      | none => "bad-op"
    | none => "bad-op"
  | "S" :: _ => "-"
  | _ => "bad-op"

end MVoro.Drv
