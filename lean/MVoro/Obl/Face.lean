/-
Obligation tying the translated orientation facts (Gen/Face.lean, regenerated from
src/voronoi/convex_cell.rs and src/voronoi/voronoi_face.rs on every run) to the documented contract:
the stored face normal points away from the left generator.
-/
import MVoro.Gen.Face

namespace MVoro.Obl

/-- the stored normal is `storedNormalSign * clipNormalSign * (g - q)/|g - q|`; "pointing away from the left
generator (towards the right one)" means the factor in front of `g - q` is `-1` -/
theorem gen_storedNormal_outward : Gen.storedNormalSign * Gen.clipNormalSign = -1 := by decide

end MVoro.Obl
