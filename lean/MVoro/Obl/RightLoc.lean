/-
Obligations for the translated `HalfSpace::right_loc` (Gen/RightLoc.lean, regenerated on every run from
src/voronoi/half_space.rs): generated = reference; the right point of a neighbour plane is the neighbour plus its shift;
the right point of a wall is the mirror image of the generator, and the wall IS the bisector of the generator and that
mirror image (`wall_halfspace`) — which is what makes the in-sphere predicate on (generator, three right points, candidate)
decide a filter tie also for vertices on walls (C05, C10).
-/
import MVoro.Gen.RightLoc
import MVoro.Obl.Geom
import MVoro.Proofs.ScalarReal
namespace MVoro.Obl
open MVoro MVoro.GeomHelpers

set_option linter.unusedSimpArgs false
set_option linter.unusedVariables false
set_option linter.unusedSectionVars false

theorem gen_rightLoc_eq (h : HalfSpaceM ℝ) (r s : Option (V3 ℝ)) (l : V3 ℝ) :
    Gen.rightLoc h r s l = Ref.rightLoc h r s l := by
  unfold Gen.rightLoc Ref.rightLoc Ref.ngbLoc
  cases r <;> cases s <;> simp only [Id.run, bind, pure, gen_projectOnto_eq]

/-- the right point of a neighbour plane: neighbour position plus reported shift -/
theorem rightLoc_neighbour (h : HalfSpaceM ℝ) (g : V3 ℝ) (s : Option (V3 ℝ)) (l : V3 ℝ) :
    Ref.rightLoc h (some g) s l = Ref.ngbLoc g s := rfl

/-- C05 / C10: a wall is the bisector of the generator and its mirror image `right_loc`: for a generator strictly on the
inner side of the wall plane, a point is on the inner side iff it is at least as close to the generator as to the mirror image -/
theorem wall_halfspace (h : HalfSpaceM ℝ) (s : Option (V3 ℝ)) (l : V3 ℝ) (hn : V3.dot h.plane.n h.plane.n ≠ 0)
    (hin : 0 < V3.dot h.plane.n (l - h.plane.p)) (x : V3 ℝ) :
    0 ≤ V3.dot h.plane.n (x - h.plane.p) ↔ V3.distance2 x l ≤ V3.distance2 x (Ref.rightLoc h none s l) := by
  unfold Ref.rightLoc
  simp only []
  have hN2 : (N ℝ 2) = 2 := by simp [N]
  rw [hN2]
  have hD : 0 < V3.dot h.plane.n h.plane.n := lt_of_le_of_ne (norm2_nonneg _) (Ne.symm hn)
  set n := h.plane.n with hndef
  set p := h.plane.p with hpdef
  have hproj := projectOnto_parallel h.plane l
  rw [← hndef, ← hpdef] at hproj
  -- coordinates of the mirror image
  have mx : (V3.smul 2 (Ref.projectOnto h.plane l) - l).x = l.x + 2 * (V3.dot (p - l) n / V3.dot n n) * n.x := by
    have := congrArg V3.x hproj
    simp only [sub_x, smul_x] at this ⊢
    linarith
  have my : (V3.smul 2 (Ref.projectOnto h.plane l) - l).y = l.y + 2 * (V3.dot (p - l) n / V3.dot n n) * n.y := by
    have := congrArg V3.y hproj
    simp only [sub_y, smul_y] at this ⊢
    linarith
  have mz : (V3.smul 2 (Ref.projectOnto h.plane l) - l).z = l.z + 2 * (V3.dot (p - l) n / V3.dot n n) * n.z := by
    have := congrArg V3.z hproj
    simp only [sub_z, smul_z] at this ⊢
    linarith
  rw [distance2_def, distance2_def, mx, my, mz]
  set c := V3.dot (p - l) n / V3.dot n n with hc
  have hcneg : c < 0 := by
    rw [hc]
    apply div_neg_of_neg_of_pos _ hD
    have : V3.dot (p - l) n = - V3.dot n (l - p) := by simp only [dot_def, sub_x, sub_y, sub_z]; ring
    rw [this]; linarith
  have hcD : c * V3.dot n n = V3.dot (p - l) n := by rw [hc]; field_simp
  simp only [dot_def, sub_x, sub_y, sub_z] at hcD ⊢
  constructor
  · intro h0
    nlinarith [mul_nonneg_of_nonpos_of_nonpos (le_of_lt hcneg) (neg_nonpos.mpr h0)]
  · intro h0
    by_contra hlt
    push Not at hlt
    nlinarith [mul_pos_of_neg_of_neg hcneg hlt]

/-- non-vacuity: generator (1/4, 0, 0), wall x = 0 with inward normal (1,0,0): the mirror image is (-1/4, 0, 0) -/
example : Ref.rightLoc (⟨⟨⟨1, 0, 0⟩, ⟨0, 0, 0⟩⟩, 0, 0⟩ : HalfSpaceM ℝ) none none ⟨1/4, 0, 0⟩ = ⟨-1/4, 0, 0⟩ := by
  apply V3.ext' <;> simp [Ref.rightLoc, Ref.projectOnto, V3.projectOnto, N, dot_def] <;> norm_num

end MVoro.Obl
