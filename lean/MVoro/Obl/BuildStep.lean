/-
Obligations for the translated body of the clipping loop of `ConvexCell::build` (Gen/BuildStep.lean, regenerated on every
run from src/voronoi/convex_cell.rs): generated = reference, and over the reals

* the plane built in one round is the bisector of the generator and the candidate, with the unit normal pointing to the
  generator, and "kept by the plane" = "at least as close to the generator as to the candidate" (`buildStep_halfspace`,
  the link between the code and `VorSet.mem_HS_iff` / `run_eq_voronoi` of C01);
* the loop stops exactly when the candidate is farther than the safety radius (`buildStep_none_iff`, C16);
* the first candidate is consumed unclipped and must be the generator itself; the new half space is tagged with the
  candidate's index and shift.
-/
import MVoro.Gen.BuildStep
import MVoro.Proofs.ScalarReal
namespace MVoro.Obl
open MVoro MVoro.GeomHelpers

set_option linter.unusedSimpArgs false
set_option linter.unusedVariables false
set_option linter.unusedSectionVars false

theorem gen_firstCandidateConsumed : Gen.firstCandidateConsumed = true := by decide
theorem gen_buildStepTagsNeighbour : Gen.buildStepTagsNeighbour = true := by decide

section generic
variable {α : Type} [Add α] [Sub α] [Mul α] [Div α] [Neg α] [NatCast α] [Scalar α]

theorem gen_buildStep_eq (cell : CellRec α) (g : V3 α) (s : Option (V3 α)) :
    Gen.buildStep cell g s = Ref.buildStep cell g s := by
  unfold Gen.buildStep Ref.buildStep Ref.ngbLoc
  cases s <;> simp only [Id.run, bind, pure] <;> split <;> rfl

end generic

/-- C16 / C01: the loop ends exactly when the candidate is farther away than the safety radius -/
theorem buildStep_none_iff (cell : CellRec ℝ) (g : V3 ℝ) (s : Option (V3 ℝ)) :
    Ref.buildStep cell g s = none ↔ cell.safety_radius < V3.length (cell.loc - Ref.ngbLoc g s) := by
  simp only [Ref.buildStep]
  split <;> simp_all

/-- C01: the plane of one round is the bisector of generator and candidate: `n` is the unit vector from the candidate to
the generator, `p` their midpoint, and a point is on the kept side iff it is at least as close to the generator -/
theorem buildStep_halfspace (cell : CellRec ℝ) (g : V3 ℝ) (s : Option (V3 ℝ)) (n p : V3 ℝ)
    (h : Ref.buildStep cell g s = some (n, p)) (hne : cell.loc ≠ Ref.ngbLoc g s) :
    V3.norm2 n = 1 ∧
    p = V3.smul (1 / 2) (cell.loc + Ref.ngbLoc g s) ∧
    (∀ x : V3 ℝ, 0 ≤ V3.dot n x - V3.dot n p ↔ V3.distance2 x cell.loc ≤ V3.distance2 x (Ref.ngbLoc g s)) := by
  set q := Ref.ngbLoc g s with hq
  unfold Ref.buildStep at h
  simp only [← hq] at h
  split at h
  · exact absurd h (by simp)
  · simp only [Option.some.injEq, Prod.mk.injEq] at h
    obtain ⟨hn, hp⟩ := h
    have hpos := norm2_pos_of_ne hne
    have hL : 0 < V3.length (cell.loc - q) := by rw [length_def]; exact Real.sqrt_pos.mpr hpos
    have hL2 : V3.length (cell.loc - q) * V3.length (cell.loc - q) = V3.norm2 (cell.loc - q) := by
      rw [length_def]; exact Real.mul_self_sqrt (le_of_lt hpos)
    set L := V3.length (cell.loc - q) with hLdef
    have hN : (N ℝ 1) / (N ℝ 2) = (1 / 2 : ℝ) := by simp [N]
    refine ⟨?_, ?_, ?_⟩
    · rw [← hn, norm2_def]
      simp only [V3.divs, sub_x, sub_y, sub_z]
      rw [norm2_def] at hL2
      simp only [sub_x, sub_y, sub_z] at hL2
      field_simp
      nlinarith [hL2]
    · rw [← hp, hN]
    · intro x
      rw [← hn, ← hp, hN]
      simp only [dot_def, distance2_def, V3.divs, sub_x, sub_y, sub_z, add_x, add_y, add_z, smul_x, smul_y, smul_z]
      have key : ((cell.loc.x - q.x) / L * x.x + (cell.loc.y - q.y) / L * x.y + (cell.loc.z - q.z) / L * x.z
            - ((cell.loc.x - q.x) / L * (1 / 2 * (cell.loc.x + q.x)) + (cell.loc.y - q.y) / L * (1 / 2 * (cell.loc.y + q.y))
              + (cell.loc.z - q.z) / L * (1 / 2 * (cell.loc.z + q.z))))
          = (((x.x - q.x) * (x.x - q.x) + (x.y - q.y) * (x.y - q.y) + (x.z - q.z) * (x.z - q.z))
              - ((x.x - cell.loc.x) * (x.x - cell.loc.x) + (x.y - cell.loc.y) * (x.y - cell.loc.y) + (x.z - cell.loc.z) * (x.z - cell.loc.z))) / (2 * L) := by
        field_simp
        ring
      rw [key]
      constructor
      · intro h0
        have := (div_nonneg_iff.mp h0)
        rcases this with ⟨h1, _⟩ | ⟨_, h2⟩
        · linarith
        · linarith
      · intro h0
        apply div_nonneg <;> linarith

/-- non-vacuity: generator (0,0,0), candidate (2,0,0), safety radius 10: clip with the plane x = 1, normal (-1,0,0) -/
example : ∃ n p, Ref.buildStep (⟨⟨0, 0, 0⟩, 10⟩ : CellRec ℝ) ⟨2, 0, 0⟩ none = some (n, p) := by
  have h : ¬ (Ref.buildStep (⟨⟨0, 0, 0⟩, 10⟩ : CellRec ℝ) ⟨2, 0, 0⟩ none = none) := by
    rw [buildStep_none_iff]
    simp only [Ref.ngbLoc, length_def, norm2_def, sub_x, sub_y, sub_z, not_lt]
    have : (0 - 2 : ℝ) * (0 - 2) + (0 - 0) * (0 - 0) + (0 - 0) * (0 - 0) = 2 ^ 2 := by norm_num
    rw [this, Real.sqrt_sq (by norm_num)]; norm_num
  cases hb : Ref.buildStep (⟨⟨0, 0, 0⟩, 10⟩ : CellRec ℝ) ⟨2, 0, 0⟩ none with
  | none => exact absurd hb h
  | some v => exact ⟨v.1, v.2, rfl⟩

end MVoro.Obl
