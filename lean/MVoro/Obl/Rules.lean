/-
Obligations for the translated bookkeeping rules (Gen/Rules.lean, regenerated on every run from
src/voronoi/voronoi_cell.rs, src/voronoi/convex_cell.rs, src/voronoi.rs, src/voronoi/voronoi_face.rs): the rule that
decides which faces a cell stores, the skip rule of the symmetric face integrals, the cells a stored face is linked to by
`finalize`, and the closure of `neighbour_ids` are — for every index, every mask, every plane — the functions of the
bookkeeping model `Model/Tess`, about which `Proofs/TessBook` proves C03 (stored exactly once, listed by both),
C07 (storage under masks), C12 (prefix sums, slices, neighbour iterator) and C13 (sym = filtered non-sym = stored).
-/
import MVoro.Gen.Rules
import MVoro.Model.Tess
namespace MVoro.Obl
open MVoro MVoro.Tess

/-- how the model's `shifted : Bool` is seen by the generated rules (`shift : Option DVec3`, only its presence matters) -/
def shiftOpt (b : Bool) : Option Unit := if b then some () else none

/-- `should_construct_face` = `Tess.shouldConstruct`, for every cell index, mask and plane; an index outside the mask would
panic in the code, the model reads `true` there (never reached: masks have one entry per generator) -/
theorem gen_shouldConstructFace_eq (idx : Nat) (mask : Option (List Bool)) (p : PlaneInfo) :
    Gen.shouldConstructFace p.valid p.right (shiftOpt p.shifted) idx (mask.map fun m r => m.getD r true)
      = Tess.shouldConstruct idx mask p := by
  rcases p with ⟨right, shifted, valid, hasTet⟩
  cases right <;> cases shifted <;> cases mask <;>
    simp [Gen.shouldConstructFace, Tess.shouldConstruct, Tess.maskedOut, shiftOpt]

/-- the skip rule of `compute_face_integrals_sym` = `Tess.symSkip` -/
theorem gen_symSkip_eq (idx : Nat) (active : List Bool) (f : Face) :
    Gen.symSkip f.right (shiftOpt f.shifted) idx (fun r => active.getD r false) = Tess.symSkip idx active f := by
  rcases f with ⟨left, right, shifted, plane⟩
  cases right <;> cases shifted <;> simp [Gen.symSkip, Tess.symSkip, shiftOpt]

/-- the cells `finalize` links a stored face to = `Tess.links`: the left cell, and the right cell iff there is one and the
face carries no shift -/
theorem gen_links_eq (f : Face) : Gen.links f.left f.right (shiftOpt f.shifted) = Tess.links f := by
  rcases f with ⟨left, right, shifted, plane⟩
  cases right <;> cases shifted <;> simp [Gen.links, Tess.links, shiftOpt]

/-- `neighbour_ids` = `Tess.neighbourIds`: the generated closure mapped over the cell's face indices -/
theorem gen_neighbourIds_eq (v : Voronoi) (c : VCell) :
    Tess.neighbourIds v c = (Tess.faceIndices v c).filterMap fun i =>
      match v.faces[i]? with
      | none => none
      | some f => Gen.neighbourOf f.left f.right (shiftOpt f.shifted) c.idx := by
  unfold Tess.neighbourIds
  congr 1
  funext i
  cases h : v.faces[i]? with
  | none => rfl
  | some f =>
    rcases f with ⟨left, right, shifted, plane⟩
    cases right <;> cases shifted <;>
      simp [Gen.neighbourOf, Gen.facePeriodic, Gen.faceBoundary, shiftOpt]

/-- non-vacuity: cell 2 of a masked build (`[true, false, true]`) stores its unshifted face towards the unselected cell 1 and
not the one towards the selected cell 0 -/
example : Gen.shouldConstructFace true (some 1) none 2 (some fun r => [true, false, true].getD r true) = true ∧
    Gen.shouldConstructFace true (some 0) none 2 (some fun r => [true, false, true].getD r true) = false := by
  decide

end MVoro.Obl
