/-
Obligations for the translated shape of the parallel loops (Gen/Par.lean, regenerated from src/voronoi.rs
on every run).  Together with `SchedProofs` (any completion order / any split tree of an indexed
collect gives the sequential result) they say: every rayon-guarded statement is the sequential statement
with the source adapter swapped for its indexed parallel counterpart, and only order-preserving indexed
adapters occur.
-/
import MVoro.Gen.Par
namespace MVoro.Obl

def stripPar : String → String
  | "par_iter" => "iter"
  | "par_iter_mut" => "iter_mut"
  | "into_par_iter" => "into_iter"
  | s => s

/-- rayon adapters whose `collect` into a `Vec` preserves index order (indexed sources, `enumerate`, `map`, `zip`;
`filter_map` / `flatten` followed by `collect` keep the relative order of the pieces) -/
def orderPreserving : List String :=
  ["par_iter", "par_iter_mut", "into_par_iter", "enumerate", "map", "zip", "filter_map", "flatten", "collect"]

/-- `unsafe` blocks that exist in the pinned tree and touch no shared state: the unchecked triple borrow in util.rs
and the type-state transmute / `unwrap_unchecked` in convex_cell.rs -/
def benign : List String := ["convex_cell.rs:unsafe", "util.rs:unsafe"]

theorem par_is_seq_with_parallel_source : Gen.parLoops.map (·.map stripPar) = Gen.seqLoops := by decide

theorem par_adapters_order_preserving :
    Gen.parLoops.all (fun c => c.all (fun a => orderPreserving.contains a)) = true := by decide

theorem par_loops_end_in_collect : Gen.parLoops.all (fun c => c.getLast? == some "collect") = true := by decide

theorem no_shared_mutable_state : Gen.sharedStateHits.all (fun h => benign.contains h) = true := by decide

/-- all parallel code sits in the rayon-guarded statements above: there is no function that exists only with the feature -/
theorem no_feature_only_items : Gen.featureOnlyItems = [] := by decide

theorem loops_present : Gen.parLoops ≠ [] := by decide

end MVoro.Obl
