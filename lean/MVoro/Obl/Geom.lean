/-
Obligations tying the translated float helpers `Gen.*` (Gen/Geom.lean, regenerated from src/geometry.rs
on every run) to the hand-written reference `Ref.*` (Model/Geom.lean) that the C19 theorems are about,
over the reals.  Each proof first tries definitional unfolding and otherwise compares components with
`ring` / `field_simp` (complete for (commutative-)ring identities: an algebraically equivalent rewrite of the
source still checks; a rewrite that changes the function does not).  `sqrt`, `|·|`, `signum` and the
comparisons are opaque atoms: their ARGUMENTS are compared by `ring` through congruence.
-/
import MVoro.Gen.Geom
import MVoro.Proofs.GeomHelpers
namespace MVoro.Obl
open MVoro MVoro.GeomHelpers

set_option linter.unusedSimpArgs false
set_option linter.unusedTactic false
set_option linter.unreachableTactic false

theorem sphere_ext {a b : Sphere ℝ} (hc : a.center = b.center) (hr : a.radius = b.radius) : a = b := by
  cases a; cases b; simp_all

@[simp] theorem divs_x (a : V3 ℝ) (k : ℝ) : (V3.divs a k).x = a.x / k := rfl
@[simp] theorem divs_y (a : V3 ℝ) (k : ℝ) : (V3.divs a k).y = a.y / k := rfl
@[simp] theorem divs_z (a : V3 ℝ) (k : ℝ) : (V3.divs a k).z = a.z / k := rfl

/-- compare two 3-vectors componentwise, components as field expressions -/
macro "vec_ring" : tactic =>
  `(tactic| (apply V3.ext' <;>
      (simp only [add_x, add_y, add_z, sub_x, sub_y, sub_z, smul_x, smul_y, smul_z, cross_x, cross_y, cross_z,
        divs_x, divs_y, divs_z, dot_def, norm2_def, det3cols_def, V3.projectOnto, N, Nat.cast_ofNat, Nat.cast_one]
       <;> first | rfl | ring | (field_simp; ring))))

theorem gen_projectOnto_eq (pl : Plane ℝ) (x : V3 ℝ) : Gen.projectOnto pl x = Ref.projectOnto pl x := by
  first
  | rfl
  | (simp only [Gen.projectOnto, Ref.projectOnto]; vec_ring)

theorem gen_intersectPlanes_eq (p0 p1 p2 : Plane ℝ) : Gen.intersectPlanes p0 p1 p2 = Ref.intersectPlanes p0 p1 p2 := by
  first
  | rfl
  | (simp only [Gen.intersectPlanes, Ref.intersectPlanes]; vec_ring)

theorem gen_projectOntoIntersection_eq (a b : Plane ℝ) (x : V3 ℝ) :
    Gen.projectOntoIntersection a b x = Ref.projectOntoIntersection a b x := by
  first
  | rfl
  | (simp only [Gen.projectOntoIntersection, Ref.projectOntoIntersection, gen_intersectPlanes_eq])
  | (simp only [Gen.projectOntoIntersection, Ref.projectOntoIntersection, gen_intersectPlanes_eq, Ref.intersectPlanes]; vec_ring)

theorem gen_signedVolumeTet_eq (v0 v1 v2 v3 : V3 ℝ) : Gen.signedVolumeTet v0 v1 v2 v3 = Ref.signedVolumeTet v0 v1 v2 v3 := by
  first
  | rfl
  | (simp only [Gen.signedVolumeTet, Ref.signedVolumeTet, det3cols_def, sub_x, sub_y, sub_z, N]; ring)

theorem gen_signedAreaTri_eq (v0 v1 v2 t : V3 ℝ) : Gen.signedAreaTri v0 v1 v2 t = Ref.signedAreaTri v0 v1 v2 t := by
  first
  | rfl
  | (simp only [Gen.signedAreaTri, Ref.signedAreaTri]; congr 2 <;> vec_ring)

theorem gen_sphere2_eq (a b : V3 ℝ) : Gen.sphere2 a b = Ref.sphere2 a b := by
  first
  | rfl
  | (apply sphere_ext <;> simp only [Gen.sphere2, Ref.sphere2] <;> first | rfl | vec_ring | ring)

theorem gen_sphere3_eq (a b c : V3 ℝ) : Gen.sphere3 a b c = Ref.sphere3 a b c := by
  first
  | rfl
  | (apply sphere_ext <;> simp only [Gen.sphere3, Ref.sphere3] <;> first | rfl | vec_ring | (congr 2; ring))

theorem gen_sphere4_eq (a b c d : V3 ℝ) : Gen.sphere4 a b c d = Ref.sphere4 a b c d := by
  first
  | rfl
  | (apply sphere_ext <;> simp only [Gen.sphere4, Ref.sphere4, V4.mul, V4.add, V4.ones] <;> first | rfl | vec_ring | ring)

theorem gen_contains_eq (s : Sphere ℝ) (x : V3 ℝ) : Gen.contains s x = Ref.contains s x := by
  first
  | rfl
  | (simp only [Gen.contains, Ref.contains]; congr 2 <;> ring)

theorem gen_extend_eq (s : Sphere ℝ) (x : V3 ℝ) : Gen.extend s x = Ref.extend s x := by
  simp only [Gen.extend, Ref.extend, Id.run, gen_contains_eq]
  cases h : Ref.contains s x <;> simp [h] <;> first | rfl | (apply sphere_ext <;> first | rfl | vec_ring)

end MVoro.Obl
