/-
Obligation for the translated initial cell (Gen/CellInit.lean, regenerated on every run from `ConvexCell::init`): the eight
dual triples of the start box are the ones the exact cell model starts from, and the ones whose orientation is proved
positive for every generator strictly inside the box (C10, T10.5).
-/
import MVoro.Gen.CellInit
import MVoro.Model.Cell
namespace MVoro.Obl
open MVoro

/-- the initial box: the same eight dual triples as the exact cell model starts from -/
theorem gen_initialDuals : Gen.initialDuals = Cell.initDuals := by decide

/-- every wall index 0..5 occurs in exactly four of the eight corners, every corner has three different walls -/
theorem initialDuals_shape :
    (∀ t ∈ Gen.initialDuals, t.1 ≠ t.2.1 ∧ t.2.1 ≠ t.2.2 ∧ t.1 ≠ t.2.2 ∧ t.1 < 6 ∧ t.2.1 < 6 ∧ t.2.2 < 6) ∧
    (∀ w, w < 6 → (Gen.initialDuals.filter fun t => t.1 == w || t.2.1 == w || t.2.2 == w).length = 4) := by
  decide

end MVoro.Obl
