/-
Obligations for the translated `ConvexCell::compute_boundary` (Gen/Boundary.lean, regenerated on every run from
src/voronoi/convex_cell.rs by tools/extract3.py: the `for` over the removed vertices, the inner `loop` with its assertion,
the `match` on `try_extend`, the conditional `swap`, the `break`).  With enough fuel for the inner `loop` (one pass per
removed vertex suffices) the generated function IS `Clip.computeBoundary` of the hand-written model — about which
`Proofs/CycleBoundary` proves that a successful run ends with the boundary of the removed set, for every storage order and
every rotation of the triples (C18).  `Gen.Cycle.*` are replaced by the model's cycle through `Obl/Cycle`.
-/
import MVoro.Gen.Boundary
import MVoro.Obl.Cycle
import MVoro.Model.Clip
namespace MVoro.Obl
open MVoro

variable {V : Type}

/-- one pass through the body of the inner `loop` -/
theorem boundary_loop1_step (dual : V → Dual) (i : Nat) (c : Cycle) (vs : Array V) (idx : Nat) :
    Gen.computeBoundary_loop1 dual i (c, vs, idx) =
      if h : idx < vs.size then
        match Cycle.tryExtend c (dual vs[idx]).a (dual vs[idx]).b (dual vs[idx]).c with
        | some c' => .done (c', (if idx > i then vs.swapIfInBounds i idx else vs), idx)
        | none => .next (c, vs, idx + 1)
      else .panic := by
  unfold Gen.computeBoundary_loop1
  by_cases h : idx < vs.size
  · simp only [h, decide_true, if_true, dite_true, gen_cycle_tryExtend_eq]
    cases Cycle.tryExtend c (dual vs[idx]).a (dual vs[idx]).b (dual vs[idx]).c with
    | some c' => by_cases hi : idx > i <;> simp [hi]
    | none => rfl
  · simp [h]

/-- the inner `loop`: `fuel` passes from `idx` = the model's search `findExt` with the same fuel; on success the cycle is the
extended one and the found vertex has been swapped to position `i` -/
theorem boundary_loop1 (dual : V → Dual) (i : Nat) : ∀ (fuel : Nat) (c : Cycle) (vs : Array V) (idx : Nat),
    MVoro.loopFuel fuel (Gen.computeBoundary_loop1 dual i) (c, vs, idx)
      = (Clip.findExt dual c vs fuel idx).map fun r => (r.2, (if r.1 > i then vs.swapIfInBounds i r.1 else vs), r.1) := by
  intro fuel
  induction fuel with
  | zero => intro c vs idx; rfl
  | succ fuel ih =>
    intro c vs idx
    rw [MVoro.loopFuel, boundary_loop1_step]
    unfold Clip.findExt
    by_cases h : idx < vs.size
    · simp only [h, dite_true]
      cases hx : Cycle.tryExtend c (dual vs[idx]).a (dual vs[idx]).b (dual vs[idx]).c with
      | some c' => rfl
      | none => exact ih c vs (idx + 1)
    · simp [h]

/-- more fuel than vertices left does not change the search -/
theorem findExt_fuel (dual : V → Dual) (c : Cycle) (vs : Array V) : ∀ (fuel idx : Nat), vs.size - idx ≤ fuel →
    Clip.findExt dual c vs fuel idx = Clip.findExt dual c vs (vs.size - idx) idx := by
  intro fuel
  induction fuel with
  | zero => intro idx h; have : vs.size - idx = 0 := by omega
            rw [this]
  | succ fuel ih =>
    intro idx h
    by_cases hlt : idx < vs.size
    · have e : vs.size - idx = (vs.size - (idx + 1)) + 1 := by omega
      rw [e]
      unfold Clip.findExt
      simp only [hlt, dite_true]
      cases Cycle.tryExtend c (dual vs[idx]).a (dual vs[idx]).b (dual vs[idx]).c with
      | some c' => rfl
      | none => exact ih (idx + 1) (by omega)
    · have e : vs.size - idx = 0 := by omega
      rw [e]
      unfold Clip.findExt
      simp [hlt]

/-- one pass of the `for` loop = one step of the model's outer loop -/
theorem boundary_loop2 (dual : V → Dual) (fuel i : Nat) (c : Cycle) (vs : Array V) (hf : vs.size - i ≤ fuel) :
    Gen.computeBoundary_loop2 dual fuel i (c, vs)
      = (Clip.findExt dual c vs (vs.size - i) i).map fun r => (r.2, if r.1 > i then vs.swapIfInBounds i r.1 else vs) := by
  unfold Gen.computeBoundary_loop2
  simp only [boundary_loop1, findExt_fuel dual c vs fuel i hf]
  cases Clip.findExt dual c vs (vs.size - i) i <;> rfl

/-- the `for` loop over `i .. i + k` = the model's `boundaryLoop` (any fuel ≥ k) -/
theorem boundary_for (dual : V → Dual) (fuel : Nat) : ∀ (k i : Nat) (c : Cycle) (vs : Array V) (n : Nat),
    vs.size ≤ fuel → i + k = vs.size → k ≤ n →
    (List.range' i k).foldlM (fun s j => Gen.computeBoundary_loop2 dual fuel j s) (c, vs) = Clip.boundaryLoop dual n i c vs := by
  intro k
  induction k with
  | zero =>
    intro i c vs n _ hik _
    have : ¬ i < vs.size := by omega
    cases n <;> simp [Clip.boundaryLoop, this]
  | succ k ih =>
    intro i c vs n hf hik hn
    obtain ⟨n', rfl⟩ : ∃ n', n = n' + 1 := ⟨n - 1, by omega⟩
    have hlt : i < vs.size := by omega
    simp only [List.range'_succ, List.foldlM_cons, Clip.boundaryLoop, hlt, if_true]
    rw [boundary_loop2 dual fuel i c vs (by omega)]
    cases hx : Clip.findExt dual c vs (vs.size - i) i with
    | none => rfl
    | some r =>
      obtain ⟨idx, c'⟩ := r
      simp only [Option.map_some, bind, Option.bind]
      have hs : (if idx > i then vs.swapIfInBounds i idx else vs).size = vs.size := by
        split <;> simp
      exact ih (i + 1) c' _ n' (by omega) (by omega) (by omega)

/-- **`compute_boundary` = `Clip.computeBoundary`** whenever the inner loop is given at least one pass per vertex -/
theorem gen_computeBoundary_eq (dual : V → Dual) (fuel : Nat) (c : Cycle) (vs : Array V) (hf : vs.size ≤ fuel) :
    Gen.computeBoundary dual fuel c vs = Clip.computeBoundary dual c vs := by
  unfold Gen.computeBoundary Clip.computeBoundary
  by_cases h : 0 < vs.size
  · simp only [h, dite_true, gen_cycle_init_eq, MVoro.loopRangeOpt]
    rw [boundary_for dual fuel (vs.size - 1) 1 _ vs vs.size hf (by omega) (by omega)]
    cases Clip.boundaryLoop dual vs.size 1 (c.init (dual vs[0]).a (dual vs[0]).b (dual vs[0]).c) vs <;> rfl
  · simp [h]

/-- non-vacuity: the two removed corners `(2,5,0)`, `(5,3,0)` of the initial box, on the generated code -/
example : (Gen.computeBoundary id 2 (Cycle.new 7) #[(⟨2, 5, 0⟩ : Dual), ⟨5, 3, 0⟩]).map (fun r => r.1.closedWalk)
    = some [2, 5, 3, 0, 2] := by decide

end MVoro.Obl
