/-
Obligations for the translated vertex construction and safety radius (Gen/VertexRadius.lean, regenerated on every run
from src/voronoi/convex_cell.rs): `Vertex::from_dual` = intersection of its three planes + squared distance from the
generator in the ACTIVE subspace, stored with the dual triple in argument order; `update_safety_radius` = twice the root
of the maximum of those squared distances over all vertices; and the termination test of the clipping loop is the exact
test `4 · max r² < |g − q|²` of the cell model (C16).
-/
import MVoro.Gen.VertexRadius
import MVoro.Obl.Geom
import MVoro.Model.Cell
import MVoro.Drv.Parse
import MVoro.Proofs.ScalarReal
namespace MVoro.Obl
open MVoro MVoro.GeomHelpers

set_option linter.unusedSimpArgs false
set_option linter.unusedVariables false
set_option linter.unusedSectionVars false

section generic
variable {α : Type} [Add α] [Sub α] [Mul α] [Div α] [Neg α] [NatCast α] [Scalar α]

/-- `update_safety_radius`: twice the square root of the maximal squared vertex distance -/
theorem gen_safetyRadiusOfMax_eq (m : α) : Gen.safetyRadiusOfMax m = Ref.safetyRadiusOfMax m := rfl

end generic

/-- the maximum is taken over `radius2` of all vertices -/
theorem gen_safetyRadiusChain : Gen.safetyRadiusChain = ["self", "vertices", "iter", "map:radius2", "max_by:partial_cmp", "expect"] := by
  decide

/-- `from_dual(i, j, k, ..)` stores the dual triple in the order of its arguments -/
theorem gen_vertexDualOrder : Gen.vertexDualOrder = ["i", "j", "k"] := by decide

/-- `Vertex::from_dual` (over the reals, through the obligation of the translated `intersect_planes`) -/
theorem gen_vertexFromDual_eq (pi pj pk : Plane ℝ) (g : V3 ℝ) (d : Dim) :
    Gen.vertexFromDual pi pj pk g d = Ref.vertexFromDual pi pj pk g d := by
  unfold Gen.vertexFromDual Ref.vertexFromDual
  rw [gen_intersectPlanes_eq]
  cases d <;> rfl

theorem ref_radius2_cell (dim : Nat) (hd : dim = 1 ∨ dim = 2 ∨ dim = 3) (g v : Q3) :
    V3.distance2 g (Ref.activeLoc v (Dim.fromNat dim)) = Cell.radius2 dim g v := by
  rcases hd with rfl | rfl | rfl <;> simp [Ref.activeLoc, Dim.fromNat, Cell.radius2, V3.distance2, N]

/-- C16: the termination test `safety_radius < dist` of the clipping loop is the exact test `4·max r² < |g - q|²` of the model -/
theorem safety_test_squared (m : ℝ) (hm : 0 ≤ m) (dx : V3 ℝ) :
    Scalar.lt (Ref.safetyRadiusOfMax m) (V3.length dx) = decide (4 * m < V3.norm2 dx) := by
  have hn := norm2_nonneg dx
  show decide (((2 : ℕ) : ℝ) * Real.sqrt m < Real.sqrt (V3.norm2 dx)) = decide (4 * m < V3.norm2 dx)
  rw [decide_eq_decide]
  have h2 : ((2 : ℕ) : ℝ) * Real.sqrt m = Real.sqrt (4 * m) := by
    rw [show (4 : ℝ) * m = 2 ^ 2 * m by norm_num, Real.sqrt_mul (by positivity), Real.sqrt_sq (by norm_num)]
    norm_num
  rw [h2]
  exact Real.sqrt_lt_sqrt_iff (by positivity)

end MVoro.Obl
