/-
Obligations tying the translator output `Gen.*` (regenerated from
src/geometry.rs on every run) to the hand-written reference `Ref.*`.
Proved semantically (`ring`, case split), never by syntactic `rfl`.
-/
import MVoro.Gen.InSphere
import MVoro.Model.InSphere
import Mathlib.Tactic.Ring

namespace MVoro.Obl
open MVoro

set_option maxRecDepth 65536 in
/-- the determinant the code expands is the reference determinant, for all integers -/
theorem gen_inSphereDet_eq (a b c d v : I3 Int) :
    Gen.inSphereDet a b c d v = Ref.inSphereDet a b c d v := by
  simp only [Gen.inSphereDet, Ref.inSphereDet, Ref.bigInt, Ref.det3, Ref.det2, Id.run, pure, bind]
  ring

private theorem cmp_sign (d : Int) :
    (match compare d 0 with | .lt => (-1 : Int) | .eq => 0 | .gt => 1) = Int.sign d := by
  rcases Int.lt_trichotomy d 0 with h | h | h
  · have : compare d 0 = .lt := by simp [Int.compare_eq_lt, h]
    rw [this]; simp [Int.sign_eq_neg_one_of_neg h]
  · subst h; simp
  · have : compare d 0 = .gt := by simp [Int.compare_eq_gt, h]
    rw [this]; simp [Int.sign_eq_one_of_pos h]

/-- every backend's sign-extraction arm returns `Int.sign` of the determinant -/
theorem gen_signExtract_eq (d : Int) :
    Gen.signExtract_ibig d = Int.sign d ∧ Gen.signExtract_dashu d = Int.sign d ∧
    Gen.signExtract_rug d = Int.sign d ∧ Gen.signExtract_malachite d = Int.sign d ∧
    Gen.signExtract_num_bigint d = Int.sign d := by
  refine ⟨rfl, rfl, rfl, ?_, ?_⟩
  · simp only [Gen.signExtract_malachite]; exact cmp_sign d
  · simp only [Gen.signExtract_num_bigint]; exact cmp_sign d

end MVoro.Obl
