/-
Obligations for the translated input handling per dimensionality (Gen/DimInput.lean, regenerated on every run from
src/voronoi/generator.rs and src/voronoi.rs): `Generator::new`, `Dimensionality::vector_is_valid` and the axis
normalisation block of BOTH builders equal their references (Model/Build.lean) for every scalar type — so also for `f64` —
the two builders normalise identically (C13), and the references are the functions the exact oracle uses
(`Oracle.projectGen`, `Oracle.normalise`), about which `Proofs/LowDim` proves that the result depends on the active
coordinates only (C08).
-/
import MVoro.Gen.DimInput
import MVoro.Model.Oracle
import MVoro.Drv.Parse
import MVoro.Proofs.ScalarReal
namespace MVoro.Obl
open MVoro MVoro.GeomHelpers

set_option linter.unusedSimpArgs false
set_option linter.unusedVariables false
set_option linter.unusedSectionVars false

section generic
variable {α : Type} [Add α] [Sub α] [Mul α] [Div α] [Neg α] [NatCast α] [Scalar α]

/-- `Generator::new` stores the projection onto the active subspace (any scalar type, so also for `f64`) -/
theorem gen_generatorNew_eq (loc : V3 α) (d : Dim) : Gen.generatorNew loc d = Ref.activeLoc loc d := by
  cases d <;> rfl

/-- `Dimensionality::vector_is_valid` -/
theorem gen_vectorIsValid_eq (d : Dim) (v : V3 α) : Gen.vectorIsValid d v = Ref.vectorIsValid d v := by
  cases d <;> rfl

/-- the normalisation block of the direct builder -/
theorem gen_normaliseDirect_eq (a w : V3 α) (d : Dim) : Gen.normaliseDirect a w d = Ref.normalise a w d := by
  cases d <;> rfl

/-- the normalisation block of the integrator -/
theorem gen_normaliseIntegrator_eq (a w : V3 α) (d : Dim) : Gen.normaliseIntegrator a w d = Ref.normalise a w d := by
  cases d <;> rfl

/-- C13: both builders normalise their input in the same way -/
theorem gen_normalise_routes_agree (a w : V3 α) (d : Dim) : Gen.normaliseDirect a w d = Gen.normaliseIntegrator a w d := by
  rw [gen_normaliseDirect_eq, gen_normaliseIntegrator_eq]

end generic

/-! ### the references are what the exact oracle and the theorems use -/

theorem ref_activeLoc_oracle (dim : Nat) (hd : dim = 1 ∨ dim = 2 ∨ dim = 3) (g : Q3) :
    Ref.activeLoc g (Dim.fromNat dim) = Oracle.projectGen dim g := by
  rcases hd with rfl | rfl | rfl <;> simp [Ref.activeLoc, Dim.fromNat, Oracle.projectGen, N]

theorem ref_normalise_oracle (dim : Nat) (hd : dim = 1 ∨ dim = 2 ∨ dim = 3) (a w : Q3) :
    Ref.normalise a w (Dim.fromNat dim) = Oracle.normalise dim a w := by
  rcases hd with rfl | rfl | rfl <;> simp [Ref.normalise, Dim.fromNat, Oracle.normalise, N] <;> norm_num

/-- C08: a vector is valid for a dimensionality iff its unused components vanish (over the reals) -/
theorem vectorIsValid_iff (d : Dim) (v : V3 ℝ) :
    Ref.vectorIsValid d v = true ↔ (d = .OneD → v.y = 0 ∧ v.z = 0) ∧ (d = .TwoD → v.z = 0) := by
  cases d <;> simp [Ref.vectorIsValid, eqb_zero_iff, N]


/-- non-vacuity: garbage in the unused coordinates of a 1D input disappears -/
example : Gen.generatorNew (⟨3, 7, -2⟩ : V3 Rat) .OneD = ⟨3, 0, 0⟩ ∧
    Gen.normaliseDirect (⟨0, 5, 5⟩ : V3 Rat) ⟨2, 9, 9⟩ .OneD = (⟨0, -1/2, -1/2⟩, ⟨2, 1, 1⟩) := by
  constructor <;> simp [gen_generatorNew_eq, gen_normaliseDirect_eq, Ref.activeLoc, Ref.normalise, N] <;> norm_num

end MVoro.Obl
