/-
Obligations for the translated `SimpleCycle` (Gen/Cycle.lean, regenerated on every run from src/simple_cycle.rs by
tools/extract3.py, statement by statement): every method of the Rust type computes — for every cycle state and every
argument — the corresponding function of the hand-written array model `Model/Cycle`, about which
`Proofs/CycleBoundary` proves C18 (the array refines the abstract successor function; a successful greedy reconstruction
ends with the boundary of the removed set, for every storage order and rotation).
-/
import MVoro.Gen.Cycle
import MVoro.Model.Cycle
set_option linter.unusedSimpArgs false
namespace MVoro.Obl
open MVoro

theorem gen_cycle_new_eq (capacity : Nat) : Gen.Cycle.new capacity = Cycle.new capacity := rfl

theorem gen_cycle_contains_eq (c : Cycle) (i : Nat) : Gen.Cycle.contains c i = Cycle.contains c i := rfl

theorem gen_cycle_grow_eq (c : Cycle) : Gen.Cycle.grow c = Cycle.grow c := rfl

/-- the reset loop of `init`: `n` iterations of the generated loop body = `resetWalk n` (and the walk position) -/
theorem loop_reset (n : Nat) : ∀ (lo : Nat) (c : Cycle) (cur : Nat),
    (List.range' lo n).foldl (fun (s : Cycle × Nat) (_ : Nat) => (Cycle.set s.1 s.2 s.2, Cycle.get s.1 s.2)) (c, cur)
      = (Cycle.resetWalk n c cur, (List.range' lo n).foldl (fun (s : Cycle × Nat) _ => (Cycle.set s.1 s.2 s.2, Cycle.get s.1 s.2)) (c, cur) |>.2) := by
  induction n with
  | zero => intro lo c cur; rfl
  | succ n ih =>
    intro lo c cur
    simp only [List.range'_succ, List.foldl_cons, Cycle.resetWalk]
    rw [ih]

/-- `init` = `Cycle.init`: reset walk over the old cycle, then the triangle -/
theorem gen_cycle_init_eq (c : Cycle) (a b d : Nat) : Gen.Cycle.init c a b d = Cycle.init c a b d := by
  unfold Gen.Cycle.init Cycle.init MVoro.loopRange
  simp only [Nat.sub_zero]
  rw [loop_reset]

/-- `try_extend` = the three rotations of `Cycle.tryRot` in order -/
theorem gen_cycle_tryExtend_eq (c : Cycle) (a b d : Nat) : Gen.Cycle.tryExtend c a b d = Cycle.tryExtend c a b d := by
  have r : ∀ ti tj tk, Cycle.tryRot c ti tj tk =
      if (!c.contains ti && c.contains tj && c.contains tk && c.get tk == tj) = true then
        some { (c.set tk ti).set ti tj with len := ((c.set tk ti).set ti tj).len + 1 }
      else if (c.contains ti && c.contains tj && c.contains tk && c.get tk == tj && c.get tj == ti) = true then
        some { (if ((c.set tk ti).set tj tj).start == tj then { (c.set tk ti).set tj tj with start := ti } else (c.set tk ti).set tj tj) with
                len := (if ((c.set tk ti).set tj tj).start == tj then { (c.set tk ti).set tj tj with start := ti } else (c.set tk ti).set tj tj).len - 1 }
      else none := fun _ _ _ => rfl
  have g : Gen.Cycle.tryExtend c a b d =
      match Cycle.tryRot c a b d with
      | some r => some r
      | none => match Cycle.tryRot c b d a with
        | some r => some r
        | none => Cycle.tryRot c d a b := by
    rw [r, r, r]
    unfold Gen.Cycle.tryExtend
    simp only [Gen.Cycle.contains, Cycle.contains]
    have e1 : (0 + 1) % 3 = 1 := rfl
    have e2 : (0 + 2) % 3 = 2 := rfl
    have e3 : (1 + 1) % 3 = 2 := rfl
    have e4 : (1 + 2) % 3 = 0 := rfl
    have e5 : (2 + 1) % 3 = 0 := rfl
    have e6 : (2 + 2) % 3 = 1 := rfl
    simp only [e1, e2, e3, e4, e5, e6]
    have g0 : (#[a, b, d] : Array Nat).getD 0 0 = a := rfl
    have g1 : (#[a, b, d] : Array Nat).getD 1 0 = b := rfl
    have g2 : (#[a, b, d] : Array Nat).getD 2 0 = d := rfl
    have h0 : ∀ x y z : Bool, (#[x, y, z] : Array Bool).getD 0 false = x := fun _ _ _ => rfl
    have h1 : ∀ x y z : Bool, (#[x, y, z] : Array Bool).getD 1 false = y := fun _ _ _ => rfl
    have h2 : ∀ x y z : Bool, (#[x, y, z] : Array Bool).getD 2 false = z := fun _ _ _ => rfl
    simp only [g0, g1, g2, h0, h1, h2]
    by_cases c1 : (!c.get a != a && c.get b != b && c.get d != d && c.get d == b) = true
    · rw [if_pos c1, if_pos c1]
    rw [if_neg c1, if_neg c1]
    by_cases c2 : (c.get a != a && c.get b != b && c.get d != d && c.get d == b && c.get b == a) = true
    · rw [if_pos c2, if_pos c2]
    rw [if_neg c2, if_neg c2]
    by_cases c3 : (!c.get b != b && c.get d != d && c.get a != a && c.get a == d) = true
    · rw [if_pos c3, if_pos c3]
    rw [if_neg c3, if_neg c3]
    by_cases c4 : (c.get b != b && c.get d != d && c.get a != a && c.get a == d && c.get d == b) = true
    · rw [if_pos c4, if_pos c4]
    rw [if_neg c4, if_neg c4]
  rw [g]
  rfl

/-- the iterator: `iter()` starts at `start`, `next()` yields the current entry and moves to its successor; hence
`iter().take(n)` is the model's `walk n` from `start` -/
def takeIter : Nat → CycleIter → List Nat
  | 0, _ => []
  | n + 1, it => match (Gen.Cycle.iterNext it).1 with
    | some x => x :: takeIter n (Gen.Cycle.iterNext it).2
    | none => []

theorem takeIter_eq_walk (n : Nat) : ∀ (c : Cycle) (cur : Nat), takeIter n ⟨c, cur⟩ = Cycle.walk n c cur := by
  induction n with
  | zero => intro c cur; rfl
  | succ n ih => intro c cur; simp only [takeIter, Gen.Cycle.iterNext, Cycle.walk]; rw [ih]

/-- `self.boundary.iter().take(self.boundary.len + 1)` = `Cycle.closedWalk` -/
theorem gen_cycle_iter_take_eq (c : Cycle) : takeIter (c.len + 1) (Gen.Cycle.iter c) = Cycle.closedWalk c := by
  unfold Gen.Cycle.iter Cycle.closedWalk
  exact takeIter_eq_walk _ _ _

/-- non-vacuity: the unit test of simple_cycle.rs, run on the generated definitions -/
example : (do
    let c := Gen.Cycle.init (Gen.Cycle.new 7) 2 4 1
    let c ← Gen.Cycle.tryExtend c 1 5 2
    let c ← Gen.Cycle.tryExtend c 5 1 3
    let c ← Gen.Cycle.tryExtend c 5 3 6
    let c ← Gen.Cycle.tryExtend c 4 3 1
    let c ← Gen.Cycle.tryExtend c 3 4 6
    pure (c.len, takeIter c.len (Gen.Cycle.iter c))) = some (4, [2, 4, 6, 5]) := by decide

end MVoro.Obl
