/-
Obligations for the translated pieces of `ConvexCell::clip_by_plane` (Gen/ClipVertex.lean, regenerated on every run from
src/voronoi/convex_cell.rs):

* the decision for one vertex: removed iff the filter says "strictly outside", or the filter ties and the exact predicate
  is negative (C05);
* the exact predicate is asked about (generator, right points of the vertex's three planes in dual order, right point of the
  new plane) — the argument order for which `Props/C10` proves "negative iff inside the circumsphere" (C10);
* a new vertex is `(cur, next, new plane)` (C18); the swap-to-tail partition and the walk once around the cycle are
  compared exactly by the correspondence (op clipperm), not re-read from the syntax.
-/
import MVoro.Gen.ClipVertex
import MVoro.Proofs.ScalarReal
namespace MVoro.Obl
open MVoro MVoro.GeomHelpers

set_option linter.unusedSimpArgs false
set_option linter.unusedVariables false
set_option linter.unusedSectionVars false

/-- the exact predicate is asked about (generator, right points of the vertex's three planes in dual order, right point of the new plane) -/
theorem gen_exactArgs : Gen.exactArgs = ["gen", "dual0", "dual1", "dual2", "new"] := by decide
/-- a new vertex along the boundary cycle is `(cur, next, new plane)`: counter-clockwise like the vertices it replaces -/
theorem gen_newVertexDual : Gen.newVertexDual = ["cur", "next", "p_idx"] := by decide
section generic
variable {α : Type} [Add α] [Sub α] [Mul α] [Div α] [Neg α] [NatCast α] [Scalar α]

theorem gen_clipRemoved_eq (f e : α) : Gen.clipRemoved f e = Ref.clipRemoved f e := by
  unfold Gen.clipRemoved Ref.clipRemoved Scalar.eqb
  simp only [Id.run, bind, pure]
  split <;> rfl

end generic

/-- C05: a vertex is removed iff the filter says "strictly outside", or the filter ties and the exact predicate is negative -/
theorem clipRemoved_iff (f e : ℝ) : Ref.clipRemoved f e = true ↔ f < 0 ∨ (f = 0 ∧ e < 0) := by
  unfold Ref.clipRemoved Scalar.eqb
  simp only [N, Nat.cast_zero]
  by_cases h0 : f = 0
  · subst h0; simp
  · have : ¬ (f ≤ 0 ∧ 0 ≤ f) := fun h => h0 (le_antisymm h.1 h.2)
    simp [this, h0]

/-- non-vacuity: a filter tie (0) with a negative determinant removes the vertex, a positive filter value keeps it -/
example : Ref.clipRemoved (0 : ℝ) (-1) = true ∧ Ref.clipRemoved (1 : ℝ) (-1) = false := by
  constructor
  · rw [clipRemoved_iff]; right; constructor <;> norm_num
  · have := (clipRemoved_iff (1 : ℝ) (-1)).not
    simp only [Bool.not_eq_true] at this
    rw [this]; norm_num

end MVoro.Obl
