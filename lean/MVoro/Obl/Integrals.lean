/-
Obligations for the translated `collect` / `finalize` steps of the built-in integrals (Gen/Integrals.lean, regenerated on
every run from src/voronoi/integrals.rs and src/voronoi/voronoi_face.rs): generated = reference (Model/Build.lean) over
the reals, through the obligations of the translated `signed_volume_tet` / `signed_area_tri`; and the meaning of the
references: feeding a list of oriented tetrahedra accumulates the signed volume and the first moment, `finalize` turns the
moment into the volume-weighted mean of the tetrahedron centroids (C01, C02, C13, C14); the same for faces with signed
triangle areas (C04); the stored face normal is never touched by `collect` / `finalize`; the plain `VolumeIntegral` /
`AreaIntegral` accumulate the same sums as the centroid variants (C13).
-/
import MVoro.Gen.Integrals
import MVoro.Obl.Geom
import MVoro.Proofs.ScalarReal
import MVoro.Proofs.GeomHelpers
namespace MVoro.Obl
open MVoro MVoro.GeomHelpers

set_option linter.unusedSimpArgs false
set_option linter.unusedVariables false

/-! ### generated = reference

Proved semantically (case split on the sign test, then componentwise field arithmetic), so that renamed locals, early
returns, extracted helpers and local bindings in the source keep checking. -/

theorem lit25 : (Scalar.lit 25 2 : ℝ) = 1 / 4 := by simp [Scalar.lit, instScalarReal]; norm_num

/-- componentwise comparison of the results of an integral step -/
macro "acc_tail" : tactic =>
  `(tactic| (
    simp only [Id.run, bind, pure, gen_signedVolumeTet_eq, gen_signedAreaTri_eq, lit25, N, slt_iff]
    try split_ifs
    all_goals first
      | rfl
      | (simp only [VolAcc.mk.injEq, FaceAcc.mk.injEq, FaceNAcc.mk.injEq, VolOnly.mk.injEq, AreaOnly.mk.injEq, Prod.mk.injEq]
         refine ?_
         repeat' constructor
         all_goals first
           | rfl
           | ring
           | (apply V3.ext' <;> simp only [add_x, add_y, add_z, smul_x, smul_y, smul_z, Nat.cast_ofNat, Nat.cast_one, Nat.cast_zero] <;>
                first | rfl | ring | (field_simp) | (field_simp; ring)))))

theorem gen_volCentroidCollect_eq (a : VolAcc ℝ) (v0 v1 v2 g : V3 ℝ) :
    Gen.volCentroidCollect a v0 v1 v2 g = Ref.volCollect a v0 v1 v2 g := by
  simp only [Gen.volCentroidCollect, Ref.volCollect]; acc_tail

theorem gen_volCentroidFinalize_eq (a : VolAcc ℝ) : Gen.volCentroidFinalize a = Ref.volFinalize a := by
  simp only [Gen.volCentroidFinalize, Ref.volFinalize]; acc_tail

theorem gen_volOnlyCollect_eq (a : VolOnly ℝ) (v0 v1 v2 g : V3 ℝ) :
    (Gen.volOnlyCollect a v0 v1 v2 g).volume = (Ref.volCollect ⟨a.volume, ⟨0, 0, 0⟩⟩ v0 v1 v2 g).volume := by
  simp only [Gen.volOnlyCollect, Ref.volCollect]; acc_tail

theorem gen_volOnlyFinalize_eq (a : VolOnly ℝ) : Gen.volOnlyFinalize a = a := by
  simp only [Gen.volOnlyFinalize]; acc_tail

theorem gen_areaCentroidCollect_eq (a : FaceAcc ℝ) (v0 v1 v2 g : V3 ℝ) :
    ((Gen.areaCentroidCollect a v0 v1 v2 g).area, (Gen.areaCentroidCollect a v0 v1 v2 g).centroid)
      = Ref.faceCollect a.area a.centroid v0 v1 v2 g := by
  simp only [Gen.areaCentroidCollect, Ref.faceCollect]; acc_tail

theorem gen_areaCentroidFinalize_eq (a : FaceAcc ℝ) :
    Gen.areaCentroidFinalize a = ⟨a.area, V3.smul (Ref.faceNorm a.area) a.centroid⟩ := by
  simp only [Gen.areaCentroidFinalize, Ref.faceNorm]; acc_tail

theorem gen_areaOnlyCollect_eq (a : AreaOnly ℝ) (v0 v1 v2 g : V3 ℝ) :
    (Gen.areaOnlyCollect a v0 v1 v2 g).area = (Ref.faceCollect a.area ⟨0, 0, 0⟩ v0 v1 v2 g).1 := by
  simp only [Gen.areaOnlyCollect, Ref.faceCollect]; acc_tail

theorem gen_areaOnlyFinalize_eq (a : AreaOnly ℝ) : Gen.areaOnlyFinalize a = a := by
  simp only [Gen.areaOnlyFinalize]; acc_tail

/-- the face integral behind `VoronoiFace` accumulates exactly like `AreaCentroidIntegral` and keeps its normal -/
theorem gen_voronoiFaceCollect_eq (a : FaceNAcc ℝ) (v0 v1 v2 g : V3 ℝ) :
    ((Gen.voronoiFaceCollect a v0 v1 v2 g).area, (Gen.voronoiFaceCollect a v0 v1 v2 g).centroid)
      = Ref.faceCollect a.area a.centroid v0 v1 v2 g ∧ (Gen.voronoiFaceCollect a v0 v1 v2 g).normal = a.normal := by
  constructor
  · simp only [Gen.voronoiFaceCollect, Ref.faceCollect]; acc_tail
  · simp only [Gen.voronoiFaceCollect]; acc_tail

theorem gen_voronoiFaceFinalize_eq (a : FaceNAcc ℝ) :
    Gen.voronoiFaceFinalize a = ⟨a.area, V3.smul (Ref.faceNorm a.area) a.centroid, a.normal⟩ := by
  simp only [Gen.voronoiFaceFinalize, Ref.faceNorm]; acc_tail

/-- **C13**: the stored face values and `AreaCentroidIntegral` are the same function of the triangle stream -/
theorem voronoiFace_eq_areaCentroid (a : FaceNAcc ℝ) (v0 v1 v2 g : V3 ℝ) :
    (Gen.voronoiFaceCollect a v0 v1 v2 g).area = (Gen.areaCentroidCollect ⟨a.area, a.centroid⟩ v0 v1 v2 g).area ∧
    (Gen.voronoiFaceCollect a v0 v1 v2 g).centroid = (Gen.areaCentroidCollect ⟨a.area, a.centroid⟩ v0 v1 v2 g).centroid := by
  have h1 := (gen_voronoiFaceCollect_eq a v0 v1 v2 g).1
  have h2 := gen_areaCentroidCollect_eq ⟨a.area, a.centroid⟩ v0 v1 v2 g
  rw [← h2] at h1
  exact ⟨(Prod.mk.inj h1).1, (Prod.mk.inj h1).2⟩

/-! ### meaning of the references -/

/-- a tetrahedron stream: base triangle `(v0, v1, v2)`, apex = generator -/
structure Tet where
  v0 : V3 ℝ
  v1 : V3 ℝ
  v2 : V3 ℝ

noncomputable def volFold (g : V3 ℝ) (ts : List Tet) (acc : VolAcc ℝ) : VolAcc ℝ :=
  ts.foldl (fun a t => Ref.volCollect a t.v0 t.v1 t.v2 g) acc

/-- after feeding a stream the accumulator holds init + Σ signed volumes and init + Σ volume · (sum of the four vertices) -/
theorem volFold_spec (g : V3 ℝ) (ts : List Tet) (acc : VolAcc ℝ) :
    (volFold g ts acc).volume = acc.volume + (ts.map fun t => Ref.signedVolumeTet t.v0 t.v1 t.v2 g).sum ∧
    (volFold g ts acc).centroid.x = acc.centroid.x + (ts.map fun t => Ref.signedVolumeTet t.v0 t.v1 t.v2 g * (t.v0.x + t.v1.x + t.v2.x + g.x)).sum ∧
    (volFold g ts acc).centroid.y = acc.centroid.y + (ts.map fun t => Ref.signedVolumeTet t.v0 t.v1 t.v2 g * (t.v0.y + t.v1.y + t.v2.y + g.y)).sum ∧
    (volFold g ts acc).centroid.z = acc.centroid.z + (ts.map fun t => Ref.signedVolumeTet t.v0 t.v1 t.v2 g * (t.v0.z + t.v1.z + t.v2.z + g.z)).sum := by
  induction ts generalizing acc with
  | nil => simp [volFold]
  | cons t ts ih =>
    have := ih (Ref.volCollect acc t.v0 t.v1 t.v2 g)
    simp only [volFold, List.foldl_cons, List.map_cons, List.sum_cons] at this ⊢
    obtain ⟨h0, h1, h2, h3⟩ := this
    refine ⟨?_, ?_, ?_, ?_⟩
    · rw [h0]; simp only [Ref.volCollect]; ring
    · rw [h1]; simp only [Ref.volCollect, add_x, smul_x]; ring
    · rw [h2]; simp only [Ref.volCollect, add_y, smul_y]; ring
    · rw [h3]; simp only [Ref.volCollect, add_z, smul_z]; ring

/-- `finalize`: for a positive volume the centroid is the accumulated moment divided by `4 V` — the volume-weighted mean
of the tetrahedron centroids `(v0 + v1 + v2 + g) / 4`; the volume is untouched -/
theorem volFinalize_spec (a : VolAcc ℝ) (h : 0 < a.volume) :
    (Ref.volFinalize a).volume = a.volume ∧ (Ref.volFinalize a).centroid = V3.smul (1 / (4 * a.volume)) a.centroid := by
  have hl : Scalar.lt (N ℝ 0) a.volume = true := by simp [N, h]
  simp only [Ref.volFinalize, hl, if_true, true_and]
  congr 1
  simp only [N]; push_cast; field_simp

/-- a non-positive volume gives the centroid `(0,0,0)` — this is what an unconstructed or degenerate cell reports -/
theorem volFinalize_nonpos (a : VolAcc ℝ) (h : a.volume ≤ 0) : (Ref.volFinalize a).centroid = ⟨0, 0, 0⟩ := by
  have hl : Scalar.lt (N ℝ 0) a.volume = false := by simp [N, h]
  simp only [Ref.volFinalize, hl]
  apply V3.ext' <;> simp [N]

theorem faceNorm_spec (A : ℝ) (h : 0 < A) : Ref.faceNorm A = 1 / (3 * A) := by
  have hl : Scalar.lt (N ℝ 0) A = true := by simp [N, h]
  simp only [Ref.faceNorm, hl, if_true, N]; push_cast; ring

/-- non-vacuity: one tetrahedron over the unit triangle with apex below it -/
example : (volFold ⟨0, 0, -1⟩ [⟨⟨0, 0, 0⟩, ⟨1, 0, 0⟩, ⟨0, 1, 0⟩⟩] ⟨0, ⟨0, 0, 0⟩⟩).volume
    = 0 + ([Ref.signedVolumeTet ⟨0, 0, 0⟩ ⟨1, 0, 0⟩ ⟨0, 1, 0⟩ (⟨0, 0, -1⟩ : V3 ℝ)]).sum := by
  have := (volFold_spec ⟨0, 0, -1⟩ [⟨⟨0, 0, 0⟩, ⟨1, 0, 0⟩, ⟨0, 1, 0⟩⟩] ⟨0, ⟨0, 0, 0⟩⟩).1
  simpa using this

end MVoro.Obl
