/-
Obligations for the translated keys of the periodic best-first search (Gen/NN.lean, regenerated on every run from
src/rtree_nn.rs): generated = reference (Model/Build.lean), and over the reals:

* the key of an inner node under a query shift is a lower bound of the key of every leaf inside its envelope
  (`envelope_key_lower_bound`) — the hypothesis under which `BestFirst` proves "complete and in order of distance" (C17);
* the key of a leaf is the squared distance between the generator and the image `point + shift` of the query point,
  i.e. between the query point and the image `loc - shift` of the generator (`leaf_key_is_image_distance`);
* the reported shift is minus the query shift and absent exactly for the zero shift (`reportedShift_spec`), so that
  `generator + reported shift` is the image that realises the key (C06);
* images are enumerated over `{-1,0,1}` along active axes only, each query shift is `(i,j,k) ⊙ width`.
-/
import MVoro.Gen.NN
import MVoro.Proofs.GeomHelpers
import MVoro.Proofs.ScalarReal
namespace MVoro.Obl
open MVoro MVoro.GeomHelpers

set_option linter.unusedSimpArgs false
set_option linter.unusedVariables false
set_option linter.unusedSectionVars false

section generic
variable {α : Type} [Add α] [Sub α] [Mul α] [Div α] [Neg α] [NatCast α] [Scalar α]

theorem gen_reportedShift_eq (s : V3 α) : Gen.reportedShift s = Ref.reportedShift s := rfl

theorem gen_nnClamp_eq (x lo hi : α) : Gen.nnClamp x lo hi = Ref.clamp x lo hi := rfl

end generic

theorem gen_wrapEnvDist2_eq (b : Box3 ℝ) (p s : V3 ℝ) : Gen.wrapEnvDist2 b p s = Ref.wrapEnvDist2 b p s := by
  first
  | rfl
  | (simp only [Gen.wrapEnvDist2, Ref.wrapEnvDist2, Id.run, bind, pure, gen_nnClamp_eq]; try ring)

theorem gen_wrapPointDist2_eq (l p s : V3 ℝ) : Gen.wrapPointDist2 l p s = Ref.wrapPointDist2 l p s := by
  first
  | (simp only [Gen.wrapPointDist2, Ref.wrapPointDist2, Id.run, bind, pure, norm2_def, sub_x, sub_y, sub_z, add_x, add_y, add_z]; done)
  | (simp only [Gen.wrapPointDist2, Ref.wrapPointDist2, Id.run, bind, pure, norm2_def, sub_x, sub_y, sub_z, add_x, add_y, add_z]; try ring)

theorem gen_imageRanges :
    Gen.imageRangeI = (-1, 1) ∧
    (∀ d, Gen.imageRangeJ d = if d = .OneD then (0, 0) else (-1, 1)) ∧
    (∀ d, Gen.imageRangeK d = if d = .ThreeD then (-1, 1) else (0, 0)) := by
  refine ⟨rfl, ?_, ?_⟩ <;> intro d <;> cases d <;> rfl

theorem gen_queryShift_eq (i j k : ℝ) (w : V3 ℝ) : Gen.queryShift i j k w = ⟨i * w.x, j * w.y, k * w.z⟩ := rfl


/-! ### meaning over the reals -/

theorem smax_def (a b : ℝ) : Scalar.max a b = max a b := by
  unfold Scalar.max
  by_cases h : a ≤ b <;> simp [h, max_eq_right, max_eq_left, le_of_lt]
  exact le_of_lt (not_le.mp h)

theorem smin_def (a b : ℝ) : Scalar.min a b = min a b := by
  unfold Scalar.min
  by_cases h : a ≤ b <;> simp [h, min_eq_left, min_eq_right, le_of_lt]
  exact le_of_lt (not_le.mp h)

/-- one coordinate: the clamped point is at least as close to `x` as any `l` in `[lo, hi]` -/
theorem clamp_closer (x lo hi l : ℝ) (h1 : lo ≤ l) (h2 : l ≤ hi) :
    (Ref.clamp x lo hi - x) * (Ref.clamp x lo hi - x) ≤ (x - l) * (x - l) := by
  unfold Ref.clamp
  rw [smin_def, smax_def]
  rcases le_total x lo with hx | hx
  · rw [max_eq_right hx, min_eq_left (le_trans h1 h2)]; nlinarith
  · rw [max_eq_left hx]
    rcases le_total x hi with hy | hy
    · rw [min_eq_left hy]; nlinarith [mul_self_nonneg (x - l)]
    · rw [min_eq_right hy]; nlinarith

/-- **C17 (T17.2)** on the translated keys: for a generator inside the envelope of a node, the node's key is a lower
bound of the generator's key, under every query shift -/
theorem envelope_key_lower_bound (b : Box3 ℝ) (loc p s : V3 ℝ)
    (hx : b.lower.x ≤ loc.x ∧ loc.x ≤ b.upper.x) (hy : b.lower.y ≤ loc.y ∧ loc.y ≤ b.upper.y)
    (hz : b.lower.z ≤ loc.z ∧ loc.z ≤ b.upper.z) :
    Ref.wrapEnvDist2 b p s ≤ Ref.wrapPointDist2 loc p s := by
  simp only [Ref.wrapEnvDist2, Ref.wrapPointDist2, norm2_def, sub_x, sub_y, sub_z, add_x, add_y, add_z]
  have h1 := clamp_closer (p.x + s.x) b.lower.x b.upper.x loc.x hx.1 hx.2
  have h2 := clamp_closer (p.y + s.y) b.lower.y b.upper.y loc.y hy.1 hy.2
  have h3 := clamp_closer (p.z + s.z) b.lower.z b.upper.z loc.z hz.1 hz.2
  nlinarith [h1, h2, h3]

/-- the key of a leaf is the squared distance from the query point to the image `loc - shift` of the generator -/
theorem leaf_key_is_image_distance (loc p s : V3 ℝ) :
    Ref.wrapPointDist2 loc p s = V3.distance2 p (loc - s) := by
  simp only [Ref.wrapPointDist2, norm2_def, distance2_def, sub_x, sub_y, sub_z, add_x, add_y, add_z]
  ring

/-- **C06 / C17**: the reported shift is absent iff the query shift is zero, and otherwise minus the query shift — so
`generator + reported shift` is the image whose distance the key is -/
theorem reportedShift_spec (s : V3 ℝ) :
    (Ref.reportedShift s = none ↔ s = ⟨0, 0, 0⟩) ∧ (∀ r, Ref.reportedShift s = some r → r = -s) ∧
    (∀ loc p : V3 ℝ, Ref.wrapPointDist2 loc p s = V3.distance2 p (Ref.ngbLoc loc (Ref.reportedShift s))) := by
  have e : ∀ x : ℝ, Scalar.eqb x (N ℝ 0) = true ↔ x = 0 := by
    intro x
    show (decide (x ≤ ((0 : ℕ) : ℝ)) && decide (((0 : ℕ) : ℝ) ≤ x)) = true ↔ x = 0
    simp only [Nat.cast_zero, Bool.and_eq_true, decide_eq_true_eq]
    exact ⟨fun h => le_antisymm h.1 h.2, fun h => by subst h; exact ⟨le_refl _, le_refl _⟩⟩
  have hz : (Scalar.eqb s.x (N ℝ 0) && Scalar.eqb s.y (N ℝ 0) && Scalar.eqb s.z (N ℝ 0)) = true ↔ s = ⟨0, 0, 0⟩ := by
    simp only [Bool.and_eq_true, e]
    constructor
    · rintro ⟨⟨h1, h2⟩, h3⟩; exact V3.ext' h1 h2 h3
    · intro h; subst h; simp
  refine ⟨?_, ?_, ?_⟩
  · unfold Ref.reportedShift
    split
    · rename_i h; simp [hz.mp h]
    · rename_i h; simp; exact fun h' => h (hz.mpr h')
  · intro r hr
    unfold Ref.reportedShift at hr
    split at hr
    · exact absurd hr (by simp)
    · simpa using hr.symm
  · intro loc p
    unfold Ref.reportedShift
    split
    · rename_i h
      have := hz.mp h
      subst this
      simp only [Ref.ngbLoc, Ref.wrapPointDist2, norm2_def, distance2_def, sub_x, sub_y, sub_z, add_x, add_y, add_z]
      ring
    · simp only [Ref.ngbLoc, Ref.wrapPointDist2, norm2_def, distance2_def, sub_x, sub_y, sub_z, add_x, add_y, add_z]
      show _ = (p.x - (loc.x + -s.x)) * (p.x - (loc.x + -s.x)) + (p.y - (loc.y + -s.y)) * (p.y - (loc.y + -s.y))
        + (p.z - (loc.z + -s.z)) * (p.z - (loc.z + -s.z))
      ring

end MVoro.Obl
