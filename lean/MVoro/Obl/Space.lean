/-
Obligation for the translated placement of the k-NN grid cells (Gen/Space.lean, regenerated from
src/space.rs on every run): the anchor of cell (i, j, k) is `anchor + (i·c_width.x, j·c_width.y, k·c_width.z)`,
which is what the lower-bound lemma `KnnProofs.minDist2_lower_bound` (through `InBox`) and the model
`Knn.mkSpace true` assume.
-/
import MVoro.Gen.Space
namespace MVoro.Obl

theorem cellLocAxes_componentwise : Gen.cellLocAxes = [0, 1, 2] := by decide

end MVoro.Obl
