/-
Obligation for the translated placement of the k-NN grid cells (Gen/Space.lean, regenerated from
src/space.rs on every run): the anchor of cell (i, j, k) is `anchor + (i·c_width.x, j·c_width.y, k·c_width.z)`,
which is what the lower-bound lemma `KnnProofs.minDist2_lower_bound` (through `InBox`) and the model
`Knn.mkSpace true` assume.
-/
import MVoro.Gen.Space
namespace MVoro.Obl

theorem cellLocAxes_componentwise : Gen.cellLocAxes = [0, 1, 2] := by decide

/-- `closest_loc` clamps every coordinate to `[loc, loc + width]` of the SAME coordinate: it is `Knn.closestLoc`, whose value
is the closest point of the cell (`KnnProofs.clampAxis_closest`) and makes `min_distance_squared` a lower bound -/
theorem closestLoc_componentwise : Gen.closestLocAxes = [(0, 0, 0), (1, 1, 1), (2, 2, 2)] := by decide

/-- `min_distance_to_face` uses each width component exactly once, with its own coordinate -/
theorem minDistToFace_componentwise : Gen.minDistToFaceWidthAxes = [0, 1, 2] := by decide

/-- the ring termination bound uses the SMALLEST cell width: a particle in a cell at ring distance > r is at least
`dist_to_face + r * min width` away (`KnnProofs.ring_bound_3d`); the largest width would overestimate and stop too early -/
theorem ringBound_uses_min_width : Gen.ringBoundWidthReduction = "min_element" := by decide

end MVoro.Obl
