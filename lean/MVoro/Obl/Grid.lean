/-
Obligations for the translated grid domain constants (Gen/Grid.lean, regenerated from
src/voronoi/boundary.rs on every run): with these constants every position the algorithm can
query is mapped strictly inside `[1, 2)`, with a margin of 1/16 on both sides.
Stated generically in the constants, so that any other *valid* choice still checks.
-/
import MVoro.Gen.Grid
import MVoro.Model.Grid
import MVoro.Proofs.Misc
import Mathlib.Tactic.Linarith
import Mathlib.Tactic.FieldSimp
import Mathlib.Tactic.NormNum
import Mathlib.Tactic.Ring
import Mathlib.Algebra.Order.Field.Rat

namespace MVoro.Obl
open MVoro.Grid

/-- generic range lemma: if `(pad - 1)/span ≥ 1/16` and `(pad + 2)/span ≤ 15/16` then every `x ∈ [A - W, A + 2W]`
is rescaled into `[1 + 1/16, 2 - 1/16]` -/
theorem rescale_range_general (pad span : Rat) (hs : 0 < span)
    (h1 : 1 / 16 ≤ (pad - 1) / span) (h2 : (pad + 2) / span ≤ 15 / 16)
    (A W x : Rat) (hW : 0 < W) (hlo : A - W ≤ x) (hhi : x ≤ A + 2 * W) :
    1 + 1 / 16 ≤ rescaleExact pad span A W x ∧ rescaleExact pad span A W x ≤ 2 - 1 / 16 := by
  have hsw : 0 < span * W := mul_pos hs hW
  have key : rescaleExact pad span A W x = 1 + ((x - A) / W + pad) / span := by
    unfold rescaleExact
    field_simp
    ring
  rw [key]
  have ht1 : -1 ≤ (x - A) / W := by
    rw [le_div_iff₀ hW]; linarith
  have ht2 : (x - A) / W ≤ 2 := by
    rw [div_le_iff₀ hW]; linarith
  constructor
  · have : (pad - 1) / span ≤ ((x - A) / W + pad) / span := by
      apply div_le_div_of_nonneg_right _ hs.le; linarith
    linarith
  · have : ((x - A) / W + pad) / span ≤ (pad + 2) / span := by
      apply div_le_div_of_nonneg_right _ hs.le; linarith
    linarith

/-- the constants the code uses satisfy the side conditions -/
theorem gen_grid_constants_ok :
    0 < Gen.gridSpan ∧ 1 / 16 ≤ (Gen.gridPad - 1) / Gen.gridSpan ∧ (Gen.gridPad + 2) / Gen.gridSpan ≤ 15 / 16 := by
  unfold Gen.gridSpan Gen.gridPad
  norm_num

/-- **the obligation**: with the translated constants, every queried position (`A - W ≤ x ≤ A + 2W`,
see `GridProofs.queried_positions`) lands in `[17/16, 31/16] ⊂ [1, 2)` in exact arithmetic -/
theorem gen_grid_in_range (A W x : Rat) (hW : 0 < W) (hlo : A - W ≤ x) (hhi : x ≤ A + 2 * W) :
    1 + 1 / 16 ≤ rescaleExact Gen.gridPad Gen.gridSpan A W x ∧ rescaleExact Gen.gridPad Gen.gridSpan A W x ≤ 2 - 1 / 16 :=
  rescale_range_general _ _ gen_grid_constants_ok.1 gen_grid_constants_ok.2.1 gen_grid_constants_ok.2.2 A W x hW hlo hhi

/-- the mask keeps exactly the 52 mantissa bits -/
theorem gen_mantissa_mask : Gen.mantissaMask = 2 ^ 52 - 1 := by decide

end MVoro.Obl
