/-
Obligations for the translated grid domain constants (Gen/Grid.lean, regenerated from
src/voronoi/boundary.rs on every run): with these constants every position the algorithm can
query is mapped strictly inside `[1, 2)`, with a margin of 1/16 on both sides.
Stated generically in the constants, so that any other *valid* choice still checks.
-/
import MVoro.Gen.Grid
import MVoro.Model.Grid
import MVoro.Proofs.Misc
import Mathlib.Tactic.Linarith
import Mathlib.Tactic.FieldSimp
import Mathlib.Tactic.NormNum
import Mathlib.Tactic.Ring
import Mathlib.Algebra.Order.Field.Rat

namespace MVoro.Obl
open MVoro.Grid

/-- generic range lemma: if `(pad - 1)/span ≥ 1/16` and `(pad + 2)/span ≤ 15/16` then every `x ∈ [A - W, A + 2W]`
is rescaled into `[1 + 1/16, 2 - 1/16]` -/
theorem rescale_range_general (pad span : Rat) (hs : 0 < span)
    (h1 : 1 / 16 ≤ (pad - 1) / span) (h2 : (pad + 2) / span ≤ 15 / 16)
    (A W x : Rat) (hW : 0 < W) (hlo : A - W ≤ x) (hhi : x ≤ A + 2 * W) :
    1 + 1 / 16 ≤ rescaleExact pad span A W x ∧ rescaleExact pad span A W x ≤ 2 - 1 / 16 := by
  have hsw : 0 < span * W := mul_pos hs hW
  have key : rescaleExact pad span A W x = 1 + ((x - A) / W + pad) / span := by
    unfold rescaleExact
    field_simp
    ring
  rw [key]
  have ht1 : -1 ≤ (x - A) / W := by
    rw [le_div_iff₀ hW]; linarith
  have ht2 : (x - A) / W ≤ 2 := by
    rw [div_le_iff₀ hW]; linarith
  constructor
  · have : (pad - 1) / span ≤ ((x - A) / W + pad) / span := by
      apply div_le_div_of_nonneg_right _ hs.le; linarith
    linarith
  · have : ((x - A) / W + pad) / span ≤ (pad + 2) / span := by
      apply div_le_div_of_nonneg_right _ hs.le; linarith
    linarith

/-- the constants the code uses satisfy the side conditions -/
theorem gen_grid_constants_ok :
    0 < Gen.gridSpan ∧ 1 / 16 ≤ (Gen.gridPad - 1) / Gen.gridSpan ∧ (Gen.gridPad + 2) / Gen.gridSpan ≤ 15 / 16 := by
  unfold Gen.gridSpan Gen.gridPad
  norm_num

/-- **the obligation**: with the translated constants, every queried position (`A - W ≤ x ≤ A + 2W`,
see `GridProofs.queried_positions`) lands in `[17/16, 31/16] ⊂ [1, 2)` in exact arithmetic -/
theorem gen_grid_in_range (A W x : Rat) (hW : 0 < W) (hlo : A - W ≤ x) (hhi : x ≤ A + 2 * W) :
    1 + 1 / 16 ≤ rescaleExact Gen.gridPad Gen.gridSpan A W x ∧ rescaleExact Gen.gridPad Gen.gridSpan A W x ≤ 2 - 1 / 16 :=
  rescale_range_general _ _ gen_grid_constants_ok.1 gen_grid_constants_ok.2.1 gen_grid_constants_ok.2.2 A W x hW hlo hhi

/-- generic range lemma for a shared grid scale `G ≥ W`: the value stays in `(1, 2 - 1/16]`; the lower margin is
`(pad - 1)/span · W/G` -/
theorem rescaleG_range_general (pad span : Rat) (hs : 0 < span) (h1 : 0 < (pad - 1) / span) (h2 : (pad + 2) / span ≤ 15 / 16)
    (A W G x : Rat) (hW : 0 < W) (hG : W ≤ G) (hlo : A - W ≤ x) (hhi : x ≤ A + 2 * W) :
    1 + (pad - 1) / span * (W / G) ≤ rescaleExactG pad span A W G x ∧ rescaleExactG pad span A W G x ≤ 2 - 1 / 16 := by
  have hG0 : 0 < G := lt_of_lt_of_le hW hG
  have key : rescaleExactG pad span A W G x = 1 + ((x - A) / W + pad) / span * (W / G) := by
    unfold rescaleExactG
    field_simp
    ring
  rw [key]
  have ht1 : -1 ≤ (x - A) / W := by
    rw [le_div_iff₀ hW]; linarith
  have ht2 : (x - A) / W ≤ 2 := by
    rw [div_le_iff₀ hW]; linarith
  have hr0 : 0 < W / G := div_pos hW hG0
  have hr1 : W / G ≤ 1 := by rw [div_le_one hG0]; exact hG
  have hm1 : (pad - 1) / span ≤ ((x - A) / W + pad) / span := by
    apply div_le_div_of_nonneg_right _ hs.le; linarith
  have hm2 : ((x - A) / W + pad) / span ≤ (pad + 2) / span := by
    apply div_le_div_of_nonneg_right _ hs.le; linarith
  constructor
  · have := mul_le_mul_of_nonneg_right hm1 hr0.le
    linarith
  · have hnn : 0 ≤ ((x - A) / W + pad) / span := le_trans h1.le hm1
    have : ((x - A) / W + pad) / span * (W / G) ≤ ((x - A) / W + pad) / span * 1 := mul_le_mul_of_nonneg_left hr1 hnn
    linarith

/-- **the obligation (shared scale)**: with the translated constants and any grid width `G ≥ W`, every queried position lands in
`(1, 31/16] ⊂ [1, 2)` in exact arithmetic -/
theorem gen_gridG_in_range (A W G x : Rat) (hW : 0 < W) (hG : W ≤ G) (hlo : A - W ≤ x) (hhi : x ≤ A + 2 * W) :
    1 < rescaleExactG Gen.gridPad Gen.gridSpan A W G x ∧ rescaleExactG Gen.gridPad Gen.gridSpan A W G x ≤ 2 - 1 / 16 := by
  have hc := gen_grid_constants_ok
  have hpos : 0 < (Gen.gridPad - 1) / Gen.gridSpan := lt_of_lt_of_le (by norm_num) hc.2.1
  have h := rescaleG_range_general _ _ hc.1 hpos hc.2.2 A W G x hW hG hlo hhi
  have hG0 : 0 < G := lt_of_lt_of_le hW hG
  have : 0 < (Gen.gridPad - 1) / Gen.gridSpan * (W / G) := mul_pos hpos (div_pos hW hG0)
  exact ⟨by linarith [h.1], h.2⟩

/-- **the obligation (similarity)**: the source rescales all active axes with ONE grid width (the largest active extent), so
that the map to the integer grid is a similarity on the subspace the generators live in and the exact in-sphere test is
the Euclidean one (`InSphereProofs.inSphereDet_scale`, `inSphereDet_translate`, `inSphereDet_planar`); the per-axis
rescaling of the pinned tree fails this (`InSphereWitness.anisotropic_scaling_flips_sign`) -/
theorem gen_grid_shared_scale : Gen.gridSharedScale = true := by decide

/-- the mask keeps exactly the 52 mantissa bits -/
theorem gen_mantissa_mask : Gen.mantissaMask = 2 ^ 52 - 1 := by decide

end MVoro.Obl
