/-
Obligations for the translated floating-point filter (Gen/HalfSpace.lean, regenerated from
src/voronoi/half_space.rs on every run): `HalfSpace::new` caches `d = n·p` and the error bound
`1e-13 · (1 + |n|·|p|)` (componentwise absolute values), `HalfSpace::clip` returns 0 ("ask the exact predicate")
iff `|n·v - d|` is below that bound and the sign of `n·v - d` otherwise.  Proved over the reals, semantically.
Why the form of the bound matters (and `1 + |n·p|` would not do): `bound_dominates_value`.
-/
import MVoro.Gen.HalfSpace
import MVoro.Proofs.GeomHelpers
namespace MVoro.Obl
open MVoro MVoro.GeomHelpers

set_option linter.unusedSimpArgs false

theorem gen_halfSpaceNew_eq (n p : V3 ℝ) : Gen.halfSpaceNew n p = Ref.halfSpaceNew n p := by
  first
  | rfl
  | (simp only [Gen.halfSpaceNew, Ref.halfSpaceNew, HalfSpaceM.mk.injEq, true_and]; constructor <;> ring)

theorem gen_halfSpaceClip_eq (h : HalfSpaceM ℝ) (v : V3 ℝ) : Gen.halfSpaceClip h v = Ref.halfSpaceClip h v := by
  first
  | rfl
  | (simp only [Gen.halfSpaceClip, Ref.halfSpaceClip]; congr 2 <;> ring)

/-- the bound the code uses is at least `1e-13 · (1 + |n·p|)`: a bound that scales with the SIZE of the terms dominates one
that scales with the value of their sum (which can cancel to 0 for a plane through the origin whose midpoint is far away) -/
theorem bound_dominates_value (n p : V3 ℝ) :
    (1 / 10 ^ 13 : ℝ) * (1 + |V3.dot n p|) ≤ (Ref.halfSpaceNew n p).errb := by
  have h : |V3.dot n p| ≤ V3.dot (V3.abs n) (V3.abs p) := by
    simp only [dot_def, V3.abs]
    show |n.x * p.x + n.y * p.y + n.z * p.z| ≤ |n.x| * |p.x| + |n.y| * |p.y| + |n.z| * |p.z|
    calc |n.x * p.x + n.y * p.y + n.z * p.z| ≤ |n.x * p.x + n.y * p.y| + |n.z * p.z| := abs_add_le _ _
      _ ≤ |n.x * p.x| + |n.y * p.y| + |n.z * p.z| := by linarith [abs_add_le (n.x * p.x) (n.y * p.y)]
      _ = |n.x| * |p.x| + |n.y| * |p.y| + |n.z| * |p.z| := by rw [abs_mul, abs_mul, abs_mul]
  show (1 / 10 ^ 13 : ℝ) * (1 + |V3.dot n p|) ≤ Scalar.lit 1 13 * ((N ℝ 1) + V3.dot (V3.abs n) (V3.abs p))
  have hl : (Scalar.lit 1 13 : ℝ) = 1 / 10 ^ 13 := by simp [Scalar.lit, instScalarReal]
  rw [hl]
  have : (N ℝ 1) = 1 := by simp [N]
  rw [this]
  have hpos : (0 : ℝ) ≤ 1 / 10 ^ 13 := by positivity
  exact mul_le_mul_of_nonneg_left (by linarith) hpos

end MVoro.Obl
