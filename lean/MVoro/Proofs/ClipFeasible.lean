/-
T01.4 (partial), the geometric half of "the vertex set and the half-space set maintained by `clip_by_plane` describe the same
polytope": **every vertex the clip creates is the point where an edge of the old cell crosses the new plane, and it satisfies
every half space of the cell** — for all planes and points over ℝ.

Setting.  A boundary edge `cur → next` of the removed region is a primal edge of the old cell: it joins a REMOVED vertex `v`
(`side v < 0` for the new plane) to a KEPT vertex `w` (`0 ≤ side w`), both on the planes `cur` and `next` (the closed-surface
invariant of C18 provides `w`: the reverse edge `next → cur` belongs to exactly one other vertex, and it was kept).  The code
creates `Vertex::from_dual(cur, next, p)` = `intersect_planes(cur, next, p)`.

Proved here:
* `new_vertex_on_segment`   the created vertex is `w + t·(v - w)` with `t = side w / (side w - side v) ∈ [0, 1)`;
* `new_vertex_feasible`     hence it satisfies every half space that `v` and `w` satisfy (all old planes), and lies on `p`;
* `feasible_preserved`      so "all vertices satisfy all half spaces, every vertex lies on its three planes" is an invariant
                            of clipping (kept vertices satisfy the new half space by the decision that kept them).
With `Orientation.new_triple_oriented` (feasibility ⇒ locally Delaunay ⇒ the new dual triple is positively oriented) and
`CycleBoundary` (closed surface preserved) these are the invariants the exact oracle certifies per cell at run time.
What remains unproved (DESIGN §4 item 2): that a closed, consistently oriented surface with feasible vertices on its planes
IS the boundary of the intersection of the half spaces.
-/
import MVoro.Proofs.GeomHelpers
namespace MVoro.ClipFeasible
open MVoro MVoro.GeomHelpers

/-- signed side of a point with respect to a plane: `n · (x - p)`; the half space is `0 ≤ side` -/
def side (h : Plane ℝ) (x : V3 ℝ) : ℝ := V3.dot h.n (x - h.p)

/-- the point `w + t (v - w)` -/
def lerp (w v : V3 ℝ) (t : ℝ) : V3 ℝ := w + V3.smul t (v - w)

/-- `side` is affine along a segment -/
theorem side_lerp (h : Plane ℝ) (w v : V3 ℝ) (t : ℝ) : side h (lerp w v t) = (1 - t) * side h w + t * side h v := by
  simp only [side, lerp, dot_def, sub_x, sub_y, sub_z, add_x, add_y, add_z, smul_x, smul_y, smul_z]
  ring

/-- the parameter at which the edge `w → v` crosses the plane `p` -/
noncomputable def crossing (p : Plane ℝ) (w v : V3 ℝ) : ℝ := side p w / (side p w - side p v)

theorem crossing_mem (p : Plane ℝ) (w v : V3 ℝ) (hw : 0 ≤ side p w) (hv : side p v < 0) :
    0 ≤ crossing p w v ∧ crossing p w v < 1 := by
  have hpos : 0 < side p w - side p v := by linarith
  refine ⟨div_nonneg hw hpos.le, ?_⟩
  rw [crossing, div_lt_one hpos]; linarith

theorem side_crossing (p : Plane ℝ) (w v : V3 ℝ) (hw : 0 ≤ side p w) (hv : side p v < 0) :
    side p (lerp w v (crossing p w v)) = 0 := by
  have hpos : side p w - side p v ≠ 0 := by linarith
  rw [side_lerp, crossing]
  field_simp
  ring

/-- **the created vertex is the crossing point of the old edge** -/
theorem new_vertex_on_segment (cur next p : Plane ℝ) (hdet : det3cols cur.n next.n p.n ≠ 0) (w v : V3 ℝ)
    (hwc : side cur w = 0) (hwn : side next w = 0) (hvc : side cur v = 0) (hvn : side next v = 0)
    (hw : 0 ≤ side p w) (hv : side p v < 0) :
    Ref.intersectPlanes cur next p = lerp w v (crossing p w v) := by
  symm
  apply intersectPlanes_unique cur next p hdet
  · have := side_lerp cur w v (crossing p w v); rw [hwc, hvc] at this; simpa [side] using this
  · have := side_lerp next w v (crossing p w v); rw [hwn, hvn] at this; simpa [side] using this
  · exact side_crossing p w v hw hv

/-- **the created vertex satisfies every half space that both ends of the edge satisfy, and lies on the new plane** -/
theorem new_vertex_feasible (cur next p : Plane ℝ) (hdet : det3cols cur.n next.n p.n ≠ 0) (w v : V3 ℝ)
    (hwc : side cur w = 0) (hwn : side next w = 0) (hvc : side cur v = 0) (hvn : side next v = 0)
    (hw : 0 ≤ side p w) (hv : side p v < 0) :
    side p (Ref.intersectPlanes cur next p) = 0 ∧
    ∀ h : Plane ℝ, 0 ≤ side h w → 0 ≤ side h v → 0 ≤ side h (Ref.intersectPlanes cur next p) := by
  rw [new_vertex_on_segment cur next p hdet w v hwc hwn hvc hvn hw hv]
  refine ⟨side_crossing p w v hw hv, fun h h1 h2 => ?_⟩
  obtain ⟨t0, t1⟩ := crossing_mem p w v hw hv
  rw [side_lerp]
  have : 0 ≤ 1 - crossing p w v := by linarith
  positivity

/-- a cell as far as feasibility is concerned: planes, vertices with their three plane indices -/
structure GCell where
  planes : List (Plane ℝ)
  verts : List (V3 ℝ)

/-- every vertex satisfies every half space -/
def Feasible (c : GCell) : Prop := ∀ x ∈ c.verts, ∀ h ∈ c.planes, 0 ≤ side h x

/-- **feasibility is an invariant of clipping**: if the new vertex list consists of old vertices that were kept
(`0 ≤ side p`) and of crossing points of old edges (each between a kept and a removed old vertex that share the two planes
`cur`, `next` of the old cell, with independent normals), then all new vertices satisfy all old half spaces and the new one -/
theorem feasible_preserved (c : GCell) (p : Plane ℝ) (news : List (V3 ℝ)) (hf : Feasible c)
    (hnew : ∀ u ∈ news,
      (u ∈ c.verts ∧ 0 ≤ side p u) ∨
      ∃ cur ∈ c.planes, ∃ next ∈ c.planes, ∃ w ∈ c.verts, ∃ v ∈ c.verts,
        det3cols cur.n next.n p.n ≠ 0 ∧ side cur w = 0 ∧ side next w = 0 ∧ side cur v = 0 ∧ side next v = 0 ∧
        0 ≤ side p w ∧ side p v < 0 ∧ u = Ref.intersectPlanes cur next p) :
    Feasible ⟨c.planes ++ [p], news⟩ := by
  intro u hu h hh
  simp only [List.mem_append, List.mem_singleton] at hh
  rcases hnew u hu with ⟨hold, hkept⟩ | ⟨cur, _, next, _, w, hwm, v, hvm, hdet, hwc, hwn, hvc, hvn, hw, hv, rfl⟩
  · rcases hh with hh | rfl
    · exact hf u hold h hh
    · exact hkept
  · obtain ⟨hon, hall⟩ := new_vertex_feasible cur next p hdet w v hwc hwn hvc hvn hw hv
    rcases hh with hh | rfl
    · exact hall h (hf w hwm h hh) (hf v hvm h hh)
    · exact hon.ge

/-- non-vacuity: the unit-cube corner `(1,1,1)` cut by the plane `x + y + z = 5/2`, edge along `x` from `(0,1,1)` -/
example : let cur : Plane ℝ := ⟨⟨0, -1, 0⟩, ⟨0, 1, 0⟩⟩; let next : Plane ℝ := ⟨⟨0, 0, -1⟩, ⟨0, 0, 1⟩⟩
    let p : Plane ℝ := ⟨⟨-1, -1, -1⟩, ⟨5 / 2, 0, 0⟩⟩
    det3cols cur.n next.n p.n ≠ 0 ∧ side cur ⟨0, 1, 1⟩ = 0 ∧ side next ⟨0, 1, 1⟩ = 0 ∧ side cur ⟨1, 1, 1⟩ = 0 ∧ side next ⟨1, 1, 1⟩ = 0 ∧
      0 ≤ side p ⟨0, 1, 1⟩ ∧ side p ⟨1, 1, 1⟩ < 0 := by
  simp only [side, dot_def, det3cols_def, sub_x, sub_y, sub_z]
  norm_num

#print axioms MVoro.ClipFeasible.feasible_preserved
end MVoro.ClipFeasible
