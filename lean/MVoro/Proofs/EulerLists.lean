/-
C15: Euler's relation for the face lists that `with_faces` returns (`Model/Faces.withFaces`, compared with the code token by token).

`Faces.euler nv faces = nv − (Σ half edges)/2 + #faces` is what the check computes from the implementation's face lists.  Here it is
proved to be 2 for every cell reachable from the start box by clips: the ordering step succeeds for every plane
(`SortCycle.sort_of_surface`), the list of plane `p` has as many entries as there are vertices on `p` (`M T p`), no face has exactly one
vertex (`M_ne_one`, from `FaceCycle.face_cycle`), the sizes add up to `3 V` (`sum_M`), the non-empty lists are the planes of the surface
(`card_planes`), and `V + 4 = 2 F` is `EulerReach.euler_reach`.
-/
import MVoro.Proofs.SortCycle
namespace MVoro.EulerLists
open MVoro MVoro.Faces MVoro.FacesProofs MVoro.CycleBoundary MVoro.Euler MVoro.EulerClip MVoro.EulerReach MVoro.FaceCycle MVoro.SortCycle Relation Function

/-- number of vertices on plane `p` -/
def M (T : List Dual) (p : Nat) : Nat := (T.filter fun d => decide (HasPlane d p)).length

theorem M_cons (d : Dual) (T : List Dual) (p : Nat) : M (d :: T) p = (if HasPlane d p then 1 else 0) + M T p := by
  unfold M
  by_cases h : HasPlane d p
  · simp [h]; omega
  · simp [h]

theorem ind_eq_occ {d : Dual} (hd : Distinct3 d) (p : Nat) : (if HasPlane d p then 1 else 0) = occ d p := by
  rw [occ_distinct d hd.1 hd.2.1 (fun e => hd.2.2 e.symm)]
  unfold HasPlane
  rfl

/-- every vertex lies on three planes: the face sizes add up to `3 V` -/
theorem sum_M (T : List Dual) (n : Nat) (hD : ∀ d ∈ T, Distinct3 d) (hn : ∀ d ∈ T, d.a < n ∧ d.b < n ∧ d.c < n) :
    ((List.range n).map (M T)).sum = 3 * T.length := by
  induction T with
  | nil =>
    have : M [] = fun _ => 0 := by funext p; simp [M]
    simp [this]
  | cons d T ih =>
    have : (List.range n).map (M (d :: T)) = (List.range n).map (fun p => occ d p + M T p) :=
      List.map_congr_left fun p _ => by rw [M_cons, ind_eq_occ (hD d (by simp))]
    rw [this, sum_map_add, total_occ_three d n (hn d (by simp)).1 (hn d (by simp)).2.1 (hn d (by simp)).2.2,
      ih (fun d hd => hD d (by simp [hd])) (fun d hd => hn d (by simp [hd]))]
    simp only [List.length_cons]; omega

/-- the planes that carry a face are exactly the planes of the surface -/
theorem card_planes (T : List Dual) (n : Nat) (hn : ∀ d ∈ T, d.a < n ∧ d.b < n ∧ d.c < n) :
    ((List.range n).filter fun p => decide (0 < M T p)).length = (planesOf T).card := by
  rw [← List.toFinset_card_of_nodup (List.nodup_range.filter _)]
  congr 1
  ext p
  simp only [List.mem_toFinset, List.mem_filter, List.mem_range, decide_eq_true_eq, mem_planesOf]
  unfold M
  rw [List.length_pos_iff_exists_mem]
  constructor
  · rintro ⟨_, d, hd⟩
    rw [List.mem_filter] at hd
    exact ⟨d, hd.1, by simpa using hd.2⟩
  · rintro ⟨d, hd, hp⟩
    refine ⟨?_, d, List.mem_filter.2 ⟨hd, by simpa using hp⟩⟩
    obtain ⟨h1, h2, h3⟩ := hn d hd
    rcases hp with rfl | rfl | rfl <;> assumption

/-- no face has exactly one vertex -/
theorem M_ne_one {T : List Dual} (hC : Closed T) (hN : T.Nodup) (hD : ∀ d ∈ T, Distinct3 d) (p : Nat) (hL : LinkConn T p) : M T p ≠ 1 := by
  intro h1
  have hpos : 0 < (T.filter fun d => decide (HasPlane d p)).length := by unfold M at h1; omega
  obtain ⟨d₀, hd₀⟩ := List.length_pos_iff_exists_mem.1 hpos
  rw [List.mem_filter] at hd₀
  have h₀ : AtFace T p d₀ := ⟨hd₀.1, by simpa using hd₀.2⟩
  obtain ⟨_, _, hst, hper⟩ := face_cycle hC hN hD hL h₀
  unfold M at h1
  rw [h1] at hper
  have h := hst 0
  simp only [Function.iterate_zero, id_eq, zero_add] at h
  rw [hper] at h
  obtain ⟨_, x, hx, hx'⟩ := h
  have hd := hD d₀ h₀.1
  have hne := edge_ne hd hx
  -- (p, x) and (x, p) in one triple with three different entries: impossible
  obtain ⟨e1, e2, e3⟩ := hd
  rw [mem_edges] at hx hx'
  simp only [Prod.mk.injEq] at hx hx'
  rcases hx with ⟨a1, a2⟩ | ⟨a1, a2⟩ | ⟨a1, a2⟩ <;> rcases hx' with ⟨b1, b2⟩ | ⟨b1, b2⟩ | ⟨b1, b2⟩ <;>
    exact hne (by omega)


/-! ## the face lists `with_faces` returns -/

def h2 (m : Nat) : Nat := if m ≥ 3 then m else if m == 2 then 2 else 0

theorem h2_eq {m : Nat} (h : m ≠ 1) : h2 m = m := by
  unfold h2
  by_cases h3 : m ≥ 3
  · simp [h3]
  · by_cases h4 : m = 2
    · simp [h4]
    · have : m = 0 := by omega
      simp [this]

theorem zip_map_self {α β : Type} (f : α → β) (l : List α) : (l.map f).zip l = l.map fun x => (f x, x) := by
  induction l with
  | nil => rfl
  | cons x xs ih => simp [ih]

theorem sum_filter_zero {α : Type} (l : List α) (q : α → Bool) (g : α → Nat) (hz : ∀ x ∈ l, q x = false → g x = 0) :
    ((l.filter q).map g).sum = (l.map g).sum := by
  induction l with
  | nil => rfl
  | cons x xs ih =>
    have ih' := ih fun y hy => hz y (by simp [hy])
    by_cases hq : q x = true
    · simp [hq, ih']
    · have hq' : q x = false := by simpa using hq
      simp [hq', ih', hz x (by simp) hq']

theorem length_filter_map {α β : Type} (l : List α) (f : α → β) (q : β → Bool) :
    ((l.map f).filter q).length = (l.filter fun x => q (f x)).length := by
  rw [List.filter_map, List.length_map]; rfl

/-- the ordered vertex list of plane `p` -/
noncomputable def L (duals : Array Dual) (p : Nat) : List Nat :=
  ((sortFaceVertices duals p (collected duals p).toArray).getD #[]).toList

/-- **Euler's relation for the face lists that `with_faces` returns**, for every cell reachable from the start box -/
theorem reachable_euler_lists (duals : Array Dual) (h : ReflTransGen CStep box8 duals.toList) (n : Nat)
    (hn : ∀ d ∈ duals.toList, d.a < n ∧ d.b < n ∧ d.c < n) :
    ∃ faces, withFaces duals n = some faces ∧ euler duals.size faces = 2 := by
  obtain ⟨hC, hN, hD, hL, hE⟩ := euler_reach h
  set T := duals.toList with hT
  -- the ordering step, plane by plane
  have hsort : ∀ p, sortFaceVertices duals p (collected duals p).toArray = some (L duals p).toArray ∧ (L duals p).length = M T p := by
    intro p
    obtain ⟨res, h1, h2, _⟩ := sort_of_surface duals p hC hN hD (hL p)
    unfold L
    rw [h1]
    exact ⟨by simp, by simpa [M] using h2⟩
  have hcollect : collect duals n = (List.range n).map fun p => (collected duals p).toArray := by
    unfold collect collected; rfl
  have hsorted : ((collect duals n).zip (List.range n)).map (fun (x : Array Nat × Nat) => (sortFaceVertices duals x.2 x.1).map fun s => (x.2, s.toList)) =
      (List.range n).map fun p => some (p, L duals p) := by
    rw [hcollect, zip_map_self, List.map_map]
    apply List.map_congr_left
    intro p _
    simp [(hsort p).1]
  let all : List (Nat × List Nat) := (List.range n).map fun p => (p, L duals p)
  have hwf : withFaces duals n = some (all.filter fun f => !f.2.isEmpty) := by
    unfold withFaces
    simp only
    rw [hsorted]
    have : ((List.range n).map fun p => some (p, L duals p)).all Option.isSome = true := by simp
    rw [if_pos this]
    congr 2
    simp [all, List.filterMap_map]
  refine ⟨_, hwf, ?_⟩
  -- counting
  have hF : (all.filter fun f => !f.2.isEmpty).length = (planesOf T).card := by
    rw [← card_planes T n hn]
    simp only [all]
    rw [length_filter_map]
    congr 1
    apply List.filter_congr
    intro p _
    have := (hsort p).2
    cases hl : L duals p with
    | nil => simp [hl] at this ⊢; omega
    | cons x xs => simp [hl] at this ⊢; omega
  have hH : ((all.filter fun f => !f.2.isEmpty).map fun f => if f.2.length ≥ 3 then f.2.length else if f.2.length == 2 then 2 else 0).sum = 3 * T.length := by
    rw [sum_filter_zero]
    · rw [← sum_M T n hD hn]
      simp only [all, List.map_map]
      congr 1
      apply List.map_congr_left
      intro p _
      simp only [Function.comp]
      rw [(hsort p).2]
      exact h2_eq (M_ne_one hC hN hD p (hL p))
    · intro f _ hf
      have : f.2 = [] := by simpa using hf
      simp [this]
  unfold euler
  simp only
  rw [hH, hF]
  have hV : duals.size = T.length := by simp [hT]
  rw [hV]
  omega

/-- non-vacuity: the start box -/
example : ∃ faces, withFaces box8.toArray 6 = some faces ∧ euler 8 faces = 2 :=
  reachable_euler_lists box8.toArray ReflTransGen.refl 6 (by decide)

#print axioms reachable_euler_lists
end MVoro.EulerLists
