/-
The executable model of `clip_by_plane` (`Model/Clip.clip`), end to end:

* `partitionLoop_spec`  the partition loop at the start of `clip_by_plane` (removed vertices are swapped to the tail) returns a
                        permutation of the vertex array in which exactly the first `num_v` entries are kept;
* `clip_spec`           a successful clip returns the kept vertices followed by one new vertex `(cur, next, p)` per boundary edge
                        of the removed region: as a multiset of dual triples it is `CycleBoundary.clipDuals T R p` — the list the
                        combinatorial theorems (`closed_preserved`) and the geometric ones (`Star.step_good`) speak about —
                        whatever the storage order of the vertices and whatever the rotation of their triples.
-/
import MVoro.Proofs.CycleWalk

namespace MVoro.ClipModel
open MVoro MVoro.CycleBoundary MVoro.CycleWalk

variable {V : Type}

/-- state of the partition loop: everything before `i` is kept, everything from `numV` on is removed -/
structure PInv (removed : V → Bool) (i numV : Nat) (vs : Array V) : Prop where
  le : i ≤ numV
  sz : numV ≤ vs.size
  kept : ∀ k (h : k < vs.size), k < i → removed vs[k] = false
  rem : ∀ k (h : k < vs.size), numV ≤ k → removed vs[k] = true

theorem partitionLoop_spec (removed : V → Bool) : ∀ (fuel i numV : Nat) (vs : Array V),
    PInv removed i numV vs → numV - i ≤ fuel →
    ((Clip.partitionLoop removed fuel i numV vs).1.toList.Perm vs.toList) ∧
    PInv removed (Clip.partitionLoop removed fuel i numV vs).2 (Clip.partitionLoop removed fuel i numV vs).2
      (Clip.partitionLoop removed fuel i numV vs).1 := by
  intro fuel
  induction fuel with
  | zero =>
    intro i numV vs h hf
    have : i = numV := by have := h.le; omega
    subst this
    simp only [Clip.partitionLoop]
    exact ⟨List.Perm.refl _, h⟩
  | succ fuel ih =>
    intro i numV vs h hf
    unfold Clip.partitionLoop
    by_cases hlt : i < numV ∧ i < vs.size
    · rw [dif_pos hlt]
      by_cases hr : removed vs[i] = true
      · rw [if_pos hr]
        have hn1 : numV - 1 < vs.size := by have := h.sz; omega
        have hperm : (vs.swapIfInBounds i (numV - 1)).toList.Perm vs.toList := by
          rw [Array.swapIfInBounds_def, dif_pos hlt.2, dif_pos hn1]
          exact Array.perm_iff_toList_perm.1 (Array.swap_perm hlt.2 hn1)
        have hinv : PInv removed i (numV - 1) (vs.swapIfInBounds i (numV - 1)) := by
          refine ⟨by omega, by simp; omega, ?_, ?_⟩
          · intro k hk hki
            simp only [Array.size_swapIfInBounds] at hk
            rw [Array.getElem_swapIfInBounds]
            rw [dif_neg (by omega), dif_neg (by omega)]
            exact h.kept k hk hki
          · intro k hk hkn
            simp only [Array.size_swapIfInBounds] at hk
            rw [Array.getElem_swapIfInBounds]
            by_cases e1 : k = i
            · have : i = numV - 1 := by omega
              rw [dif_pos ⟨e1, hn1⟩]
              simpa [← this] using hr
            · rw [dif_neg (by omega)]
              by_cases e2 : k = numV - 1
              · rw [dif_pos ⟨e2, hlt.2⟩]; exact hr
              · rw [dif_neg (by omega)]; exact h.rem k hk (by omega)
        obtain ⟨p1, p2⟩ := ih i (numV - 1) _ hinv (by omega)
        exact ⟨p1.trans hperm, p2⟩
      · rw [if_neg hr]
        have hinv : PInv removed (i + 1) numV vs := by
          refine ⟨by omega, h.sz, ?_, h.rem⟩
          intro k hk hki
          by_cases e : k = i
          · subst e; simpa using hr
          · exact h.kept k hk (by omega)
        exact ih (i + 1) numV vs hinv (by omega)
    · rw [dif_neg hlt]
      have : i = numV := by have := h.le; have := h.sz; omega
      subst this
      exact ⟨List.Perm.refl _, h⟩

theorem nodup_of_edges_nodup {T : List Dual} (h : (edgesOf T).Nodup) : T.Nodup := by
  induction T with
  | nil => exact List.nodup_nil
  | cons d T ih =>
    rw [edgesOf_cons] at h
    have hd := List.Nodup.of_append_right h
    refine List.nodup_cons.mpr ⟨?_, ih hd⟩
    intro hmem
    have h1 : (d.a, d.b) ∈ d.edges := by simp [Dual.edges]
    have h2 : (d.a, d.b) ∈ edgesOf T := mem_edgesOf.mpr ⟨d, hmem, h1⟩
    exact (List.disjoint_of_nodup_append h) h1 h2

theorem bdry_perm_list {R R' : List Dual} (h : R.Perm R') : (bdry R).Perm (bdry R') := by
  have he : (edgesOf R).Perm (edgesOf R') := h.flatMap_right _
  unfold bdry
  have hp : (fun e : Nat × Nat => decide (e.swap ∉ edgesOf R)) = fun e => decide (e.swap ∉ edgesOf R') := by
    funext e; simp only [he.mem_iff]
  rw [hp]
  exact he.filter _

/-- **`clip_by_plane` (model), end to end.**  See the head of this file. -/
theorem clip_spec {dual : V → Dual} {mk : Nat → Nat → Nat → V} {removed : V → Bool} {p : Nat} {cyc cyc' : Cycle}
    {vs out : Array V}
    (hmk : ∀ x y z, dual (mk x y z) = ⟨x, y, z⟩)
    (hnd : (Cycle.walk cyc.grow.len cyc.grow cyc.grow.start).Nodup)
    (hcov : ∀ x, cyc.grow.get x ≠ x → x ∈ Cycle.walk cyc.grow.len cyc.grow cyc.grow.start)
    (hR : ∀ v ∈ vs.toList, InRange cyc.grow.ptrs.size (dual v) ∧ Distinct (dual v))
    (hT : (edgesOf (vs.toList.map dual)).Nodup)
    (hNC : ∀ R : List Dual, R.Perm ((vs.toList.filter fun v => removed v).map dual) → NoClosedPart R)
    (h : Clip.clip dual mk removed p cyc vs = .clipped cyc' out) :
    (out.toList.map dual).Perm
      (clipDuals (vs.toList.map dual) ((vs.toList.filter fun v => removed v).map dual) p) := by
  unfold Clip.clip at h
  have hP0 : PInv removed 0 vs.size vs := ⟨Nat.zero_le _, Nat.le_refl _, fun k _ hk => absurd hk (Nat.not_lt_zero k),
    fun k hk hge => absurd hk (by omega)⟩
  obtain ⟨hperm, hinv⟩ := partitionLoop_spec removed (2 * vs.size + 1) 0 vs.size vs hP0 (by omega)
  generalize hpl : Clip.partitionLoop removed (2 * vs.size + 1) 0 vs.size vs = pl at h hperm hinv
  obtain ⟨vs1, numV⟩ := pl
  simp only at h hperm hinv
  split at h
  · cases h
  · next hne =>
    split at h
    · cases h
    · next cyc1 vs2 hcb =>
      cases h
      -- the two halves of the partitioned array
      have hsz : numV ≤ vs1.size := hinv.sz
      have htake : (vs1.extract 0 numV).toList = vs1.toList.take numV := by simp [List.extract]
      have hdrop : (vs1.extract numV vs1.size).toList = vs1.toList.drop numV := by simp [List.extract]
      have hsplit : vs1.toList = vs1.toList.take numV ++ vs1.toList.drop numV := (List.take_append_drop _ _).symm
      have hkept : ∀ v ∈ vs1.toList.take numV, removed v = false := by
        intro v hv
        obtain ⟨k, hk, rfl⟩ := List.getElem_of_mem hv
        simp only [List.length_take, Array.length_toList] at hk
        rw [List.getElem_take, Array.getElem_toList]
        exact hinv.kept k (by omega) (by omega)
      have hrem : ∀ v ∈ vs1.toList.drop numV, removed v = true := by
        intro v hv
        obtain ⟨k, hk, rfl⟩ := List.getElem_of_mem hv
        simp only [List.length_drop, Array.length_toList] at hk
        rw [List.getElem_drop, Array.getElem_toList]
        exact hinv.rem (numV + k) (by omega) (by omega)
      -- removed / kept parts of the original array, up to order
      have hfR : (vs.toList.filter fun v => removed v).Perm (vs1.toList.drop numV) := by
        have := (hperm.filter fun v => removed v).symm
        rw [hsplit, List.filter_append] at this
        have e1 : (vs1.toList.take numV).filter (fun v => removed v) = [] :=
          List.filter_eq_nil_iff.mpr (fun v hv => by simp [hkept v hv])
        have e2 : (vs1.toList.drop numV).filter (fun v => removed v) = vs1.toList.drop numV :=
          List.filter_eq_self.mpr (fun v hv => by simp [hrem v hv])
        rw [e1, e2, List.nil_append] at this
        exact this
      set R := (vs.toList.filter fun v => removed v).map dual with hRdef
      set R' := (vs1.toList.drop numV).map dual with hR'def
      have hRR' : R.Perm R' := hfR.map dual
      -- the boundary walk
      have hRin : ∀ v ∈ (vs1.extract numV vs1.size).toList, InRange cyc.grow.ptrs.size (dual v) ∧ Distinct (dual v) := by
        intro v hv
        rw [hdrop] at hv
        exact hR v (hperm.mem_iff.1 (List.mem_of_mem_drop hv))
      have hTall : (edgesOf (vs1.toList.map dual)).Nodup := nodup_edgesOf_perm (hperm.map dual).symm hT
      have hNR' : (edgesOf R').Nodup := by
        have : (vs1.toList.map dual) = (vs1.toList.take numV).map dual ++ R' := by
          rw [hR'def, ← List.map_append, ← hsplit]
        rw [this] at hTall
        unfold edgesOf at hTall ⊢
        rw [List.flatMap_append] at hTall
        exact List.Nodup.of_append_right hTall
      have hpairs := computeBoundary_pairs (dual := dual) hnd hcov hRin (by rw [hdrop]; exact hNR')
        (by rw [hdrop]; exact hNC R' hRR'.symm) hcb
      rw [hdrop] at hpairs
      -- assemble
      simp only [Array.toList_append, List.map_append, htake, List.map_map]
      unfold clipDuals
      refine List.Perm.append ?_ ?_
      · -- kept triples
        have hTn : (vs1.toList.map dual).Nodup := nodup_of_edges_nodup hTall
        have hfil : ((vs1.toList.map dual).filter fun d => decide (∀ r ∈ R, d ≠ r)) = (vs1.toList.take numV).map dual := by
          conv_lhs => rw [hsplit, List.map_append, List.filter_append]
          have hdis : ∀ d ∈ (vs1.toList.take numV).map dual, d ∉ R' := by
            intro d hd hd'
            rw [hsplit, List.map_append] at hTn
            exact (List.disjoint_of_nodup_append hTn) hd hd'
          rw [List.filter_eq_self.mpr, List.filter_eq_nil_iff.mpr, List.append_nil]
          · intro d hd
            simp only [decide_eq_true_eq, not_forall]
            exact ⟨d, hRR'.mem_iff.2 hd, fun hne => hne rfl⟩
          · intro d hd
            simp only [decide_eq_true_eq]
            intro r hr e
            exact hdis d hd (e ▸ hRR'.mem_iff.1 hr)
        rw [← hfil]
        exact (hperm.map dual).filter _
      · -- created triples: one per boundary edge
        have : (fun x : Nat × Nat => dual (mk x.1 x.2 p)) = newTri p := by
          funext x; rw [hmk]; rfl
        have hm : ((Clip.pairs cyc'.closedWalk).map (dual ∘ fun x : Nat × Nat => mk x.1 x.2 p))
            = (Clip.pairs cyc'.closedWalk).map (newTri p) := by
          congr 1
        rw [hm]
        exact (hpairs.trans (bdry_perm_list hRR'.symm)).map _

#print axioms MVoro.ClipModel.clip_spec
end MVoro.ClipModel
