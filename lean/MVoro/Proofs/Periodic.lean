/-
Periodic boxes: why the 3^d nearest lattice images and the tripled box suffice (T06.1),
shift bookkeeping (T06.4), the closed form of 1D cells (T08.2) and unit thickness (T02.3).

Everything is coordinate-wise over `Fin d → ℝ` with the explicit squared distance `dist2`.
-/
import Mathlib.Data.Real.Basic
import Mathlib.Algebra.Order.Ring.Abs
import Mathlib.Algebra.BigOperators.Fin
import Mathlib.Algebra.BigOperators.Pi
import Mathlib.Algebra.Order.BigOperators.Group.Finset
import Mathlib.Data.Fintype.BigOperators
import Mathlib.Data.Fin.VecNotation
import Mathlib.Order.Interval.Set.Basic
import Mathlib.Tactic.Linarith
import Mathlib.Tactic.Ring
import Mathlib.Tactic.NormNum
import Mathlib.Tactic.FinCases

namespace MVoro.Periodic

open Finset

/-- explicit squared Euclidean distance on `Fin d → ℝ` -/
def dist2 {d : ℕ} (x y : Fin d → ℝ) : ℝ := ∑ i, (x i - y i) ^ 2

/-- the lattice image of `q` shifted by `k i` box widths along every axis `i` -/
def image {d : ℕ} (q w : Fin d → ℝ) (k : Fin d → ℤ) : Fin d → ℝ := fun i => q i + k i * w i

/-! ## 1. one axis: far images are dominated by a nearest image -/

/-- 1D key lemma: an image shifted by `|k| ≥ 2` widths is no closer than the image shifted by
`sign k` widths, for every `x` within half a width of the box. -/
theorem closer_image_1d (a w x q : ℝ) (k : ℤ) (hw : 0 < w) (hq1 : a ≤ q) (hq2 : q ≤ a + w)
    (hx1 : a - w / 2 ≤ x) (hx2 : x ≤ a + 3 * w / 2) (hk : 2 ≤ |k|) :
    ∃ k' : ℤ, (k' = -1 ∨ k' = 0 ∨ k' = 1) ∧ |x - (q + k' * w)| ≤ |x - (q + k * w)| := by
  rcases le_abs.1 hk with h | h
  · refine ⟨1, Or.inr (Or.inr rfl), ?_⟩
    have hk2 : (2 : ℝ) ≤ (k : ℝ) := by exact_mod_cast h
    have hkw : 2 * w ≤ (k : ℝ) * w := mul_le_mul_of_nonneg_right hk2 hw.le
    rw [abs_of_nonpos (a := x - (q + (k : ℝ) * w)) (by linarith)]
    push_cast
    exact abs_le.2 ⟨by linarith, by linarith⟩
  · refine ⟨-1, Or.inl rfl, ?_⟩
    have hk2 : (k : ℝ) ≤ -2 := by
      have : k ≤ -2 := by linarith
      exact_mod_cast this
    have hkw : (k : ℝ) * w ≤ -2 * w := mul_le_mul_of_nonneg_right hk2 hw.le
    rw [abs_of_nonneg (a := x - (q + (k : ℝ) * w)) (by linarith)]
    push_cast
    exact abs_le.2 ⟨by linarith, by linarith⟩

/-- squared form of `closer_image_1d` -/
theorem closer_image_1d_sq (a w x q : ℝ) (k : ℤ) (hw : 0 < w) (hq1 : a ≤ q) (hq2 : q ≤ a + w)
    (hx1 : a - w / 2 ≤ x) (hx2 : x ≤ a + 3 * w / 2) (hk : 2 ≤ |k|) :
    ∃ k' : ℤ, (k' = -1 ∨ k' = 0 ∨ k' = 1) ∧ (x - (q + k' * w)) ^ 2 ≤ (x - (q + k * w)) ^ 2 := by
  obtain ⟨k', h1, h2⟩ := closer_image_1d a w x q k hw hq1 hq2 hx1 hx2 hk
  exact ⟨k', h1, sq_le_sq.2 h2⟩

/-- 1D clamping: every integer shift `k` can be replaced by a shift in `{-1,0,1}` (equal to `k`
when `|k| ≤ 1`) whose image is at least as close to `x`. -/
theorem clamp_image_1d (a w x q : ℝ) (k : ℤ) (hw : 0 < w) (hq1 : a ≤ q) (hq2 : q ≤ a + w)
    (hx1 : a - w / 2 ≤ x) (hx2 : x ≤ a + 3 * w / 2) :
    ∃ k' : ℤ, (k' = -1 ∨ k' = 0 ∨ k' = 1) ∧ (|k| ≤ 1 → k' = k) ∧
      (x - (q + k' * w)) ^ 2 ≤ (x - (q + k * w)) ^ 2 := by
  by_cases hk : 2 ≤ |k|
  · obtain ⟨k', h1, h2⟩ := closer_image_1d_sq a w x q k hw hq1 hq2 hx1 hx2 hk
    exact ⟨k', h1, fun h => absurd h (by omega), h2⟩
  · have hk1 : |k| ≤ 1 := by omega
    have := abs_le.1 hk1
    refine ⟨k, by omega, fun _ => rfl, le_refl _⟩

/-- concrete instance of `closer_image_1d`: box `[0,1]`, generator `1/4`, point `5/4`, the image
shifted by `5` widths is beaten by the one shifted by `1` width (distance `1/4` versus `4`). -/
example : ∃ k' : ℤ, (k' = -1 ∨ k' = 0 ∨ k' = 1) ∧
    |(5/4 : ℝ) - (1/4 + k' * 1)| ≤ |(5/4 : ℝ) - (1/4 + (5 : ℤ) * 1)| :=
  closer_image_1d 0 1 (5/4) (1/4) 5 (by norm_num) (by norm_num) (by norm_num) (by norm_num)
    (by norm_num) (by decide)

/-! ## 2. all axes at once -/

/-- Multi-dimensional clamping: any lattice shift `k` can be replaced by one with all components
in `{-1,0,1}` (unchanged where `|k i| ≤ 1`) whose image of `q` is at least as close to `x`. -/
theorem clamp_image {d : ℕ} (a w q x : Fin d → ℝ)
    (h : ∀ i, 0 < w i ∧ a i ≤ q i ∧ q i ≤ a i + w i ∧ a i - w i / 2 ≤ x i ∧
      x i ≤ a i + 3 * w i / 2) (k : Fin d → ℤ) :
    ∃ k' : Fin d → ℤ, (∀ i, k' i = -1 ∨ k' i = 0 ∨ k' i = 1) ∧ (∀ i, |k i| ≤ 1 → k' i = k i) ∧
      dist2 x (image q w k') ≤ dist2 x (image q w k) := by
  have H : ∀ i, ∃ k' : ℤ, (k' = -1 ∨ k' = 0 ∨ k' = 1) ∧ (|k i| ≤ 1 → k' = k i) ∧
      (x i - (q i + k' * w i)) ^ 2 ≤ (x i - (q i + k i * w i)) ^ 2 := fun i =>
    clamp_image_1d (a i) (w i) (x i) (q i) (k i) (h i).1 (h i).2.1 (h i).2.2.1 (h i).2.2.2.1
      (h i).2.2.2.2
  choose k' h1 h2 h3 using H
  exact ⟨k', h1, h2, Finset.sum_le_sum fun i _ => h3 i⟩

/-! ## 3. own images confine the cell to half a width around the generator -/

/-- 1D: a point at least as close to `g` as to `g + w` and `g - w` lies within `w/2` of `g`. -/
theorem cell_in_half_width (x g w : ℝ) (hw : 0 < w)
    (h1 : (x - g) ^ 2 ≤ (x - (g + w)) ^ 2) (h2 : (x - g) ^ 2 ≤ (x - (g - w)) ^ 2) :
    |x - g| ≤ w / 2 := by
  have e1 : (x - (g + w)) ^ 2 - (x - g) ^ 2 = w * (w - 2 * (x - g)) := by ring
  have e2 : (x - (g - w)) ^ 2 - (x - g) ^ 2 = w * (w + 2 * (x - g)) := by ring
  have p1 : 0 ≤ w * (w - 2 * (x - g)) := by rw [← e1]; linarith
  have p2 : 0 ≤ w * (w + 2 * (x - g)) := by rw [← e2]; linarith
  have q1 := (mul_nonneg_iff_of_pos_left hw).1 p1
  have q2 := (mul_nonneg_iff_of_pos_left hw).1 p2
  exact abs_le.2 ⟨by linarith, by linarith⟩

/-- comparing `x` with the image of `g` shifted by `c` widths along the single axis `i` only
involves coordinate `i` -/
theorem dist2_image_single {d : ℕ} (x g w : Fin d → ℝ) (i : Fin d) (c : ℤ) :
    dist2 x (image g w (Pi.single i c)) - dist2 x g =
      (x i - (g i + c * w i)) ^ 2 - (x i - g i) ^ 2 := by
  unfold dist2 image
  rw [← Finset.sum_sub_distrib]
  rw [Finset.sum_eq_single i]
  · simp
  · intro j _ hj
    simp [Pi.single_eq_of_ne hj]
  · intro hi
    exact absurd (Finset.mem_univ i) hi

/-- `Fin d` version: a point at least as close to `g` as to its `2 d` axis-neighbour own images
`g ± w i e_i` lies in the half-width box around `g`. -/
theorem own_images_bound {d : ℕ} (x g w : Fin d → ℝ) (hw : ∀ i, 0 < w i)
    (h : ∀ i, dist2 x g ≤ dist2 x (image g w (Pi.single i 1)) ∧
      dist2 x g ≤ dist2 x (image g w (Pi.single i (-1)))) :
    ∀ i, |x i - g i| ≤ w i / 2 := by
  intro i
  have e1 := dist2_image_single x g w i 1
  have e2 := dist2_image_single x g w i (-1)
  push_cast at e1 e2
  apply cell_in_half_width (x i) (g i) (w i) (hw i)
  · have := (h i).1
    have e : g i + w i = g i + 1 * w i := by ring
    rw [e]; linarith
  · have := (h i).2
    have e : g i - w i = g i + -1 * w i := by ring
    rw [e]; linarith

/-! ## 4. the 3^d images suffice, and the cell stays strictly inside the tripled box -/

/-- a point in the half-width box around a generator of the box lies within half a width of the
box, hence strictly inside the tripled box `[a - w, a + 2 w]`: the periodic cell never touches
the walls of the tripled box -/
theorem cell_in_tripled_box {d : ℕ} (a w g x : Fin d → ℝ) (hw : ∀ i, 0 < w i)
    (hg : ∀ i, a i ≤ g i ∧ g i ≤ a i + w i) (hx : ∀ i, |x i - g i| ≤ w i / 2) :
    ∀ i, a i - w i < x i ∧ x i < a i + 2 * w i := by
  intro i
  have := abs_le.1 (hx i)
  have := hw i
  have := hg i
  exact ⟨by linarith, by linarith⟩

/-- T06.1: if `x` lies in the half-width box around `g` and `g` is at least as close to `x` as all
images of all generators with shifts in `{-1,0,1}^d` (the pair "`g` itself, zero shift" need not
even be supplied), then `g` is at least as close to `x` as ALL lattice images. -/
theorem images27_suffice {d : ℕ} {ι : Type*} (a w g x : Fin d → ℝ) (Q : ι → Fin d → ℝ)
    (hw : ∀ i, 0 < w i) (hg : ∀ i, a i ≤ g i ∧ g i ≤ a i + w i)
    (hQ : ∀ j i, a i ≤ Q j i ∧ Q j i ≤ a i + w i)
    (hx : ∀ i, |x i - g i| ≤ w i / 2)
    (H : ∀ j (k : Fin d → ℤ), (∀ i, k i = -1 ∨ k i = 0 ∨ k i = 1) → ¬ (Q j = g ∧ k = 0) →
      dist2 x g ≤ dist2 x (image (Q j) w k)) :
    ∀ j (k : Fin d → ℤ), dist2 x g ≤ dist2 x (image (Q j) w k) := by
  intro j k
  have hbox : ∀ i, 0 < w i ∧ a i ≤ Q j i ∧ Q j i ≤ a i + w i ∧ a i - w i / 2 ≤ x i ∧
      x i ≤ a i + 3 * w i / 2 := by
    intro i
    have := abs_le.1 (hx i)
    have := hg i
    exact ⟨hw i, (hQ j i).1, (hQ j i).2, by linarith, by linarith⟩
  obtain ⟨k', hk1, -, hk3⟩ := clamp_image a w (Q j) x hbox k
  by_cases triv : Q j = g ∧ k' = 0
  · refine le_trans (le_of_eq ?_) hk3
    rw [triv.1, triv.2]
    unfold dist2 image
    simp
  · exact le_trans (H j k' hk1 triv) hk3

/-- T06.1, self-contained form: the hypothesis only mentions the 3^d images with shifts in
`{-1,0,1}^d` of the generators (own non-zero images included, `g = Q j₀`); the conclusion covers
all lattice images, and the cell is strictly inside the tripled box. -/
theorem images27_suffice' {d : ℕ} {ι : Type*} (a w g x : Fin d → ℝ) (Q : ι → Fin d → ℝ)
    (hw : ∀ i, 0 < w i) (j₀ : ι) (hj₀ : Q j₀ = g)
    (hQ : ∀ j i, a i ≤ Q j i ∧ Q j i ≤ a i + w i)
    (H : ∀ j (k : Fin d → ℤ), (∀ i, k i = -1 ∨ k i = 0 ∨ k i = 1) → ¬ (Q j = g ∧ k = 0) →
      dist2 x g ≤ dist2 x (image (Q j) w k)) :
    (∀ j (k : Fin d → ℤ), dist2 x g ≤ dist2 x (image (Q j) w k)) ∧
      (∀ i, |x i - g i| ≤ w i / 2) ∧ (∀ i, a i - w i < x i ∧ x i < a i + 2 * w i) := by
  have hg : ∀ i, a i ≤ g i ∧ g i ≤ a i + w i := fun i => hj₀ ▸ hQ j₀ i
  have single_ok : ∀ (i : Fin d) (c : ℤ), (c = -1 ∨ c = 0 ∨ c = 1) →
      ∀ i', (Pi.single i c : Fin d → ℤ) i' = -1 ∨ (Pi.single i c : Fin d → ℤ) i' = 0 ∨
        (Pi.single i c : Fin d → ℤ) i' = 1 := by
    intro i c hc i'
    by_cases e : i' = i
    · subst e; simpa using hc
    · simp [Pi.single_eq_of_ne e]
  have hx : ∀ i, |x i - g i| ≤ w i / 2 := by
    apply own_images_bound x g w hw
    intro i
    constructor
    · have := H j₀ (Pi.single i 1) (single_ok i 1 (by simp))
        (fun hh => by have := congrFun hh.2 i; simp at this)
      rwa [hj₀] at this
    · have := H j₀ (Pi.single i (-1)) (single_ok i (-1) (by simp))
        (fun hh => by have := congrFun hh.2 i; simp at this)
      rwa [hj₀] at this
  exact ⟨images27_suffice a w g x Q hw hg hQ hx H, hx, cell_in_tripled_box a w g x hw hg hx⟩

/-! ## 5. shift bookkeeping (T06.4) -/

/-- one axis: searching with the query shifted by `s` is looking at the image `q - s` -/
theorem shift_equiv (x s q : ℝ) : (x + s - q) ^ 2 = (x - (q + (-s))) ^ 2 := by ring

/-- all axes: the squared distance from the shifted query `x + s` to `q` is the squared distance
from `x` to the image `q - s` -/
theorem shift_equiv_dist2 {d : ℕ} (x s q : Fin d → ℝ) :
    dist2 (fun i => x i + s i) q = dist2 x (fun i => q i + (-s i)) := by
  unfold dist2
  exact Finset.sum_congr rfl fun i _ => shift_equiv (x i) (s i) (q i)

/-- all axes, integer shifts: searching with the query shifted by `k` widths is looking at the
lattice image of `q` with shift `-k` -/
theorem shift_equiv_image {d : ℕ} (x w q : Fin d → ℝ) (k : Fin d → ℤ) :
    dist2 (fun i => x i + k i * w i) q = dist2 x (image q w (fun i => -k i)) := by
  unfold dist2 image
  refine Finset.sum_congr rfl fun i _ => ?_
  push_cast
  ring


/-! ## 5b. wrapping a translated generator back into the box does not change its lattice (T06.3) -/

/-- a lattice image of a lattice image is a lattice image -/
theorem image_image {d : ℕ} (q w : Fin d → ℝ) (n k : Fin d → ℤ) :
    image (image q w n) w k = image q w (fun i => n i + k i) := by
  funext i
  simp only [image]
  push_cast
  ring

/-- T06.3: replacing a generator by any of its lattice images (e.g. wrapping `g + t` back into the box)
leaves the set of all its periodic images unchanged; together with `VorSet.Vor_translate` this is why
translating all generators and wrapping them only translates the periodic tessellation -/
theorem images_of_wrapped {d : ℕ} (q w : Fin d → ℝ) (n : Fin d → ℤ) :
    Set.range (image (image q w n) w) = Set.range (image q w) := by
  ext x
  constructor
  · rintro ⟨k, rfl⟩
    exact ⟨fun i => n i + k i, (image_image q w n k).symm⟩
  · rintro ⟨k, rfl⟩
    refine ⟨fun i => k i - n i, ?_⟩
    rw [image_image]
    congr 1
    funext i
    ring

/-- translating a generator translates each of its lattice images -/
theorem image_translate {d : ℕ} (q t w : Fin d → ℝ) (k : Fin d → ℤ) :
    image (fun i => q i + t i) w k = fun i => image q w k i + t i := by
  funext i
  simp only [image]
  ring

/-- one axis: the reported shift component `-(i * w)`, `i ∈ {-1,0,1}`, is one of `-w, 0, w`, and
it is `0` exactly when `i = 0` -/
theorem reported_shift_spec (w : ℝ) (i : ℤ) (hw : 0 < w) (hi : i = -1 ∨ i = 0 ∨ i = 1) :
    (-(i * w) = -w ∨ -((i : ℝ) * w) = 0 ∨ -(i * w) = w) ∧ (-((i : ℝ) * w) = 0 ↔ i = 0) := by
  rcases hi with rfl | rfl | rfl
  · refine ⟨Or.inr (Or.inr (by push_cast; ring)), ?_⟩
    constructor
    · intro h; push_cast at h; linarith
    · intro h; omega
  · exact ⟨Or.inr (Or.inl (by simp)), by simp⟩
  · refine ⟨Or.inl (by push_cast; ring), ?_⟩
    constructor
    · intro h; push_cast at h; linarith
    · intro h; omega

open Classical in
/-- the neighbour shift the code reports for query shift `s`: `none` when `s` is zero
componentwise, otherwise `some (-s)` -/
noncomputable def reportedShift (s : Fin 3 → ℝ) : Option (Fin 3 → ℝ) :=
  if ∀ i, s i = 0 then none else some (fun i => -s i)

/-- triple: for `s = (i wx, j wy, k wz)` with positive widths the reported shift is `none` iff
`(i,j,k) = 0`, and otherwise it is `some (-s)`, every component of which is `-w`, `0` or `w` -/
theorem reportedShift_spec (w : Fin 3 → ℝ) (k : Fin 3 → ℤ) (hw : ∀ i, 0 < w i)
    (hk : ∀ i, k i = -1 ∨ k i = 0 ∨ k i = 1) :
    (reportedShift (fun i => k i * w i) = none ↔ k = 0) ∧
    (k ≠ 0 → reportedShift (fun i => k i * w i) = some (fun i => -(k i * w i))) ∧
    (∀ i, -(k i * w i) = -w i ∨ -((k i : ℝ) * w i) = 0 ∨ -(k i * w i) = w i) := by
  have key : (∀ i, (k i : ℝ) * w i = 0) ↔ k = 0 := by
    constructor
    · intro h
      funext i
      have := h i
      rcases mul_eq_zero.1 this with h0 | h0
      · simpa using h0
      · exact absurd h0 (hw i).ne'
    · intro h i
      simp [h]
  refine ⟨?_, ?_, fun i => (reported_shift_spec (w i) (k i) (hw i) (hk i)).1⟩
  · simp only [reportedShift]
    constructor
    · intro hn
      by_contra hne
      rw [if_neg (fun h => hne (key.1 h))] at hn
      cases hn
    · intro h0
      exact if_pos (key.2 h0)
  · intro hne
    simp only [reportedShift]
    rw [if_neg (fun h => hne (key.1 h))]

/-! ## 6. closed form of 1D cells (T08.2) -/

/-- for `p < r`: `x` is at least as close to `r` as to `p` iff `x` is right of the midpoint -/
theorem closer_right_iff (p r x : ℝ) (h : p < r) : |x - r| ≤ |x - p| ↔ (p + r) / 2 ≤ x := by
  have e : (x - p) ^ 2 - (x - r) ^ 2 = (r - p) * (2 * x - p - r) := by ring
  rw [← sq_le_sq, ← sub_nonneg, e, mul_nonneg_iff_of_pos_left (sub_pos.2 h)]
  constructor <;> intro <;> linarith

/-- for `p < r`: `x` is at least as close to `p` as to `r` iff `x` is left of the midpoint -/
theorem closer_left_iff (p r x : ℝ) (h : p < r) : |x - p| ≤ |x - r| ↔ x ≤ (p + r) / 2 := by
  have e : (x - r) ^ 2 - (x - p) ^ 2 = (r - p) * (p + r - 2 * x) := by ring
  rw [← sq_le_sq, ← sub_nonneg, e, mul_nonneg_iff_of_pos_left (sub_pos.2 h)]
  constructor <;> intro <;> linarith

/-- lower end of the 1D cell of `g k`: the left wall for the first generator, otherwise the
midpoint with the left neighbour -/
noncomputable def cellLo {n : ℕ} (a : ℝ) (g : Fin n → ℝ) (k : Fin n) : ℝ :=
  if h : (k : ℕ) = 0 then a else (g ⟨k - 1, by omega⟩ + g k) / 2

/-- upper end of the 1D cell of `g k`: the right wall for the last generator, otherwise the
midpoint with the right neighbour -/
noncomputable def cellHi {n : ℕ} (a w : ℝ) (g : Fin n → ℝ) (k : Fin n) : ℝ :=
  if h : (k : ℕ) + 1 = n then a + w else (g k + g ⟨k + 1, by omega⟩) / 2

/-- T08.2: for strictly increasing generators in `[a, a + w]` the 1D Voronoi cell of `g k`
within the box is the interval between the midpoints with its two neighbours (or the walls). -/
theorem cell_1d_eq {n : ℕ} (a w : ℝ) (g : Fin n → ℝ) (hg : StrictMono g)
    (hbox : ∀ j, a ≤ g j ∧ g j ≤ a + w) (k : Fin n) :
    {x : ℝ | a ≤ x ∧ x ≤ a + w ∧ ∀ j, |x - g k| ≤ |x - g j|} =
      Set.Icc (cellLo a g k) (cellHi a w g k) := by
  ext x
  simp only [Set.mem_ofPred_eq, Set.mem_Icc]
  constructor
  · rintro ⟨h1, h2, h3⟩
    constructor
    · unfold cellLo
      split_ifs with h
      · exact h1
      · have lt : (⟨k - 1, by omega⟩ : Fin n) < k := by
          rw [Fin.lt_def]; simp only; omega
        exact (closer_right_iff _ _ x (hg lt)).1 (h3 _)
    · unfold cellHi
      split_ifs with h
      · exact h2
      · have lt : k < (⟨k + 1, by omega⟩ : Fin n) := by
          rw [Fin.lt_def]; simp only; omega
        exact (closer_left_iff _ _ x (hg lt)).1 (h3 _)
  · rintro ⟨h1, h2⟩
    have lo_ge : a ≤ cellLo a g k := by
      unfold cellLo
      split_ifs with h
      · exact le_refl _
      · have := (hbox ⟨k - 1, by omega⟩).1
        have := (hbox k).1
        linarith
    have hi_le : cellHi a w g k ≤ a + w := by
      unfold cellHi
      split_ifs with h
      · exact le_refl _
      · have := (hbox ⟨k + 1, by omega⟩).2
        have := (hbox k).2
        linarith
    refine ⟨le_trans lo_ge h1, le_trans h2 hi_le, fun j => ?_⟩
    rcases lt_trichotomy j k with hjk | hjk | hjk
    · -- left of `k`: the binding constraint is the left neighbour
      rw [closer_right_iff _ _ x (hg hjk)]
      have hk0 : ¬ (k : ℕ) = 0 := by
        have := Fin.lt_def.1 hjk; omega
      have hle : j ≤ (⟨k - 1, by omega⟩ : Fin n) := by
        rw [Fin.le_def]; simp only
        have := Fin.lt_def.1 hjk; omega
      have := hg.monotone hle
      unfold cellLo at h1
      rw [dif_neg hk0] at h1
      linarith
    · rw [hjk]
    · rw [closer_left_iff _ _ x (hg hjk)]
      have hkn : ¬ (k : ℕ) + 1 = n := by
        have := Fin.lt_def.1 hjk; omega
      have hle : (⟨k + 1, by omega⟩ : Fin n) ≤ j := by
        rw [Fin.le_def]; simp only
        have := Fin.lt_def.1 hjk; omega
      have := hg.monotone hle
      unfold cellHi at h2
      rw [dif_neg hkn] at h2
      linarith

/-- concrete instance of `cell_1d_eq`: generators `0 < 1 < 3` in `[0, 4]`; the cell of the middle
generator is `[1/2, 2]`, those of the outer ones are `[0, 1/2]` and `[2, 4]`. -/
example :
    ({x : ℝ | 0 ≤ x ∧ x ≤ 0 + 4 ∧ ∀ j : Fin 3, |x - (![0, 1, 3] : Fin 3 → ℝ) 1| ≤
        |x - (![0, 1, 3] : Fin 3 → ℝ) j|} = Set.Icc (1 / 2) 2) ∧
    ({x : ℝ | 0 ≤ x ∧ x ≤ 0 + 4 ∧ ∀ j : Fin 3, |x - (![0, 1, 3] : Fin 3 → ℝ) 0| ≤
        |x - (![0, 1, 3] : Fin 3 → ℝ) j|} = Set.Icc 0 (1 / 2)) ∧
    ({x : ℝ | 0 ≤ x ∧ x ≤ 0 + 4 ∧ ∀ j : Fin 3, |x - (![0, 1, 3] : Fin 3 → ℝ) 2| ≤
        |x - (![0, 1, 3] : Fin 3 → ℝ) j|} = Set.Icc 2 4) := by
  have hg : StrictMono (![0, 1, 3] : Fin 3 → ℝ) := by
    intro i j h
    fin_cases i <;> fin_cases j <;> simp at h ⊢
  have hbox : ∀ j : Fin 3, (0 : ℝ) ≤ (![0, 1, 3] : Fin 3 → ℝ) j ∧
      (![0, 1, 3] : Fin 3 → ℝ) j ≤ 0 + 4 := by
    intro j; fin_cases j <;> norm_num
  refine ⟨?_, ?_, ?_⟩
  · rw [cell_1d_eq 0 4 _ hg hbox 1]
    norm_num [cellLo, cellHi]
  · rw [cell_1d_eq 0 4 _ hg hbox 0]
    norm_num [cellLo, cellHi]
  · rw [cell_1d_eq 0 4 _ hg hbox 2]
    have e : (![0, 1, 3] : Fin 3 → ℝ) 2 = 3 := rfl
    norm_num [cellLo, cellHi, e]

/-! ## 7. unit thickness (T02.3) -/

/-- a prism over `[-1/2, 1/2]` has the volume of its base area -/
theorem prism_volume (base_area : ℝ) : base_area * (1 / 2 - (-1 / 2)) = base_area := by ring

/-- the centroid (midpoint) of `[-1/2, 1/2]` is `0` -/
theorem slab_centroid : ((-1 / 2 : ℝ) + 1 / 2) / 2 = 0 := by norm_num

/-- the first moment of `[-1/2, 1/2]` about `0` vanishes: `∫ z dz = (hi² - lo²)/2 = 0`, so the
out-of-plane centroid coordinate of a unit-thickness prism is `0` -/
theorem slab_first_moment : ((1 / 2 : ℝ) ^ 2 - (-1 / 2) ^ 2) / 2 = 0 := by norm_num

end MVoro.Periodic

#print axioms MVoro.Periodic.closer_image_1d
#print axioms MVoro.Periodic.closer_image_1d_sq
#print axioms MVoro.Periodic.clamp_image_1d
#print axioms MVoro.Periodic.clamp_image
#print axioms MVoro.Periodic.cell_in_half_width
#print axioms MVoro.Periodic.own_images_bound
#print axioms MVoro.Periodic.cell_in_tripled_box
#print axioms MVoro.Periodic.images27_suffice
#print axioms MVoro.Periodic.images27_suffice'
#print axioms MVoro.Periodic.shift_equiv
#print axioms MVoro.Periodic.shift_equiv_dist2
#print axioms MVoro.Periodic.shift_equiv_image
#print axioms MVoro.Periodic.reported_shift_spec
#print axioms MVoro.Periodic.reportedShift_spec
#print axioms MVoro.Periodic.cell_1d_eq
#print axioms MVoro.Periodic.prism_volume
#print axioms MVoro.Periodic.slab_centroid
#print axioms MVoro.Periodic.slab_first_moment
