/-
C18, the statement itself: **clipping a cell yields the same set of vertices — as cyclically ordered plane triples — whatever the
storage order of the vertices and whatever the rotation of each triple.**

Two vertex arrays describe the same cell when every dual triple of one is a rotation of a dual triple of the other
(`SameUpToRot`), and the two runs take the same decisions when corresponding vertices are removed in both or in neither.
`clipDuals_sameUpToRot` is the statement for the abstract clip, `model_clip_order_independent` for the executable model
`Clip.clip` (through `ClipModel.clip_spec`): if both runs succeed, the two resulting vertex arrays again describe the same cell.
-/
import MVoro.Proofs.ClipModel

namespace MVoro.ClipOrder
open MVoro MVoro.CycleBoundary MVoro.CycleWalk MVoro.ClipModel

/-- the two lists contain the same triples up to rotation -/
def SameUpToRot (T₁ T₂ : List Dual) : Prop :=
  (∀ d ∈ T₁, ∃ d' ∈ T₂, IsRot d' d) ∧ (∀ d' ∈ T₂, ∃ d ∈ T₁, IsRot d d')

theorem isRot_refl (d : Dual) : IsRot d d := Or.inl rfl

theorem edgesOf_sub {T₁ T₂ R₁ R₂ : List Dual} (hR₁ : R₁ ⊆ T₁)
    (h12 : ∀ d ∈ T₁, ∃ d' ∈ T₂, IsRot d' d)
    (hrel : ∀ d ∈ T₁, ∀ d' ∈ T₂, IsRot d' d → (d ∈ R₁ → d' ∈ R₂)) :
    ∀ e, e ∈ edgesOf R₁ → e ∈ edgesOf R₂ := by
  intro e he
  obtain ⟨r, hr, hre⟩ := mem_edgesOf.mp he
  obtain ⟨r', hr'T, hrot⟩ := h12 r (hR₁ hr)
  exact mem_edgesOf.mpr ⟨r', hrel r (hR₁ hr) r' hr'T hrot hr, (mem_edges_isRot hrot).2 hre⟩

theorem clip_half {T₁ T₂ R₁ R₂ : List Dual} {p : Nat} (hR₁ : R₁ ⊆ T₁) (hR₂ : R₂ ⊆ T₂)
    (h12 : ∀ d ∈ T₁, ∃ d' ∈ T₂, IsRot d' d) (h21 : ∀ d' ∈ T₂, ∃ d ∈ T₁, IsRot d d')
    (hrel : ∀ d ∈ T₁, ∀ d' ∈ T₂, IsRot d' d → (d ∈ R₁ ↔ d' ∈ R₂)) :
    ∀ d ∈ clipDuals T₁ R₁ p, ∃ d' ∈ clipDuals T₂ R₂ p, IsRot d' d := by
  have e12 := edgesOf_sub hR₁ h12 (fun d hd d' hd' hr => (hrel d hd d' hd' hr).1)
  have e21 : ∀ e, e ∈ edgesOf R₂ → e ∈ edgesOf R₁ := by
    intro e he
    obtain ⟨r', hr', hre⟩ := mem_edgesOf.mp he
    obtain ⟨r, hrT, hrot⟩ := h21 r' (hR₂ hr')
    -- `r` is a rotation of `r'`; turn it into the form `IsRot r' r`
    have hrot' : IsRot r' r := by
      rcases hrot with rfl | rfl | rfl
      · exact Or.inl rfl
      · exact Or.inr (Or.inr (by cases r'; rfl))
      · exact Or.inr (Or.inl (by cases r'; rfl))
    exact mem_edgesOf.mpr ⟨r, (hrel r hrT r' (hR₂ hr') hrot').2 hr', (mem_edges_isRot hrot').1 hre⟩
  intro d hd
  unfold clipDuals at hd ⊢
  rcases List.mem_append.mp hd with hk | hn
  · obtain ⟨hdT, hnot⟩ := List.mem_filter.mp hk
    have hdR : d ∉ R₁ := fun h => (of_decide_eq_true hnot) d h rfl
    obtain ⟨d', hd'T, hrot⟩ := h12 d hdT
    refine ⟨d', List.mem_append_left _ (List.mem_filter.mpr ⟨hd'T, decide_eq_true ?_⟩), hrot⟩
    intro r hr e
    exact hdR ((hrel d hdT d' hd'T hrot).2 (e ▸ hr))
  · obtain ⟨e, he, rfl⟩ := List.mem_map.mp hn
    refine ⟨newTri p e, List.mem_append_right _ (List.mem_map.mpr ⟨e, ?_, rfl⟩), isRot_refl _⟩
    rw [mem_bdry] at he ⊢
    exact ⟨e12 e he.1, fun h => he.2 (e21 _ h)⟩

theorem isRot_symm' {d d' : Dual} (h : IsRot d' d) : IsRot d d' := by
  rcases h with rfl | rfl | rfl
  · exact Or.inl rfl
  · exact Or.inr (Or.inr (by cases d; rfl))
  · exact Or.inr (Or.inl (by cases d; rfl))

/-- **the abstract clip does not depend on storage order or rotation** -/
theorem clipDuals_sameUpToRot {T₁ T₂ R₁ R₂ : List Dual} {p : Nat} (hR₁ : R₁ ⊆ T₁) (hR₂ : R₂ ⊆ T₂)
    (hT : SameUpToRot T₁ T₂)
    (hrel : ∀ d ∈ T₁, ∀ d' ∈ T₂, IsRot d' d → (d ∈ R₁ ↔ d' ∈ R₂)) :
    SameUpToRot (clipDuals T₁ R₁ p) (clipDuals T₂ R₂ p) := by
  refine ⟨clip_half hR₁ hR₂ hT.1 hT.2 hrel, ?_⟩
  have h := clip_half (p := p) hR₂ hR₁ (fun d' hd' => by
      obtain ⟨d, hd, hr⟩ := hT.2 d' hd'; exact ⟨d, hd, hr⟩)
    (fun d hd => by obtain ⟨d', hd', hr⟩ := hT.1 d hd; exact ⟨d', hd', hr⟩)
    (fun d' hd' d hd hr => ((hrel d hd d' hd' (isRot_symm' hr)).symm))
  intro d' hd'
  obtain ⟨d, hd, hr⟩ := h d' hd'
  exact ⟨d, hd, hr⟩

theorem sameUpToRot_perm {T₁ T₁' T₂ T₂' : List Dual} (h₁ : T₁.Perm T₁') (h₂ : T₂.Perm T₂') (h : SameUpToRot T₁ T₂) :
    SameUpToRot T₁' T₂' :=
  ⟨fun d hd => by obtain ⟨d', hd', hr⟩ := h.1 d (h₁.mem_iff.2 hd); exact ⟨d', h₂.mem_iff.1 hd', hr⟩,
   fun d' hd' => by obtain ⟨d, hd, hr⟩ := h.2 d' (h₂.mem_iff.2 hd'); exact ⟨d, h₁.mem_iff.1 hd, hr⟩⟩

variable {V : Type}

/-- **C18 for the executable model**: two successful runs of `clip_by_plane` on two storage forms of the same cell (any order of
the vertices, any rotation of their triples) with the same decisions end with two storage forms of the same cell -/
theorem model_clip_order_independent {dual : V → Dual} {mk : Nat → Nat → Nat → V} {rem₁ rem₂ : V → Bool} {p : Nat}
    {cyc₁ cyc₁' cyc₂ cyc₂' : Cycle} {vs₁ out₁ vs₂ out₂ : Array V}
    (hmk : ∀ x y z, dual (mk x y z) = ⟨x, y, z⟩)
    (hnd₁ : (Cycle.walk cyc₁.grow.len cyc₁.grow cyc₁.grow.start).Nodup)
    (hcov₁ : ∀ x, cyc₁.grow.get x ≠ x → x ∈ Cycle.walk cyc₁.grow.len cyc₁.grow cyc₁.grow.start)
    (hR₁ : ∀ v ∈ vs₁.toList, InRange cyc₁.grow.ptrs.size (dual v) ∧ Distinct (dual v))
    (hT₁ : (edgesOf (vs₁.toList.map dual)).Nodup)
    (hNC₁ : ∀ R : List Dual, R.Perm ((vs₁.toList.filter fun v => rem₁ v).map dual) → NoClosedPart R)
    (h₁ : Clip.clip dual mk rem₁ p cyc₁ vs₁ = .clipped cyc₁' out₁)
    (hnd₂ : (Cycle.walk cyc₂.grow.len cyc₂.grow cyc₂.grow.start).Nodup)
    (hcov₂ : ∀ x, cyc₂.grow.get x ≠ x → x ∈ Cycle.walk cyc₂.grow.len cyc₂.grow cyc₂.grow.start)
    (hR₂ : ∀ v ∈ vs₂.toList, InRange cyc₂.grow.ptrs.size (dual v) ∧ Distinct (dual v))
    (hT₂ : (edgesOf (vs₂.toList.map dual)).Nodup)
    (hNC₂ : ∀ R : List Dual, R.Perm ((vs₂.toList.filter fun v => rem₂ v).map dual) → NoClosedPart R)
    (h₂ : Clip.clip dual mk rem₂ p cyc₂ vs₂ = .clipped cyc₂' out₂)
    (hsame : SameUpToRot (vs₁.toList.map dual) (vs₂.toList.map dual))
    (hrel : ∀ d ∈ vs₁.toList.map dual, ∀ d' ∈ vs₂.toList.map dual, IsRot d' d →
      (d ∈ (vs₁.toList.filter fun v => rem₁ v).map dual ↔ d' ∈ (vs₂.toList.filter fun v => rem₂ v).map dual)) :
    SameUpToRot (out₁.toList.map dual) (out₂.toList.map dual) := by
  have s₁ := clip_spec hmk hnd₁ hcov₁ hR₁ hT₁ hNC₁ h₁
  have s₂ := clip_spec hmk hnd₂ hcov₂ hR₂ hT₂ hNC₂ h₂
  have sub₁ : (vs₁.toList.filter fun v => rem₁ v).map dual ⊆ vs₁.toList.map dual := by
    intro d hd; obtain ⟨v, hv, rfl⟩ := List.mem_map.mp hd; exact List.mem_map.mpr ⟨v, (List.mem_filter.mp hv).1, rfl⟩
  have sub₂ : (vs₂.toList.filter fun v => rem₂ v).map dual ⊆ vs₂.toList.map dual := by
    intro d hd; obtain ⟨v, hv, rfl⟩ := List.mem_map.mp hd; exact List.mem_map.mpr ⟨v, (List.mem_filter.mp hv).1, rfl⟩
  exact sameUpToRot_perm s₁.symm s₂.symm (clipDuals_sameUpToRot sub₁ sub₂ hsame hrel)

#print axioms MVoro.ClipOrder.model_clip_order_independent
end MVoro.ClipOrder
