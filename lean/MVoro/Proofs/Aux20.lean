/-
C20 building blocks.

Part 1 (`MVoro.KnnProofs`): the ingredients of the correctness of the uniform-grid k-nearest-neighbour
search (`Space::knn`, src/space.rs, model `MVoro.Knn`): the cell lower bound, the bounded sorted
"heap", the safety of skipping a cell, the ring termination bound, and the concrete witness that the
pinned tree's cell placement (`c_width.x` on all axes) breaks the lower bound for non-cubic cells.

Part 2 (`MVoro.SphereProofs`): bounding spheres (src/bounding_sphere.rs, src/geometry.rs): the
convex-combination minimality certificate, `from_two_points` is minimal, `Sphere::extend` keeps
everything contained (EPOS-6 final loop), the sphere-of-spheres extension step.
-/
import MVoro.Model.Knn
import MVoro.Proofs.GeomHelpers
import Mathlib.Tactic.Linarith
import Mathlib.Tactic.Ring
import Mathlib.Tactic.NormNum
import Mathlib.Tactic.Positivity
import Mathlib.Data.List.Sort
import Mathlib.Algebra.Order.Field.Rat
import Mathlib.Analysis.InnerProductSpace.Basic

set_option linter.unusedVariables false
set_option linter.unusedSimpArgs false

namespace MVoro.KnnProofs

open MVoro MVoro.Knn List

/-! ### K1: the cell lower bound -/

/-- K1: the clamped coordinate lies in the interval `[lo, lo + w]`. -/
theorem clampAxis_mem (x lo w : ℚ) (hw : 0 ≤ w) :
    lo ≤ clampAxis x lo w ∧ clampAxis x lo w ≤ lo + w := by
  unfold clampAxis
  split_ifs with h
  · exact ⟨le_min h.le (by linarith), min_le_right _ _⟩
  · constructor <;> linarith

/-- K1: the clamped coordinate is the point of `[lo, lo + w]` closest to `x`. -/
theorem clampAxis_closest (x lo w p : ℚ) (hw : 0 ≤ w) (h1 : lo ≤ p) (h2 : p ≤ lo + w) :
    (clampAxis x lo w - x) ^ 2 ≤ (p - x) ^ 2 := by
  unfold clampAxis
  split_ifs with h
  · rcases le_total x (lo + w) with h3 | h3
    · rw [min_eq_left h3]; nlinarith [sq_nonneg (p - x)]
    · rw [min_eq_right h3]; nlinarith
  · nlinarith

/-- `p` lies in the axis-aligned box `[c.loc, c.loc + c.width]` of the cell -/
def InBox (c : GCell) (p : Q3) : Prop :=
  (c.loc.x ≤ p.x ∧ p.x ≤ c.loc.x + c.width.x) ∧
  (c.loc.y ≤ p.y ∧ p.y ≤ c.loc.y + c.width.y) ∧
  (c.loc.z ≤ p.z ∧ p.z ≤ c.loc.z + c.width.z)

theorem norm2_sub_def (a b : Q3) :
    V3.norm2 (a - b) = (a.x - b.x) ^ 2 + (a.y - b.y) ^ 2 + (a.z - b.z) ^ 2 := by
  show (a.x - b.x) * (a.x - b.x) + (a.y - b.y) * (a.y - b.y) + (a.z - b.z) * (a.z - b.z) = _
  ring

theorem norm2_sub_comm (a b : Q3) : V3.norm2 (a - b) = V3.norm2 (b - a) := by
  rw [norm2_sub_def, norm2_sub_def]; ring

theorem minDist2_def (c : GCell) (x : Q3) : minDist2 c x =
    (clampAxis x.x c.loc.x c.width.x - x.x) ^ 2 + (clampAxis x.y c.loc.y c.width.y - x.y) ^ 2
      + (clampAxis x.z c.loc.z c.width.z - x.z) ^ 2 := by
  unfold minDist2 closestLoc
  rw [norm2_sub_def]

/-- K1: `Cell::min_distance_squared` is a lower bound of the squared distance from `x` to every point of the
cell box `[loc, loc + width]` (non-negative widths). -/
theorem minDist2_lower_bound (c : GCell) (x p : Q3)
    (hw : 0 ≤ c.width.x ∧ 0 ≤ c.width.y ∧ 0 ≤ c.width.z) (hp : InBox c p) :
    minDist2 c x ≤ V3.norm2 (p - x) := by
  obtain ⟨⟨hx1, hx2⟩, ⟨hy1, hy2⟩, ⟨hz1, hz2⟩⟩ := hp
  rw [minDist2_def, norm2_sub_def]
  have := clampAxis_closest x.x c.loc.x c.width.x p.x hw.1 hx1 hx2
  have := clampAxis_closest x.y c.loc.y c.width.y p.y hw.2.1 hy1 hy2
  have := clampAxis_closest x.z c.loc.z c.width.z p.z hw.2.2 hz1 hz2
  linarith

/-- K1, in the argument order used by `knn` (`‖x - p‖²`). -/
theorem minDist2_lower_bound' (c : GCell) (x p : Q3)
    (hw : 0 ≤ c.width.x ∧ 0 ≤ c.width.y ∧ 0 ≤ c.width.z) (hp : InBox c p) :
    minDist2 c x ≤ V3.norm2 (x - p) := by
  rw [norm2_sub_comm]; exact minDist2_lower_bound c x p hw hp

/-- K1: the bound is attained by a point of the box (`Cell::closest_loc`), so it is the exact minimum. -/
theorem closestLoc_inBox (c : GCell) (x : Q3)
    (hw : 0 ≤ c.width.x ∧ 0 ≤ c.width.y ∧ 0 ≤ c.width.z) :
    InBox c (closestLoc c x) ∧ minDist2 c x = V3.norm2 (closestLoc c x - x) :=
  ⟨⟨clampAxis_mem _ _ _ hw.1, clampAxis_mem _ _ _ hw.2.1, clampAxis_mem _ _ _ hw.2.2⟩, rfl⟩

/-! ### K2: the bounded sorted list -/

/-- entries ascending by distance -/
def Sorted (h : List (ℚ × ℕ)) : Prop := h.Pairwise (fun a b => a.1 ≤ b.1)

/-- the distances of a list of entries -/
abbrev dists (h : List (ℚ × ℕ)) : List ℚ := h.map (·.1)

/-- ascending sort of a list of distances -/
abbrev sortQ (l : List ℚ) : List ℚ := l.mergeSort (· ≤ ·)

theorem sortQ_pairwise (l : List ℚ) : (sortQ l).Pairwise (· ≤ ·) := by
  have := pairwise_mergeSort (le := fun a b : ℚ => decide (a ≤ b))
    (fun a b c h1 h2 => by simp only [decide_eq_true_eq] at *; exact le_trans h1 h2)
    (fun a b => by simp only [Bool.or_eq_true, decide_eq_true_eq]; exact le_total a b) l
  simpa using this

theorem sortQ_perm (l : List ℚ) : sortQ l ~ l := mergeSort_perm _ _

/-- a sorted list is determined by its multiset of elements -/
theorem eq_of_perm_sorted {l₁ l₂ : List ℚ} (hp : l₁ ~ l₂) (h1 : l₁.Pairwise (· ≤ ·))
    (h2 : l₂.Pairwise (· ≤ ·)) : l₁ = l₂ :=
  hp.eq_of_pairwise (fun _ _ _ _ hab hba => le_antisymm hab hba) h1 h2

theorem sortQ_eq_of_perm {l₁ l₂ : List ℚ} (hp : l₁ ~ l₂) (h2 : l₂.Pairwise (· ≤ ·)) : sortQ l₁ = l₂ :=
  eq_of_perm_sorted ((sortQ_perm l₁).trans hp) (sortQ_pairwise l₁) h2

theorem sortQ_congr {l₁ l₂ : List ℚ} (hp : l₁ ~ l₂) : sortQ l₁ = sortQ l₂ :=
  sortQ_eq_of_perm (hp.trans (sortQ_perm l₂).symm) (sortQ_pairwise l₂)

theorem sortQ_self {l : List ℚ} (h : l.Pairwise (· ≤ ·)) : sortQ l = l :=
  sortQ_eq_of_perm (Perm.refl _) h

theorem sorted_iff_dists (h : List (ℚ × ℕ)) : Sorted h ↔ (dists h).Pairwise (· ≤ ·) := by
  unfold Sorted
  rw [pairwise_map]

/-- the entry sort used by `insertK` -/
abbrev sortE (l : List (ℚ × ℕ)) : List (ℚ × ℕ) := l.mergeSort (fun a b => a.1 ≤ b.1)

theorem sortE_sorted (l : List (ℚ × ℕ)) : Sorted (sortE l) := by
  have := pairwise_mergeSort (le := fun a b : ℚ × ℕ => decide (a.1 ≤ b.1))
    (fun a b c h1 h2 => by simp only [decide_eq_true_eq] at *; exact le_trans h1 h2)
    (fun a b => by simp only [Bool.or_eq_true, decide_eq_true_eq]; exact le_total a.1 b.1) l
  unfold Sorted
  simpa using this

theorem sortE_perm (l : List (ℚ × ℕ)) : sortE l ~ l := mergeSort_perm _ _

/-- sorting entries by distance and then projecting = sorting the distances -/
theorem dists_sortE (l : List (ℚ × ℕ)) : dists (sortE l) = sortQ (dists l) :=
  (sortQ_eq_of_perm ((sortE_perm l).map _).symm ((sorted_iff_dists _).mp (sortE_sorted l))).symm

/-- the `k` smallest distances, ascending -/
abbrev smallest (k : ℕ) (l : List ℚ) : List ℚ := (sortQ l).take k

theorem insertK_lt (k : ℕ) (h : List (ℚ × ℕ)) (e : ℚ × ℕ) (hl : h.length < k) :
    insertK k h e = sortE (h ++ [e]) := by
  unfold insertK; rw [if_pos hl]

theorem insertK_full_lt (k : ℕ) (h : List (ℚ × ℕ)) (m e : ℚ × ℕ) (hl : ¬ h.length < k)
    (hm : h.getLast? = some m) (he : e.1 < m.1) : insertK k h e = sortE (h.dropLast ++ [e]) := by
  unfold insertK; rw [if_neg hl, hm]; simp only [if_pos he]

theorem insertK_full_ge (k : ℕ) (h : List (ℚ × ℕ)) (m e : ℚ × ℕ) (hl : ¬ h.length < k)
    (hm : h.getLast? = some m) (he : m.1 ≤ e.1) : insertK k h e = h := by
  unfold insertK; rw [if_neg hl, hm]; simp only [if_neg (not_lt.mpr he)]

/-- sorted ++ [larger element] is sorted -/
theorem pairwise_append_singleton {l : List ℚ} {m : ℚ} (hl : l.Pairwise (· ≤ ·)) (hm : ∀ a ∈ l, a ≤ m) :
    (l ++ [m]).Pairwise (· ≤ ·) := by
  rw [pairwise_append]
  refine ⟨hl, pairwise_singleton _ _, ?_⟩
  intro a ha b hb
  rw [mem_singleton] at hb
  subst hb
  exact hm a ha

/-- the elements of a sorted list ending in `m` are `≤ m` -/
theorem le_last_of_sorted {l : List ℚ} {m : ℚ} (h : (l ++ [m]).Pairwise (· ≤ ·)) : ∀ a ∈ l, a ≤ m := by
  rw [pairwise_append] at h
  intro a ha
  exact h.2.2 a ha m (mem_singleton.mpr rfl)

/-- K2: inserting into the bounded list keeps it sorted, gives length `min k (length + 1)`, and its distances are
the `k` smallest of the old distances together with the new one. -/
theorem insertK_spec (k : ℕ) (hk : 0 < k) (h : List (ℚ × ℕ)) (e : ℚ × ℕ) (hs : Sorted h)
    (hl : h.length ≤ k) :
    Sorted (insertK k h e) ∧ (insertK k h e).length = min k (h.length + 1) ∧
    dists (insertK k h e) = smallest k (dists (h ++ [e])) := by
  by_cases hlt : h.length < k
  · rw [insertK_lt k h e hlt]
    refine ⟨sortE_sorted _, ?_, ?_⟩
    · rw [(sortE_perm _).length_eq, length_append, length_singleton]
      omega
    · rw [dists_sortE]
      unfold smallest
      rw [take_of_length_le]
      rw [(sortQ_perm _).length_eq, length_map, length_append, length_singleton]
      omega
  · have hlen : h.length = k := by omega
    have hne : h ≠ [] := by
      intro h0; rw [h0] at hlen; simp at hlen; omega
    obtain ⟨h', m, rfl⟩ : ∃ h' m, h = h' ++ [m] := ⟨h.dropLast, h.getLast hne, (dropLast_append_getLast hne).symm⟩
    have hm : (h' ++ [m]).getLast? = some m := by simp
    have hlen' : h'.length + 1 = k := by simpa using hlen
    have hsd := (sorted_iff_dists _).mp hs
    have hd : dists (h' ++ [m]) = dists h' ++ [m.1] := by simp
    rw [hd] at hsd
    have hle := le_last_of_sorted hsd
    have hs' : (dists h').Pairwise (· ≤ ·) := (pairwise_append.mp hsd).1
    by_cases he : e.1 < m.1
    · rw [insertK_full_lt k _ m e hlt hm he]
      have hdl : (h' ++ [m]).dropLast = h' := by simp
      rw [hdl]
      refine ⟨sortE_sorted _, ?_, ?_⟩
      · rw [(sortE_perm _).length_eq, length_append, length_singleton, length_append, length_singleton]
        omega
      · rw [dists_sortE]
        have hd2 : dists (h' ++ [e]) = dists h' ++ [e.1] := by simp
        have hd3 : dists (h' ++ [m] ++ [e]) = dists h' ++ [m.1] ++ [e.1] := by simp
        rw [hd2, hd3]
        -- sort (h' ++ [m] ++ [e]) = sort (h' ++ [e]) ++ [m]
        have hbig : sortQ (dists h' ++ [m.1] ++ [e.1]) = sortQ (dists h' ++ [e.1]) ++ [m.1] := by
          apply sortQ_eq_of_perm
          · refine Perm.trans ?_ ((sortQ_perm _).symm.append_right _)
            simp only [append_assoc]
            exact (perm_append_comm (l₁ := [m.1]) (l₂ := [e.1])).append_left _
          · apply pairwise_append_singleton (sortQ_pairwise _)
            intro a ha
            rw [(sortQ_perm _).mem_iff, mem_append, mem_singleton] at ha
            rcases ha with ha | ha
            · exact hle a ha
            · rw [ha]; exact he.le
        unfold smallest
        rw [hbig, take_left']
        rw [(sortQ_perm _).length_eq, length_append, length_singleton, length_map]
        exact hlen'
    · have he' : m.1 ≤ e.1 := not_lt.mp he
      rw [insertK_full_ge k _ m e hlt hm he']
      refine ⟨hs, ?_, ?_⟩
      · omega
      · have hd3 : dists (h' ++ [m] ++ [e]) = dists (h' ++ [m]) ++ [e.1] := by simp
        rw [hd3]
        unfold smallest
        have : sortQ (dists (h' ++ [m]) ++ [e.1]) = dists (h' ++ [m]) ++ [e.1] := by
          apply sortQ_self
          rw [hd]
          apply pairwise_append_singleton hsd
          intro a ha
          rw [mem_append, mem_singleton] at ha
          rcases ha with ha | ha
          · exact le_trans (hle a ha) he'
          · rw [ha]; exact he'
        rw [this, take_left']
        rw [length_map]; exact hlen

/-- K2 (corollary): the bounded list never exceeds `k` entries. -/
theorem insertK_length_le (k : ℕ) (hk : 0 < k) (h : List (ℚ × ℕ)) (e : ℚ × ℕ) (hs : Sorted h)
    (hl : h.length ≤ k) : (insertK k h e).length ≤ k := by
  rw [(insertK_spec k hk h e hs hl).2.1]; exact min_le_left _ _

/-! ### K3: folding `insertK` computes the `k` smallest distances -/

/-- truncation commutes with ordered insertion -/
theorem take_orderedInsert_take (d : ℚ) : ∀ (k : ℕ) (S : List ℚ),
    ((S.take k).orderedInsert (· ≤ ·) d).take k = (S.orderedInsert (· ≤ ·) d).take k
  | 0, S => by simp
  | k + 1, [] => by simp
  | k + 1, a :: S => by
    rw [take_succ_cons]
    by_cases h : d ≤ a
    · rw [orderedInsert_cons_of_le _ _ h, orderedInsert_cons_of_le _ _ h, take_succ_cons, take_succ_cons]
      congr 1
      cases k with
      | zero => simp
      | succ k => rw [take_succ_cons, take_succ_cons, take_take]; congr 2; omega
    · rw [orderedInsert_of_not_le _ _ h, orderedInsert_of_not_le _ _ h, take_succ_cons,
        take_succ_cons, take_orderedInsert_take d k S]

theorem sortQ_append_singleton (l : List ℚ) (d : ℚ) :
    sortQ (l ++ [d]) = (sortQ l).orderedInsert (· ≤ ·) d := by
  apply sortQ_eq_of_perm
  · exact (perm_append_singleton d l).trans (((sortQ_perm l).symm.cons d).trans (perm_orderedInsert _ d _).symm)
  · exact (sortQ_pairwise l).orderedInsert d _

/-- the `k` smallest of `X ++ Y` can be computed from the `k` smallest of `X` -/
theorem smallest_append (k : ℕ) (X Y : List ℚ) :
    smallest k (smallest k X ++ Y) = smallest k (X ++ Y) := by
  induction Y using List.reverseRecOn with
  | nil =>
    simp only [append_nil]
    unfold smallest
    rw [sortQ_self ((sortQ_pairwise X).sublist (take_sublist _ _)), take_take, min_self]
  | append_singleton Y y ih =>
    unfold smallest at ih ⊢
    rw [← append_assoc, ← append_assoc, sortQ_append_singleton, sortQ_append_singleton,
      ← take_orderedInsert_take, ih, take_orderedInsert_take]

/-- K3 (general form): folding `insertK k` over `es` from a sorted list `h` of at most `k` entries yields a sorted
list of at most `k` entries whose distances are the `k` smallest distances of `h ++ es`. -/
theorem foldl_insertK_spec (k : ℕ) (hk : 0 < k) (es : List (ℚ × ℕ)) : ∀ (h : List (ℚ × ℕ)), Sorted h →
    h.length ≤ k →
    Sorted (es.foldl (insertK k) h) ∧ (es.foldl (insertK k) h).length = min k (h.length + es.length) ∧
    dists (es.foldl (insertK k) h) = smallest k (dists (h ++ es)) := by
  induction es with
  | nil =>
    intro h hs hl
    refine ⟨hs, by simp; omega, ?_⟩
    simp only [foldl_nil, append_nil]
    unfold smallest
    rw [sortQ_self ((sorted_iff_dists h).mp hs), take_of_length_le (by rw [length_map]; exact hl)]
  | cons e es ih =>
    intro h hs hl
    obtain ⟨s1, l1, d1⟩ := insertK_spec k hk h e hs hl
    obtain ⟨s2, l2, d2⟩ := ih (insertK k h e) s1 (by rw [l1]; exact min_le_left _ _)
    rw [foldl_cons]
    refine ⟨s2, ?_, ?_⟩
    · rw [l2, l1, length_cons]; omega
    · rw [d2]
      have e1 : dists (insertK k h e ++ es) = dists (insertK k h e) ++ dists es := by simp
      have e2 : dists (h ++ e :: es) = dists (h ++ [e]) ++ dists es := by simp
      rw [e1, e2, d1, smallest_append]

/-- K3: folding `insertK k` over all candidate entries, starting from the empty list, yields the `k` smallest
distances in increasing order. -/
theorem foldl_insertK_nil (k : ℕ) (hk : 0 < k) (es : List (ℚ × ℕ)) :
    Sorted (es.foldl (insertK k) []) ∧ (es.foldl (insertK k) []).length = min k es.length ∧
    (es.foldl (insertK k) []).map (·.1) = ((es.map (·.1)).mergeSort (· ≤ ·)).take k := by
  have := foldl_insertK_spec k hk es [] Pairwise.nil (Nat.zero_le _)
  simpa using this

/-- K3 (entries): every entry kept by the fold is one of the given entries (no invented neighbours). -/
theorem insertK_subset (k : ℕ) (h : List (ℚ × ℕ)) (e : ℚ × ℕ) : ∀ a ∈ insertK k h e, a ∈ h ∨ a = e := by
  intro a ha
  unfold insertK at ha
  split_ifs at ha with h1
  · rw [(sortE_perm _).mem_iff, mem_append, mem_singleton] at ha; exact ha
  · split at ha
    · split_ifs at ha with h2
      · rw [(sortE_perm _).mem_iff, mem_append, mem_singleton] at ha
        rcases ha with ha | ha
        · exact Or.inl (dropLast_subset _ ha)
        · exact Or.inr ha
      · exact Or.inl ha
    · exact Or.inl ha

theorem foldl_insertK_subset (k : ℕ) (es : List (ℚ × ℕ)) : ∀ (h : List (ℚ × ℕ)),
    ∀ a ∈ es.foldl (insertK k) h, a ∈ h ∨ a ∈ es := by
  induction es with
  | nil => intro h a ha; exact Or.inl ha
  | cons e es ih =>
    intro h a ha
    rw [foldl_cons] at ha
    rcases ih _ a ha with h1 | h1
    · rcases insertK_subset k h e a h1 with h2 | h2
      · exact Or.inl h2
      · exact Or.inr (h2 ▸ mem_cons_self)
    · exact Or.inr (mem_cons_of_mem _ h1)

/-! ### K4: skipping a cell is safe -/

/-- K4: a full list whose largest distance `m` does not exceed the distance of any entry of `es` is left unchanged by
folding `insertK k` over `es`. -/
theorem skip_safe_le (k : ℕ) (h : List (ℚ × ℕ)) (m : ℚ × ℕ) (hlen : h.length = k)
    (hm : h.getLast? = some m) (es : List (ℚ × ℕ)) (hes : ∀ e ∈ es, m.1 ≤ e.1) :
    es.foldl (insertK k) h = h := by
  induction es with
  | nil => rfl
  | cons e es ih =>
    rw [foldl_cons, insertK_full_ge k h m e (by omega) hm (hes e mem_cons_self)]
    exact ih (fun e' he' => hes e' (mem_cons_of_mem _ he'))

/-- K4: the strict version, as guaranteed by `m < minDist2 c x ≤ ‖x - p‖²`. -/
theorem skip_safe (k : ℕ) (h : List (ℚ × ℕ)) (m : ℚ × ℕ) (hlen : h.length = k)
    (hm : h.getLast? = some m) (es : List (ℚ × ℕ)) (hes : ∀ e ∈ es, m.1 < e.1) :
    es.foldl (insertK k) h = h :=
  skip_safe_le k h m hlen hm es (fun e he => (hes e he).le)

/-- K4 + K1: the early exit of `scanCell` (full list and `m < minDist2 c x`) returns what scanning the cell would
have returned, provided the particles of the cell really lie in the box `[loc, loc + width]` of the cell. -/
theorem scanCell_skip_sound (s : Space) (k pid : ℕ) (h : List (ℚ × ℕ)) (m : ℚ × ℕ) (c : GCell)
    (hw : 0 ≤ c.width.x ∧ 0 ≤ c.width.y ∧ 0 ≤ c.width.z)
    (hbox : ∀ q ∈ c.parts, InBox c s.pos[q]!)
    (hlen : h.length = k) (hm : h.getLast? = some m) (hskip : m.1 < minDist2 c s.pos[pid]!) :
    c.parts.foldl (fun h q => if q == pid then h else insertK k h (V3.norm2 (s.pos[pid]! - s.pos[q]!), q)) h = h := by
  generalize c.parts = ps at hbox
  induction ps with
  | nil => rfl
  | cons q ps ih =>
    rw [foldl_cons]
    have hq : (if (q == pid) = true then h else insertK k h (V3.norm2 (s.pos[pid]! - s.pos[q]!), q)) = h := by
      split_ifs
      · rfl
      · apply insertK_full_ge k h m _ (by omega) hm
        exact le_trans hskip.le (minDist2_lower_bound' c _ _ hw (hbox q mem_cons_self))
    rw [hq]
    exact ih (fun q' hq' => hbox q' (mem_cons_of_mem _ hq'))

/-- K4 + K1: with correct cell boxes `scanCell` (with its early exit) computes the same list as the plain scan of the cell. -/
theorem scanCell_eq_noskip (s : Space) (k pid : ℕ) (h : List (ℚ × ℕ)) (c : GCell)
    (hw : 0 ≤ c.width.x ∧ 0 ≤ c.width.y ∧ 0 ≤ c.width.z) (hbox : ∀ q ∈ c.parts, InBox c s.pos[q]!) :
    scanCell s k pid h c =
      c.parts.foldl (fun h q => if q == pid then h else insertK k h (V3.norm2 (s.pos[pid]! - s.pos[q]!), q)) h := by
  unfold scanCell
  cases hm : h.getLast? with
  | none => rfl
  | some m =>
    simp only
    split_ifs with hc
    · rw [Bool.and_eq_true, beq_iff_eq, decide_eq_true_eq] at hc
      exact (scanCell_skip_sound s k pid h m c hw hbox hc.1 hm hc.2).symm
    · rfl

/-! ### K5: ring termination bound -/

/-- K5: along one axis with cells `[lo + i w, lo + (i+1) w]`: if `x` lies in cell `i` at distance at least `δ` from both
faces, every point `p` of a cell `j` with `|j - i| ≥ r + 1` satisfies `|p - x| ≥ δ + r w`. -/
theorem ring_bound_1d (lo w x p δ : ℚ) (i j : ℤ) (r : ℕ) (hw : 0 < w)
    (hδ1 : δ ≤ x - (lo + i * w)) (hδ2 : δ ≤ lo + (i + 1) * w - x)
    (hp1 : lo + j * w ≤ p) (hp2 : p ≤ lo + (j + 1) * w) (hr : (r : ℤ) + 1 ≤ |j - i|) :
    δ + r * w ≤ |p - x| := by
  rcases le_or_gt 0 (j - i) with h | h
  · rw [abs_of_nonneg h] at hr
    have h1 : ((r : ℚ) + 1) ≤ (j : ℚ) - i := by exact_mod_cast hr
    have h2 : 0 ≤ ((j : ℚ) - i - (r + 1)) * w := mul_nonneg (by linarith) hw.le
    exact le_trans (by nlinarith) (le_abs_self _)
  · rw [abs_of_neg h] at hr
    have h1 : ((r : ℚ) + 1) ≤ -((j : ℚ) - i) := by exact_mod_cast hr
    have h2 : 0 ≤ (-((j : ℚ) - i) - (r + 1)) * w := mul_nonneg (by linarith) hw.le
    exact le_trans (by nlinarith) (neg_le_abs _)

/-- K5 (3-D corollary): if `x` lies in grid cell `(i₁,i₂,i₃)` at distance at least `δ ≥ 0` from all six faces and `p`
lies in a cell whose index differs by at least `r + 1` on some axis, then `‖p - x‖² ≥ (δ + r · minw)²` for every
`0 ≤ minw ≤` all cell widths: once the `k`-th distance is below this bound no farther ring can contribute. -/
theorem ring_bound_3d (lo w x p : Q3) (δ minw : ℚ) (i1 i2 i3 j1 j2 j3 : ℤ) (r : ℕ)
    (hwx : 0 < w.x) (hwy : 0 < w.y) (hwz : 0 < w.z) (hδ : 0 ≤ δ) (hmw : 0 ≤ minw)
    (hmx : minw ≤ w.x) (hmy : minw ≤ w.y) (hmz : minw ≤ w.z)
    (hx1 : δ ≤ x.x - (lo.x + i1 * w.x)) (hx2 : δ ≤ lo.x + (i1 + 1) * w.x - x.x)
    (hy1 : δ ≤ x.y - (lo.y + i2 * w.y)) (hy2 : δ ≤ lo.y + (i2 + 1) * w.y - x.y)
    (hz1 : δ ≤ x.z - (lo.z + i3 * w.z)) (hz2 : δ ≤ lo.z + (i3 + 1) * w.z - x.z)
    (hpx : lo.x + j1 * w.x ≤ p.x ∧ p.x ≤ lo.x + (j1 + 1) * w.x)
    (hpy : lo.y + j2 * w.y ≤ p.y ∧ p.y ≤ lo.y + (j2 + 1) * w.y)
    (hpz : lo.z + j3 * w.z ≤ p.z ∧ p.z ≤ lo.z + (j3 + 1) * w.z)
    (hr : (r : ℤ) + 1 ≤ |j1 - i1| ∨ (r : ℤ) + 1 ≤ |j2 - i2| ∨ (r : ℤ) + 1 ≤ |j3 - i3|) :
    (δ + r * minw) ^ 2 ≤ V3.norm2 (p - x) := by
  rw [norm2_sub_def]
  have hr0 : (0 : ℚ) ≤ r := Nat.cast_nonneg r
  have h0 : 0 ≤ δ + r * minw := by positivity
  have key : ∀ (t wa : ℚ), minw ≤ wa → δ + r * wa ≤ |t| → (δ + r * minw) ^ 2 ≤ t ^ 2 := by
    intro t wa hwa ht
    have : δ + r * minw ≤ |t| := le_trans (by nlinarith) ht
    rw [← sq_abs t]
    exact pow_le_pow_left₀ h0 this 2
  rcases hr with h | h | h
  · have := key _ _ hmx (ring_bound_1d lo.x w.x x.x p.x δ i1 j1 r hwx hx1 hx2 hpx.1 hpx.2 h)
    nlinarith [sq_nonneg (p.y - x.y), sq_nonneg (p.z - x.z)]
  · have := key _ _ hmy (ring_bound_1d lo.y w.y x.y p.y δ i2 j2 r hwy hy1 hy2 hpy.1 hpy.2 h)
    nlinarith [sq_nonneg (p.x - x.x), sq_nonneg (p.z - x.z)]
  · have := key _ _ hmz (ring_bound_1d lo.z w.z x.z p.z δ i3 j3 r hwz hz1 hz2 hpz.1 hpz.2 h)
    nlinarith [sq_nonneg (p.x - x.x), sq_nonneg (p.y - x.y)]

/-! ### K6: the pinned tree's cell placement breaks the lower bound (and `knn`) for non-cubic cells -/

/-- three particles on a line in the box `[0,1] × [0,6] × [0,1]` -/
def posW : Array Q3 := #[⟨1/2, 41/10, 1/2⟩, ⟨1/2, 39/10, 1/2⟩, ⟨1/2, 46/10, 1/2⟩]
/-- the grid of the pinned tree (`max_cell_width = 2`: `1 × 3 × 1` cells of size `1 × 2 × 1`, placed with `c_width.x`) -/
def spF : Space := mkSpace false ⟨0, 0, 0⟩ ⟨1, 6, 1⟩ 2 posW
/-- the same grid with the componentwise placement -/
def spT : Space := mkSpace true ⟨0, 0, 0⟩ ⟨1, 6, 1⟩ 2 posW

/-- K6: in the pinned tree particle `1` (at `y = 3.9`) is stored in cell `1`, whose recorded box is `y ∈ [1, 3]`: the particle
is outside the box of its own cell, and the "lower bound" `minDist2` of that cell w.r.t. particle `0` exceeds the true
squared distance `1/25`. -/
theorem pinned_lower_bound_fails :
    spF.cwidth = ⟨1, 2, 1⟩ ∧ spF.cells[1]!.loc = ⟨0, 1, 0⟩ ∧ spF.cells[1]!.parts = [1] ∧
    ¬ InBox spF.cells[1]! posW[1]! ∧
    minDist2 spF.cells[1]! posW[0]! = 121 / 100 ∧ V3.norm2 (posW[1]! - posW[0]!) = 1 / 25 ∧
    V3.norm2 (posW[1]! - posW[0]!) < minDist2 spF.cells[1]! posW[0]! := by
  refine ⟨by decide +kernel, by decide +kernel, by decide +kernel, ?_, by decide +kernel, by decide +kernel,
    by decide +kernel⟩
  intro h
  have h2 := h.2.1.2
  have e : posW[1]!.y = 39 / 10 := by decide +kernel
  have e1 : spF.cells[1]!.loc.y = 1 := by decide +kernel
  have e2 : spF.cells[1]!.width.y = 2 := by decide +kernel
  rw [e, e1, e2] at h2
  norm_num at h2

/-- K6: with the componentwise placement the hypothesis of `minDist2_lower_bound` holds for the same particle and cell. -/
theorem fixed_inBox : spT.cells[1]!.loc = ⟨0, 2, 0⟩ ∧ spT.cells[1]!.parts = [1] ∧ InBox spT.cells[1]! posW[1]! ∧
    minDist2 spT.cells[1]! posW[0]! ≤ V3.norm2 (posW[1]! - posW[0]!) := by
  have hl : spT.cells[1]!.loc = ⟨0, 2, 0⟩ := by decide +kernel
  have hw : spT.cells[1]!.width = ⟨1, 2, 1⟩ := by decide +kernel
  have hp : posW[1]! = ⟨1 / 2, 39 / 10, 1 / 2⟩ := by decide +kernel
  have hb : InBox spT.cells[1]! posW[1]! := by
    unfold InBox; rw [hl, hw, hp]; norm_num
  exact ⟨hl, by decide +kernel, hb, minDist2_lower_bound _ _ _ (by rw [hw]; norm_num) hb⟩

/-- K6: the pinned tree's `knn(1)` misses the nearest neighbour of particle `0`: it returns particle `2` at squared distance
`1/4` although particle `1` is at squared distance `1/25` (cell `1` was skipped because of the wrong lower bound). -/
theorem pinned_knn_wrong : knn spF 1 = [[(1 / 4, 2)], [(1 / 25, 0)], [(1 / 4, 0)]] := by decide +kernel

/-- K6: with the componentwise placement `knn(1)` is correct on the same input. -/
theorem fixed_knn_right : knn spT 1 = [[(1 / 25, 1)], [(1 / 25, 0)], [(1 / 4, 0)]] := by decide +kernel

/-- the brute-force specification on the witness -/
theorem knnSpec_witness : knnSpec posW 1 = [[1 / 25], [1 / 25], [1 / 4]] := by
  have h0 : List.range posW.size = [0, 1, 2] := by decide +kernel
  have p0 : ((List.range posW.size).filter (· != 0)).map (fun q => V3.norm2 (posW[0]! - posW[q]!))
      = [1 / 25, 1 / 4] := by decide +kernel
  have p1 : ((List.range posW.size).filter (· != 1)).map (fun q => V3.norm2 (posW[1]! - posW[q]!))
      = [1 / 25, 49 / 100] := by decide +kernel
  have p2 : ((List.range posW.size).filter (· != 2)).map (fun q => V3.norm2 (posW[2]! - posW[q]!))
      = [1 / 4, 49 / 100] := by decide +kernel
  have s0 : sortQ [1 / 25, 1 / 4] = [1 / 25, 1 / 4] := sortQ_self (by simp; norm_num)
  have s1 : sortQ [1 / 25, 49 / 100] = [1 / 25, 49 / 100] := sortQ_self (by simp; norm_num)
  have s2 : sortQ [1 / 4, 49 / 100] = [1 / 4, 49 / 100] := sortQ_self (by simp; norm_num)
  unfold knnSpec
  rw [h0]
  simp only [List.map_cons, List.map_nil]
  rw [← h0, p0, p1, p2]
  unfold sortQ at s0 s1 s2
  rw [s0, s1, s2]
  rfl

/-- K6 (summary): on a non-cubic grid the pinned tree's `knn` disagrees with the specification, the componentwise
placement agrees. -/
theorem pinned_knn_ne_spec :
    (knn spF 1).map (fun h => h.map (·.1)) ≠ knnSpec posW 1 ∧
    (knn spT 1).map (fun h => h.map (·.1)) = knnSpec posW 1 := by
  rw [pinned_knn_wrong, fixed_knn_right, knnSpec_witness]
  constructor
  · simp only [List.map_cons, List.map_nil]
    intro h
    have := (List.cons.inj h).1
    have := (List.cons.inj this).1
    norm_num at this
  · rfl

/-! ### non-vacuity of Part 1 -/

/-- K1: the unit cell at the origin, the query point `(2, ½, ½)` and the cell point `(1, ½, ½)`: the bound is `1`. -/
example : minDist2 ⟨⟨0, 0, 0⟩, ⟨1, 1, 1⟩, []⟩ ⟨2, 1 / 2, 1 / 2⟩ = 1 ∧
    InBox ⟨⟨0, 0, 0⟩, ⟨1, 1, 1⟩, []⟩ ⟨1, 1 / 2, 1 / 2⟩ := by
  refine ⟨by decide +kernel, ?_⟩
  unfold InBox; norm_num

/-- K2/K3: three entries folded into a list bounded by `k = 2` leave the two smallest distances, ascending. -/
example : (([(3, 0), (1, 1), (2, 2)] : List (ℚ × ℕ)).foldl (insertK 2) []).map (·.1) = [1, 2] := by
  rw [(foldl_insertK_nil 2 (by norm_num) _).2.2]
  have : sortQ [3, 1, 2] = [1, 2, 3] := by
    apply sortQ_eq_of_perm
    · exact (List.Perm.swap _ _ _).trans ((List.Perm.swap _ _ _).cons _)
    · simp; norm_num
  unfold sortQ at this
  simp only [List.map_cons, List.map_nil]
  rw [this]; rfl

/-- K4: a full sorted list `[1, 2]` (`k = 2`, last distance `2`) is left unchanged by the farther entry `3`. -/
example : ([((3 : ℚ), 5)] : List (ℚ × ℕ)).foldl (insertK 2) [(1, 0), (2, 1)] = [(1, 0), (2, 1)] :=
  skip_safe 2 _ (2, 1) rfl rfl _ (by intro e he; rw [List.mem_singleton] at he; subst he; norm_num)

/-- K5: unit cells, `x = ½` in cell `0` (`δ = ½`), `p = 2` in cell `2`, `r = 1`: `½ + 1 ≤ |2 - ½|`. -/
example : (1 / 2 : ℚ) + (1 : ℕ) * 1 ≤ |(2 : ℚ) - 1 / 2| :=
  ring_bound_1d 0 1 (1 / 2) 2 (1 / 2) 0 2 1 (by norm_num) (by norm_num) (by norm_num) (by norm_num)
    (by norm_num) (by norm_num)

end MVoro.KnnProofs

namespace MVoro.SphereProofs

open MVoro MVoro.GeomHelpers Finset

/-! ### S1: minimality certificate -/

section Certificate
variable {E : Type*} [NormedAddCommGroup E] [InnerProductSpace ℝ E]

/-- S1 (quantitative form): if `c` is a convex combination of points `p i` that all lie at distance `r` from `c`, every
ball `(c', r')` containing the points satisfies `r² + ‖c - c'‖² ≤ r'²`. -/
theorem certificate_sq {ι : Type*} (s : Finset ι) (p : ι → E) (lam : ι → ℝ) (c : E) (r : ℝ)
    (hlam : ∀ i ∈ s, 0 ≤ lam i) (hsum : ∑ i ∈ s, lam i = 1) (hc : ∑ i ∈ s, lam i • p i = c)
    (hr : ∀ i ∈ s, ‖p i - c‖ = r) (c' : E) (r' : ℝ) (hcont : ∀ i ∈ s, ‖p i - c'‖ ≤ r') :
    r ^ 2 + ‖c - c'‖ ^ 2 ≤ r' ^ 2 := by
  have hzero : ∑ i ∈ s, lam i • (p i - c) = 0 := by
    simp only [smul_sub, Finset.sum_sub_distrib, ← Finset.sum_smul, hsum, one_smul, hc, sub_self]
  have hterm : ∀ i ∈ s, lam i * ‖p i - c'‖ ^ 2 =
      lam i * r ^ 2 + 2 * inner ℝ (lam i • (p i - c)) (c - c') + lam i * ‖c - c'‖ ^ 2 := by
    intro i hi
    have e : p i - c' = (p i - c) + (c - c') := by abel
    rw [e, norm_add_sq_real, hr i hi, real_inner_smul_left]
    ring
  have hS : ∑ i ∈ s, lam i * ‖p i - c'‖ ^ 2 = r ^ 2 + ‖c - c'‖ ^ 2 := by
    rw [Finset.sum_congr rfl hterm]
    simp only [Finset.sum_add_distrib, ← Finset.sum_mul, ← Finset.mul_sum, ← sum_inner, hsum, hzero,
      inner_zero_left]
    ring
  have hle : ∑ i ∈ s, lam i * ‖p i - c'‖ ^ 2 ≤ ∑ i ∈ s, lam i * r' ^ 2 := by
    apply Finset.sum_le_sum
    intro i hi
    exact mul_le_mul_of_nonneg_left (pow_le_pow_left₀ (norm_nonneg _) (hcont i hi) 2) (hlam i hi)
  rw [hS, ← Finset.sum_mul, hsum, one_mul] at hle
  exact hle

/-- S1: a sphere `(c, r)` whose centre is a convex combination of points on it is the minimal ball of these points:
every ball `(c', r')` containing all `p i` has `r ≤ r'`. -/
theorem minimal_of_certificate {ι : Type*} (s : Finset ι) (p : ι → E) (lam : ι → ℝ) (c : E) (r : ℝ)
    (hlam : ∀ i ∈ s, 0 ≤ lam i) (hsum : ∑ i ∈ s, lam i = 1) (hc : ∑ i ∈ s, lam i • p i = c)
    (hr : ∀ i ∈ s, ‖p i - c‖ = r) (c' : E) (r' : ℝ) (hcont : ∀ i ∈ s, ‖p i - c'‖ ≤ r') :
    r ≤ r' := by
  have hsq := certificate_sq s p lam c r hlam hsum hc hr c' r' hcont
  have hne : s.Nonempty := by
    rcases s.eq_empty_or_nonempty with h | h
    · rw [h, Finset.sum_empty] at hsum; exact absurd hsum (by norm_num)
    · exact h
  obtain ⟨i, hi⟩ := hne
  have hr'0 : 0 ≤ r' := le_trans (norm_nonneg _) (hcont i hi)
  have h1 : r ^ 2 ≤ r' ^ 2 := by nlinarith [sq_nonneg ‖c - c'‖]
  exact le_trans (le_abs_self r) (abs_le_of_sq_le_sq h1 hr'0)

/-- S1 (uniqueness): a ball of the same radius containing the points has the same centre. -/
theorem center_unique_of_certificate {ι : Type*} (s : Finset ι) (p : ι → E) (lam : ι → ℝ) (c : E) (r : ℝ)
    (hlam : ∀ i ∈ s, 0 ≤ lam i) (hsum : ∑ i ∈ s, lam i = 1) (hc : ∑ i ∈ s, lam i • p i = c)
    (hr : ∀ i ∈ s, ‖p i - c‖ = r) (c' : E) (hcont : ∀ i ∈ s, ‖p i - c'‖ ≤ r) : c' = c := by
  have hsq := certificate_sq s p lam c r hlam hsum hc hr c' r hcont
  have h0 : ‖c - c'‖ ^ 2 ≤ 0 := by linarith
  have h1 : ‖c - c'‖ = 0 := by
    have := sq_nonneg ‖c - c'‖
    exact pow_eq_zero_iff (two_ne_zero) |>.mp (le_antisymm h0 this)
  exact (sub_eq_zero.mp (norm_eq_zero.mp h1)).symm

/-! ### S2: two points -/

/-- S2: the midpoint sphere of two points carries the certificate with weights `(½, ½)`. -/
theorem sphere2_certificate (a b : E) :
    (∑ t : Bool, (1 / 2 : ℝ) • (cond t a b)) = (1 / 2 : ℝ) • (a + b) ∧
    ‖a - (1 / 2 : ℝ) • (a + b)‖ = ‖a - b‖ / 2 ∧ ‖b - (1 / 2 : ℝ) • (a + b)‖ = ‖a - b‖ / 2 := by
  refine ⟨?_, ?_, ?_⟩
  · rw [Fintype.sum_bool]; simp only [cond_true, cond_false, smul_add]
  · have : a - (1 / 2 : ℝ) • (a + b) = (1 / 2 : ℝ) • (a - b) := by
      rw [smul_add, smul_sub]
      have : a = (1 / 2 : ℝ) • a + (1 / 2 : ℝ) • a := by rw [← add_smul]; norm_num
      nth_rewrite 1 [this]; abel
    rw [this, norm_smul, Real.norm_of_nonneg (by norm_num)]; ring
  · have : b - (1 / 2 : ℝ) • (a + b) = (1 / 2 : ℝ) • (b - a) := by
      rw [smul_add, smul_sub]
      have : b = (1 / 2 : ℝ) • b + (1 / 2 : ℝ) • b := by rw [← add_smul]; norm_num
      nth_rewrite 1 [this]; abel
    rw [this, norm_smul, Real.norm_of_nonneg (by norm_num), norm_sub_rev]; ring

/-- S2: the midpoint sphere of two points is their minimal enclosing ball. -/
theorem sphere2_minimal_E (a b c' : E) (r' : ℝ) (ha : ‖a - c'‖ ≤ r') (hb : ‖b - c'‖ ≤ r') :
    ‖a - b‖ / 2 ≤ r' := by
  obtain ⟨h1, h2, h3⟩ := sphere2_certificate a b
  refine minimal_of_certificate (Finset.univ : Finset Bool) (fun t => cond t a b) (fun _ => 1 / 2)
    ((1 / 2 : ℝ) • (a + b)) (‖a - b‖ / 2) (fun _ _ => by norm_num) ?_ h1 ?_ c' r' ?_
  · rw [Fintype.sum_bool]; norm_num
  · intro t _; cases t
    · exact h3
    · exact h2
  · intro t _; cases t
    · exact hb
    · exact ha

/-! ### S5: the sphere-of-spheres extension step -/

/-- S5: `Epos6::bounding_sphere_of_spheres`' update `R' = R + δ`, `c' = c - δ (c - c_s)/dist` with
`δ = (dist - R + r_s)/2 > 0` contains the old ball and the new sphere, provided the new sphere does not swallow the old
ball (`r_s ≤ R + dist`, equivalently `δ ≤ dist`).  Both inclusions are tight. -/
theorem sphere_of_spheres_step (c cs : E) (R rs : ℝ) (hd : 0 < ‖cs - c‖)
    (hδ : 0 < (‖cs - c‖ - R + rs) / 2) (hbig : rs ≤ R + ‖cs - c‖) :
    let dist := ‖cs - c‖
    let δ := (dist - R + rs) / 2
    let c' := c - (δ / dist) • (c - cs)
    ‖c' - c‖ + R ≤ R + δ ∧ ‖c' - cs‖ + rs ≤ R + δ := by
  intro dist δ c'
  have hdist : ‖c - cs‖ = dist := norm_sub_rev c cs
  have e1 : c' - c = -((δ / dist) • (c - cs)) := by simp only [c']; abel
  have e2 : c' - cs = (1 - δ / dist) • (c - cs) := by
    simp only [c']; rw [sub_smul, one_smul]; abel
  have hδ' : 0 < δ := hδ
  have hd' : 0 < dist := hd
  have hle : δ ≤ dist := by simp only [δ]; linarith
  constructor
  · rw [e1, norm_neg, norm_smul, hdist, Real.norm_of_nonneg (by positivity)]
    have : δ / dist * dist = δ := by field_simp
    linarith
  · have h1 : 0 ≤ 1 - δ / dist := by
      rw [sub_nonneg, div_le_one hd']; exact hle
    rw [e2, norm_smul, hdist, Real.norm_of_nonneg h1]
    have : (1 - δ / dist) * dist = dist - δ := by field_simp
    rw [this]
    simp only [δ]; linarith

/-- S5 is false without `r_s ≤ R + dist`: on the real line the unit ball at `0` extended by the ball of radius `10` at
`1` gives centre `5`, radius `6`, which does not contain the point `-9` of the new ball. -/
example : ¬ (‖((0 : ℝ) - (((‖(1 : ℝ) - 0‖ - 1 + 10) / 2) / ‖(1 : ℝ) - 0‖) • ((0 : ℝ) - 1)) - 1‖ + 10
    ≤ 1 + (‖(1 : ℝ) - 0‖ - 1 + 10) / 2) := by
  norm_num [Real.norm_eq_abs]

end Certificate

/-- non-vacuity of S1/S2 on the real line: the ball of `{0, 2}` is `(1, 1)`; every enclosing interval has radius `≥ 1`. -/
example (c' r' : ℝ) (h0 : ‖(0 : ℝ) - c'‖ ≤ r') (h2 : ‖(2 : ℝ) - c'‖ ≤ r') : 1 ≤ r' := by
  have := sphere2_minimal_E (0 : ℝ) 2 c' r' h0 h2
  norm_num [Real.norm_eq_abs] at this
  linarith


/-! ### S2 for the model: `Sphere::from_two_points` is minimal -/

/-- S2 (model): every ball containing `a` and `b` has radius at least that of `Sphere::from_two_points a b`. -/
theorem sphere2_minimal (a b c' : V3 ℝ) (R : ℝ) (ha : V3.distance a c' ≤ R) (hb : V3.distance b c' ≤ R) :
    (Ref.sphere2 a b).radius ≤ R := by
  rw [sphere2_radius]
  rw [distance_def] at ha hb
  have hR : 0 ≤ R := le_trans (Real.sqrt_nonneg _) ha
  have ha2 := (Real.sqrt_le_left hR).mp ha
  have hb2 := (Real.sqrt_le_left hR).mp hb
  have hpar := norm2_sub_le a b c'
  have h4 : V3.norm2 (a - b) ≤ (2 * R) ^ 2 := by nlinarith
  have := Real.sqrt_le_sqrt h4
  rw [Real.sqrt_sq (by linarith)] at this
  linarith

/-- S1 (model, coordinates): the certificate over `V3 ℝ`: if `c = Σ λ_i p_i` (componentwise) with `λ_i ≥ 0`, `Σ λ_i = 1`
and all `p_i` at squared distance `r²` from `c`, every ball `(c', r')` containing the `p_i` has `r² + ‖c-c'‖² ≤ r'²`. -/
theorem certificate_sq_V3 {ι : Type*} (s : Finset ι) (p : ι → V3 ℝ) (lam : ι → ℝ) (c : V3 ℝ) (r : ℝ)
    (hlam : ∀ i ∈ s, 0 ≤ lam i) (hsum : ∑ i ∈ s, lam i = 1)
    (hcx : ∑ i ∈ s, lam i * (p i).x = c.x) (hcy : ∑ i ∈ s, lam i * (p i).y = c.y)
    (hcz : ∑ i ∈ s, lam i * (p i).z = c.z)
    (hr : ∀ i ∈ s, V3.distance2 (p i) c = r ^ 2) (c' : V3 ℝ) (r' : ℝ)
    (hcont : ∀ i ∈ s, V3.distance2 (p i) c' ≤ r' ^ 2) :
    r ^ 2 + V3.distance2 c c' ≤ r' ^ 2 := by
  have hterm : ∀ i ∈ s, lam i * V3.distance2 (p i) c' =
      lam i * r ^ 2 + (2 * (c.x - c'.x) * (lam i * (p i).x) + 2 * (c.y - c'.y) * (lam i * (p i).y)
        + 2 * (c.z - c'.z) * (lam i * (p i).z))
      - lam i * (2 * (c.x - c'.x) * c.x + 2 * (c.y - c'.y) * c.y + 2 * (c.z - c'.z) * c.z)
      + lam i * V3.distance2 c c' := by
    intro i hi
    rw [← hr i hi]
    simp only [distance2_def]
    ring
  have hS : ∑ i ∈ s, lam i * V3.distance2 (p i) c' = r ^ 2 + V3.distance2 c c' := by
    rw [Finset.sum_congr rfl hterm]
    simp only [Finset.sum_add_distrib, Finset.sum_sub_distrib, ← Finset.sum_mul, ← Finset.mul_sum, hsum,
      hcx, hcy, hcz]
    ring
  have hle : ∑ i ∈ s, lam i * V3.distance2 (p i) c' ≤ ∑ i ∈ s, lam i * r' ^ 2 := by
    apply Finset.sum_le_sum
    intro i hi
    exact mul_le_mul_of_nonneg_left (hcont i hi) (hlam i hi)
  rw [hS, ← Finset.sum_mul, hsum, one_mul] at hle
  exact hle

/-- S1 (model): a sphere of `V3 ℝ` carrying the certificate is the minimal enclosing ball of its support points. -/
theorem minimal_of_certificate_V3 {ι : Type*} (s : Finset ι) (p : ι → V3 ℝ) (lam : ι → ℝ) (c : V3 ℝ) (r : ℝ)
    (hr0 : 0 ≤ r) (hlam : ∀ i ∈ s, 0 ≤ lam i) (hsum : ∑ i ∈ s, lam i = 1)
    (hcx : ∑ i ∈ s, lam i * (p i).x = c.x) (hcy : ∑ i ∈ s, lam i * (p i).y = c.y)
    (hcz : ∑ i ∈ s, lam i * (p i).z = c.z)
    (hr : ∀ i ∈ s, V3.distance2 (p i) c = r ^ 2) (c' : V3 ℝ) (r' : ℝ) (hr' : 0 ≤ r')
    (hcont : ∀ i ∈ s, V3.distance (p i) c' ≤ r') : r ≤ r' := by
  have hsq := certificate_sq_V3 s p lam c r hlam hsum hcx hcy hcz hr c' r' (by
    intro i hi
    have := hcont i hi
    rw [distance_def] at this
    exact (Real.sqrt_le_left hr').mp this)
  have h1 : r ^ 2 ≤ r' ^ 2 := by linarith [distance2_nonneg c c']
  exact le_trans (le_abs_self r) (abs_le_of_sq_le_sq h1 hr')

/-! ### S3: `Sphere::extend` keeps everything contained -/

theorem contains_false_of_not {s : Sphere ℝ} {x : V3 ℝ} (h : ¬ Ref.contains s x = true) :
    Ref.contains s x = false := by simpa using h

/-- the radius stays positive under `Sphere::extend` -/
theorem extend_radius_pos (s : Sphere ℝ) (x : V3 ℝ) (hr : 0 < s.radius) : 0 < (Ref.extend s x).radius := by
  by_cases h : Ref.contains s x = true
  · rw [extend_of_contains s x h]; exact hr
  · have h' := contains_false_of_not h
    rw [extend_radius_eq s x hr h']
    have := lt_distance_of_not_contains s x hr h'
    linarith

/-- the radius does not shrink under `Sphere::extend` -/
theorem extend_radius_mono (s : Sphere ℝ) (x : V3 ℝ) (hr : 0 < s.radius) :
    s.radius ≤ (Ref.extend s x).radius := by
  by_cases h : Ref.contains s x = true
  · rw [extend_of_contains s x h]
  · have h' := contains_false_of_not h
    rw [extend_radius_eq s x hr h']
    have := lt_distance_of_not_contains s x hr h'
    linarith

/-- S3: whatever `Sphere::contains` accepted before `Sphere::extend` (including the `1 + 1e-10` slack) it accepts
afterwards. -/
theorem extend_keeps_contained (s : Sphere ℝ) (x y : V3 ℝ) (hy : Ref.contains s y = true) :
    Ref.contains (Ref.extend s x) y = true := by
  have hr : 0 < s.radius := ((contains_iff s y).mp hy).1
  by_cases h : Ref.contains s x = true
  · rw [extend_of_contains s x h]; exact hy
  · have h' := contains_false_of_not h
    rw [contains_iff] at hy ⊢
    refine ⟨extend_radius_pos s x hr, ?_⟩
    obtain ⟨-, hy⟩ := hy
    have hlt := lt_distance_of_not_contains s x hr h'
    rw [extend_radius_eq s x hr h']
    rw [distance_def] at hlt ⊢
    show V3.norm2 (y - (Ref.extend s x).center) ≤ _
    change V3.norm2 (y - s.center) ≤ _ at hy
    rw [extend_center s x h']
    generalize hdef : Real.sqrt (V3.norm2 (x - s.center)) = d at *
    have hdpos : 0 < d := lt_trans hr hlt
    have hd2 : d ^ 2 = V3.norm2 (x - s.center) := by
      rw [← hdef]; exact Real.sq_sqrt (norm2_nonneg _)
    obtain ⟨-, e2, -⟩ := extend_aux s.center x s.radius d hdpos.ne' hd2
    rw [e2 y, norm2_sub_smul, ← hd2]
    have hcs := dot_sq_le (y - s.center) (x - s.center)
    rw [← hd2] at hcs
    have hq0 := norm2_nonneg (y - s.center)
    clear e2 hdef
    generalize V3.dot (y - s.center) (x - s.center) = p at *
    generalize V3.norm2 (y - s.center) = q at *
    generalize s.radius = r at *
    -- the slack factor
    have hS1 : (1 : ℝ) ≤ 1 + 1 / 10 ^ 10 := by norm_num
    generalize (1 : ℝ) + 1 / 10 ^ 10 = S at *
    obtain ⟨σ, hσ1, hσ2⟩ : ∃ σ : ℝ, 1 ≤ σ ∧ σ ^ 2 = S :=
      ⟨Real.sqrt S, Real.le_sqrt_of_sq_le (by simpa using hS1), Real.sq_sqrt (by linarith)⟩
    subst hσ2
    have hp : -(r * σ * d) ≤ p := by
      have h1 : p ^ 2 ≤ (r * σ * d) ^ 2 := by
        calc p ^ 2 ≤ q * d ^ 2 := hcs
          _ ≤ (r * r * σ ^ 2) * d ^ 2 := mul_le_mul_of_nonneg_right hy (by positivity)
          _ = (r * σ * d) ^ 2 := by ring
      have h2 : 0 ≤ r * σ * d := by positivity
      exact (abs_le.mp (abs_le_of_sq_le_sq h1 h2)).1
    have hk : 0 ≤ (d - r) / (2 * d) := by
      apply div_nonneg <;> linarith
    have hkd : (d - r) / (2 * d) * d = (d - r) / 2 := by field_simp
    generalize (d - r) / (2 * d) = k at *
    have ht : 0 ≤ (d - r) / 2 := by linarith
    have h1 : q - 2 * k * p + k ^ 2 * d ^ 2 ≤ r * r * σ ^ 2 + 2 * k * (r * σ * d) + k ^ 2 * d ^ 2 := by
      nlinarith [mul_le_mul_of_nonneg_left hp hk]
    have h2 : r * r * σ ^ 2 + 2 * k * (r * σ * d) + k ^ 2 * d ^ 2 = (r * σ + (d - r) / 2) ^ 2 := by
      rw [← hkd]; ring
    have h3 : (r * σ + (d - r) / 2) ^ 2 ≤ ((r + (d - r) / 2) * σ) ^ 2 := by
      apply pow_le_pow_left₀ (by positivity)
      nlinarith
    calc q - 2 * k * p + k ^ 2 * d ^ 2 ≤ ((r + (d - r) / 2) * σ) ^ 2 := by linarith
      _ = (d + r) / 2 * ((d + r) / 2) * σ ^ 2 := by ring

/-- S3: after `Sphere::extend s x` (positive radius) the point `x` is contained. -/
theorem extend_contains_new (s : Sphere ℝ) (x : V3 ℝ) (hr : 0 < s.radius) :
    Ref.contains (Ref.extend s x) x = true := by
  by_cases h : Ref.contains s x = true
  · rw [extend_of_contains s x h]; exact h
  · have h' := contains_false_of_not h
    obtain ⟨e, -⟩ := extend_contains_point s x hr h'
    rw [contains_iff]
    refine ⟨extend_radius_pos s x hr, ?_⟩
    have e2 : V3.distance2 x (Ref.extend s x).center = (Ref.extend s x).radius ^ 2 := by
      rw [← e, distance_def, Real.sq_sqrt (norm2_nonneg _)]; rfl
    rw [e2]
    nlinarith [sq_nonneg (Ref.extend s x).radius]

/-! ### S4: the final loop of `Epos6::bounding_sphere` -/

/-- S4: extending a sphere of positive radius by all points of a list yields a sphere of positive radius that contains
every point of the list and everything the start sphere contained. -/
theorem fold_extend_contains_all (ps : List (V3 ℝ)) : ∀ (s : Sphere ℝ), 0 < s.radius →
    0 < (ps.foldl Ref.extend s).radius ∧
    (∀ y, Ref.contains s y = true → Ref.contains (ps.foldl Ref.extend s) y = true) ∧
    (∀ x ∈ ps, Ref.contains (ps.foldl Ref.extend s) x = true) := by
  induction ps with
  | nil => intro s hr; exact ⟨hr, fun y hy => hy, fun x hx => by simp at hx⟩
  | cons a ps ih =>
    intro s hr
    obtain ⟨h1, h2, h3⟩ := ih (Ref.extend s a) (extend_radius_pos s a hr)
    rw [List.foldl_cons]
    refine ⟨h1, fun y hy => h2 y (extend_keeps_contained s a y hy), ?_⟩
    intro x hx
    rcases List.mem_cons.mp hx with rfl | hx
    · exact h2 x (extend_contains_new s x hr)
    · exact h3 x hx

/-- S4 (EPOS-6): whatever the initial guess of positive radius, the result of the extension loop over `ps` contains all
of `ps`. -/
theorem epos6_contains_all (ps : List (V3 ℝ)) (s0 : Sphere ℝ) (hr : 0 < s0.radius) :
    ∀ x ∈ ps, Ref.contains (ps.foldl Ref.extend s0) x = true :=
  (fold_extend_contains_all ps s0 hr).2.2

/-- non-vacuity of S3/S4: extending the unit sphere by `(3,0,0)` and `(0,5,0)` contains both points and the old point
`(1,0,0)`. -/
example : let s := [(⟨3, 0, 0⟩ : V3 ℝ), ⟨0, 5, 0⟩].foldl Ref.extend ⟨⟨0, 0, 0⟩, 1⟩
    Ref.contains s ⟨3, 0, 0⟩ = true ∧ Ref.contains s ⟨0, 5, 0⟩ = true ∧ Ref.contains s ⟨1, 0, 0⟩ = true := by
  intro s
  obtain ⟨-, h2, h3⟩ := fold_extend_contains_all [(⟨3, 0, 0⟩ : V3 ℝ), ⟨0, 5, 0⟩] ⟨⟨0, 0, 0⟩, 1⟩ (by norm_num)
  refine ⟨h3 _ (by simp), h3 _ (by simp), h2 _ ?_⟩
  rw [contains_iff, distance2_def]; norm_num

/-- non-vacuity of S1 (model): the unit sphere at the origin with support `(±1,0,0)` and weights `(½,½)`. -/
example (c' : V3 ℝ) (r' : ℝ) (hr' : 0 ≤ r') (h1 : V3.distance ⟨1, 0, 0⟩ c' ≤ r')
    (h2 : V3.distance ⟨-1, 0, 0⟩ c' ≤ r') : 1 ≤ r' := by
  refine minimal_of_certificate_V3 (Finset.univ : Finset Bool) (fun t => cond t ⟨1, 0, 0⟩ ⟨-1, 0, 0⟩)
    (fun _ => 1 / 2) ⟨0, 0, 0⟩ 1 (by norm_num) (fun _ _ => by norm_num) ?_ ?_ ?_ ?_ ?_ c' r' hr' ?_
  · rw [Fintype.sum_bool]; norm_num
  · rw [Fintype.sum_bool]; norm_num
  · rw [Fintype.sum_bool]; norm_num
  · rw [Fintype.sum_bool]; norm_num
  · intro t _; cases t <;> · rw [distance2_def]; norm_num
  · intro t _; cases t
    · exact h2
    · exact h1

end MVoro.SphereProofs

#print axioms MVoro.KnnProofs.clampAxis_mem
#print axioms MVoro.KnnProofs.clampAxis_closest
#print axioms MVoro.KnnProofs.minDist2_lower_bound
#print axioms MVoro.KnnProofs.minDist2_lower_bound'
#print axioms MVoro.KnnProofs.closestLoc_inBox
#print axioms MVoro.KnnProofs.insertK_spec
#print axioms MVoro.KnnProofs.insertK_length_le
#print axioms MVoro.KnnProofs.smallest_append
#print axioms MVoro.KnnProofs.foldl_insertK_spec
#print axioms MVoro.KnnProofs.foldl_insertK_nil
#print axioms MVoro.KnnProofs.foldl_insertK_subset
#print axioms MVoro.KnnProofs.skip_safe_le
#print axioms MVoro.KnnProofs.skip_safe
#print axioms MVoro.KnnProofs.scanCell_skip_sound
#print axioms MVoro.KnnProofs.scanCell_eq_noskip
#print axioms MVoro.KnnProofs.ring_bound_1d
#print axioms MVoro.KnnProofs.ring_bound_3d
#print axioms MVoro.KnnProofs.pinned_lower_bound_fails
#print axioms MVoro.KnnProofs.fixed_inBox
#print axioms MVoro.KnnProofs.pinned_knn_wrong
#print axioms MVoro.KnnProofs.fixed_knn_right
#print axioms MVoro.KnnProofs.knnSpec_witness
#print axioms MVoro.KnnProofs.pinned_knn_ne_spec
#print axioms MVoro.SphereProofs.certificate_sq
#print axioms MVoro.SphereProofs.minimal_of_certificate
#print axioms MVoro.SphereProofs.center_unique_of_certificate
#print axioms MVoro.SphereProofs.sphere2_certificate
#print axioms MVoro.SphereProofs.sphere2_minimal_E
#print axioms MVoro.SphereProofs.sphere_of_spheres_step
#print axioms MVoro.SphereProofs.sphere2_minimal
#print axioms MVoro.SphereProofs.certificate_sq_V3
#print axioms MVoro.SphereProofs.minimal_of_certificate_V3
#print axioms MVoro.SphereProofs.extend_radius_pos
#print axioms MVoro.SphereProofs.extend_radius_mono
#print axioms MVoro.SphereProofs.extend_keeps_contained
#print axioms MVoro.SphereProofs.extend_contains_new
#print axioms MVoro.SphereProofs.fold_extend_contains_all
#print axioms MVoro.SphereProofs.epos6_contains_all
