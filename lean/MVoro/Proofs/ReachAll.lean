/-
All invariants of the exact construction together.  A cell reachable from the start cell of `ConvexCell::init` by exact clips whose
boundary reconstruction succeeded (`Star.Step`) is

* geometrically good (`Star.Good`): closed surface; every vertex on its three planes, positively oriented, inside every half space;
* combinatorially good (`EulerReach.SGood`): no repeated vertex, three different planes per vertex, every plane's vertices form one
  umbrella (no pinched face), and `V + 4 = 2F`, i.e. `V − E + F = 2`.
-/
import MVoro.Proofs.StarReach
import MVoro.Proofs.EulerReach

namespace MVoro.ReachAll
open MVoro MVoro.Star MVoro.CycleBoundary MVoro.Euler MVoro.EulerReach Relation

variable {α : Type} [Field α] [LinearOrder α] [IsStrictOrderedRing α]

/-- a geometric clip step is a combinatorial clip step -/
theorem cstep_of_step (g : I3 α) (nbr : Nat → I3 α) (s s' : St α) (hs : Good g nbr s) (h : Step g nbr s s') : CStep s.T s'.T := by
  cases h with
  | clip p R succ loc' hfresh hR hRn hG hkeep hnew =>
    refine ⟨R, succ, p, fun t ht => ((hR t).1 ht).1, hRn, hG, ?_, rfl⟩
    intro d hd hdp
    obtain ⟨ia, ib, ic⟩ := hs.2.2.1 d hd
    rcases hdp with e | e | e
    · exact hfresh (e ▸ ia)
    · exact hfresh (e ▸ ib)
    · exact hfresh (e ▸ ic)

/-- **every reachable cell satisfies all invariants** -/
theorem reachable_all (lo hi g : I3 α) (h0 : lo.c0 < g.c0 ∧ g.c0 < hi.c0) (h1 : lo.c1 < g.c1 ∧ g.c1 < hi.c1)
    (h2 : lo.c2 < g.c2 ∧ g.c2 < hi.c2) (nbr : Nat → I3 α) (hn : ∀ i, i < 6 → nbr i = mirrorNbr lo hi g i) (s : St α)
    (h : ReflTransGen (Step g nbr) (initSt lo hi) s) : Good g nbr s ∧ SGood s.T := by
  induction h with
  | refl =>
    exact ⟨reachable_from_init_good lo hi g h0 h1 h2 nbr hn _ ReflTransGen.refl, box8_good⟩
  | tail hreach hstep ih =>
    have hg := reachable_from_init_good lo hi g h0 h1 h2 nbr hn _ (ReflTransGen.tail hreach hstep)
    exact ⟨hg, cstep_good ih.2 (cstep_of_step g nbr _ _ ih.1 hstep)⟩

#print axioms MVoro.ReachAll.reachable_all
end MVoro.ReachAll
