/-
C20 (T20.1): the ring loop of the uniform-grid k-nearest-neighbour search (`Space::knn`, model `Knn.knnLoop`) returns, in
increasing order, exactly the `k` smallest distances to the other particles — for every grid that satisfies three
well-formedness conditions, each of which speaks about the grid alone:

* `hbox`  every particle registered in a cell lies in the box `[loc, loc + width]` of that cell (the hypothesis of the
          cell lower bound; false for the pinned tree's placement on non-cubic boxes, `pinned_lower_bound_fails`);
* `hend`  from some ring `R ≤ fuel` on the rings are empty (the grid is finite);
* `hfar`  a particle registered in a cell of ring `r' > r` is at least `dist_to_face + r · min width` away
          (the conclusion of `ring_bound_3d` for a grid of congruent cells indexed by integer triples).

The theorem composes the ingredients of `Aux20` (bounded heap = k smallest, skipping a cell is safe, ring bound): whatever
the early exits (skipped cells, termination test) do, the result equals the plain fold of `insertK` over ALL particles
of ALL rings.  That `mkSpace true` produces a grid with `hbox / hend / hfar / hpart` (index arithmetic of `get_r_ring` and of the binning by
`floor`) is proved in `GridWF`, `RingWF` and `KnnFull` (`knn_mkSpace_eq_spec`); the driver still checks `hbox` and the partition
property on every grid it builds.
-/
import MVoro.Proofs.Aux20

set_option linter.unusedVariables false
set_option linter.unusedSimpArgs false

namespace MVoro.KnnCorrect
open MVoro MVoro.Knn MVoro.KnnProofs List

variable (s : Space) (k pid cid : ℕ)

/-- the heap entries a cell contributes for particle `pid` -/
def cellEntries (c : GCell) : List (ℚ × ℕ) :=
  (c.parts.filter (fun q => !(q == pid))).map fun q => (V3.norm2 (s.pos[pid]! - s.pos[q]!), q)

/-- entries of a list of cell ids, in scan order -/
def entries (cs : List ℕ) : List (ℚ × ℕ) := cs.flatMap fun c => cellEntries s pid s.cells[c]!

/-- entries of the rings `r₀, r₀+1, …, r₀+n-1` -/
def ringEntries (r₀ n : ℕ) : List (ℚ × ℕ) := (List.range n).flatMap fun i => entries s pid (ring s cid (r₀ + i))

theorem ringEntries_succ (r₀ n : ℕ) :
    ringEntries s pid cid r₀ (n + 1) = entries s pid (ring s cid r₀) ++ ringEntries s pid cid (r₀ + 1) n := by
  unfold ringEntries
  rw [List.range_succ_eq_map, List.flatMap_cons, List.flatMap_map]
  simp only [Nat.add_zero, Function.comp_def]
  congr 1
  apply List.flatMap_congr
  intro i _
  congr 2
  omega

/-- scanning the particles of one cell = folding `insertK` over the cell's entries -/
theorem scan_parts_eq (ps : List ℕ) (h : List (ℚ × ℕ)) :
    ps.foldl (fun h q => if q == pid then h else insertK k h (V3.norm2 (s.pos[pid]! - s.pos[q]!), q)) h =
      ((ps.filter (fun q => !(q == pid))).map fun q => (V3.norm2 (s.pos[pid]! - s.pos[q]!), q)).foldl (insertK k) h := by
  induction ps generalizing h with
  | nil => rfl
  | cons q ps ih =>
    rw [foldl_cons, ih]
    by_cases hq : (q == pid) = true
    · simp [hq]
    · simp [hq]

/-- scanning the cells of one ring (with the skip test) = folding `insertK` over all their entries -/
theorem scan_ring_eq (cs : List ℕ) (h : List (ℚ × ℕ))
    (hbox : ∀ c ∈ cs, (0 ≤ s.cells[c]!.width.x ∧ 0 ≤ s.cells[c]!.width.y ∧ 0 ≤ s.cells[c]!.width.z) ∧
      ∀ q ∈ s.cells[c]!.parts, InBox s.cells[c]! s.pos[q]!) :
    cs.foldl (fun h c => scanCell s k pid h s.cells[c]!) h = (entries s pid cs).foldl (insertK k) h := by
  induction cs generalizing h with
  | nil => rfl
  | cons c cs ih =>
    have hc := hbox c mem_cons_self
    rw [foldl_cons, scanCell_eq_noskip s k pid h _ hc.1 hc.2, scan_parts_eq, ih _ (fun c' hc' => hbox c' (mem_cons_of_mem _ hc'))]
    unfold entries
    rw [flatMap_cons, foldl_append]
    rfl

/-- the heap after folding over a prefix is sorted, bounded, and describes the `k` smallest of the prefix -/
theorem fold_state (hk : 0 < k) (es : List (ℚ × ℕ)) :
    Sorted (es.foldl (insertK k) []) ∧ (es.foldl (insertK k) []).length = min k es.length :=
  ⟨(foldl_insertK_nil k hk es).1, (foldl_insertK_nil k hk es).2.1⟩

/-- **main lemma**: started after the rings `< r` have been folded, the ring loop returns the fold over ALL rings up to
`R`, provided the rings from `R` on are empty and the remaining fuel reaches `R` -/
theorem knnLoop_eq_fold (hk : 0 < k) (d2f : ℚ) (R : ℕ)
    (hbox : ∀ r, ∀ c ∈ ring s cid r, (0 ≤ s.cells[c]!.width.x ∧ 0 ≤ s.cells[c]!.width.y ∧ 0 ≤ s.cells[c]!.width.z) ∧
      ∀ q ∈ s.cells[c]!.parts, InBox s.cells[c]! s.pos[q]!)
    (hend : ∀ r, R ≤ r → ring s cid r = [])
    (hfar : ∀ r r', r < r' → ∀ e ∈ entries s pid (ring s cid r'),
      (d2f + r * min (min s.cwidth.x s.cwidth.y) s.cwidth.z) * (d2f + r * min (min s.cwidth.x s.cwidth.y) s.cwidth.z) ≤ e.1) :
    ∀ (fuel r : ℕ), R ≤ r + fuel →
      knnLoop s k pid cid d2f fuel r ((ringEntries s pid cid 0 r).foldl (insertK k) []) =
        (ringEntries s pid cid 0 (max R r)).foldl (insertK k) [] := by
  -- folding the entries of rings beyond `r` that are all at least as far as the current maximum changes nothing
  have hrest : ∀ (r n : ℕ) (h : List (ℚ × ℕ)) (m : ℚ × ℕ), h.length = k → h.getLast? = some m →
      (∀ i, i < n → ∀ e ∈ entries s pid (ring s cid (r + i)), m.1 ≤ e.1) →
      (ringEntries s pid cid r n).foldl (insertK k) h = h := by
    intro r n h m hlen hm hall
    apply skip_safe_le k h m hlen hm
    intro e he
    unfold ringEntries at he
    rw [mem_flatMap] at he
    obtain ⟨i, hi, hei⟩ := he
    exact hall i (mem_range.mp hi) e hei
  -- rings from `R` on contribute nothing
  have hempty : ∀ (r n : ℕ), R ≤ r → ringEntries s pid cid r n = [] := by
    intro r n hr
    unfold ringEntries
    rw [flatMap_eq_nil_iff]
    intro i _
    rw [hend (r + i) (by omega)]
    rfl
  -- splitting a range of rings
  have hsplit : ∀ (a n m : ℕ), ringEntries s pid cid a (n + m) = ringEntries s pid cid a n ++ ringEntries s pid cid (a + n) m := by
    intro a n m
    induction n generalizing a with
    | zero => simp [ringEntries]
    | succ n ih =>
      have e1 : n + 1 + m = (n + m) + 1 := by omega
      have e2 : a + 1 + n = a + (n + 1) := by omega
      rw [e1, ringEntries_succ, ringEntries_succ, ih (a + 1), append_assoc, e2]
  -- the bound `max R r` moves with `r` only through empty rings
  have hmaxeq : ∀ r, ringEntries s pid cid 0 (max R (r + 1)) = ringEntries s pid cid 0 (max R r) := by
    intro r
    rcases le_or_gt R r with h1 | h1
    · rw [max_eq_right (by omega), max_eq_right h1, hsplit 0 r 1, Nat.zero_add, hempty r 1 h1, append_nil]
    · rw [max_eq_left (by omega), max_eq_left (by omega)]
  intro fuel
  induction fuel with
  | zero =>
    intro r hr
    have : max R r = r := max_eq_right (by omega)
    rw [this]; rfl
  | succ fuel ih =>
    intro r hr
    unfold knnLoop
    simp only
    rw [scan_ring_eq s k pid (ring s cid r) _ (hbox r), ← foldl_append]
    have hstep : ringEntries s pid cid 0 r ++ entries s pid (ring s cid r) = ringEntries s pid cid 0 (r + 1) := by
      have := hsplit 0 r 1
      rw [this]
      congr 1
      simp [ringEntries]
    rw [hstep]
    set h := (ringEntries s pid cid 0 (r + 1)).foldl (insertK k) [] with hh
    cases hm : h.getLast? with
    | none =>
      simp only
      rw [ih (r + 1) (by omega), hmaxeq]
    | some m =>
      simp only
      split_ifs with hc
      · -- early exit: the remaining rings cannot change the heap
        rw [Bool.and_eq_true, beq_iff_eq, decide_eq_true_eq] at hc
        rcases le_or_gt R (r + 1) with hR | hR
        · have : max R r = r + 1 ∨ max R r = r := by
            rcases le_or_gt R r with h1 | h1
            · right; exact max_eq_right h1
            · left; rw [max_eq_left (by omega)]; omega
          rcases this with h1 | h1
          · rw [h1]
          · rw [h1, hh, hsplit 0 r 1, Nat.zero_add, hempty r 1 (by omega), append_nil]
        · have hmax : max R r = (r + 1) + (R - (r + 1)) := by rw [max_eq_left (by omega)]; omega
          rw [hmax, hsplit 0 (r + 1) (R - (r + 1)), foldl_append, ← hh]
          symm
          apply hrest (0 + (r + 1)) (R - (r + 1)) h m hc.1 hm
          intro i hi e he
          have hf := hfar r (0 + (r + 1) + i) (by omega) e he
          exact le_trans (le_of_lt hc.2) hf
      · rw [ih (r + 1) (by omega), hmaxeq]

/-- **T20.1, the ring loop is correct**: for a well-formed grid (`hbox`, `hend`, `hfar`) the loop started with the empty
heap returns a list sorted by distance whose distances are the `k` smallest among all entries of all rings -/
theorem knnLoop_correct (hk : 0 < k) (d2f : ℚ) (R fuel : ℕ) (hfuel : R ≤ fuel)
    (hbox : ∀ r, ∀ c ∈ ring s cid r, (0 ≤ s.cells[c]!.width.x ∧ 0 ≤ s.cells[c]!.width.y ∧ 0 ≤ s.cells[c]!.width.z) ∧
      ∀ q ∈ s.cells[c]!.parts, InBox s.cells[c]! s.pos[q]!)
    (hend : ∀ r, R ≤ r → ring s cid r = [])
    (hfar : ∀ r r', r < r' → ∀ e ∈ entries s pid (ring s cid r'),
      (d2f + r * min (min s.cwidth.x s.cwidth.y) s.cwidth.z) * (d2f + r * min (min s.cwidth.x s.cwidth.y) s.cwidth.z) ≤ e.1) :
    let res := knnLoop s k pid cid d2f fuel 0 []
    let all := ringEntries s pid cid 0 R
    Sorted res ∧ res.length = min k all.length ∧ dists res = smallest k (dists all) ∧ (∀ a ∈ res, a ∈ all) := by
  have h := knnLoop_eq_fold s k pid cid hk d2f R hbox hend hfar fuel 0 (by omega)
  have h0 : (ringEntries s pid cid 0 0).foldl (insertK k) [] = [] := by simp [ringEntries]
  rw [h0, Nat.max_zero] at h
  simp only
  rw [h]
  obtain ⟨h1, h2, h3⟩ := foldl_insertK_nil k hk (ringEntries s pid cid 0 R)
  refine ⟨h1, h2, h3, ?_⟩
  intro a ha
  rcases foldl_insertK_subset k _ [] a ha with h4 | h4
  · exact absurd h4 (by simp)
  · exact h4

/-- if moreover the cells of the rings hold every particle exactly once (`hpart`), the entries are the distances to all
OTHER particles: the result is the brute-force specification `knnSpec` -/
theorem knnLoop_eq_spec (hk : 0 < k) (d2f : ℚ) (R fuel : ℕ) (hfuel : R ≤ fuel)
    (hbox : ∀ r, ∀ c ∈ ring s cid r, (0 ≤ s.cells[c]!.width.x ∧ 0 ≤ s.cells[c]!.width.y ∧ 0 ≤ s.cells[c]!.width.z) ∧
      ∀ q ∈ s.cells[c]!.parts, InBox s.cells[c]! s.pos[q]!)
    (hend : ∀ r, R ≤ r → ring s cid r = [])
    (hfar : ∀ r r', r < r' → ∀ e ∈ entries s pid (ring s cid r'),
      (d2f + r * min (min s.cwidth.x s.cwidth.y) s.cwidth.z) * (d2f + r * min (min s.cwidth.x s.cwidth.y) s.cwidth.z) ≤ e.1)
    (hpart : ((List.range R).flatMap fun r => (ring s cid r).flatMap fun c => s.cells[c]!.parts) ~ List.range s.pos.size) :
    dists (knnLoop s k pid cid d2f fuel 0 []) =
      ((((List.range s.pos.size).filter (· != pid)).map fun q => V3.norm2 (s.pos[pid]! - s.pos[q]!)).mergeSort (· ≤ ·)).take k := by
  have h := (knnLoop_correct s k pid cid hk d2f R fuel hfuel hbox hend hfar).2.2.1
  rw [h]
  unfold smallest
  congr 1
  apply sortQ_congr
  -- distances of all entries = distances to all other particles, as multisets
  have e1 : dists (ringEntries s pid cid 0 R) =
      (((List.range R).flatMap fun r => (ring s cid r).flatMap fun c => s.cells[c]!.parts).filter (fun q => !(q == pid))).map
        fun q => V3.norm2 (s.pos[pid]! - s.pos[q]!) := by
    unfold ringEntries entries cellEntries
    simp only [Nat.zero_add, map_flatMap, filter_flatMap, map_map, Function.comp_def, flatMap_map]
  rw [e1]
  apply Perm.map
  have := hpart.filter (fun q => !(q == pid))
  convert this using 2
  funext q
  simp [bne]

/-- the run-time certificate `Knn.gridOK` (evaluated by the driver on every grid it builds) gives `hbox` for every cell and
the partition property -/
theorem gridOK_sound (h : gridOK s = true) :
    (∀ c ∈ s.cells.toList, (0 ≤ c.width.x ∧ 0 ≤ c.width.y ∧ 0 ≤ c.width.z) ∧ ∀ q ∈ c.parts, InBox c s.pos[q]!) ∧
    (s.cells.toList.flatMap (·.parts)) ~ List.range s.pos.size := by
  unfold gridOK at h
  rw [Bool.and_eq_true] at h
  obtain ⟨h1, h2⟩ := h
  constructor
  · intro c hc
    rw [List.all_eq_true] at h1
    have := h1 c hc
    simp only [Bool.and_eq_true, decide_eq_true_eq, List.all_eq_true] at this
    refine ⟨⟨this.1.1.1, this.1.1.2, this.1.2⟩, ?_⟩
    intro q hq
    have hb := this.2 q hq
    unfold inBoxB at hb
    simp only [Bool.and_eq_true, decide_eq_true_eq] at hb
    unfold InBox
    exact ⟨⟨hb.1.1.1.1.1, hb.1.1.1.1.2⟩, ⟨hb.1.1.1.2, hb.1.1.2⟩, ⟨hb.1.2, hb.2⟩⟩
  · have h3 : (s.cells.toList.flatMap (·.parts)).mergeSort (· ≤ ·) = List.range s.pos.size := by
      simpa using h2
    rw [← h3]
    exact (List.mergeSort_perm _ _).symm

end MVoro.KnnCorrect
