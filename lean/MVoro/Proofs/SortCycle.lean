/-
C15: `sort_face_vertices` (the array algorithm of `with_faces`) meets `FaceCycle.face_cycle`.

Part 1 (core Lean only, `sortFaceVertices_cycle`): if the vertices handed to `sort_face_vertices` are a bijection onto a
cycle `c 0, …, c (m-1)` in which every vertex has a plane after `p`, the next vertex contains that plane and no vertex other than
`c k` and `c (k+1)` contains it, then the algorithm does not hit any of its three `expect`/`assert!`s and returns the cycle in
order, starting from the vertex it was given first.  (The last position is never searched for by the code; it is right because
it is the only vertex left.)

Part 2 (`sort_of_surface`, `reachable_sort`): the hypotheses of part 1 hold for every face of a closed oriented surface with
distinct edges, distinct planes per vertex and connected links - hence, with `EulerReach.euler_reach`, for every cell reachable
from the start box by clips - with `c k = (nx T p)^[k] d₀`, the successor function of `FaceCycle`.
-/
import MVoro.Proofs.FaceCycle
import MVoro.Proofs.FacesProofs
namespace MVoro.SortCycle
open MVoro MVoro.Faces

def val (vs : Array Nat) (i : Nat) : Nat := vs.getD i 0

theorem val_swap (vs : Array Nat) (a b i : Nat) (ha : a < vs.size) (hb : b < vs.size) :
    val (vs.swapIfInBounds a b) i = if i = a then val vs b else if i = b then val vs a else val vs i := by
  unfold val Array.swapIfInBounds
  simp only [ha, hb, dite_true]
  by_cases hi : i < vs.size
  · simp [Array.getD, hi, Array.getElem_swap]
    split
    · simp [*]
    · split <;> simp [*]
  · have h1 : i ≠ a := by omega
    have h2 : i ≠ b := by omega
    simp [Array.getD, hi, h1, h2]

theorem size_swap (vs : Array Nat) (a b : Nat) : (vs.swapIfInBounds a b).size = vs.size := by
  unfold Array.swapIfInBounds; split
  · split <;> simp
  · rfl

/-- the face as the algorithm sees it: `c 0, …, c (m-1)` is the cycle of vertices of plane `p` -/
structure FaceSpec (p m : Nat) (c : Nat → Dual) : Prop where
  hp : ∀ k, k < m → ∃ x, nextPlaneOf (c k) p = some x
  hstep : ∀ k x, k + 1 < m → nextPlaneOf (c k) p = some x → dualContains (c (k + 1)) x = true
  huniq : ∀ k j x, k + 1 < m → j < m → nextPlaneOf (c k) p = some x → dualContains (c j) x = true → j = k ∨ j = k + 1
  hinj : ∀ i j, i < m → j < m → c i = c j → i = j

/-- the vertex list of the face, as a bijection onto the cycle -/
structure Lists (D : Nat → Dual) (m : Nat) (c : Nat → Dual) (vs : Array Nat) : Prop where
  size : vs.size = m
  mem : ∀ i, i < m → ∃ k, k < m ∧ D (val vs i) = c k
  surj : ∀ k, k < m → ∃ i, i < m ∧ D (val vs i) = c k
  inj : ∀ i j, i < m → j < m → D (val vs i) = D (val vs j) → i = j

theorem lists_swap {D : Nat → Dual} {m : Nat} {c : Nat → Dual} {vs : Array Nat} (h : Lists D m c vs) (a b : Nat)
    (ha : a < m) (hb : b < m) : Lists D m c (vs.swapIfInBounds a b) := by
  have hsa : a < vs.size := h.size ▸ ha
  have hsb : b < vs.size := h.size ▸ hb
  let σ : Nat → Nat := fun i => if i = a then b else if i = b then a else i
  have hσ : ∀ i, val (vs.swapIfInBounds a b) i = val vs (σ i) := by
    intro i; rw [val_swap vs a b i hsa hsb]; simp only [σ]; split
    · rfl
    · split <;> rfl
  have hσm : ∀ i, i < m → σ i < m := by intro i hi; simp only [σ]; split; exact hb; split; exact ha; exact hi
  have hσσ : ∀ i, σ (σ i) = i := by
    intro i; simp only [σ]
    by_cases h1 : i = a
    · by_cases h2 : b = a <;> simp [h1, h2]
    · by_cases h2 : i = b <;> simp [h1, h2]
  refine ⟨by rw [size_swap]; exact h.size, ?_, ?_, ?_⟩
  · intro i hi; rw [hσ]; exact h.mem _ (hσm i hi)
  · intro k hk
    obtain ⟨i, hi, hik⟩ := h.surj k hk
    exact ⟨σ i, hσm i hi, by rw [hσ, hσσ]; exact hik⟩
  · intro i j hi hj hij
    rw [hσ, hσ] at hij
    have := h.inj _ _ (hσm i hi) (hσm j hj) hij
    have := congrArg σ this
    rwa [hσσ, hσσ] at this

variable {duals : Array Dual} {p m : Nat} {c : Nat → Dual}

/-- the inner search finds a vertex that contains the wanted plane whenever one exists at or after `start` -/
theorem findNext_some (vs : Array Nat) (np : Nat)
    (hall : ∀ i, i < vs.size → ∃ x, planeIdx (duals.getD (val vs i) default) p = some x) :
    ∀ fuel start t', start ≤ t' → t' < vs.size → vs.size ≤ fuel + start →
      dualContains (duals.getD (val vs t') default) np = true →
      ∃ t, findNext duals p np vs fuel start = some t ∧ start ≤ t ∧ t < vs.size ∧
        dualContains (duals.getD (val vs t) default) np = true := by
  intro fuel
  induction fuel with
  | zero => intro start t' h1 h2 h3; omega
  | succ fuel ih =>
    intro start t' h1 h2 h3 h4
    have hs : start < vs.size := by omega
    unfold findNext
    simp only [hs, dite_true]
    have hv : vs[start] = val vs start := by simp [val, Array.getD, hs]
    rw [hv]
    obtain ⟨x, hx⟩ := hall start hs
    simp only [hx]
    by_cases hc : dualContains (duals.getD (val vs start) default) np = true
    · simp only [hc, if_true]
      exact ⟨start, rfl, Nat.le_refl _, hs, hc⟩
    · simp only [hc]
      have hne : start ≠ t' := by intro h; subst h; exact hc h4
      obtain ⟨t, ht, h5, h6, h7⟩ := ih (start + 1) t' (by omega) h2 (by omega) h4
      exact ⟨t, by simpa using ht, by omega, h6, h7⟩

theorem planeIdx_of_next {d : Dual} {x : Nat} (h : nextPlaneOf d p = some x) : ∃ y, planeIdx d p = some y := by
  unfold nextPlaneOf at h
  cases hq : planeIdx d p with
  | none => simp [hq] at h
  | some y => exact ⟨y, rfl⟩

/-- the outer loop: the prefix already equals the cycle, the rest is a bijection onto the rest of the cycle -/
theorem sortLoop_cycle (F : FaceSpec p m c) :
    ∀ fuel cur np vs, Lists (fun i => duals.getD i default) m c vs → 1 ≤ cur → cur ≤ m → m ≤ fuel + cur →
      (∀ k, k < cur → duals.getD (val vs k) default = c k) →
      (cur < m → nextPlaneOf (c (cur - 1)) p = some np) →
      ∃ res, sortLoop duals p fuel cur np vs = some res ∧ res.size = m ∧ ∀ k, k < m → duals.getD (val res k) default = c k := by
  intro fuel
  induction fuel with
  | zero =>
    intro cur np vs L h1 h2 h3 hpre _
    have : cur = m := by omega
    subst this
    exact ⟨vs, by simp [sortLoop], L.size, hpre⟩
  | succ fuel ih =>
    intro cur np vs L h1 h2 h3 hpre hnp
    unfold sortLoop
    by_cases hc : cur + 1 < vs.size
    · simp only [hc, if_true]
      have hcm : cur + 1 < m := L.size ▸ hc
      have hnp' := hnp (by omega)
      -- the wanted vertex exists at or after `cur`
      obtain ⟨t', ht'm, ht'⟩ := L.surj cur (by omega)
      have ht'c : cur ≤ t' := by
        apply Nat.le_of_not_lt
        intro hlt
        have := hpre t' (by omega)
        have := F.hinj t' cur (by omega) (by omega) (by rw [← this]; exact ht')
        omega
      have hstep := F.hstep (cur - 1) np (by omega) hnp'
      rw [show cur - 1 + 1 = cur by omega] at hstep
      have hall : ∀ i, i < vs.size → ∃ x, planeIdx (duals.getD (val vs i) default) p = some x := by
        intro i hi
        obtain ⟨k, hk, hik⟩ := L.mem i (L.size ▸ hi)
        obtain ⟨x, hx⟩ := F.hp k hk
        rw [hik]; exact planeIdx_of_next hx
      obtain ⟨t, ht, htc, hts, htn⟩ := findNext_some (duals := duals) (p := p) vs np hall (vs.size - cur) cur t' ht'c
        (L.size ▸ ht'm) (by omega) (by rw [ht']; exact hstep)
      simp only [ht]
      have htm : t < m := L.size ▸ hts
      -- the found vertex is the next one of the cycle
      obtain ⟨j, hj, htj⟩ := L.mem t htm
      have hjc : j = cur := by
        rcases F.huniq (cur - 1) j np (by omega) hj hnp' (by rw [← htj]; exact htn) with h | h
        · exfalso
          have h5 := hpre (cur - 1) (by omega)
          have := L.inj t (cur - 1) htm (by omega) (by show duals.getD (val vs t) default = duals.getD (val vs (cur - 1)) default; rw [htj, h5, h])
          omega
        · omega
      subst hjc
      obtain ⟨np2, hnp2⟩ := F.hp j (by omega)
      have hvt : vs.getD t 0 = val vs t := rfl
      rw [hvt, htj]
      simp only [hnp2]
      obtain ⟨res, hres, hsz, hall'⟩ := ih (j + 1) np2 (vs.swapIfInBounds j t) (lists_swap L j t (by omega) htm)
        (by omega) (by omega) (by omega)
        (by
          intro k hk
          rw [val_swap vs j t k (by omega) hts]
          by_cases hkj : k = j
          · simp only [hkj, if_true]; exact htj
          · have : k ≠ t := by omega
            simp only [hkj, this, if_false]; exact hpre k (by omega))
        (by intro _; exact hnp2)
      exact ⟨res, hres, hsz, hall'⟩
    · simp only [hc, if_false]
      refine ⟨vs, rfl, L.size, ?_⟩
      intro k hk
      by_cases hkc : k < cur
      · exact hpre k hkc
      · -- only the last position is left, and only the last vertex of the cycle is unused
        have hk1 : k = m - 1 := by have := L.size; omega
        obtain ⟨j, hj, hkj⟩ := L.mem k hk
        by_cases hjk : j = k
        · rw [hkj, hjk]
        · exfalso
          have hjc : j < cur := by have := L.size; omega
          have h5 := hpre j hjc
          have := L.inj k j hk hj (by show duals.getD (val vs k) default = duals.getD (val vs j) default; rw [hkj, h5])
          omega

/-- **`sort_face_vertices` succeeds on a face that is one cycle and outputs the cycle in order.** -/
theorem sortFaceVertices_cycle (F : FaceSpec p m c) (vs : Array Nat)
    (L : Lists (fun i => duals.getD i default) m c vs) (h0 : 0 < m → duals.getD (val vs 0) default = c 0) :
    ∃ res, sortFaceVertices duals p vs = some res ∧ res.size = m ∧ ∀ k, k < m → duals.getD (val res k) default = c k := by
  unfold sortFaceVertices
  by_cases hm : 0 < vs.size
  · simp only [hm, dite_true]
    have hm' : 0 < m := L.size ▸ hm
    have hv : vs[0] = val vs 0 := by simp [val, Array.getD, hm]
    rw [hv, h0 hm']
    obtain ⟨x, hx⟩ := F.hp 0 hm'
    simp only [hx]
    rw [L.size]
    exact sortLoop_cycle F m 1 x vs L (Nat.le_refl _) hm' (by omega)
      (by intro k hk; have : k = 0 := by omega
          subst this; exact h0 hm')
      (by intro _; exact hx)
  · simp only [hm, dite_false]
    refine ⟨vs, rfl, L.size, ?_⟩
    intro k hk; have := L.size; omega


/-! ## Part 2 -/
open MVoro.CycleBoundary MVoro.Euler MVoro.EulerReach MVoro.FaceCycle MVoro.FacesProofs Function Relation

theorem hasPlane_iff' (d : Dual) (p : Nat) : HasPlane d p ↔ (d.a = p ∨ d.b = p ∨ d.c = p) := by
  unfold HasPlane
  constructor <;> (intro h; rcases h with h | h | h <;> simp [h])

theorem hasPlane_iff_planeIdx (d : Dual) (p : Nat) : HasPlane d p ↔ ∃ y, planeIdx d p = some y := by
  rw [hasPlane_iff']
  unfold planeIdx
  by_cases h1 : d.a = p <;> by_cases h2 : d.b = p <;> by_cases h3 : d.c = p <;> simp [h1, h2, h3]

theorem edge_ne {d : Dual} (hd : Distinct3 d) {p x : Nat} (h : (p, x) ∈ d.edges) : p ≠ x := by
  obtain ⟨h1, h2, h3⟩ := hd
  rw [mem_edges] at h
  simp only [Prod.mk.injEq] at h
  rcases h with ⟨rfl, rfl⟩ | ⟨rfl, rfl⟩ | ⟨rfl, rfl⟩
  · exact h1
  · exact h2
  · exact h3

theorem next_of_hasPlane {d : Dual} {p : Nat} (h : HasPlane d p) : ∃ x, nextPlaneOf d p = some x := by
  obtain ⟨y, hy⟩ := (hasPlane_iff_planeIdx d p).1 h
  exact ⟨dualGet d (y + 1), by simp [nextPlaneOf, hy]⟩

theorem next_edge {d : Dual} {p x : Nat} (h : nextPlaneOf d p = some x) : (p, x) ∈ d.edges := by
  rw [mem_edges]
  unfold nextPlaneOf planeIdx at h
  by_cases h1 : d.a = p
  · simp [h1, dualGet] at h; simp [← h1, ← h]
  · by_cases h2 : d.b = p
    · simp [h1, h2, dualGet] at h; simp [← h2, ← h]
    · by_cases h3 : d.c = p
      · simp [h1, h2, h3, dualGet] at h; simp [← h3, ← h]
      · simp [h1, h2, h3] at h

theorem contains_of_edge_in {d : Dual} {x p : Nat} (h : (x, p) ∈ d.edges) : dualContains d x = true := by
  rw [mem_edges] at h
  simp only [Prod.mk.injEq] at h
  unfold dualContains
  rcases h with ⟨rfl, _⟩ | ⟨rfl, _⟩ | ⟨rfl, _⟩ <;> simp

theorem edge_of_contains {d : Dual} {p x : Nat} (hp : HasPlane d p) (hx : dualContains d x = true) (hne : p ≠ x) :
    (p, x) ∈ d.edges ∨ (x, p) ∈ d.edges := by
  rw [mem_edges, mem_edges]
  unfold HasPlane at hp
  unfold dualContains at hx
  simp only [Bool.or_eq_true, beq_iff_eq] at hx
  rcases hp with rfl | rfl | rfl <;> rcases hx with (rfl | rfl) | rfl <;> simp_all

theorem toList_eq_map (duals : Array Dual) :
    duals.toList = (List.range duals.size).map fun i => duals.getD i default := by
  apply List.ext_getElem
  · simp
  · intro i h1 h2
    have : i < duals.size := by simpa using h1
    simp [Array.getD, this]

theorem flat_eq (D : Nat → Dual) (p : Nat) : ∀ n, (∀ i, i < n → Distinct3 (D i)) →
    ((List.range n).flatMap fun i =>
      (if (D i).a == p then [i] else []) ++ (if (D i).b == p then [i] else []) ++ (if (D i).c == p then [i] else [])) =
    (List.range n).filter fun i => decide (HasPlane (D i) p) := by
  intro n
  induction n with
  | zero => intro _; simp
  | succ n ih =>
    intro hD
    rw [List.range_succ, List.flatMap_append, List.filter_append, ih (fun i hi => hD i (by omega))]
    congr 1
    obtain ⟨h1, h2, h3⟩ := hD n (by omega)
    simp only [hasPlane_iff', List.flatMap_cons, List.flatMap_nil, List.append_nil, List.filter_cons, List.filter_nil]
    generalize D n = d at h1 h2 h3 ⊢
    by_cases e1 : d.a = p <;> by_cases e2 : d.b = p <;> by_cases e3 : d.c = p <;>
      simp_all

theorem collected_eq (duals : Array Dual) (p : Nat) (hD : ∀ i, i < duals.size → Distinct3 (duals.getD i default)) :
    collected duals p = (List.range duals.size).filter fun i => decide (HasPlane (duals.getD i default) p) :=
  flat_eq (fun i => duals.getD i default) p duals.size hD

theorem val_toArray (l : List Nat) (i : Nat) (h : i < l.length) : val l.toArray i = l[i] := by
  simp [val, Array.getD, h]

/-- **every face of a closed surface with connected links is ordered by `sort_face_vertices` as its cycle** -/
theorem sort_of_surface (duals : Array Dual) (p : Nat) (hC : Closed duals.toList) (hN : duals.toList.Nodup)
    (hD : ∀ d ∈ duals.toList, Distinct3 d) (hL : LinkConn duals.toList p) :
    let T := duals.toList
    let vs := (collected duals p).toArray
    let m := (T.filter fun d => decide (HasPlane d p)).length
    ∃ res, sortFaceVertices duals p vs = some res ∧ res.size = m ∧
      ∀ k, k < m → duals.getD (val res k) default = (nx T p)^[k] (duals.getD (val vs 0) default) := by
  intro T vs m
  let D : Nat → Dual := fun i => duals.getD i default
  have hTmap : duals.toList = (List.range duals.size).map D := toList_eq_map duals
  have hDT : ∀ i, i < duals.size → D i ∈ duals.toList := by
    intro i hi; rw [hTmap]; exact List.mem_map.2 ⟨i, List.mem_range.2 hi, rfl⟩
  have hTD : ∀ d, d ∈ duals.toList → ∃ i, i < duals.size ∧ D i = d := by
    intro d hd; rw [hTmap] at hd
    obtain ⟨i, hi, hi'⟩ := List.mem_map.1 hd
    exact ⟨i, List.mem_range.1 hi, hi'⟩
  have hDi : ∀ i, i < duals.size → Distinct3 (D i) := fun i hi => hD _ (hDT i hi)
  have hcol := collected_eq duals p hDi
  have hlen : (collected duals p).length = m := by
    show _ = (duals.toList.filter _).length
    rw [hcol, hTmap, List.filter_map, List.length_map]; rfl
  have hmemc : ∀ idx, idx ∈ collected duals p ↔ idx < duals.size ∧ HasPlane (D idx) p := by
    intro idx; rw [hcol]; simp [D]
  have hndc : (collected duals p).Nodup := by rw [hcol]; exact List.nodup_range.filter _
  have hDinj : ∀ i j, i < duals.size → j < duals.size → D i = D j → i = j := by
    intro i j hi hj h
    have : ((List.range duals.size).map D).Nodup := hTmap ▸ hN
    exact List.inj_on_of_nodup_map this (List.mem_range.2 hi) (List.mem_range.2 hj) h
  by_cases hm : 0 < m
  · have hv0 : val vs 0 ∈ collected duals p := by
      rw [val_toArray _ _ (by omega)]; exact List.getElem_mem _
    have h₀ : AtFace T p (D (val vs 0)) := by
      obtain ⟨h1, h2⟩ := (hmemc _).1 hv0
      exact ⟨hDT _ h1, h2⟩
    obtain ⟨hnd, hmem, hst, _⟩ := face_cycle hC hN hD hL h₀
    set c : Nat → Dual := fun k => (nx T p)^[k] (D (val vs 0)) with hc
    have hAt : ∀ k, AtFace T p (c k) := fun k => iter_atFace hC h₀ k
    have hcinj : ∀ i j, i < m → j < m → c i = c j → i = j := by
      intro i j hi hj h
      exact List.inj_on_of_nodup_map hnd (List.mem_range.2 hi) (List.mem_range.2 hj) h
    have F : FaceSpec p m c := by
      refine ⟨fun k _ => next_of_hasPlane (hAt k).2, ?_, ?_, hcinj⟩
      · intro k x _ hx
        obtain ⟨_, y, hy, hy'⟩ := hst k
        have := out_edge_unique (hD _ (hAt k).1) (next_edge hx) hy
        subst this
        exact contains_of_edge_in hy'
      · intro k j x hk hj hx hcj
        have hpx : (p, x) ∈ (c k).edges := next_edge hx
        have hne : p ≠ x := edge_ne (hD _ (hAt k).1) hpx
        rcases edge_of_contains (hAt j).2 hcj hne with h | h
        · left
          exact hcinj _ _ hj (by omega) (edge_unique hC.1 (hAt j).1 (hAt k).1 h hpx)
        · right
          obtain ⟨_, y, hy, hy'⟩ := hst k
          have := out_edge_unique (hD _ (hAt k).1) hpx hy
          subst this
          exact hcinj _ _ hj hk (edge_unique hC.1 (hAt j).1 (hAt (k + 1)).1 h hy')
    have L : Lists (fun i => duals.getD i default) m c vs := by
      refine ⟨by simp [vs, hlen], ?_, ?_, ?_⟩
      · intro i hi
        have hv : val vs i ∈ collected duals p := by rw [val_toArray _ _ (by omega)]; exact List.getElem_mem _
        obtain ⟨h1, h2⟩ := (hmemc _).1 hv
        have : D (val vs i) ∈ (List.range m).map fun k => (nx T p)^[k] (D (val vs 0)) :=
          (hmem _).2 ⟨hDT _ h1, h2⟩
        obtain ⟨k, hk, hk'⟩ := List.mem_map.1 this
        exact ⟨k, List.mem_range.1 hk, hk'.symm⟩
      · intro k hk
        obtain ⟨hkT, hkp⟩ := hAt k
        obtain ⟨idx, hidx, hidx'⟩ := hTD _ hkT
        have : idx ∈ collected duals p := (hmemc idx).2 ⟨hidx, hidx' ▸ hkp⟩
        obtain ⟨i, hi, hi'⟩ := List.getElem_of_mem this
        refine ⟨i, by omega, ?_⟩
        rw [val_toArray _ _ hi, hi']; exact hidx'
      · intro i j hi hj h
        have hvi : val vs i ∈ collected duals p := by rw [val_toArray _ _ (by omega)]; exact List.getElem_mem _
        have hvj : val vs j ∈ collected duals p := by rw [val_toArray _ _ (by omega)]; exact List.getElem_mem _
        have := hDinj _ _ ((hmemc _).1 hvi).1 ((hmemc _).1 hvj).1 h
        rw [val_toArray _ _ (by omega), val_toArray _ _ (by omega)] at this
        exact (List.Nodup.getElem_inj_iff hndc).1 this
    exact sortFaceVertices_cycle F vs L (fun _ => rfl)
  · have hm0 : m = 0 := by omega
    have : vs = #[] := by
      have : (collected duals p).length = 0 := by omega
      simp [vs, List.length_eq_zero_iff.1 this]
    refine ⟨#[], by rw [this]; simp [sortFaceVertices], by simp [hm0], ?_⟩
    intro k hk; omega

/-- for every cell reachable from the start box by clips, `with_faces` orders every face as its vertex cycle and none of the
`expect`/`assert!`s of `sort_face_vertices` fires -/
theorem reachable_sort (duals : Array Dual) (h : ReflTransGen CStep box8 duals.toList) (p : Nat) :
    let T := duals.toList
    let vs := (collected duals p).toArray
    let m := (T.filter fun d => decide (HasPlane d p)).length
    ∃ res, sortFaceVertices duals p vs = some res ∧ res.size = m ∧
      ∀ k, k < m → duals.getD (val res k) default = (nx T p)^[k] (duals.getD (val vs 0) default) := by
  obtain ⟨hC, hN, hD, hL, _⟩ := euler_reach h
  exact sort_of_surface duals p hC hN hD (hL p)

/-- non-vacuity: the start box satisfies the hypotheses (`ReflTransGen.refl`) and its face 0 is ordered as a 4-cycle -/
example : sortFaceVertices box8.toArray 0 (collected box8.toArray 0).toArray = some #[0, 4, 5, 1] := by decide +kernel
example : ∃ res, sortFaceVertices box8.toArray 0 (collected box8.toArray 0).toArray = some res ∧ res.size = 4 := by
  obtain ⟨res, h1, h2, _⟩ := reachable_sort box8.toArray ReflTransGen.refl 0
  exact ⟨res, h1, h2⟩


/-- **`with_faces` succeeds on every reachable cell**: none of the `expect`/`assert!`s of `sort_face_vertices` fires, for any face -/
theorem reachable_withFaces (duals : Array Dual) (h : ReflTransGen CStep box8 duals.toList) (nplanes : Nat) :
    ∃ faces, withFaces duals nplanes = some faces := by
  unfold withFaces
  simp only
  have hall : ((((collect duals nplanes).zip (List.range nplanes)).map fun (x : Array Nat × Nat) =>
      (sortFaceVertices duals x.2 x.1).map fun s => (x.2, s.toList))).all Option.isSome = true := by
    rw [List.all_eq_true]
    intro o ho
    obtain ⟨⟨vs, p⟩, hmem, rfl⟩ := List.mem_map.1 ho
    obtain ⟨i, hi, hi'⟩ := List.getElem_of_mem hmem
    rw [List.getElem_zip] at hi'
    have hlen : i < nplanes := by simp [collect] at hi; omega
    have hp : p = i := by
      have := congrArg Prod.snd hi'; simp at this; omega
    have hvs : vs = (collected duals p).toArray := by
      have h1 := congrArg Prod.fst hi'
      simp only at h1
      have h2 := collect_getElem duals nplanes i hlen
      rw [List.getElem?_eq_getElem (by simp [collect]; omega)] at h2
      rw [← h1, hp]; exact Option.some.inj h2
    obtain ⟨res, hres, _⟩ := reachable_sort duals h p
    simp [hvs, hres]
  exact ⟨_, by rw [if_pos hall]⟩



theorem first_atFace (duals : Array Dual) (p : Nat) (hD : ∀ d ∈ duals.toList, Distinct3 d)
    (hm : 0 < (collected duals p).length) :
    AtFace duals.toList p (duals.getD (val (collected duals p).toArray 0) default) := by
  have hDT : ∀ i, i < duals.size → duals.getD i default ∈ duals.toList := by
    intro i hi; rw [toList_eq_map]; exact List.mem_map.2 ⟨i, List.mem_range.2 hi, rfl⟩
  have hcol := collected_eq duals p (fun i hi => hD _ (hDT i hi))
  have hv0 : val (collected duals p).toArray 0 ∈ collected duals p := by
    rw [val_toArray _ _ hm]; exact List.getElem_mem _
  generalize val (collected duals p).toArray 0 = idx at hv0 ⊢
  rw [hcol, List.mem_filter, List.mem_range] at hv0
  exact ⟨hDT _ hv0.1, by simpa using hv0.2⟩

/-- the ordered face is a closed walk: every vertex is joined to the next one, and the last one to the first, by crossing the
edge that leaves the face plane (they share exactly the face plane and the plane of that edge) -/
theorem sorted_closed_walk (duals : Array Dual) (p : Nat) (hC : Closed duals.toList) (hN : duals.toList.Nodup)
    (hD : ∀ d ∈ duals.toList, Distinct3 d) (hL : LinkConn duals.toList p) :
    ∃ res, sortFaceVertices duals p (collected duals p).toArray = some res ∧
      ∀ k, k < res.size → StepAt duals.toList p (duals.getD (val res k) default) (duals.getD (val res ((k + 1) % res.size)) default) := by
  obtain ⟨res, h1, h2, h3⟩ := sort_of_surface duals p hC hN hD hL
  refine ⟨res, h1, ?_⟩
  intro k hk
  have hlen : (collected duals p).length = res.size := by
    have := (sortFaceVertices_perm duals p _ _ h1).size_eq
    simpa using this.symm
  have h₀ := first_atFace duals p hD (by omega)
  obtain ⟨_, _, hst, hper⟩ := face_cycle hC hN hD hL h₀
  rw [h2] at hk
  rw [h3 k hk, h2]
  by_cases hk1 : k + 1 < (List.filter (fun d => decide (HasPlane d p)) duals.toList).length
  · rw [Nat.mod_eq_of_lt hk1, h3 _ hk1]; exact hst k
  · have hk2 : k + 1 = (List.filter (fun d => decide (HasPlane d p)) duals.toList).length := by omega
    rw [← hk2, Nat.mod_self, h3 0 (by omega)]
    have := hst k
    rw [hk2, hper] at this
    exact this


#print axioms sortFaceVertices_cycle
#print axioms sorted_closed_walk
#print axioms reachable_withFaces
#print axioms reachable_sort
end MVoro.SortCycle
