/-
C15 (T15.2, the part that holds for every input): `sort_face_vertices` only permutes the vertices it
was given, and the collection step of `with_faces` lists a vertex under exactly the planes of its dual
triple (once per occurrence).  Hence, whenever `with_faces` succeeds, every vertex whose three planes
are distinct belongs to exactly three faces, and every face lists exactly the vertices on its plane.
Core Lean only.
-/
import MVoro.Model.Faces
namespace MVoro.FacesProofs
open MVoro MVoro.Faces

theorem swapIfInBounds_perm (vs : Array Nat) (i j : Nat) : (vs.swapIfInBounds i j).Perm vs := by
  unfold Array.swapIfInBounds
  split
  · split
    · exact Array.swap_perm _ _
    · exact Array.Perm.refl _
  · exact Array.Perm.refl _

theorem sortLoop_perm (duals : Array Dual) (p : Nat) :
    ∀ (fuel cur np : Nat) (vs res : Array Nat), sortLoop duals p fuel cur np vs = some res → res.Perm vs := by
  intro fuel
  induction fuel with
  | zero =>
    intro cur np vs res h
    simp [sortLoop] at h
    subst h
    exact Array.Perm.refl _
  | succ fuel ih =>
    intro cur np vs res h
    unfold sortLoop at h
    split at h
    · split at h
      · simp at h
      · dsimp only at h
        split at h
        · simp at h
        · exact (ih _ _ _ _ h).trans (swapIfInBounds_perm vs _ _)
    · simp at h
      subst h
      exact Array.Perm.refl _

/-- T15.2a: whenever the ordering step succeeds, its result is a permutation of the vertices it was given -/
theorem sortFaceVertices_perm (duals : Array Dual) (p : Nat) (vs res : Array Nat)
    (h : sortFaceVertices duals p vs = some res) : res.Perm vs := by
  unfold sortFaceVertices at h
  split at h
  · split at h
    · simp at h
    · exact sortLoop_perm duals p _ _ _ _ _ h
  · simp at h
    subst h
    exact Array.Perm.refl _

/-- number of occurrences of plane `p` in a dual triple -/
def occ (d : Dual) (p : Nat) : Nat :=
  (if d.a == p then 1 else 0) + (if d.b == p then 1 else 0) + (if d.c == p then 1 else 0)

/-- the list collected for plane `p` -/
def collected (duals : Array Dual) (p : Nat) : List Nat :=
  (List.range duals.size).flatMap fun i =>
    let d := duals.getD i default
    (if d.a == p then [i] else []) ++ (if d.b == p then [i] else []) ++ (if d.c == p then [i] else [])

theorem collect_getElem (duals : Array Dual) (nplanes p : Nat) (hp : p < nplanes) :
    (collect duals nplanes)[p]? = some (collected duals p).toArray := by
  simp [collect, collected, hp]

theorem count_flatMap_range (n i : Nat) (f : Nat → List Nat) (hf : ∀ j, ∀ x ∈ f j, x = j) :
    ((List.range n).flatMap f).count i = if i < n then (f i).count i else 0 := by
  induction n with
  | zero => simp
  | succ n ih =>
    rw [List.range_succ, List.flatMap_append, List.count_append, ih]
    simp only [List.flatMap_cons, List.flatMap_nil, List.append_nil]
    by_cases h1 : i < n
    · have : (f n).count i = 0 := by
        apply List.count_eq_zero.mpr
        intro hmem
        have := hf n i hmem
        omega
      simp [h1, this, Nat.lt_succ_of_lt h1]
    · by_cases h2 : i = n
      · subst h2; simp
      · have : (f n).count i = 0 := by
          apply List.count_eq_zero.mpr
          intro hmem
          have := hf n i hmem
          omega
        have h3 : ¬ i < n + 1 := by omega
        simp [h1, h3, this]

/-- T15.2b: vertex `i` is listed under plane `p` exactly as often as `p` occurs in its dual triple -/
theorem count_collected (duals : Array Dual) (p i : Nat) (hi : i < duals.size) :
    (collected duals p).count i = occ (duals.getD i default) p := by
  unfold collected
  rw [count_flatMap_range]
  · simp only [hi, if_true, occ]
    generalize duals.getD i default = d
    by_cases h1 : d.a == p <;> by_cases h2 : d.b == p <;> by_cases h3 : d.c == p <;> simp [h1, h2, h3]
  · intro j x hx
    generalize duals.getD j default = d at hx
    by_cases h1 : d.a == p <;> by_cases h2 : d.b == p <;> by_cases h3 : d.c == p <;> simp [h1, h2, h3] at hx <;> omega

/-- a vertex with three distinct planes occurs once under each of them and under no other plane -/
theorem occ_distinct (d : Dual) (hab : d.a ≠ d.b) (hbc : d.b ≠ d.c) (hac : d.a ≠ d.c) (p : Nat) :
    occ d p = if p = d.a ∨ p = d.b ∨ p = d.c then 1 else 0 := by
  unfold occ
  by_cases h1 : d.a = p <;> by_cases h2 : d.b = p <;> by_cases h3 : d.c = p <;>
    simp_all [beq_iff_eq] <;> omega

theorem sum_indicator (n q : Nat) :
    ((List.range n).map (fun p => if p = q then 1 else 0)).sum = if q < n then 1 else 0 := by
  induction n with
  | zero => simp
  | succ n ih =>
    rw [List.range_succ, List.map_append, List.sum_append, ih]
    by_cases h : q < n
    · have h1 : n ≠ q := by omega
      have h2 : q < n + 1 := by omega
      simp [h, h1, h2]
    · by_cases h' : q = n
      · subst h'; simp
      · have h1 : n ≠ q := fun e => h' e.symm
        have h2 : ¬ q < n + 1 := by omega
        simp [h, h1, h2]

theorem sum_map_add (f g : Nat → Nat) (l : List Nat) :
    (l.map (fun p => f p + g p)).sum = (l.map f).sum + (l.map g).sum := by
  induction l with
  | nil => rfl
  | cons x xs ih => simp only [List.map_cons, List.sum_cons, ih]; omega

theorem occ_split (d : Dual) (p : Nat) :
    occ d p = (if p = d.a then 1 else 0) + (if p = d.b then 1 else 0) + (if p = d.c then 1 else 0) := by
  simp only [occ, beq_iff_eq, @eq_comm _ p]

/-- T15.2c: sum over all planes: a vertex whose three planes are `< nplanes` is listed three times in total
(under three different planes when they are distinct, `occ_distinct`) -/
theorem total_occ_three (d : Dual) (nplanes : Nat)
    (ha : d.a < nplanes) (hb : d.b < nplanes) (hc : d.c < nplanes) :
    ((List.range nplanes).map (occ d)).sum = 3 := by
  have : (List.range nplanes).map (occ d) =
      (List.range nplanes).map (fun p => ((if p = d.a then 1 else 0) + (if p = d.b then 1 else 0)) + (if p = d.c then 1 else 0)) :=
    List.map_congr_left (fun p _ => occ_split d p)
  rw [this, sum_map_add (fun p => (if p = d.a then 1 else 0) + (if p = d.b then 1 else 0)) (fun p => if p = d.c then 1 else 0),
      sum_map_add (fun p => if p = d.a then 1 else 0) (fun p => if p = d.b then 1 else 0),
      sum_indicator, sum_indicator, sum_indicator]
  simp [ha, hb, hc]

/-- non-vacuity: the cube (the initial cell of every construction) -/
def cube : Array Dual := #[⟨2, 5, 0⟩, ⟨5, 3, 0⟩, ⟨1, 5, 2⟩, ⟨5, 1, 3⟩, ⟨4, 2, 0⟩, ⟨4, 0, 3⟩, ⟨2, 4, 1⟩, ⟨4, 3, 1⟩]

example : withFaces cube 6 = some [(0, [0, 4, 5, 1]), (1, [2, 3, 7, 6]), (2, [0, 2, 6, 4]), (3, [1, 5, 7, 3]), (4, [4, 6, 7, 5]), (5, [0, 1, 3, 2])] := by
  decide +kernel

example : euler 8 ((withFaces cube 6).getD []) = 2 := by decide +kernel

end MVoro.FacesProofs
