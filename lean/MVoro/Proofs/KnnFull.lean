/-
C20 (T20.1 at full strength for the model): the k-NN search on the grid that `Space::new` builds equals the brute-force specification.

`RingWF` characterises `get_r_ring` (exactly the cells at Chebyshev index distance `r`, each once; empty from `cx + cy + cz` on),
`GridWF` the binning.  Here the remaining hypotheses of `KnnCorrect.knnLoop_eq_spec` are discharged for `mkSpace true`:
`hbox` (cells contain their particles), `hend` (rings end), `hfar` (a particle of a farther ring is at least
`dist_to_face + r · min width` away: `Aux20.ring_bound_3d` composed over the ring structure) and `hpart` (the rings partition the
particles).  Result: `knn_mkSpace_eq_spec`.
-/
import MVoro.Proofs.RingWF
namespace MVoro.KnnFull
open MVoro MVoro.Knn MVoro.KnnProofs MVoro.GridWF MVoro.RingWF MVoro.KnnCorrect List

/-! ## the grid of `Space::new` meets every hypothesis of the ring loop -/

/-- cell index of particle `q` in the grid of `Space::new` -/
def idxOf (anchor width : Q3) (mcw : Rat) (pos : Array Q3) (q : Nat) : Nat :=
  (Rat.floor ((pos[q]!.x - anchor.x) / width.x * (ceilDiv width.x mcw : Nat))).toNat * ceilDiv width.y mcw * ceilDiv width.z mcw +
  (Rat.floor ((pos[q]!.y - anchor.y) / width.y * (ceilDiv width.y mcw : Nat))).toNat * ceilDiv width.z mcw +
  (Rat.floor ((pos[q]!.z - anchor.z) / width.z * (ceilDiv width.z mcw : Nat))).toNat

/-- cell number `c` of the grid of `Space::new` -/
def cellAt (anchor width : Q3) (mcw : Rat) (pos : Array Q3) (c : Nat) : GCell :=
  let cx := ceilDiv width.x mcw
  let cy := ceilDiv width.y mcw
  let cz := ceilDiv width.z mcw
  { loc := ⟨anchor.x + (c / (cy * cz) : Nat) * (width.x / cx), anchor.y + ((c % (cy * cz)) / cz : Nat) * (width.y / cy),
            anchor.z + (c % cz : Nat) * (width.z / cz)⟩,
    width := ⟨width.x / cx, width.y / cy, width.z / cz⟩,
    parts := (List.range pos.size).filter fun p => idxOf anchor width mcw pos p == c }

theorem mkSpace_cells (anchor width : Q3) (mcw : Rat) (pos : Array Q3) :
    (mkSpace true anchor width mcw pos).cells =
      ((List.range (ceilDiv width.x mcw * ceilDiv width.y mcw * ceilDiv width.z mcw)).map (cellAt anchor width mcw pos)).toArray := by
  simp [mkSpace, cellAt, idxOf]

theorem mkSpace_cell (anchor width : Q3) (mcw : Rat) (pos : Array Q3) (c : Nat)
    (hc : c < ceilDiv width.x mcw * ceilDiv width.y mcw * ceilDiv width.z mcw) :
    (mkSpace true anchor width mcw pos).cells[c]! = cellAt anchor width mcw pos c := by
  rw [mkSpace_cells]
  simp [hc]


theorem mdf_le (c : GCell) (p : Q3) :
    (minDistToFace c p ≤ p.x - c.loc.x ∧ minDistToFace c p ≤ c.loc.x + c.width.x - p.x) ∧
    (minDistToFace c p ≤ p.y - c.loc.y ∧ minDistToFace c p ≤ c.loc.y + c.width.y - p.y) ∧
    (minDistToFace c p ≤ p.z - c.loc.z ∧ minDistToFace c p ≤ c.loc.z + c.width.z - p.z) := by
  unfold minDistToFace
  refine ⟨⟨?_, ?_⟩, ⟨?_, ?_⟩, ⟨?_, ?_⟩⟩
  · exact (min_le_left _ _).trans ((min_le_left _ _).trans (min_le_left _ _))
  · exact (min_le_left _ _).trans ((min_le_left _ _).trans (min_le_right _ _))
  · exact (min_le_left _ _).trans ((min_le_right _ _).trans (min_le_left _ _))
  · exact (min_le_left _ _).trans ((min_le_right _ _).trans (min_le_right _ _))
  · exact (min_le_right _ _).trans (min_le_left _ _)
  · exact (min_le_right _ _).trans (min_le_right _ _)

theorem mdf_nonneg (c : GCell) (p : Q3) (h : InBox c p) : 0 ≤ minDistToFace c p := by
  unfold minDistToFace
  obtain ⟨⟨a1, a2⟩, ⟨b1, b2⟩, ⟨c1, c2⟩⟩ := h
  refine le_min (le_min (le_min ?_ ?_) (le_min ?_ ?_)) (le_min ?_ ?_) <;> linarith

theorem cheb_axis (cy cz c cid r : Nat) (h : r + 1 ≤ cheb cy cz c cid) :
    (r : ℤ) + 1 ≤ |((c / (cy * cz) : Nat) : Int) - ((cid / (cy * cz) : Nat) : Int)| ∨
    (r : ℤ) + 1 ≤ |((c % (cy * cz) / cz : Nat) : Int) - ((cid % (cy * cz) / cz : Nat) : Int)| ∨
    (r : ℤ) + 1 ≤ |((c % cz : Nat) : Int) - ((cid % cz : Nat) : Int)| := by
  unfold cheb at h
  generalize c / (cy * cz) = A at h ⊢
  generalize c % (cy * cz) / cz = B at h ⊢
  generalize c % cz = C at h ⊢
  generalize cid / (cy * cz) = I at h ⊢
  generalize cid % (cy * cz) / cz = J at h ⊢
  generalize cid % cz = K at h ⊢
  simp only [Int.abs_eq_natAbs]
  omega

theorem length_filter_ne (n pid : Nat) (hp : pid < n) : ((List.range n).filter (fun q => !(q == pid))).length = n - 1 := by
  have h : (List.range n).filter (fun q => !(q == pid)) = (List.range n).erase pid :=
    (List.nodup_range.erase_eq_filter (l := List.range n) pid).symm
  rw [h, List.length_erase_of_mem (List.mem_range.2 hp), List.length_range]

section Full
variable (anchor width : Q3) (mcw : Rat) (pos : Array Q3)

local notation "CX" => ceilDiv width.x mcw
local notation "CY" => ceilDiv width.y mcw
local notation "CZ" => ceilDiv width.z mcw

theorem mem_parts (c q : Nat) : q ∈ (cellAt anchor width mcw pos c).parts ↔ q < pos.size ∧ idxOf anchor width mcw pos q = c := by
  simp [cellAt]

variable (hw : 0 < width.x ∧ 0 < width.y ∧ 0 < width.z) (hm : 0 < mcw)
  (hin : ∀ q, q < pos.size →
    (anchor.x ≤ pos[q]!.x ∧ pos[q]!.x < anchor.x + width.x) ∧ (anchor.y ≤ pos[q]!.y ∧ pos[q]!.y < anchor.y + width.y) ∧
    (anchor.z ≤ pos[q]!.z ∧ pos[q]!.z < anchor.z + width.z))
include hw hm hin

theorem idxOf_lt (q : Nat) (hq : q < pos.size) : idxOf anchor width mcw pos q < CX * CY * CZ := by
  obtain ⟨hwx, hwy, hwz⟩ := hw
  obtain ⟨⟨a1, a2⟩, ⟨b1, b2⟩, ⟨c1, c2⟩⟩ := hin q hq
  have h1 := bin_spec ((pos[q]!.x - anchor.x) / width.x) CX (div_nonneg (by linarith) hwx.le) (by rw [div_lt_one hwx]; linarith) (ceilDiv_pos hwx hm)
  have h2 := bin_spec ((pos[q]!.y - anchor.y) / width.y) CY (div_nonneg (by linarith) hwy.le) (by rw [div_lt_one hwy]; linarith) (ceilDiv_pos hwy hm)
  have h3 := bin_spec ((pos[q]!.z - anchor.z) / width.z) CZ (div_nonneg (by linarith) hwz.le) (by rw [div_lt_one hwz]; linarith) (ceilDiv_pos hwz hm)
  exact (index_spec _ _ _ CX CY CZ h1.1 h2.1 h3.1).1

/-- every cell of the grid: non-negative widths and its particles inside its box -/
theorem cell_box (c : Nat) (hc : c < CX * CY * CZ) :
    (0 ≤ (cellAt anchor width mcw pos c).width.x ∧ 0 ≤ (cellAt anchor width mcw pos c).width.y ∧ 0 ≤ (cellAt anchor width mcw pos c).width.z) ∧
    ∀ q ∈ (cellAt anchor width mcw pos c).parts, InBox (cellAt anchor width mcw pos c) pos[q]! := by
  have h := (mkSpace_wellformed anchor width mcw pos hw hm hin).1 (cellAt anchor width mcw pos c) (by
    rw [mkSpace_cells]
    exact List.mem_map.2 ⟨c, List.mem_range.2 hc, rfl⟩)
  exact h


/-- a particle of a cell at Chebyshev index distance at least `r + 1` is at least `dist_to_face + r · min width` away -/
theorem far_bound (pid : Nat) (hp : pid < pos.size) (c : Nat) (hc : c < CX * CY * CZ) (q : Nat)
    (hq : q ∈ (cellAt anchor width mcw pos c).parts) (r : Nat)
    (hr : r + 1 ≤ cheb CY CZ c (idxOf anchor width mcw pos pid)) :
    (minDistToFace (cellAt anchor width mcw pos (idxOf anchor width mcw pos pid)) pos[pid]! +
        r * min (min (width.x / CX) (width.y / CY)) (width.z / CZ)) *
      (minDistToFace (cellAt anchor width mcw pos (idxOf anchor width mcw pos pid)) pos[pid]! +
        r * min (min (width.x / CX) (width.y / CY)) (width.z / CZ)) ≤ V3.norm2 (pos[pid]! - pos[q]!) := by
  obtain ⟨hwx, hwy, hwz⟩ := hw
  have hx1 : (0 : Rat) < CX := by exact_mod_cast ceilDiv_pos hwx hm
  have hy1 : (0 : Rat) < CY := by exact_mod_cast ceilDiv_pos hwy hm
  have hz1 : (0 : Rat) < CZ := by exact_mod_cast ceilDiv_pos hwz hm
  have hcid := idxOf_lt anchor width mcw pos ⟨hwx, hwy, hwz⟩ hm hin pid hp
  set cid := idxOf anchor width mcw pos pid with hcid_def
  -- the particle lies in its own cell, the other one in cell `c`
  have hself : pid ∈ (cellAt anchor width mcw pos cid).parts := (mem_parts anchor width mcw pos cid pid).2 ⟨hp, rfl⟩
  have hbx := (cell_box anchor width mcw pos ⟨hwx, hwy, hwz⟩ hm hin cid hcid).2 pid hself
  have hbq := (cell_box anchor width mcw pos ⟨hwx, hwy, hwz⟩ hm hin c hc).2 q hq
  unfold InBox at hbx hbq
  simp only [cellAt] at hbx hbq
  have key := ring_bound_3d anchor ⟨width.x / CX, width.y / CY, width.z / CZ⟩ pos[pid]! pos[q]!
    (minDistToFace (cellAt anchor width mcw pos cid) pos[pid]!) (min (min (width.x / CX) (width.y / CY)) (width.z / CZ))
    ((cid / (CY * CZ) : Nat) : Int) ((cid % (CY * CZ) / CZ : Nat) : Int) ((cid % CZ : Nat) : Int)
    ((c / (CY * CZ) : Nat) : Int) ((c % (CY * CZ) / CZ : Nat) : Int) ((c % CZ : Nat) : Int) r
    (div_pos hwx hx1) (div_pos hwy hy1) (div_pos hwz hz1)
  have hδ0 : 0 ≤ minDistToFace (cellAt anchor width mcw pos cid) pos[pid]! :=
    mdf_nonneg _ _ (by unfold InBox; simpa only [cellAt] using hbx)
  have hm6 := mdf_le (cellAt anchor width mcw pos cid) pos[pid]!
  generalize minDistToFace (cellAt anchor width mcw pos cid) pos[pid]! = δ at hm6 key hδ0 ⊢
  simp only [cellAt] at hm6
  obtain ⟨⟨m1, m2⟩, ⟨m3, m4⟩, ⟨m5, m6⟩⟩ := hm6
  obtain ⟨⟨q1, q2⟩, ⟨q3, q4⟩, ⟨q5, q6⟩⟩ := hbq
  rw [norm2_sub_comm, ← pow_two]
  refine key ?_ ?_ ?_ ?_ ?_ ?_ ?_ ?_ ?_ ?_ ?_ ?_ ?_ ?_ ?_
  · exact hδ0
  · exact le_min (le_min (div_pos hwx hx1).le (div_pos hwy hy1).le) (div_pos hwz hz1).le
  · exact (min_le_left _ _).trans (min_le_left _ _)
  · exact (min_le_left _ _).trans (min_le_right _ _)
  · exact min_le_right _ _
  · simp only [Int.cast_natCast]; linarith
  · simp only [Int.cast_natCast]; linarith
  · simp only [Int.cast_natCast]; linarith
  · simp only [Int.cast_natCast]; linarith
  · simp only [Int.cast_natCast]; linarith
  · simp only [Int.cast_natCast]; linarith
  · simp only [Int.cast_natCast]; constructor <;> linarith
  · simp only [Int.cast_natCast]; constructor <;> linarith
  · simp only [Int.cast_natCast]; constructor <;> linarith
  · exact cheb_axis CY CZ c cid r hr

omit hw hm hin in
theorem cells_size : (mkSpace true anchor width mcw pos).cells.size = CX * CY * CZ := by
  rw [mkSpace_cells]; simp

/-- the rings around any cell partition the particles -/
theorem rings_perm (cid : Nat) (hcid : cid < CX * CY * CZ) :
    ((List.range (CX + CY + CZ)).flatMap fun r => (ring (mkSpace true anchor width mcw pos) cid r).flatMap fun c =>
      (mkSpace true anchor width mcw pos).cells[c]!.parts) ~ List.range pos.size := by
  have hy : 0 < CY := ceilDiv_pos hw.2.1 hm
  have hz : 0 < CZ := ceilDiv_pos hw.2.2 hm
  set s := mkSpace true anchor width mcw pos with hs_def
  have hs : s.cdim = (CX, CY, CZ) := rfl
  have hpartsOf : ∀ r c, c ∈ ring s cid r → s.cells[c]!.parts = (cellAt anchor width mcw pos c).parts ∧ c < CX * CY * CZ ∧ cheb CY CZ c cid = r := by
    intro r c hc
    obtain ⟨h1, h2⟩ := (mem_ring s hs hy hz cid r c hcid).1 hc
    exact ⟨by rw [hs_def, mkSpace_cell anchor width mcw pos c h1], h1, h2⟩
  rw [List.perm_ext_iff_of_nodup _ List.nodup_range]
  · intro q
    rw [List.mem_range]
    constructor
    · intro h
      obtain ⟨r, _, h⟩ := List.mem_flatMap.1 h
      obtain ⟨c, hc, h⟩ := List.mem_flatMap.1 h
      rw [(hpartsOf r c hc).1] at h
      exact ((mem_parts anchor width mcw pos c q).1 h).1
    · intro hq
      have hc := idxOf_lt anchor width mcw pos hw hm hin q hq
      obtain ⟨hmem, hlt⟩ := mem_ring_cheb s hs hy hz cid _ hcid hc
      refine List.mem_flatMap.2 ⟨_, List.mem_range.2 hlt, List.mem_flatMap.2 ⟨_, hmem, ?_⟩⟩
      rw [(hpartsOf _ _ hmem).1]
      exact (mem_parts anchor width mcw pos _ q).2 ⟨hq, rfl⟩
  · rw [List.nodup_flatMap]
    constructor
    · intro r _
      rw [List.nodup_flatMap]
      constructor
      · intro c hc
        rw [(hpartsOf r c hc).1]
        simp only [cellAt]
        exact List.nodup_range.filter _
      · refine List.Pairwise.imp_of_mem (R := (· ≠ ·)) ?_ (nodup_ring s hs cid r)
        intro c c' hc hc' hne
        show List.Disjoint (s.cells[c]!.parts) (s.cells[c']!.parts)
        rw [(hpartsOf r c hc).1, (hpartsOf r c' hc').1]
        intro q h1 h2
        exact hne (((mem_parts anchor width mcw pos c q).1 h1).2.symm.trans ((mem_parts anchor width mcw pos c' q).1 h2).2)
    · refine List.Pairwise.imp_of_mem (R := (· ≠ ·)) ?_ List.nodup_range
      intro r r' _ _ hne
      show List.Disjoint _ _
      intro q h1 h2
      obtain ⟨c, hc, h1⟩ := List.mem_flatMap.1 h1
      obtain ⟨c', hc', h2⟩ := List.mem_flatMap.1 h2
      rw [(hpartsOf r c hc).1] at h1
      rw [(hpartsOf r' c' hc').1] at h2
      have e : c = c' := ((mem_parts anchor width mcw pos c q).1 h1).2.symm.trans ((mem_parts anchor width mcw pos c' q).1 h2).2
      subst e
      exact hne ((hpartsOf r c hc).2.2.symm.trans (hpartsOf r' c hc').2.2)

/-- the cell `knn` starts from is the particle's own cell -/
theorem cellOf_eq (pid : Nat) (hp : pid < pos.size) :
    cellOf (mkSpace true anchor width mcw pos) pid = idxOf anchor width mcw pos pid := by
  unfold cellOf
  rw [cells_size]
  have hc := idxOf_lt anchor width mcw pos hw hm hin pid hp
  cases hf : (List.range (CX * CY * CZ)).find? (fun c => (mkSpace true anchor width mcw pos).cells[c]!.parts.contains pid) with
  | none =>
    exfalso
    rw [List.find?_eq_none] at hf
    have := hf _ (List.mem_range.2 hc)
    rw [mkSpace_cell anchor width mcw pos _ hc] at this
    apply this
    rw [List.contains_iff_mem]
    exact (mem_parts anchor width mcw pos _ pid).2 ⟨hp, rfl⟩
  | some c0 =>
    have h1 := List.find?_some hf
    have h2 := List.mem_range.1 (List.mem_of_find?_eq_some hf)
    rw [mkSpace_cell anchor width mcw pos _ h2] at h1
    rw [List.contains_iff_mem] at h1
    simpa using ((mem_parts anchor width mcw pos c0 pid).1 h1).2.symm

/-- **T20.1 for the grid `Space::new` builds: the ring search returns the `k` nearest other particles** (their distances, in
increasing order), for every particle, every `k ≥ 1`, every box of positive extents, every positive maximal cell width and all
particles inside the half-open box -/
theorem knnLoop_mkSpace_eq_spec (k : Nat) (hk : 0 < k) (pid : Nat) (hp : pid < pos.size) :
    let s := mkSpace true anchor width mcw pos
    let cid := cellOf s pid
    dists (knnLoop s k pid cid (minDistToFace s.cells[cid]! s.pos[pid]!) (CX + CY + CZ + 2) 0 []) =
      ((((List.range pos.size).filter (· != pid)).map fun q => V3.norm2 (pos[pid]! - pos[q]!)).mergeSort (· ≤ ·)).take k := by
  intro s cid
  have hy : 0 < CY := ceilDiv_pos hw.2.1 hm
  have hz : 0 < CZ := ceilDiv_pos hw.2.2 hm
  have hs : s.cdim = (CX, CY, CZ) := rfl
  have hcid_eq : cid = idxOf anchor width mcw pos pid := cellOf_eq anchor width mcw pos hw hm hin pid hp
  have hcid : cid < CX * CY * CZ := hcid_eq ▸ idxOf_lt anchor width mcw pos hw hm hin pid hp
  refine knnLoop_eq_spec s k pid cid hk _ (CX + CY + CZ) (CX + CY + CZ + 2) (by omega) ?_ ?_ ?_ ?_
  · intro r c hc
    have hcN := ((mem_ring s hs hy hz cid r c hcid).1 hc).1
    show _ ∧ ∀ q ∈ (mkSpace true anchor width mcw pos).cells[c]!.parts, InBox (mkSpace true anchor width mcw pos).cells[c]! pos[q]!
    rw [mkSpace_cell anchor width mcw pos c hcN]
    exact cell_box anchor width mcw pos hw hm hin c hcN
  · intro r hr
    exact ring_empty s hs hy hz cid r hcid hr
  · intro r r' hrr e he
    unfold entries cellEntries at he
    obtain ⟨c, hc, he⟩ := List.mem_flatMap.1 he
    obtain ⟨hcN, hch⟩ := (mem_ring s hs hy hz cid r' c hcid).1 hc
    obtain ⟨q, hq, rfl⟩ := List.mem_map.1 he
    have hq' := (List.mem_filter.1 hq).1
    have hq'' : q ∈ (cellAt anchor width mcw pos c).parts := by
      have : (mkSpace true anchor width mcw pos).cells[c]! = cellAt anchor width mcw pos c := mkSpace_cell anchor width mcw pos c hcN
      rw [← this]; exact hq'
    have hcell : s.cells[cid]! = cellAt anchor width mcw pos (idxOf anchor width mcw pos pid) := by
      rw [hcid_eq]; exact mkSpace_cell anchor width mcw pos _ (hcid_eq ▸ hcid)
    rw [hcell]
    exact far_bound anchor width mcw pos hw hm hin pid hp c hcN q hq'' r (by rw [← hcid_eq, hch]; omega)
  · exact rings_perm anchor width mcw pos hw hm hin cid hcid


/-- the entries themselves: every returned pair is `(squared distance to particle q, q)` for another particle `q`, the list is sorted by
distance and has `min k (n - 1)` entries -/
theorem knnLoop_mkSpace_entries (k : Nat) (hk : 0 < k) (pid : Nat) (hp : pid < pos.size) :
    let s := mkSpace true anchor width mcw pos
    let res := knnLoop s k pid (cellOf s pid) (minDistToFace s.cells[cellOf s pid]! s.pos[pid]!) (CX + CY + CZ + 2) 0 []
    Sorted res ∧ res.length = min k (pos.size - 1) ∧
      ∀ e ∈ res, e.2 < pos.size ∧ e.2 ≠ pid ∧ e.1 = V3.norm2 (pos[pid]! - pos[e.2]!) := by
  intro s res
  have hy : 0 < CY := ceilDiv_pos hw.2.1 hm
  have hz : 0 < CZ := ceilDiv_pos hw.2.2 hm
  have hs : s.cdim = (CX, CY, CZ) := rfl
  have hcid_eq : cellOf s pid = idxOf anchor width mcw pos pid := cellOf_eq anchor width mcw pos hw hm hin pid hp
  have hcid : cellOf s pid < CX * CY * CZ := hcid_eq ▸ idxOf_lt anchor width mcw pos hw hm hin pid hp
  have hperm := rings_perm anchor width mcw pos hw hm hin (cellOf s pid) hcid
  have hbox : ∀ r, ∀ c ∈ ring s (cellOf s pid) r, (0 ≤ s.cells[c]!.width.x ∧ 0 ≤ s.cells[c]!.width.y ∧ 0 ≤ s.cells[c]!.width.z) ∧
      ∀ q ∈ s.cells[c]!.parts, InBox s.cells[c]! s.pos[q]! := by
    intro r c hc
    have hcN := ((mem_ring s hs hy hz (cellOf s pid) r c hcid).1 hc).1
    show _ ∧ ∀ q ∈ (mkSpace true anchor width mcw pos).cells[c]!.parts, InBox (mkSpace true anchor width mcw pos).cells[c]! pos[q]!
    rw [mkSpace_cell anchor width mcw pos c hcN]
    exact cell_box anchor width mcw pos hw hm hin c hcN
  have hfar : ∀ r r', r < r' → ∀ e ∈ entries s pid (ring s (cellOf s pid) r'),
      (minDistToFace s.cells[cellOf s pid]! s.pos[pid]! + r * min (min s.cwidth.x s.cwidth.y) s.cwidth.z) *
        (minDistToFace s.cells[cellOf s pid]! s.pos[pid]! + r * min (min s.cwidth.x s.cwidth.y) s.cwidth.z) ≤ e.1 := by
    intro r r' hrr e he
    unfold entries cellEntries at he
    obtain ⟨c, hc, he⟩ := List.mem_flatMap.1 he
    obtain ⟨hcN, hch⟩ := (mem_ring s hs hy hz (cellOf s pid) r' c hcid).1 hc
    obtain ⟨q, hq, rfl⟩ := List.mem_map.1 he
    have hq' := (List.mem_filter.1 hq).1
    have hq'' : q ∈ (cellAt anchor width mcw pos c).parts := by
      have : (mkSpace true anchor width mcw pos).cells[c]! = cellAt anchor width mcw pos c := mkSpace_cell anchor width mcw pos c hcN
      rw [← this]; exact hq'
    have hcell : s.cells[cellOf s pid]! = cellAt anchor width mcw pos (idxOf anchor width mcw pos pid) := by
      rw [hcid_eq]; exact mkSpace_cell anchor width mcw pos _ (hcid_eq ▸ hcid)
    rw [hcell]
    exact far_bound anchor width mcw pos hw hm hin pid hp c hcN q hq'' r (by rw [← hcid_eq, hch]; omega)
  obtain ⟨h1, h2, _, h4⟩ := knnLoop_correct s k pid (cellOf s pid) hk _ (CX + CY + CZ) (CX + CY + CZ + 2) (by omega) hbox
    (fun r hr => ring_empty s hs hy hz (cellOf s pid) r hcid hr) hfar
  -- all entries of all rings: one per other particle
  have hall : ∀ e ∈ ringEntries s pid (cellOf s pid) 0 (CX + CY + CZ), e.2 < pos.size ∧ e.2 ≠ pid ∧ e.1 = V3.norm2 (pos[pid]! - pos[e.2]!) := by
    intro e he
    unfold ringEntries entries cellEntries at he
    obtain ⟨i, hi, he⟩ := List.mem_flatMap.1 he
    obtain ⟨c, hc, he⟩ := List.mem_flatMap.1 he
    obtain ⟨q, hq, rfl⟩ := List.mem_map.1 he
    obtain ⟨hq1, hq2⟩ := List.mem_filter.1 hq
    have : q ∈ (List.range (CX + CY + CZ)).flatMap fun r => (ring s (cellOf s pid) r).flatMap fun c => s.cells[c]!.parts :=
      List.mem_flatMap.2 ⟨i, hi, List.mem_flatMap.2 ⟨c, by simpa using hc, hq1⟩⟩
    exact ⟨List.mem_range.1 (hperm.mem_iff.1 this), by simpa using hq2, rfl⟩
  have hlen : (ringEntries s pid (cellOf s pid) 0 (CX + CY + CZ)).length = pos.size - 1 := by
    have e1 : (ringEntries s pid (cellOf s pid) 0 (CX + CY + CZ)).length =
        (((List.range (CX + CY + CZ)).flatMap fun r => (ring s (cellOf s pid) r).flatMap fun c => s.cells[c]!.parts).filter (fun q => !(q == pid))).length := by
      unfold ringEntries entries cellEntries
      simp only [Nat.zero_add, List.filter_flatMap, List.length_flatMap, List.length_map]
    rw [e1, (hperm.filter _).length_eq]
    exact length_filter_ne pos.size pid hp
  exact ⟨h1, by rw [h2, hlen], fun e he => hall e (h4 e he)⟩

/-- … in the form of the two executable definitions: `knn` on the grid of `Space::new` = `knnSpec` -/
theorem knn_mkSpace_eq_spec (k : Nat) (hk : 0 < k) :
    (knn (mkSpace true anchor width mcw pos) k).map dists = knnSpec pos k := by
  unfold knn knnSpec
  rw [List.map_map]
  apply List.map_congr_left
  intro pid hpid
  have hp := List.mem_range.1 hpid
  have hk' : (k == 0) = false := by simp; omega
  simp only [Function.comp, hk', Bool.false_eq_true, if_false]
  exact knnLoop_mkSpace_eq_spec anchor width mcw pos hw hm hin k hk pid hp

end Full

/-- non-vacuity: two particles in the unit box, cells of width 1/2, k = 1 -/
example : (knn (mkSpace true ⟨0, 0, 0⟩ ⟨1, 1, 1⟩ (1 / 2) #[⟨1 / 4, 1 / 4, 1 / 4⟩, ⟨3 / 4, 1 / 2, 1 / 8⟩]) 1).map dists =
    knnSpec #[⟨1 / 4, 1 / 4, 1 / 4⟩, ⟨3 / 4, 1 / 2, 1 / 8⟩] 1 := by
  apply knn_mkSpace_eq_spec
  · norm_num
  · norm_num
  · intro q hq
    have : q = 0 ∨ q = 1 := by simp at hq; omega
    rcases this with rfl | rfl <;> norm_num
  · omega

#print axioms MVoro.KnnFull.knn_mkSpace_eq_spec
#print axioms MVoro.KnnFull.knnLoop_mkSpace_entries
end MVoro.KnnFull
