/-
Helper lemmas about the real-number instance of `Scalar` (`GeomHelpers.instScalarReal`) used by the obligations of the
second-generation translator fragments.
-/
import MVoro.Model.Build
import MVoro.Proofs.GeomHelpers
namespace MVoro.Obl
open MVoro MVoro.GeomHelpers

set_option linter.unusedSimpArgs false
set_option linter.unusedVariables false
set_option linter.unusedSectionVars false

@[simp] theorem slt_iff (a b : ℝ) : Scalar.lt a b = true ↔ a < b := by
  show decide (a < b) = true ↔ a < b
  simp
@[simp] theorem sle_iff (a b : ℝ) : Scalar.le a b = true ↔ a ≤ b := by
  show decide (a ≤ b) = true ↔ a ≤ b
  simp
@[simp] theorem slt_false_iff (a b : ℝ) : Scalar.lt a b = false ↔ b ≤ a := by
  show decide (a < b) = false ↔ b ≤ a
  simp

theorem length_def (a : V3 ℝ) : V3.length a = Real.sqrt (V3.norm2 a) := rfl

theorem norm2_pos_of_ne {a b : V3 ℝ} (h : a ≠ b) : 0 < V3.norm2 (a - b) := by
  rcases lt_or_eq_of_le (norm2_nonneg (a - b)) with h1 | h1
  · exact h1
  · exfalso; apply h
    rw [norm2_def] at h1
    simp only [sub_x, sub_y, sub_z] at h1
    have hx : a.x - b.x = 0 := by nlinarith [mul_self_nonneg (a.x - b.x), mul_self_nonneg (a.y - b.y), mul_self_nonneg (a.z - b.z)]
    have hy : a.y - b.y = 0 := by nlinarith [mul_self_nonneg (a.x - b.x), mul_self_nonneg (a.y - b.y), mul_self_nonneg (a.z - b.z)]
    have hz : a.z - b.z = 0 := by nlinarith [mul_self_nonneg (a.x - b.x), mul_self_nonneg (a.y - b.y), mul_self_nonneg (a.z - b.z)]
    exact V3.ext' (by linarith) (by linarith) (by linarith)


theorem eqb_zero_iff (x : ℝ) : Scalar.eqb x (0 : ℝ) = true ↔ x = 0 := by
  show (decide (x ≤ (0 : ℝ)) && decide ((0 : ℝ) ≤ x)) = true ↔ x = 0
  simp only [Bool.and_eq_true, decide_eq_true_eq]
  exact ⟨fun h => le_antisymm h.1 h.2, fun h => by subst h; exact ⟨le_refl _, le_refl _⟩⟩

end MVoro.Obl
