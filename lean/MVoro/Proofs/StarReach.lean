/-
Every cell the algorithm can reach by exact clips is a closed surface of good vertices.

`Star.Good`   = closed surface (C18) ∧ every vertex on its three planes ∧ positively oriented (C10's precondition) ∧ inside
                every half space of the cell (C01) — the four invariants the exact oracle asserts per cell at run time.
`Star.Step`   = one `clip_by_plane` with exact decisions whose boundary reconstruction succeeded (`Greedy`, i.e. the code did
                not hit "No suitable vertex found to extend boundary!") and whose new vertices were placed on their planes.
`step_good`   : `Good` is preserved by `Step`;  `reach_good` : hence holds for everything reachable from a good start.
`init_good`   : the start cell of `ConvexCell::init` (box with the generator strictly inside, walls as bisectors of the mirror
                images, the eight dual triples of the facts table) is good — for every box and every such generator.

Not part of this file: that the greedy reconstruction always succeeds on the removed region of an exact clip (`never_stuck`,
DESIGN §4 item 3) and that a good cell IS the polytope (item 2).
-/
import MVoro.Proofs.StarInvariant
import Mathlib.Logic.Relation
import Mathlib.Tactic.Positivity
import Mathlib.Tactic.Linarith
import Mathlib.Tactic.NormNum

namespace MVoro.Star
open MVoro Ref MVoro.C10 MVoro.CycleBoundary

variable {α : Type} [Field α] [LinearOrder α] [IsStrictOrderedRing α]

/-- state of a cell under construction: plane indices in use, dual triples, vertex positions -/
structure St (α : Type) where
  planes : List Nat
  T : List Dual
  loc : Dual → I3 α

def Good (g : I3 α) (nbr : Nat → I3 α) (s : St α) : Prop :=
  Closed s.T ∧ s.T.Nodup ∧ (∀ t ∈ s.T, t.a ∈ s.planes ∧ t.b ∈ s.planes ∧ t.c ∈ s.planes) ∧
  ∀ t ∈ s.T, VOK g nbr s.planes t (s.loc t)

/-- one successful exact clip by the bisector of `nbr p` (`p` a fresh plane index); `R` = the removed vertices in the order the
greedy reconstruction consumed them -/
inductive Step (g : I3 α) (nbr : Nat → I3 α) : St α → St α → Prop
  | clip (s : St α) (p : Nat) (R : List Dual) (succ : Nat → Nat) (loc' : Dual → I3 α)
      (hfresh : p ∉ s.planes)
      (hR : ∀ t, t ∈ R ↔ t ∈ s.T ∧ gap g (nbr p) (s.loc t) < 0)
      (hRn : R.Nodup)
      (hG : Greedy R succ)
      (hkeep : ∀ t ∈ s.T, loc' t = s.loc t)
      (hnew : ∀ e ∈ bdry R, gap g (nbr e.1) (loc' ⟨e.1, e.2, p⟩) = 0 ∧ gap g (nbr e.2) (loc' ⟨e.1, e.2, p⟩) = 0 ∧
        gap g (nbr p) (loc' ⟨e.1, e.2, p⟩) = 0) :
      Step g nbr s ⟨p :: s.planes, clipDuals s.T R p, loc'⟩

omit [Field α] [LinearOrder α] [IsStrictOrderedRing α] in
theorem mem_bdry_congr {R R' : List Dual} (h : ∀ t, t ∈ R ↔ t ∈ R') (e : Nat × Nat) : e ∈ bdry R ↔ e ∈ bdry R' := by
  have he : ∀ e, e ∈ edgesOf R ↔ e ∈ edgesOf R' := by
    intro e; simp only [mem_edgesOf]
    exact ⟨fun ⟨d, hd, hde⟩ => ⟨d, (h d).1 hd, hde⟩, fun ⟨d, hd, hde⟩ => ⟨d, (h d).2 hd, hde⟩⟩
  rw [mem_bdry, mem_bdry, he, he]

omit [Field α] [LinearOrder α] [IsStrictOrderedRing α] in
/-- a list of triples whose directed edges are pairwise different has no repeated triple -/
theorem nodup_clipDuals {T R : List Dual} {p : Nat} (hT : T.Nodup) (hE : (edgesOf R).Nodup)
    (hp : ∀ d ∈ T, d.c ≠ p) : (clipDuals T R p).Nodup := by
  unfold clipDuals
  refine List.Nodup.append (hT.filter _) ?_ ?_
  · refine List.Nodup.map ?_ ((hE.filter _))
    intro e e' h; simp only [newTri, Dual.mk.injEq] at h; exact Prod.ext h.1 h.2.1
  · intro d hd hd'
    obtain ⟨e, _, rfl⟩ := List.mem_map.mp hd'
    exact hp _ (List.mem_filter.mp hd).1 rfl

open Classical in
/-- **`Good` is preserved by every successful exact clip** -/
theorem step_good (g : I3 α) (nbr : Nat → I3 α) (s s' : St α) (hs : Good g nbr s) (h : Step g nbr s s') : Good g nbr s' := by
  obtain ⟨hclosed, hnd, hidx, hok⟩ := hs
  cases h with
  | clip p R succ loc' hfresh hR hRn hG hkeep hnew =>
    have hsub : R ⊆ s.T := fun t ht => ((hR t).1 ht).1
    have hp : ∀ d ∈ s.T, d.a ≠ p ∧ d.b ≠ p ∧ d.c ≠ p := by
      intro d hd
      obtain ⟨ia, ib, ic⟩ := hidx d hd
      exact ⟨fun e => hfresh (e ▸ ia), fun e => hfresh (e ▸ ib), fun e => hfresh (e ▸ ic)⟩
    -- the invariant theorem, transported to the list `R`
    have hinv := clip_invariant g nbr s.planes s.T s.loc p hclosed hidx hok
    simp only at hinv
    obtain ⟨hkept, hcreated⟩ := hinv
    have hmem : ∀ t, t ∈ (s.T.filter fun t => decide (gap g (nbr p) (s.loc t) < 0)) ↔ t ∈ R := by
      intro t; rw [hR t]; simp [List.mem_filter]
    refine ⟨greedy_closed hclosed hsub hRn hp hG, ?_, ?_, ?_⟩
    · exact nodup_clipDuals hnd (nodup_edgesOf_of_subset hclosed.1 hRn hsub) (fun d hd => (hp d hd).2.2)
    · intro t ht
      simp only [clipDuals, List.mem_append, List.mem_filter, List.mem_map] at ht
      rcases ht with ⟨htT, _⟩ | ⟨e, he, rfl⟩
      · obtain ⟨ia, ib, ic⟩ := hidx t htT
        exact ⟨List.mem_cons_of_mem _ ia, List.mem_cons_of_mem _ ib, List.mem_cons_of_mem _ ic⟩
      · obtain ⟨d, hdR, hde⟩ := mem_edgesOf.mp (mem_bdry.mp he).1
        obtain ⟨ia, ib, ic⟩ := hidx d (hsub hdR)
        have : e.1 ∈ s.planes ∧ e.2 ∈ s.planes := by
          rw [mem_edges] at hde
          rcases hde with rfl | rfl | rfl <;> exact ⟨by assumption, by assumption⟩
        exact ⟨List.mem_cons_of_mem _ this.1, List.mem_cons_of_mem _ this.2, List.mem_cons_self⟩
    · intro t ht
      simp only [clipDuals, List.mem_append, List.mem_filter, List.mem_map] at ht
      rcases ht with ⟨htT, hnot⟩ | ⟨e, he, rfl⟩
      · have hnotR : t ∉ R := by
          intro hin
          have := of_decide_eq_true hnot t hin
          exact this rfl
        show VOK g nbr (p :: s.planes) t (loc' t)
        rw [hkeep t htT]
        exact hkept t htT (fun hin => hnotR ((hmem t).1 hin))
      · obtain ⟨h1, h2, h3⟩ := hnew e he
        exact hcreated e ((mem_bdry_congr hmem e).2 he) (loc' ⟨e.1, e.2, p⟩) h1 h2 h3

/-- **every cell reachable from a good cell by successful exact clips is good** -/
theorem reach_good (g : I3 α) (nbr : Nat → I3 α) (s s' : St α) (hs : Good g nbr s)
    (h : Relation.ReflTransGen (Step g nbr) s s') : Good g nbr s' := by
  induction h with
  | refl => exact hs
  | tail _ hstep ih => exact step_good g nbr _ _ ih hstep

/-- **the exact predicate decides geometrically on a good vertex**: for a vertex on its three planes with positively oriented
dual triple, the sign test of `clip_by_plane`'s exact path (`inSphereDet g a b c q < 0`) holds iff the vertex is strictly
closer to `q` than to the generator — the decision `Step` is defined with -/
theorem exact_decision_iff (g : I3 α) (nbr : Nat → I3 α) (planes : List Nat) (t : Dual) (o q : I3 α)
    (h : VOK g nbr planes t o) :
    inSphereDet g (nbr t.a) (nbr t.b) (nbr t.c) q < 0 ↔ gap g q o < 0 := by
  obtain ⟨h1, h2, h3, h4, _⟩ := h
  rw [inSphere_eq_gap g _ _ _ q o h1 h2 h3]
  constructor
  · intro hneg
    by_contra hge
    exact absurd hneg (not_lt.mpr (mul_nonneg h4.le (not_lt.mp hge)))
  · exact fun hneg => mul_neg_of_pos_of_neg h4 hneg

/-! ### the start cell -/

/-- the point behind wall `i` of the box `[lo, hi]`: the mirror image of the generator (`HalfSpace::right_loc` for a wall) -/
def mirrorNbr (lo hi g : I3 α) : Nat → I3 α
  | 0 => ⟨2 * lo.c0 - g.c0, g.c1, g.c2⟩
  | 1 => ⟨2 * hi.c0 - g.c0, g.c1, g.c2⟩
  | 2 => ⟨g.c0, 2 * lo.c1 - g.c1, g.c2⟩
  | 3 => ⟨g.c0, 2 * hi.c1 - g.c1, g.c2⟩
  | 4 => ⟨g.c0, g.c1, 2 * lo.c2 - g.c2⟩
  | _ => ⟨g.c0, g.c1, 2 * hi.c2 - g.c2⟩

/-- the eight dual triples of `ConvexCell::init` (facts table, `Obl/CellInit`) -/
def initT : List Dual := [⟨2, 5, 0⟩, ⟨5, 3, 0⟩, ⟨1, 5, 2⟩, ⟨5, 1, 3⟩, ⟨4, 2, 0⟩, ⟨4, 0, 3⟩, ⟨2, 4, 1⟩, ⟨4, 3, 1⟩]

def hasWall (t : Dual) (i : Nat) : Bool := t.a == i || t.b == i || t.c == i

/-- the corner of the box a triple of walls meets in -/
def corner (lo hi : I3 α) (t : Dual) : I3 α :=
  ⟨if hasWall t 0 then lo.c0 else hi.c0, if hasWall t 2 then lo.c1 else hi.c1, if hasWall t 4 then lo.c2 else hi.c2⟩

def initSt (lo hi : I3 α) : St α := ⟨[0, 1, 2, 3, 4, 5], initT, corner lo hi⟩

set_option maxHeartbeats 800000 in
theorem init_vok_0 (lo hi g : I3 α) (a0 : 0 < g.c0 - lo.c0) (b0 : 0 < hi.c0 - g.c0) (a1 : 0 < g.c1 - lo.c1) (b1 : 0 < hi.c1 - g.c1)
    (a2 : 0 < g.c2 - lo.c2) (b2 : 0 < hi.c2 - g.c2) :
    VOK g (mirrorNbr lo hi g) [0, 1, 2, 3, 4, 5] ⟨2, 5, 0⟩ (corner lo hi ⟨2, 5, 0⟩) := by
  refine ⟨?_, ?_, ?_, ?_, ?_⟩
  · simp [gap, dist2, mirrorNbr, corner, hasWall]; ring
  · simp [gap, dist2, mirrorNbr, corner, hasWall]; ring
  · simp [gap, dist2, mirrorNbr, corner, hasWall]; ring
  · simp only [orient, bigInt, det3, det2, mirrorNbr]
    nlinarith [mul_pos (mul_pos a0 a1) a2, mul_pos (mul_pos a0 a1) b2, mul_pos (mul_pos a0 b1) a2, mul_pos (mul_pos a0 b1) b2,
      mul_pos (mul_pos b0 a1) a2, mul_pos (mul_pos b0 a1) b2, mul_pos (mul_pos b0 b1) a2, mul_pos (mul_pos b0 b1) b2]
  · intro i hi
    simp only [List.mem_cons, List.mem_nil_iff, or_false] at hi
    rcases hi with rfl | rfl | rfl | rfl | rfl | rfl <;>
      simp [gap, dist2, mirrorNbr, corner, hasWall] <;>
      nlinarith [mul_pos a0 a0, mul_pos a0 b0, mul_pos b0 b0, mul_pos a1 a1, mul_pos a1 b1, mul_pos b1 b1,
        mul_pos a2 a2, mul_pos a2 b2, mul_pos b2 b2]

set_option maxHeartbeats 800000 in
theorem init_vok_1 (lo hi g : I3 α) (a0 : 0 < g.c0 - lo.c0) (b0 : 0 < hi.c0 - g.c0) (a1 : 0 < g.c1 - lo.c1) (b1 : 0 < hi.c1 - g.c1)
    (a2 : 0 < g.c2 - lo.c2) (b2 : 0 < hi.c2 - g.c2) :
    VOK g (mirrorNbr lo hi g) [0, 1, 2, 3, 4, 5] ⟨5, 3, 0⟩ (corner lo hi ⟨5, 3, 0⟩) := by
  refine ⟨?_, ?_, ?_, ?_, ?_⟩
  · simp [gap, dist2, mirrorNbr, corner, hasWall]; ring
  · simp [gap, dist2, mirrorNbr, corner, hasWall]; ring
  · simp [gap, dist2, mirrorNbr, corner, hasWall]; ring
  · simp only [orient, bigInt, det3, det2, mirrorNbr]
    nlinarith [mul_pos (mul_pos a0 a1) a2, mul_pos (mul_pos a0 a1) b2, mul_pos (mul_pos a0 b1) a2, mul_pos (mul_pos a0 b1) b2,
      mul_pos (mul_pos b0 a1) a2, mul_pos (mul_pos b0 a1) b2, mul_pos (mul_pos b0 b1) a2, mul_pos (mul_pos b0 b1) b2]
  · intro i hi
    simp only [List.mem_cons, List.mem_nil_iff, or_false] at hi
    rcases hi with rfl | rfl | rfl | rfl | rfl | rfl <;>
      simp [gap, dist2, mirrorNbr, corner, hasWall] <;>
      nlinarith [mul_pos a0 a0, mul_pos a0 b0, mul_pos b0 b0, mul_pos a1 a1, mul_pos a1 b1, mul_pos b1 b1,
        mul_pos a2 a2, mul_pos a2 b2, mul_pos b2 b2]

set_option maxHeartbeats 800000 in
theorem init_vok_2 (lo hi g : I3 α) (a0 : 0 < g.c0 - lo.c0) (b0 : 0 < hi.c0 - g.c0) (a1 : 0 < g.c1 - lo.c1) (b1 : 0 < hi.c1 - g.c1)
    (a2 : 0 < g.c2 - lo.c2) (b2 : 0 < hi.c2 - g.c2) :
    VOK g (mirrorNbr lo hi g) [0, 1, 2, 3, 4, 5] ⟨1, 5, 2⟩ (corner lo hi ⟨1, 5, 2⟩) := by
  refine ⟨?_, ?_, ?_, ?_, ?_⟩
  · simp [gap, dist2, mirrorNbr, corner, hasWall]; ring
  · simp [gap, dist2, mirrorNbr, corner, hasWall]; ring
  · simp [gap, dist2, mirrorNbr, corner, hasWall]; ring
  · simp only [orient, bigInt, det3, det2, mirrorNbr]
    nlinarith [mul_pos (mul_pos a0 a1) a2, mul_pos (mul_pos a0 a1) b2, mul_pos (mul_pos a0 b1) a2, mul_pos (mul_pos a0 b1) b2,
      mul_pos (mul_pos b0 a1) a2, mul_pos (mul_pos b0 a1) b2, mul_pos (mul_pos b0 b1) a2, mul_pos (mul_pos b0 b1) b2]
  · intro i hi
    simp only [List.mem_cons, List.mem_nil_iff, or_false] at hi
    rcases hi with rfl | rfl | rfl | rfl | rfl | rfl <;>
      simp [gap, dist2, mirrorNbr, corner, hasWall] <;>
      nlinarith [mul_pos a0 a0, mul_pos a0 b0, mul_pos b0 b0, mul_pos a1 a1, mul_pos a1 b1, mul_pos b1 b1,
        mul_pos a2 a2, mul_pos a2 b2, mul_pos b2 b2]

set_option maxHeartbeats 800000 in
theorem init_vok_3 (lo hi g : I3 α) (a0 : 0 < g.c0 - lo.c0) (b0 : 0 < hi.c0 - g.c0) (a1 : 0 < g.c1 - lo.c1) (b1 : 0 < hi.c1 - g.c1)
    (a2 : 0 < g.c2 - lo.c2) (b2 : 0 < hi.c2 - g.c2) :
    VOK g (mirrorNbr lo hi g) [0, 1, 2, 3, 4, 5] ⟨5, 1, 3⟩ (corner lo hi ⟨5, 1, 3⟩) := by
  refine ⟨?_, ?_, ?_, ?_, ?_⟩
  · simp [gap, dist2, mirrorNbr, corner, hasWall]; ring
  · simp [gap, dist2, mirrorNbr, corner, hasWall]; ring
  · simp [gap, dist2, mirrorNbr, corner, hasWall]; ring
  · simp only [orient, bigInt, det3, det2, mirrorNbr]
    nlinarith [mul_pos (mul_pos a0 a1) a2, mul_pos (mul_pos a0 a1) b2, mul_pos (mul_pos a0 b1) a2, mul_pos (mul_pos a0 b1) b2,
      mul_pos (mul_pos b0 a1) a2, mul_pos (mul_pos b0 a1) b2, mul_pos (mul_pos b0 b1) a2, mul_pos (mul_pos b0 b1) b2]
  · intro i hi
    simp only [List.mem_cons, List.mem_nil_iff, or_false] at hi
    rcases hi with rfl | rfl | rfl | rfl | rfl | rfl <;>
      simp [gap, dist2, mirrorNbr, corner, hasWall] <;>
      nlinarith [mul_pos a0 a0, mul_pos a0 b0, mul_pos b0 b0, mul_pos a1 a1, mul_pos a1 b1, mul_pos b1 b1,
        mul_pos a2 a2, mul_pos a2 b2, mul_pos b2 b2]

set_option maxHeartbeats 800000 in
theorem init_vok_4 (lo hi g : I3 α) (a0 : 0 < g.c0 - lo.c0) (b0 : 0 < hi.c0 - g.c0) (a1 : 0 < g.c1 - lo.c1) (b1 : 0 < hi.c1 - g.c1)
    (a2 : 0 < g.c2 - lo.c2) (b2 : 0 < hi.c2 - g.c2) :
    VOK g (mirrorNbr lo hi g) [0, 1, 2, 3, 4, 5] ⟨4, 2, 0⟩ (corner lo hi ⟨4, 2, 0⟩) := by
  refine ⟨?_, ?_, ?_, ?_, ?_⟩
  · simp [gap, dist2, mirrorNbr, corner, hasWall]; ring
  · simp [gap, dist2, mirrorNbr, corner, hasWall]; ring
  · simp [gap, dist2, mirrorNbr, corner, hasWall]; ring
  · simp only [orient, bigInt, det3, det2, mirrorNbr]
    nlinarith [mul_pos (mul_pos a0 a1) a2, mul_pos (mul_pos a0 a1) b2, mul_pos (mul_pos a0 b1) a2, mul_pos (mul_pos a0 b1) b2,
      mul_pos (mul_pos b0 a1) a2, mul_pos (mul_pos b0 a1) b2, mul_pos (mul_pos b0 b1) a2, mul_pos (mul_pos b0 b1) b2]
  · intro i hi
    simp only [List.mem_cons, List.mem_nil_iff, or_false] at hi
    rcases hi with rfl | rfl | rfl | rfl | rfl | rfl <;>
      simp [gap, dist2, mirrorNbr, corner, hasWall] <;>
      nlinarith [mul_pos a0 a0, mul_pos a0 b0, mul_pos b0 b0, mul_pos a1 a1, mul_pos a1 b1, mul_pos b1 b1,
        mul_pos a2 a2, mul_pos a2 b2, mul_pos b2 b2]

set_option maxHeartbeats 800000 in
theorem init_vok_5 (lo hi g : I3 α) (a0 : 0 < g.c0 - lo.c0) (b0 : 0 < hi.c0 - g.c0) (a1 : 0 < g.c1 - lo.c1) (b1 : 0 < hi.c1 - g.c1)
    (a2 : 0 < g.c2 - lo.c2) (b2 : 0 < hi.c2 - g.c2) :
    VOK g (mirrorNbr lo hi g) [0, 1, 2, 3, 4, 5] ⟨4, 0, 3⟩ (corner lo hi ⟨4, 0, 3⟩) := by
  refine ⟨?_, ?_, ?_, ?_, ?_⟩
  · simp [gap, dist2, mirrorNbr, corner, hasWall]; ring
  · simp [gap, dist2, mirrorNbr, corner, hasWall]; ring
  · simp [gap, dist2, mirrorNbr, corner, hasWall]; ring
  · simp only [orient, bigInt, det3, det2, mirrorNbr]
    nlinarith [mul_pos (mul_pos a0 a1) a2, mul_pos (mul_pos a0 a1) b2, mul_pos (mul_pos a0 b1) a2, mul_pos (mul_pos a0 b1) b2,
      mul_pos (mul_pos b0 a1) a2, mul_pos (mul_pos b0 a1) b2, mul_pos (mul_pos b0 b1) a2, mul_pos (mul_pos b0 b1) b2]
  · intro i hi
    simp only [List.mem_cons, List.mem_nil_iff, or_false] at hi
    rcases hi with rfl | rfl | rfl | rfl | rfl | rfl <;>
      simp [gap, dist2, mirrorNbr, corner, hasWall] <;>
      nlinarith [mul_pos a0 a0, mul_pos a0 b0, mul_pos b0 b0, mul_pos a1 a1, mul_pos a1 b1, mul_pos b1 b1,
        mul_pos a2 a2, mul_pos a2 b2, mul_pos b2 b2]

set_option maxHeartbeats 800000 in
theorem init_vok_6 (lo hi g : I3 α) (a0 : 0 < g.c0 - lo.c0) (b0 : 0 < hi.c0 - g.c0) (a1 : 0 < g.c1 - lo.c1) (b1 : 0 < hi.c1 - g.c1)
    (a2 : 0 < g.c2 - lo.c2) (b2 : 0 < hi.c2 - g.c2) :
    VOK g (mirrorNbr lo hi g) [0, 1, 2, 3, 4, 5] ⟨2, 4, 1⟩ (corner lo hi ⟨2, 4, 1⟩) := by
  refine ⟨?_, ?_, ?_, ?_, ?_⟩
  · simp [gap, dist2, mirrorNbr, corner, hasWall]; ring
  · simp [gap, dist2, mirrorNbr, corner, hasWall]; ring
  · simp [gap, dist2, mirrorNbr, corner, hasWall]; ring
  · simp only [orient, bigInt, det3, det2, mirrorNbr]
    nlinarith [mul_pos (mul_pos a0 a1) a2, mul_pos (mul_pos a0 a1) b2, mul_pos (mul_pos a0 b1) a2, mul_pos (mul_pos a0 b1) b2,
      mul_pos (mul_pos b0 a1) a2, mul_pos (mul_pos b0 a1) b2, mul_pos (mul_pos b0 b1) a2, mul_pos (mul_pos b0 b1) b2]
  · intro i hi
    simp only [List.mem_cons, List.mem_nil_iff, or_false] at hi
    rcases hi with rfl | rfl | rfl | rfl | rfl | rfl <;>
      simp [gap, dist2, mirrorNbr, corner, hasWall] <;>
      nlinarith [mul_pos a0 a0, mul_pos a0 b0, mul_pos b0 b0, mul_pos a1 a1, mul_pos a1 b1, mul_pos b1 b1,
        mul_pos a2 a2, mul_pos a2 b2, mul_pos b2 b2]

set_option maxHeartbeats 800000 in
theorem init_vok_7 (lo hi g : I3 α) (a0 : 0 < g.c0 - lo.c0) (b0 : 0 < hi.c0 - g.c0) (a1 : 0 < g.c1 - lo.c1) (b1 : 0 < hi.c1 - g.c1)
    (a2 : 0 < g.c2 - lo.c2) (b2 : 0 < hi.c2 - g.c2) :
    VOK g (mirrorNbr lo hi g) [0, 1, 2, 3, 4, 5] ⟨4, 3, 1⟩ (corner lo hi ⟨4, 3, 1⟩) := by
  refine ⟨?_, ?_, ?_, ?_, ?_⟩
  · simp [gap, dist2, mirrorNbr, corner, hasWall]; ring
  · simp [gap, dist2, mirrorNbr, corner, hasWall]; ring
  · simp [gap, dist2, mirrorNbr, corner, hasWall]; ring
  · simp only [orient, bigInt, det3, det2, mirrorNbr]
    nlinarith [mul_pos (mul_pos a0 a1) a2, mul_pos (mul_pos a0 a1) b2, mul_pos (mul_pos a0 b1) a2, mul_pos (mul_pos a0 b1) b2,
      mul_pos (mul_pos b0 a1) a2, mul_pos (mul_pos b0 a1) b2, mul_pos (mul_pos b0 b1) a2, mul_pos (mul_pos b0 b1) b2]
  · intro i hi
    simp only [List.mem_cons, List.mem_nil_iff, or_false] at hi
    rcases hi with rfl | rfl | rfl | rfl | rfl | rfl <;>
      simp [gap, dist2, mirrorNbr, corner, hasWall] <;>
      nlinarith [mul_pos a0 a0, mul_pos a0 b0, mul_pos b0 b0, mul_pos a1 a1, mul_pos a1 b1, mul_pos b1 b1,
        mul_pos a2 a2, mul_pos a2 b2, mul_pos b2 b2]

/-- **the start cell is good**, for every box and every generator strictly inside it -/
theorem init_good (lo hi g : I3 α) (h0 : lo.c0 < g.c0 ∧ g.c0 < hi.c0) (h1 : lo.c1 < g.c1 ∧ g.c1 < hi.c1)
    (h2 : lo.c2 < g.c2 ∧ g.c2 < hi.c2) : Good g (mirrorNbr lo hi g) (initSt lo hi) := by
  have c1 : (edgesOf initT).Nodup := by decide
  have c2 : ∀ e ∈ edgesOf initT, e.swap ∈ edgesOf initT := by decide
  have c3 : initT.Nodup := by decide
  have c4 : ∀ t ∈ initT, t.a ∈ [0, 1, 2, 3, 4, 5] ∧ t.b ∈ [0, 1, 2, 3, 4, 5] ∧ t.c ∈ [0, 1, 2, 3, 4, 5] := by decide
  refine ⟨⟨c1, c2⟩, c3, c4, ?_⟩
  have a0 : 0 < g.c0 - lo.c0 := by linarith [h0.1]
  have b0 : 0 < hi.c0 - g.c0 := by linarith [h0.2]
  have a1 : 0 < g.c1 - lo.c1 := by linarith [h1.1]
  have b1 : 0 < hi.c1 - g.c1 := by linarith [h1.2]
  have a2 : 0 < g.c2 - lo.c2 := by linarith [h2.1]
  have b2 : 0 < hi.c2 - g.c2 := by linarith [h2.2]
  intro t ht
  simp only [initSt, initT, List.mem_cons, List.mem_nil_iff, or_false] at ht
  rcases ht with rfl | rfl | rfl | rfl | rfl | rfl | rfl | rfl
  · exact init_vok_0 lo hi g a0 b0 a1 b1 a2 b2
  · exact init_vok_1 lo hi g a0 b0 a1 b1 a2 b2
  · exact init_vok_2 lo hi g a0 b0 a1 b1 a2 b2
  · exact init_vok_3 lo hi g a0 b0 a1 b1 a2 b2
  · exact init_vok_4 lo hi g a0 b0 a1 b1 a2 b2
  · exact init_vok_5 lo hi g a0 b0 a1 b1 a2 b2
  · exact init_vok_6 lo hi g a0 b0 a1 b1 a2 b2
  · exact init_vok_7 lo hi g a0 b0 a1 b1 a2 b2

/-- **every cell reachable from the start cell by successful exact clips is a closed surface of vertices that lie on their
planes, are positively oriented and satisfy every half space** -/
theorem reachable_from_init_good (lo hi g : I3 α) (h0 : lo.c0 < g.c0 ∧ g.c0 < hi.c0) (h1 : lo.c1 < g.c1 ∧ g.c1 < hi.c1)
    (h2 : lo.c2 < g.c2 ∧ g.c2 < hi.c2) (nbr : Nat → I3 α) (hn : ∀ i, i < 6 → nbr i = mirrorNbr lo hi g i) (s : St α)
    (h : Relation.ReflTransGen (Step g nbr) (initSt lo hi) s) : Good g nbr s := by
  refine reach_good g nbr _ _ ?_ h
  obtain ⟨g1, g2, g3, g4⟩ := init_good lo hi g h0 h1 h2
  refine ⟨g1, g2, g3, fun t ht => ?_⟩
  obtain ⟨ia, ib, ic⟩ := g3 t ht
  have lt6 : ∀ i ∈ [0, 1, 2, 3, 4, 5], i < 6 := by decide
  obtain ⟨v1, v2, v3, v4, v5⟩ := g4 t ht
  have ea := hn t.a (lt6 _ ia); have eb := hn t.b (lt6 _ ib); have ec := hn t.c (lt6 _ ic)
  refine ⟨by rw [ea]; exact v1, by rw [eb]; exact v2, by rw [ec]; exact v3, by rw [ea, eb, ec]; exact v4, fun i hi => ?_⟩
  rw [hn i (lt6 _ hi)]; exact v5 i hi

#print axioms MVoro.Star.reachable_from_init_good
end MVoro.Star
