/-
The executable model of `clip_by_plane` preserves the combinatorial invariants.

`EulerReach.cstep_good` is about the abstract clip `clipDuals T R p`; `ClipModel.clip_spec` says that the executable
`Model/Clip.clip` (the function compared with the Rust code exactly, whose `compute_boundary` part is regenerated from the source)
returns that list up to order.  This file joins the two: `SGood` does not depend on the order of the triples (`sgood_perm`), a
successful `computeBoundary` IS a greedy run (`CycleBoundary.computeBoundary_greedy`, `greedy_of_raw`), hence
`model_clip_good`: if the duals of the vertex array are `SGood` and `Clip.clip` returns `.clipped`, the duals of the new vertex
array are `SGood` again — closed surface, no repeated vertex, three planes per vertex, one umbrella per plane, `V − E + F = 2`.
-/
import MVoro.Proofs.ClipModel
import MVoro.Proofs.EulerReach

namespace MVoro.ModelReach
open MVoro MVoro.CycleBoundary MVoro.CycleWalk MVoro.ClipModel MVoro.Euler MVoro.EulerClip MVoro.EulerReach Relation

theorem edgesOf_perm {T T' : List Dual} (h : T.Perm T') : (edgesOf T).Perm (edgesOf T') := h.flatMap_right _

theorem stepAt_perm {T T' : List Dual} (h : T.Perm T') {j : Nat} {d d' : Dual} (hs : StepAt T j d d') : StepAt T' j d d' :=
  ⟨h.mem_iff.1 hs.1, hs.2⟩

theorem path_perm {T T' : List Dual} (h : T.Perm T') {j : Nat} {d d' : Dual} (hp : ReflTransGen (StepAt T j) d d') :
    ReflTransGen (StepAt T' j) d d' := by
  induction hp with
  | refl => exact ReflTransGen.refl
  | tail _ hab ih => exact ReflTransGen.tail ih (stepAt_perm h hab)

theorem linkConn_perm {T T' : List Dual} (h : T.Perm T') {j : Nat} (hl : LinkConn T j) : LinkConn T' j := by
  intro d hd d' hd' hdj hdj'
  exact path_perm h (hl d (h.mem_iff.2 hd) d' (h.mem_iff.2 hd') hdj hdj')

theorem planesOf_perm {T T' : List Dual} (h : T.Perm T') : planesOf T = planesOf T' := by
  ext j; simp only [mem_planesOf]
  exact ⟨fun ⟨d, hd, hj⟩ => ⟨d, h.mem_iff.1 hd, hj⟩, fun ⟨d, hd, hj⟩ => ⟨d, h.mem_iff.2 hd, hj⟩⟩

/-- **the combinatorial invariants do not depend on the storage order of the vertices** -/
theorem sgood_perm {T T' : List Dual} (h : T.Perm T') (hg : SGood T) : SGood T' := by
  obtain ⟨hC, hN, hD, hL, hE⟩ := hg
  have he := edgesOf_perm h
  refine ⟨⟨he.nodup_iff.1 hC.1, fun e hm => he.mem_iff.1 (hC.2 e (he.mem_iff.2 hm))⟩, h.nodup_iff.1 hN,
    fun d hd => hD d (h.mem_iff.2 hd), fun j => linkConn_perm h (hL j), ?_⟩
  rw [← h.length_eq, ← planesOf_perm h]; exact hE

/-- `clipDuals` depends on the removed list only up to order -/
theorem clipDuals_perm {T R R' : List Dual} (p : Nat) (h : R.Perm R') : (clipDuals T R p).Perm (clipDuals T R' p) := by
  unfold clipDuals
  refine List.Perm.append ?_ ((bdry_perm_list h).map _)
  have : (fun d : Dual => decide (∀ r ∈ R, d ≠ r)) = fun d => decide (∀ r ∈ R', d ≠ r) := by
    funext d; congr 1; apply propext
    exact ⟨fun hh r hr => hh r (h.mem_iff.2 hr), fun hh r hr => hh r (h.mem_iff.1 hr)⟩
  rw [this]

variable {V : Type}

/-- the removed vertices of a successful model clip, as the greedy run consumed them -/
theorem clip_greedy {dual : V → Dual} {mk : Nat → Nat → Nat → V} {removed : V → Bool} {p : Nat} {cyc cyc' : Cycle}
    {vs out : Array V}
    (hnd : (Cycle.walk cyc.grow.len cyc.grow cyc.grow.start).Nodup)
    (hcov : ∀ x, cyc.grow.get x ≠ x → x ∈ Cycle.walk cyc.grow.len cyc.grow cyc.grow.start)
    (hR : ∀ v ∈ vs.toList, InRange cyc.grow.ptrs.size (dual v) ∧ Distinct (dual v))
    (hT : (edgesOf (vs.toList.map dual)).Nodup)
    (hNC : ∀ R : List Dual, R.Perm ((vs.toList.filter fun v => removed v).map dual) → NoClosedPart R)
    (h : Clip.clip dual mk removed p cyc vs = .clipped cyc' out) :
    ∃ R' : List Dual, R'.Perm ((vs.toList.filter fun v => removed v).map dual) ∧ Greedy R' cyc'.get := by
  unfold Clip.clip at h
  have hP0 : PInv removed 0 vs.size vs := ⟨Nat.zero_le _, Nat.le_refl _, fun k _ hk => absurd hk (Nat.not_lt_zero k),
    fun k hk hge => absurd hk (by omega)⟩
  obtain ⟨hperm, hinv⟩ := partitionLoop_spec removed (2 * vs.size + 1) 0 vs.size vs hP0 (by omega)
  generalize hpl : Clip.partitionLoop removed (2 * vs.size + 1) 0 vs.size vs = pl at h hperm hinv
  obtain ⟨vs1, numV⟩ := pl
  simp only at h hperm hinv
  split at h
  · cases h
  · split at h
    · cases h
    · next cyc1 vs2 hcb =>
      cases h
      have hdrop : (vs1.extract numV vs1.size).toList = vs1.toList.drop numV := by simp [List.extract]
      have hsplit : vs1.toList = vs1.toList.take numV ++ vs1.toList.drop numV := (List.take_append_drop _ _).symm
      have hkept : ∀ v ∈ vs1.toList.take numV, removed v = false := by
        intro v hv
        obtain ⟨k, hk, rfl⟩ := List.getElem_of_mem hv
        simp only [List.length_take, Array.length_toList] at hk
        rw [List.getElem_take, Array.getElem_toList]
        exact hinv.kept k (by omega) (by omega)
      have hrem : ∀ v ∈ vs1.toList.drop numV, removed v = true := by
        intro v hv
        obtain ⟨k, hk, rfl⟩ := List.getElem_of_mem hv
        simp only [List.length_drop, Array.length_toList] at hk
        rw [List.getElem_drop, Array.getElem_toList]
        exact hinv.rem (numV + k) (by have := hinv.sz; omega) (by omega)
      have hfR : (vs.toList.filter fun v => removed v).Perm (vs1.toList.drop numV) := by
        have := (hperm.filter fun v => removed v).symm
        rw [hsplit, List.filter_append] at this
        have e1 : (vs1.toList.take numV).filter (fun v => removed v) = [] :=
          List.filter_eq_nil_iff.mpr (fun v hv => by simp [hkept v hv])
        have e2 : (vs1.toList.drop numV).filter (fun v => removed v) = vs1.toList.drop numV :=
          List.filter_eq_self.mpr (fun v hv => by simp [hrem v hv])
        rw [e1, e2, List.nil_append] at this
        exact this
      have hRin : ∀ v ∈ (vs1.extract numV vs1.size).toList, InRange cyc.grow.ptrs.size (dual v) := by
        intro v hv
        rw [hdrop] at hv
        exact (hR v (hperm.mem_iff.1 (List.mem_of_mem_drop hv))).1
      have hdist : ∀ hp : 0 < (vs1.extract numV vs1.size).size,
          (dual (vs1.extract numV vs1.size)[0]).a ≠ (dual (vs1.extract numV vs1.size)[0]).b ∧
          (dual (vs1.extract numV vs1.size)[0]).b ≠ (dual (vs1.extract numV vs1.size)[0]).c ∧
          (dual (vs1.extract numV vs1.size)[0]).c ≠ (dual (vs1.extract numV vs1.size)[0]).a := by
        intro hp
        have hm : (vs1.extract numV vs1.size)[0] ∈ (vs1.extract numV vs1.size).toList :=
          Array.getElem_mem_toList _
        rw [hdrop] at hm
        exact (hR _ (hperm.mem_iff.1 (List.mem_of_mem_drop hm))).2
      obtain ⟨hp2, hG, _⟩ := computeBoundary_greedy hnd hcov hRin hdist hcb
      rw [hdrop] at hp2
      set R' := (vs2.toList.map dual).reverse with hR'
      have hR'perm : R'.Perm ((vs.toList.filter fun v => removed v).map dual) :=
        (List.reverse_perm _).trans ((hp2.map dual).trans (hfR.map dual).symm)
      have hTall : (edgesOf (vs1.toList.map dual)).Nodup := nodup_edgesOf_perm (hperm.map dual).symm hT
      have hNR : (edgesOf ((vs.toList.filter fun v => removed v).map dual)).Nodup := by
        have hsub : ((vs.toList.filter fun v => removed v).map dual).Sublist (vs.toList.map dual) :=
          (List.filter_sublist).map dual
        unfold edgesOf at hT ⊢
        exact hT.sublist (hsub.flatMap _)
      have hNR' : (edgesOf R').Nodup := nodup_edgesOf_perm hR'perm.symm hNR
      exact ⟨R', hR'perm, (greedy_of_raw hG hNR' (hNC R' hR'perm)).1⟩

/-- **the executable model of `clip_by_plane` preserves the combinatorial invariants** -/
theorem model_clip_good {dual : V → Dual} {mk : Nat → Nat → Nat → V} {removed : V → Bool} {p : Nat} {cyc cyc' : Cycle}
    {vs out : Array V}
    (hmk : ∀ x y z, dual (mk x y z) = ⟨x, y, z⟩)
    (hnd : (Cycle.walk cyc.grow.len cyc.grow cyc.grow.start).Nodup)
    (hcov : ∀ x, cyc.grow.get x ≠ x → x ∈ Cycle.walk cyc.grow.len cyc.grow cyc.grow.start)
    (hRange : ∀ v ∈ vs.toList, InRange cyc.grow.ptrs.size (dual v))
    (hg : SGood (vs.toList.map dual))
    (hNC : ∀ R : List Dual, R.Perm ((vs.toList.filter fun v => removed v).map dual) → NoClosedPart R)
    (hp : ∀ d ∈ vs.toList.map dual, ¬ HasPlane d p)
    (h : Clip.clip dual mk removed p cyc vs = .clipped cyc' out) :
    SGood (out.toList.map dual) := by
  have hR : ∀ v ∈ vs.toList, InRange cyc.grow.ptrs.size (dual v) ∧ Distinct (dual v) :=
    fun v hv => ⟨hRange v hv, hg.2.2.1 (dual v) (List.mem_map.mpr ⟨v, hv, rfl⟩)⟩
  have hspec := clip_spec hmk hnd hcov hR hg.1.1 hNC h
  obtain ⟨R', hR'perm, hG⟩ := clip_greedy (mk := mk) hnd hcov hR hg.1.1 hNC h
  set T := vs.toList.map dual with hT
  set R := (vs.toList.filter fun v => removed v).map dual with hRdef
  have hRsub : R ⊆ T := by
    intro d hd
    obtain ⟨v, hv, rfl⟩ := List.mem_map.mp hd
    exact List.mem_map.mpr ⟨v, (List.mem_filter.mp hv).1, rfl⟩
  have hRn : R.Nodup := (hg.2.1.sublist ((List.filter_sublist).map dual))
  have hstep : CStep T (clipDuals T R' p) :=
    ⟨R', cyc'.get, p, fun d hd => hRsub (hR'perm.mem_iff.1 hd), hR'perm.nodup_iff.2 hRn, hG, hp, rfl⟩
  exact sgood_perm ((hspec.trans (clipDuals_perm p hR'perm.symm)).symm) (cstep_good hg hstep)

#print axioms MVoro.ModelReach.model_clip_good
end MVoro.ModelReach
