/-
T18.1, the bookkeeping half: `SimpleCycle` keeps `start` and `len` next to the successor array, and `clip_by_plane` reads the
boundary as `iter().take(len + 1)`.  `CycleBoundary` proves that the successor array holds exactly the boundary edges; this
file proves that `start`/`len` describe that cycle: walking `len` steps from `start` visits every entry on the cycle exactly
once (`WInv` ⇒ `walk_spec`), that `init` establishes and every successful `try_extend` preserves `WInv`, and hence that the
`(cur, next)` pairs the code turns into new vertices are the boundary edges, each once.
-/
import MVoro.Proofs.CycleBoundary
import Mathlib.Dynamics.PeriodicPts.Defs
import Mathlib.Data.Finset.Card
import Mathlib.Combinatorics.Pigeonhole

namespace MVoro.CycleWalk
open MVoro MVoro.CycleBoundary Function

/-- `start` and `len` describe the cycle stored in the successor function `f` -/
structure WInv (f : Nat → Nat) (start len : Nat) : Prop where
  inj : Injective f
  conn : Conn f
  onc : f start ≠ start
  card : ∃ S : Finset Nat, (∀ x, x ∈ S ↔ f x ≠ x) ∧ S.card = len

/-- the walk the iterator performs: `start, f start, f (f start), …` (`n` entries) -/
def orbit (f : Nat → Nat) (start n : Nat) : List Nat := (List.range n).map fun k => f^[k] start

theorem walk_eq_orbit (n : Nat) (c : Cycle) (s : Nat) : Cycle.walk n c s = orbit c.get s n := by
  induction n generalizing s with
  | zero => rfl
  | succ n ih =>
    simp only [Cycle.walk, orbit, List.range_succ_eq_map, List.map_cons, List.map_map, iterate_zero, id]
    rw [ih]; simp [orbit, Function.comp_def, iterate_succ_apply]

/-- **`len` steps from `start` visit every entry of the cycle exactly once** -/
theorem walk_spec {f : Nat → Nat} {start len : Nat} (h : WInv f start len) :
    (orbit f start len).Nodup ∧ ∀ x, f x ≠ x ↔ x ∈ orbit f start len := by
  obtain ⟨hinj, hconn, honc, S, hS, hcard⟩ := h
  have hmem : ∀ k, f^[k] start ∈ S := fun k => (hS _).2 (supp_iterate hinj honc k)
  -- `start` is a periodic point (pigeonhole on the finite support)
  have hper : start ∈ periodicPts f := by
    have hlt : S.card < (Finset.range (S.card + 1)).card := by simp
    obtain ⟨i, _, j, _, hij, he⟩ := Finset.exists_ne_map_eq_of_card_lt_of_maps_to hlt
      (fun k _ => hmem k : ∀ k ∈ Finset.range (S.card + 1), f^[k] start ∈ S)
    rcases Nat.lt_or_gt_of_ne hij with hlt' | hlt'
    · refine mk_mem_periodicPts (Nat.sub_pos_of_lt hlt') ?_
      have : f^[i] (f^[j - i] start) = f^[i] start := by
        rw [← iterate_add_apply, Nat.add_sub_cancel' hlt'.le]; exact he.symm
      exact (hinj.iterate i) this
    · refine mk_mem_periodicPts (Nat.sub_pos_of_lt hlt') ?_
      have : f^[j] (f^[i - j] start) = f^[j] start := by
        rw [← iterate_add_apply, Nat.add_sub_cancel' hlt'.le]; exact he
      exact (hinj.iterate j) this
  set m := minimalPeriod f start with hm
  have hmpos : 0 < m := minimalPeriod_pos_of_mem_periodicPts hper
  -- the first `m` iterates are pairwise different and exhaust the support
  have hinjOn : Set.InjOn (fun k => f^[k] start) (Set.Iio m) := iterate_injOn_Iio_minimalPeriod
  have himg : (Finset.range m).image (fun k => f^[k] start) = S := by
    apply Finset.Subset.antisymm
    · intro y hy
      obtain ⟨k, _, rfl⟩ := Finset.mem_image.mp hy
      exact hmem k
    · intro y hy
      obtain ⟨k, hk⟩ := hconn start y honc ((hS y).1 hy)
      refine Finset.mem_image.mpr ⟨k % m, Finset.mem_range.mpr (Nat.mod_lt _ hmpos), ?_⟩
      rw [← hk]; exact iterate_mod_minimalPeriod_eq
  have hml : m = len := by
    rw [← hcard, ← himg, Finset.card_image_of_injOn]
    · simp
    · intro a ha b hb hab
      exact hinjOn (by simpa using ha) (by simpa using hb) hab
  subst hml
  constructor
  · unfold orbit
    refine List.Nodup.map_on ?_ List.nodup_range
    intro a ha b hb hab
    exact hinjOn (List.mem_range.mp ha) (List.mem_range.mp hb) hab
  · intro x
    rw [← hS x, ← himg]
    simp [orbit, Finset.mem_image, List.mem_map]

/-! ### `init` establishes the invariant, the two cases of `try_extend` preserve it -/

theorem winv_tri {a b c : Nat} (hab : a ≠ b) (hbc : b ≠ c) (hca : c ≠ a) : WInv (triSucc a b c) a 3 := by
  have ha : triSucc a b c a = b := by simp only [triSucc, upd, id]; grind
  have hb : triSucc a b c b = c := by simp only [triSucc, upd, id]; grind
  have hc : triSucc a b c c = a := by simp only [triSucc, upd, id]; grind
  have hx : ∀ x, x ≠ a → x ≠ b → x ≠ c → triSucc a b c x = x := by
    intro x; simp only [triSucc, upd, id]; grind
  refine ⟨(init_inv (t := ⟨a, b, c⟩) hab hbc hca).2, conn_tri hab hbc hca, by rw [ha]; exact hab.symm, {a, b, c}, ?_, ?_⟩
  · intro x
    simp only [Finset.mem_insert, Finset.mem_singleton]
    constructor
    · rintro (rfl | rfl | rfl)
      · rw [ha]; exact hab.symm
      · rw [hb]; exact hbc.symm
      · rw [hc]; exact hca.symm
    · intro hne
      by_contra hcon
      push Not at hcon
      exact hne (hx x hcon.1 hcon.2.1 hcon.2.2)
  · rw [Finset.card_insert_of_notMem (by simp [hab, hca.symm]), Finset.card_insert_of_notMem (by simp [hbc]), Finset.card_singleton]

theorem winv_ins {f : Nat → Nat} {start len ti tj tk : Nat} (h : WInv f start len) (hc : Cond1 f ti tj tk) :
    WInv (ins f ti tj tk) start (len + 1) := by
  obtain ⟨hinj, hconn, honc, S, hS, hcard⟩ := h
  have hc' := hc
  obtain ⟨h1, h2, h3, h4⟩ := hc
  have s_ti : ins f ti tj tk ti = tj := by simp [ins, upd]
  have s_tk : ins f ti tj tk tk = ti := by simp only [ins, upd]; grind
  have s_else : ∀ z, z ≠ ti → z ≠ tk → ins f ti tj tk z = f z := by intro z; simp only [ins, upd]; grind
  have hik : ti ≠ tk := by grind
  have hij : ti ≠ tj := by grind
  refine ⟨inj_ins hinj hc', conn_ins hinj hconn hc', ?_, insert ti S, ?_, ?_⟩
  · by_cases e : start = tk
    · subst e; rw [s_tk]; exact hik
    · have : start ≠ ti := by grind
      rw [s_else start this e]; exact honc
  · intro x
    simp only [Finset.mem_insert, hS]
    by_cases e1 : x = ti
    · subst e1; simp [s_ti, hij.symm]
    · by_cases e2 : x = tk
      · subst e2; simp [s_tk, e1, h3, hik]
      · rw [s_else x e1 e2]; simp [e1]
  · rw [Finset.card_insert_of_notMem (by rw [hS]; simpa using h1), hcard]

theorem winv_del {f : Nat → Nat} {start len ti tj tk : Nat} (h : WInv f start len) (hc : Cond2 f ti tj tk) (hik : ti ≠ tk) :
    WInv (del f ti tj tk) (if start = tj then ti else start) (len - 1) := by
  obtain ⟨hinj, hconn, honc, S, hS, hcard⟩ := h
  have hc' := hc
  obtain ⟨h1, h2, h3, h4, h5⟩ := hc
  have hjk : tj ≠ tk := by grind
  have hij : ti ≠ tj := by grind
  have s_tj : del f ti tj tk tj = tj := by simp [del, upd]
  have s_tk : del f ti tj tk tk = ti := by simp only [del, upd]; grind
  have s_else : ∀ z, z ≠ tj → z ≠ tk → del f ti tj tk z = f z := by intro z; simp only [del, upd]; grind
  refine ⟨inj_del hinj hc', conn_del hinj hconn hc', ?_, S.erase tj, ?_, ?_⟩
  · split
    · rw [s_else ti hij hik]; exact h1
    · next hne =>
      by_cases e : start = tk
      · rw [e, s_tk]; exact hik
      · rw [s_else start hne e]; exact honc
  · intro x
    simp only [Finset.mem_erase, hS]
    by_cases e1 : x = tj
    · subst e1; simp [s_tj]
    · by_cases e2 : x = tk
      · subst e2; simp [s_tk, e1, h3, hik]
      · rw [s_else x e1 e2]; simp [e1]
  · rw [Finset.card_erase_of_mem (by rw [hS]; exact h2), hcard]

/-! ### the array model -/

/-- the representation invariant of `SimpleCycle` once a cycle is stored: `start` and `len` describe the successor array -/
def CW (c : Cycle) : Prop := WInv c.get c.start c.len

theorem start_ite (X : Cycle) (tj ti : Nat) :
    (if (X.start == tj) = true then { X with start := ti } else X).start = if X.start = tj then ti else X.start := by
  by_cases e : X.start = tj <;> simp [e]

theorem len_ite (X : Cycle) (tj ti : Nat) :
    (if (X.start == tj) = true then { X with start := ti } else X).len = X.len := by
  split <;> rfl

theorem tryRot_cw {c c' : Cycle} {ti tj tk : Nat} (hi : ti < c.ptrs.size) (hj : tj < c.ptrs.size) (hk : tk < c.ptrs.size)
    (hik : ti ≠ tk) (hc : CW c) (h : c.tryRot ti tj tk = some c') : CW c' := by
  have href := tryRot_refines c hi hj hk
  rw [h] at href
  simp only [Option.map_some] at href
  unfold Cycle.tryRot Cycle.contains at h
  simp only [] at h
  unfold aTryRot at href
  split at h
  next hcond =>
    simp only [Bool.and_eq_true, Bool.not_eq_true', bne_iff_ne, ne_eq, beq_iff_eq, bne_eq_false_iff_eq] at hcond
    have hc1 : Cond1 c.get ti tj tk := ⟨hcond.1.1.1, hcond.1.1.2, hcond.1.2, hcond.2⟩
    rw [if_pos hc1] at href
    have hg : c'.get = ins c.get ti tj tk := Option.some.inj href
    cases h
    have := winv_ins hc hc1
    unfold CW
    rw [hg]
    exact this
  next hcond =>
    split at h
    next hcond2 =>
      simp only [Bool.and_eq_true, Bool.not_eq_true', bne_iff_ne, ne_eq, beq_iff_eq, bne_eq_false_iff_eq] at hcond hcond2
      have hc2 : Cond2 c.get ti tj tk := ⟨hcond2.1.1.1.1, hcond2.1.1.1.2, hcond2.1.1.2, hcond2.1.2, hcond2.2⟩
      have hn : ¬ Cond1 c.get ti tj tk := fun hc1 => hc2.1 hc1.1
      rw [if_neg hn, if_pos hc2] at href
      have hg : c'.get = del c.get ti tj tk := Option.some.inj href
      have hw := winv_del hc hc2 hik
      cases h
      unfold CW
      rw [hg]
      simp only []
      have hs := start_ite ((c.set tk ti).set tj tj) tj ti
      have hl := len_ite ((c.set tk ti).set tj tj) tj ti
      have e1 : ((c.set tk ti).set tj tj).start = c.start := rfl
      have e2 : ((c.set tk ti).set tj tj).len = c.len := rfl
      rw [hs, hl, e1, e2]
      exact hw
    next => cases h

theorem tryExtend_cw {c c' : Cycle} {a b d : Nat} (ha : a < c.ptrs.size) (hb : b < c.ptrs.size) (hd : d < c.ptrs.size)
    (hab : a ≠ b) (hbd : b ≠ d) (hda : d ≠ a) (hc : CW c) (h : c.tryExtend a b d = some c') : CW c' := by
  unfold Cycle.tryExtend at h
  split at h
  next r h1 => cases h; exact tryRot_cw ha hb hd hda.symm hc h1
  next =>
    split at h
    next r h2 => cases h; exact tryRot_cw hb hd ha hab.symm hc h2
    next => exact tryRot_cw hd ha hb hbd.symm hc h

theorem init_cw {c : Cycle} {a b d : Nat} (hnd : (Cycle.walk c.len c c.start).Nodup)
    (hcov : ∀ x, c.get x ≠ x → x ∈ Cycle.walk c.len c c.start)
    (ha : a < c.ptrs.size) (hb : b < c.ptrs.size) (hd : d < c.ptrs.size)
    (hab : a ≠ b) (hbd : b ≠ d) (hda : d ≠ a) : CW (c.init a b d) := by
  obtain ⟨g1, g2, g3, _⟩ := init_get hnd hcov ha hb hd
  unfold CW
  rw [g1, g2, g3]
  exact winv_tri hab hbd hda

/-- a cycle state satisfying `CW` satisfies the reset invariant `init` needs -/
theorem cw_reset {c : Cycle} (h : CW c) :
    (Cycle.walk c.len c c.start).Nodup ∧ ∀ x, c.get x ≠ x ↔ x ∈ Cycle.walk c.len c c.start := by
  rw [walk_eq_orbit]
  exact walk_spec h

/-- all three indices of a dual triple are different -/
def Distinct (d : Dual) : Prop := d.a ≠ d.b ∧ d.b ≠ d.c ∧ d.c ≠ d.a

section Model
variable {V : Type}

theorem boundaryLoop_cw {dual : V → Dual} {N : Nat} :
    ∀ (fuel i : Nat) (c : Cycle) (vs : Array V) (c' : Cycle) (vs' : Array V),
      Clip.boundaryLoop dual fuel i c vs = some (c', vs') →
      c.ptrs.size = N → (∀ v ∈ vs.toList, InRange N (dual v) ∧ Distinct (dual v)) → CW c → CW c' := by
  intro fuel
  induction fuel with
  | zero => intro i c vs c' vs' h _ _ hc; simp only [Clip.boundaryLoop] at h; cases h; exact hc
  | succ fuel ih =>
    intro i c vs c' vs' h hN hR hc
    unfold Clip.boundaryLoop at h
    split at h
    next hlt =>
      split at h
      next => cases h
      next idx c1 hfind =>
        obtain ⟨_, hidx, hext⟩ := findExt_spec _ _ _ _ hfind
        obtain ⟨hr, hdi⟩ := hR vs[idx] (by simp)
        have hc1 : CW c1 := tryExtend_cw (hN ▸ hr.1) (hN ▸ hr.2.1) (hN ▸ hr.2.2) hdi.1 hdi.2.1 hdi.2.2 hc hext
        obtain ⟨_, hsz, _⟩ := tryExtend_get (hN ▸ hr.1) (hN ▸ hr.2.1) (hN ▸ hr.2.2) hext
        have hperm := swap_perm' (vs := vs) hlt hidx
        exact ih (i + 1) c1 _ c' vs' h (hsz.trans hN) (fun v hv => hR v (hperm.mem_iff.1 hv)) hc1
    next => cases h; exact hc

/-- **after a successful `compute_boundary`, `start` and `len` describe the stored cycle** -/
theorem computeBoundary_cw {dual : V → Dual} {c c' : Cycle} {vs vs' : Array V}
    (hnd : (Cycle.walk c.len c c.start).Nodup)
    (hcov : ∀ x, c.get x ≠ x → x ∈ Cycle.walk c.len c c.start)
    (hR : ∀ v ∈ vs.toList, InRange c.ptrs.size (dual v) ∧ Distinct (dual v))
    (h : Clip.computeBoundary dual c vs = some (c', vs')) : CW c' := by
  unfold Clip.computeBoundary at h
  split at h
  next hpos =>
    simp only [] at h
    obtain ⟨hr, hdi⟩ := hR vs[0] (by simp)
    obtain ⟨_, _, _, g4⟩ := init_get hnd hcov hr.1 hr.2.1 hr.2.2
    exact boundaryLoop_cw _ _ _ _ _ _ h g4 hR (init_cw hnd hcov hr.1 hr.2.1 hr.2.2 hdi.1 hdi.2.1 hdi.2.2)
  next => cases h

/-- **T18.3, end to end for the executable model**: after a successful `compute_boundary` on the removed vertices, the
`(cur, next)` pairs that `clip_by_plane` reads from `iter().take(len + 1)` are exactly the boundary edges of the removed
region, each once — the new vertices `(cur, next, p)` are one per boundary edge. -/
theorem computeBoundary_pairs {dual : V → Dual} {c c' : Cycle} {vs vs' : Array V}
    (hnd : (Cycle.walk c.len c c.start).Nodup)
    (hcov : ∀ x, c.get x ≠ x → x ∈ Cycle.walk c.len c c.start)
    (hR : ∀ v ∈ vs.toList, InRange c.ptrs.size (dual v) ∧ Distinct (dual v))
    (hN : (edgesOf (vs.toList.map dual)).Nodup) (hNC : NoClosedPart (vs.toList.map dual))
    (h : Clip.computeBoundary dual c vs = some (c', vs')) :
    (Clip.pairs c'.closedWalk).Perm (bdry (vs.toList.map dual)) := by
  have hcw := computeBoundary_cw hnd hcov hR h
  obtain ⟨w1, w2⟩ := cw_reset hcw
  have hdist : ∀ hp : 0 < vs.size, (dual vs[0]).a ≠ (dual vs[0]).b ∧ (dual vs[0]).b ≠ (dual vs[0]).c ∧ (dual vs[0]).c ≠ (dual vs[0]).a :=
    fun hp => (hR vs[0] (by simp)).2
  obtain ⟨hI, _⟩ := computeBoundary_bdry hnd hcov (fun v hv => (hR v hv).1) hdist hN hNC h
  exact pairs_closedWalk_perm w1 w2 hI.1 hN

/-- the next `compute_boundary` may start from this state: the reset walk of `init` will clear exactly the stored cycle -/
theorem computeBoundary_reset {dual : V → Dual} {c c' : Cycle} {vs vs' : Array V}
    (hnd : (Cycle.walk c.len c c.start).Nodup)
    (hcov : ∀ x, c.get x ≠ x → x ∈ Cycle.walk c.len c c.start)
    (hR : ∀ v ∈ vs.toList, InRange c.ptrs.size (dual v) ∧ Distinct (dual v))
    (h : Clip.computeBoundary dual c vs = some (c', vs')) :
    (Cycle.walk c'.len c' c'.start).Nodup ∧ ∀ x, c'.get x ≠ x → x ∈ Cycle.walk c'.len c' c'.start := by
  obtain ⟨w1, w2⟩ := cw_reset (computeBoundary_cw hnd hcov hR h)
  exact ⟨w1, fun x hx => (w2 x).1 hx⟩

end Model

#print axioms MVoro.CycleWalk.computeBoundary_pairs
end MVoro.CycleWalk
