/-
C15 (T15.3): **Euler's relation `V − E + F = 2` is an invariant of clipping.**

In the dual description a cell is a closed triple surface `T`: `V = |T|` vertices (triples), `F =` number of planes that occur
in `T`, and `E = 3V/2` (three edges per vertex, each shared by two), so `V − E + F = 2 ⇔ V + 4 = 2F`.

* `disc_relation`   every removed region `R` whose boundary the greedy reconstruction succeeds on satisfies the Euler relation of
                    a disc, `2m + b = k + 2` (`k = |R|` triangles, `b` boundary vertices, `m` interior vertices) — by induction
                    over the greedy run: inserting a triangle adds one boundary vertex, closing a corner turns one boundary vertex
                    into an interior one;
* `euler_preserved` hence `V + 4 = 2F` for `T` implies it for the clipped surface `clipDuals T R p`,
provided no plane of `T` is pinched (`LinkConn`: the triples at a plane form one umbrella — the hypothesis of
`Euler.interior_gone`; it holds for the start box by `decide` and is asserted per cell by the check; its preservation under clips
is not proved here).
-/
import MVoro.Proofs.Euler
import Mathlib.Data.Finset.Card
import Mathlib.Data.List.Perm.Basic
import Mathlib.Data.Multiset.Basic

namespace MVoro.EulerClip
open MVoro MVoro.CycleBoundary MVoro.Euler

/-- the planes (dual vertices) that occur in a list of triples -/
def planesOf (R : List Dual) : Finset Nat := (R.flatMap fun d => [d.a, d.b, d.c]).toFinset

theorem mem_planesOf {R : List Dual} {j : Nat} : j ∈ planesOf R ↔ ∃ d ∈ R, HasPlane d j := by
  simp only [planesOf, List.mem_toFinset, List.mem_flatMap, List.mem_cons, List.mem_nil_iff, or_false, HasPlane]

theorem planesOf_cons (t : Dual) (D : List Dual) : planesOf (t :: D) = insert t.a (insert t.b (insert t.c (planesOf D))) := by
  ext j; simp only [mem_planesOf, List.mem_cons, Finset.mem_insert, HasPlane]
  constructor
  · rintro ⟨d, rfl | hd, h⟩
    · tauto
    · exact Or.inr (Or.inr (Or.inr ⟨d, hd, h⟩))
  · rintro (h | h | h | ⟨d, hd, h⟩)
    · exact ⟨t, Or.inl rfl, Or.inl h⟩
    · exact ⟨t, Or.inl rfl, Or.inr (Or.inl h)⟩
    · exact ⟨t, Or.inl rfl, Or.inr (Or.inr h)⟩
    · exact ⟨d, Or.inr hd, h⟩

/-- the Euler relation of a disc, in the bookkeeping of the greedy run: `S` = the vertices on the boundary cycle -/
def DiscRel (D : List Dual) (succ : Nat → Nat) : Prop :=
  ∃ S : Finset Nat, (∀ x, x ∈ S ↔ succ x ≠ x) ∧ S ⊆ planesOf D ∧ S.Nonempty ∧
    2 * ((planesOf D).card - S.card) + S.card = D.length + 2

theorem hasPlane_isRot {t' t : Dual} (h : IsRot t' t) (j : Nat) : HasPlane t' j ↔ HasPlane t j := by
  rcases h with rfl | rfl | rfl <;> simp only [HasPlane, Dual.rot] <;> tauto

/-- **the removed region of a successful greedy run is a disc** (Euler relation `2m + b = k + 2`) -/
theorem disc_relation {T : List Dual} (hT : (edgesOf T).Nodup) (hlink : ∀ j, LinkConn T j)
    (hdist : ∀ d ∈ T, d.a ≠ d.b ∧ d.b ≠ d.c ∧ d.c ≠ d.a) :
    ∀ {R : List Dual} {succ : Nat → Nat}, Greedy R succ → R ⊆ T → R.Nodup → DiscRel R succ := by
  intro R succ h
  induction h with
  | @init t t' hr hab hbc hca =>
    intro _ _
    rw [triSucc_isRot hr hab hbc hca]
    refine ⟨{t.a, t.b, t.c}, ?_, ?_, ⟨t.a, by simp⟩, ?_⟩
    · intro x
      have ha : triSucc t.a t.b t.c t.a = t.b := by simp only [triSucc, upd, id]; grind
      have hb : triSucc t.a t.b t.c t.b = t.c := by simp only [triSucc, upd, id]; grind
      have hc : triSucc t.a t.b t.c t.c = t.a := by simp only [triSucc, upd, id]; grind
      have hx : ∀ x, x ≠ t.a → x ≠ t.b → x ≠ t.c → triSucc t.a t.b t.c x = x := by
        intro x; simp only [triSucc, upd, id]; grind
      simp only [Finset.mem_insert, Finset.mem_singleton]
      constructor
      · rintro (rfl | rfl | rfl)
        · rw [ha]; exact hab.symm
        · rw [hb]; exact hbc.symm
        · rw [hc]; exact hca.symm
      · intro hne; by_contra hcon; push Not at hcon
        exact hne (hx x hcon.1 hcon.2.1 hcon.2.2)
    · rw [planesOf_cons]; intro x hx
      simp only [Finset.mem_insert, Finset.mem_singleton] at hx
      simp only [Finset.mem_insert]; tauto
    · have e1 : planesOf [t] = {t.a, t.b, t.c} := by
        rw [planesOf_cons]; ext x; simp [planesOf]
      have e2 : ({t.a, t.b, t.c} : Finset Nat).card = 3 := by
        rw [Finset.card_insert_of_notMem (by simp [hab, hca.symm]), Finset.card_insert_of_notMem (by simp [hbc]),
          Finset.card_singleton]
      rw [e1, e2]; rfl
  | @step D succ succ' t t' hD hr hopen hstep ih =>
    intro hsub hnd
    have hDsub : D ⊆ T := fun x hx => hsub (List.mem_cons_of_mem _ hx)
    have hDnd : D.Nodup := (List.nodup_cons.mp hnd).2
    have htD : t ∉ D := (List.nodup_cons.mp hnd).1
    have htT : t ∈ T := hsub List.mem_cons_self
    obtain ⟨S, hS, hSsub, _, hrel⟩ := ih hDsub hDnd
    have hI : Inv succ D := greedy_inv hD (nodup_edgesOf_of_subset hT hDnd hDsub)
    have hp3 : ∀ j, HasPlane t' j → j ∈ planesOf (t :: D) :=
      fun j hj => mem_planesOf.mpr ⟨t, List.mem_cons_self, (hasPlane_isRot hr j).1 hj⟩
    have hpl : planesOf (t :: D) = insert t'.a (insert t'.b (insert t'.c (planesOf D))) := by
      ext j
      simp only [mem_planesOf, List.mem_cons, Finset.mem_insert]
      constructor
      · rintro ⟨d, rfl | hd, h⟩
        · have := (hasPlane_isRot hr j).2 h
          unfold HasPlane at this; tauto
        · exact Or.inr (Or.inr (Or.inr ⟨d, hd, h⟩))
      · rintro (h | h | h | ⟨d, hd, h⟩)
        · exact ⟨t, Or.inl rfl, (hasPlane_isRot hr j).1 (Or.inl h)⟩
        · exact ⟨t, Or.inl rfl, (hasPlane_isRot hr j).1 (Or.inr (Or.inl h))⟩
        · exact ⟨t, Or.inl rfl, (hasPlane_isRot hr j).1 (Or.inr (Or.inr h))⟩
        · exact ⟨d, Or.inr hd, h⟩
    unfold aTryRot at hstep
    split at hstep
    next hc =>
      -- insert `t'.a` between `t'.c` and `t'.b`: one more boundary vertex, and it is a NEW plane
      cases hstep
      obtain ⟨h1, h2, h3, h4⟩ := hc
      have hjS : t'.b ∈ S := (hS _).2 h2
      have hkS : t'.c ∈ S := (hS _).2 h3
      have hiS : t'.a ∉ S := fun h => (hS _).1 h h1
      have hfresh : t'.a ∉ planesOf D := by
        intro hmem
        obtain ⟨r0, hr0, hr0j⟩ := mem_planesOf.mp hmem
        have := interior_gone hT hDsub hI.1 h1 (hlink t'.a) hr0 hr0j t htT ((hasPlane_isRot hr _).1 (Or.inl rfl))
        exact htD this
      refine ⟨insert t'.a S, ?_, ?_, ⟨t'.a, Finset.mem_insert_self _ _⟩, ?_⟩
      · intro x
        have s_ti : ins succ t'.a t'.b t'.c t'.a = t'.b := by simp [ins, upd]
        have s_tk : ins succ t'.a t'.b t'.c t'.c = t'.a := by simp only [ins, upd]; grind
        have s_else : ∀ z, z ≠ t'.a → z ≠ t'.c → ins succ t'.a t'.b t'.c z = succ z := by
          intro z; simp only [ins, upd]; grind
        simp only [Finset.mem_insert, hS]
        by_cases e1 : x = t'.a
        · subst e1; simp only [true_or, true_iff, s_ti]; grind
        · by_cases e2 : x = t'.c
          · subst e2; simp only [s_tk]; grind
          · rw [s_else x e1 e2]; simp [e1]
      · rw [hpl]; intro x hx
        rcases Finset.mem_insert.mp hx with rfl | hx
        · exact Finset.mem_insert_self _ _
        · exact Finset.mem_insert_of_mem (Finset.mem_insert_of_mem (Finset.mem_insert_of_mem (hSsub hx)))
      · have hb : t'.b ∈ planesOf D := hSsub hjS
        have hc' : t'.c ∈ planesOf D := hSsub hkS
        have e1 : planesOf (t :: D) = insert t'.a (planesOf D) := by
          rw [hpl, Finset.insert_eq_of_mem hc', Finset.insert_eq_of_mem hb]
        rw [e1, Finset.card_insert_of_notMem hfresh, Finset.card_insert_of_notMem hiS, List.length_cons]
        have := Finset.card_le_card hSsub
        omega
    next hc1 =>
      split at hstep
      next hc =>
        -- close the corner at `t'.b`: it leaves the boundary and becomes interior; no new plane
        cases hstep
        obtain ⟨h1, h2, h3, h4, h5⟩ := hc
        have hiS : t'.a ∈ S := (hS _).2 h1
        have hjS : t'.b ∈ S := (hS _).2 h2
        have hkS : t'.c ∈ S := (hS _).2 h3
        have hik : t'.a ≠ t'.c := by
          obtain ⟨d1, d2, d3⟩ := hdist t htT
          rcases hr with rfl | rfl | rfl
          · exact d3.symm
          · exact d1.symm
          · exact d2.symm
        refine ⟨S.erase t'.b, ?_, ?_, ⟨t'.c, Finset.mem_erase.mpr ⟨by grind, hkS⟩⟩, ?_⟩
        · intro x
          have hjk : t'.b ≠ t'.c := by grind
          have hij : t'.a ≠ t'.b := by grind
          have s_tj : del succ t'.a t'.b t'.c t'.b = t'.b := by simp [del, upd]
          have s_tk : del succ t'.a t'.b t'.c t'.c = t'.a := by simp only [del, upd]; grind
          have s_else : ∀ z, z ≠ t'.b → z ≠ t'.c → del succ t'.a t'.b t'.c z = succ z := by
            intro z; simp only [del, upd]; grind
          simp only [Finset.mem_erase, hS]
          by_cases e1 : x = t'.b
          · subst e1; simp [s_tj]
          · by_cases e2 : x = t'.c
            · subst e2; simp only [s_tk]; grind
            · rw [s_else x e1 e2]; simp [e1]
        · rw [hpl]; intro x hx
          exact Finset.mem_insert_of_mem (Finset.mem_insert_of_mem (Finset.mem_insert_of_mem (hSsub (Finset.mem_of_mem_erase hx))))
        · have e1 : planesOf (t :: D) = planesOf D := by
            rw [hpl, Finset.insert_eq_of_mem (hSsub hkS), Finset.insert_eq_of_mem (hSsub hjS), Finset.insert_eq_of_mem (hSsub hiS)]
          rw [e1, Finset.card_erase_of_mem hjS, List.length_cons]
          have := Finset.card_le_card hSsub
          have : 0 < S.card := Finset.card_pos.mpr ⟨_, hjS⟩
          omega
      next => cases hstep

/-- **`V + 4 = 2F` (Euler's relation for a simple polytope) is preserved by a clip** -/
theorem euler_preserved {T R : List Dual} {succ : Nat → Nat} {p : Nat}
    (hT : Closed T) (hTn : T.Nodup) (hlink : ∀ j, LinkConn T j) (hdist : ∀ d ∈ T, d.a ≠ d.b ∧ d.b ≠ d.c ∧ d.c ≠ d.a)
    (hR : R ⊆ T) (hRn : R.Nodup) (hG : Greedy R succ) (hp : ∀ d ∈ T, ¬ HasPlane d p)
    (hE : T.length + 4 = 2 * (planesOf T).card) :
    (clipDuals T R p).length + 4 = 2 * (planesOf (clipDuals T R p)).card := by
  obtain ⟨S, hS, hSsub, hSne, hrel⟩ := disc_relation hT.1 hlink hdist hG hR hRn
  have hNR : (edgesOf R).Nodup := nodup_edgesOf_of_subset hT.1 hRn hR
  have hI : Inv succ R := greedy_inv hG hNR
  obtain ⟨hout, _, _⟩ := bdry_cycles_of_inv hI
  -- (1) number of triples
  have hlenR : (T.filter fun d => decide (∀ r ∈ R, d ≠ r)).length + R.length = T.length := by
    have h1 := List.length_eq_length_filter_add (l := T) (fun d => decide (∀ r ∈ R, d ≠ r))
    have h2 : (T.filter fun d => !decide (∀ r ∈ R, d ≠ r)).Perm R := by
      rw [List.perm_ext_iff_of_nodup (hTn.filter _) hRn]
      intro d
      simp only [List.mem_filter, Bool.not_eq_true', decide_eq_false_iff_not, not_forall, not_not]
      constructor
      · rintro ⟨_, r, hr, rfl⟩; exact hr
      · intro hd; exact ⟨hR hd, d, hd, rfl⟩
    rw [h1, h2.length_eq]
  have hlenB : (bdry R).length = S.card := by
    have hnd : ((bdry R).map Prod.fst).Nodup := by
      refine List.Nodup.map_on ?_ (nodup_bdry hNR)
      rintro ⟨x, y⟩ hx ⟨x', y'⟩ hx' (h : x = x')
      subst h
      rw [hout x y y' hx hx']
    have hfin : ((bdry R).map Prod.fst).toFinset = S := by
      ext x
      simp only [List.mem_toFinset, List.mem_map, hS]
      constructor
      · rintro ⟨⟨a, b⟩, hab, rfl⟩
        have := (hI.1 a b).2 hab
        intro h; exact this.2 (by rw [← this.1]; exact h.symm)
      · intro hx
        exact ⟨(x, succ x), (hI.1 x (succ x)).1 ⟨rfl, fun h => hx h.symm⟩, rfl⟩
    rw [← hfin, List.toFinset_card_of_nodup hnd, List.length_map]
  have hV : (clipDuals T R p).length = T.length - R.length + S.card := by
    unfold clipDuals
    rw [List.length_append, List.length_map, hlenB]
    omega
  -- (2) planes
  have hRsubP : planesOf R ⊆ planesOf T := by
    intro j hj
    obtain ⟨d, hd, h⟩ := mem_planesOf.mp hj
    exact mem_planesOf.mpr ⟨d, hR hd, h⟩
  have hpT : p ∉ planesOf T := by
    intro h
    obtain ⟨d, hd, hdp⟩ := mem_planesOf.mp h
    exact hp d hd hdp
  have hplanes : planesOf (clipDuals T R p) = insert p (planesOf T \ (planesOf R \ S)) := by
    ext j
    simp only [Finset.mem_insert, Finset.mem_sdiff, not_and, not_not]
    by_cases hjp : j = p
    · subst hjp
      simp only [true_or, iff_true]
      obtain ⟨x, hx⟩ := hSne
      have hb : (x, succ x) ∈ bdry R := (hI.1 x (succ x)).1 ⟨rfl, fun h => ((hS x).1 hx) h.symm⟩
      exact mem_planesOf.mpr (new_plane_present hb)
    · simp only [hjp, false_or]
      by_cases hjT : j ∈ planesOf T
      · have hjT' := mem_planesOf.mp hjT
        have key := plane_survives_iff (p := p) hT.1 hR hI hlink hp hjT'
        rw [mem_planesOf, key]
        simp only [hjT, true_and, not_and]
        constructor
        · intro h hjR
          by_contra hns
          exact h (mem_planesOf.mp hjR) (by_contra fun hne => hns ((hS j).2 hne))
        · intro h hjR hsj
          exact ((hS j).1 (h (mem_planesOf.mpr hjR))) hsj
      · simp only [hjT, false_and, iff_false]
        intro hmem
        obtain ⟨d, hd, hdj⟩ := mem_planesOf.mp hmem
        unfold clipDuals at hd
        rcases List.mem_append.mp hd with hd | hd
        · exact hjT (mem_planesOf.mpr ⟨d, (List.mem_filter.mp hd).1, hdj⟩)
        · obtain ⟨⟨x, y⟩, hb, rfl⟩ := List.mem_map.mp hd
          obtain ⟨r, hr, hre⟩ := mem_edgesOf.mp (mem_bdry.mp hb).1
          rcases hdj with h | h | h <;> simp only [newTri] at h
          · exact hjT (hRsubP (mem_planesOf.mpr ⟨r, hr, h ▸ hasPlane_of_edge_left hre⟩))
          · exact hjT (hRsubP (mem_planesOf.mpr ⟨r, hr, h ▸ hasPlane_of_edge_right hre⟩))
          · exact hjp h
  have hF : (planesOf (clipDuals T R p)).card = (planesOf T).card - ((planesOf R).card - S.card) + 1 := by
    rw [hplanes, Finset.card_insert_of_notMem (by simp [hpT])]
    have hsub : planesOf R \ S ⊆ planesOf T := fun x hx => hRsubP (Finset.mem_sdiff.mp hx).1
    rw [Finset.card_sdiff_of_subset hsub, Finset.card_sdiff_of_subset hSsub]
  -- (3) arithmetic
  have hk : R.length ≤ T.length := by omega
  have hm : (planesOf R).card - S.card ≤ (planesOf T).card := le_trans (Nat.sub_le _ _) (Finset.card_le_card hRsubP)
  rw [hV, hF]
  exact euler_arith T.length (planesOf T).card R.length S.card ((planesOf R).card - S.card) hk hm hrel hE

#print axioms MVoro.EulerClip.euler_preserved
end MVoro.EulerClip
