/-
C15 (T15.3) composed: **every closed triple surface the algorithm can reach from the start box satisfies Euler's relation
`V + 4 = 2F` (⇔ `V − E + F = 2` with `E = 3V/2`) and has no pinched plane.**

`SGood` = closed surface, no repeated triple, three different planes per vertex, every plane's triples form one umbrella, Euler.
`CStep` = one clip whose boundary reconstruction succeeded.  `cstep_good`: `SGood` is preserved; `box8_good`: the eight triples of
`ConvexCell::init` satisfy it; `euler_reach`: hence everything reachable does.
-/
import MVoro.Proofs.LinkClip
import Mathlib.Tactic.IntervalCases

namespace MVoro.EulerReach
open MVoro MVoro.CycleBoundary MVoro.Euler MVoro.EulerClip MVoro.LinkClip Relation

def Distinct3 (d : Dual) : Prop := d.a ≠ d.b ∧ d.b ≠ d.c ∧ d.c ≠ d.a

def SGood (T : List Dual) : Prop :=
  Closed T ∧ T.Nodup ∧ (∀ d ∈ T, Distinct3 d) ∧ (∀ j, LinkConn T j) ∧ T.length + 4 = 2 * (planesOf T).card

/-- one successful clip, combinatorially: `R ⊆ T` removed, its boundary reconstructed (`Greedy`), `p` a fresh plane -/
def CStep (T T' : List Dual) : Prop :=
  ∃ (R : List Dual) (succ : Nat → Nat) (p : Nat), R ⊆ T ∧ R.Nodup ∧ Greedy R succ ∧ (∀ d ∈ T, ¬ HasPlane d p) ∧ T' = clipDuals T R p

/-- the boundary of a successful greedy run is a single cycle -/
theorem greedy_conn {T : List Dual} (hT : (edgesOf T).Nodup) :
    ∀ {R : List Dual} {succ : Nat → Nat}, Greedy R succ → R ⊆ T → R.Nodup → Conn succ := by
  intro R succ h
  induction h with
  | @init t t' hr hab hbc hca =>
    intro _ _
    rw [triSucc_isRot hr hab hbc hca]
    exact conn_tri hab hbc hca
  | @step D succ succ' t t' hD hr hopen hstep ih =>
    intro hsub hnd
    have hDsub : D ⊆ T := fun x hx => hsub (List.mem_cons_of_mem _ hx)
    have hDnd : D.Nodup := (List.nodup_cons.mp hnd).2
    have hI : Inv succ D := greedy_inv hD (nodup_edgesOf_of_subset hT hDnd hDsub)
    have hC := ih hDsub hDnd
    unfold aTryRot at hstep
    split at hstep
    next hc => cases hstep; exact conn_ins hI.2 hC hc
    next =>
      split at hstep
      next hc => cases hstep; exact conn_del hI.2 hC hc
      next => cases hstep

theorem nodup_clipDuals' {T R : List Dual} {p : Nat} (hT : T.Nodup) (hE : (edgesOf R).Nodup)
    (hp : ∀ d ∈ T, d.c ≠ p) : (clipDuals T R p).Nodup := by
  unfold clipDuals
  refine List.Nodup.append (hT.filter _) ?_ ?_
  · refine List.Nodup.map ?_ (hE.filter _)
    intro e e' h; simp only [newTri, Dual.mk.injEq] at h; exact Prod.ext h.1 h.2.1
  · intro d hd hd'
    obtain ⟨e, _, rfl⟩ := List.mem_map.mp hd'
    exact hp _ (List.mem_filter.mp hd).1 rfl

/-- **`SGood` is preserved by every successful clip** -/
theorem cstep_good {T T' : List Dual} (h : SGood T) (hs : CStep T T') : SGood T' := by
  obtain ⟨hC, hN, hD, hL, hE⟩ := h
  obtain ⟨R, succ, p, hR, hRn, hG, hp, rfl⟩ := hs
  have hNR : (edgesOf R).Nodup := nodup_edgesOf_of_subset hC.1 hRn hR
  have hI : Inv succ R := greedy_inv hG hNR
  have hp' : ∀ d ∈ T, d.a ≠ p ∧ d.b ≠ p ∧ d.c ≠ p := by
    intro d hd
    have := hp d hd
    unfold HasPlane at this
    push Not at this
    exact ⟨this.1.symm, this.2.1.symm, this.2.2.symm⟩
  refine ⟨greedy_closed hC hR hRn hp' hG, nodup_clipDuals' hN hNR (fun d hd => (hp' d hd).2.2), ?_,
    linkConn_preserved hC hR hI (greedy_conn hC.1 hG hR hRn) hL hp, euler_preserved hC hN hL hD hR hRn hG hp hE⟩
  intro d hd
  rcases mem_clip_iff.mp hd with ⟨hdT, _⟩ | ⟨⟨x, y⟩, he, rfl⟩
  · exact hD d hdT
  · have hxy := (hI.1 x y).2 he
    obtain ⟨r, hr, hre⟩ := mem_edgesOf.mp (mem_bdry.mp he).1
    have hx : x ≠ p := fun e => hp r (hR hr) (e ▸ hasPlane_of_edge_left hre)
    have hy : y ≠ p := fun e => hp r (hR hr) (e ▸ hasPlane_of_edge_right hre)
    exact ⟨hxy.2, hy, fun e => hx e.symm⟩

/-- the start box -/
abbrev box8 : List Dual := [⟨2, 5, 0⟩, ⟨5, 3, 0⟩, ⟨1, 5, 2⟩, ⟨5, 1, 3⟩, ⟨4, 2, 0⟩, ⟨4, 0, 3⟩, ⟨2, 4, 1⟩, ⟨4, 3, 1⟩]

instance (d : Dual) (j : Nat) : Decidable (HasPlane d j) := by unfold HasPlane; infer_instance
instance (d : Dual) : Decidable (Distinct3 d) := by unfold Distinct3; infer_instance

/-- four triples chained in a cycle are mutually reachable -/
theorem conn_cycle4 {T : List Dual} {j : Nat} {d0 d1 d2 d3 : Dual}
    (s0 : StepAt T j d0 d1) (s1 : StepAt T j d1 d2) (s2 : StepAt T j d2 d3) (s3 : StepAt T j d3 d0)
    (hall : ∀ d ∈ T, HasPlane d j → d = d0 ∨ d = d1 ∨ d = d2 ∨ d = d3) : LinkConn T j := by
  have r01 := ReflTransGen.single s0
  have r12 := ReflTransGen.single s1
  have r23 := ReflTransGen.single s2
  have r30 := ReflTransGen.single s3
  intro d hd d' hd' hdj hdj'
  rcases hall d hd hdj with rfl | rfl | rfl | rfl <;> rcases hall d' hd' hdj' with rfl | rfl | rfl | rfl
  · exact ReflTransGen.refl
  · exact r01
  · exact r01.trans r12
  · exact (r01.trans r12).trans r23
  · exact (r12.trans r23).trans r30
  · exact ReflTransGen.refl
  · exact r12
  · exact r12.trans r23
  · exact r23.trans r30
  · exact (r23.trans r30).trans r01
  · exact ReflTransGen.refl
  · exact r23
  · exact r30
  · exact r30.trans r01
  · exact (r30.trans r01).trans r12
  · exact ReflTransGen.refl

theorem box8_link_0 : LinkConn box8 0 := by
  refine conn_cycle4 (d0 := ⟨2, 5, 0⟩) (d1 := ⟨4, 2, 0⟩) (d2 := ⟨4, 0, 3⟩) (d3 := ⟨5, 3, 0⟩) ?_ ?_ ?_ ?_ ?_
  · exact ⟨by simp [box8], 2, by decide, by decide⟩
  · exact ⟨by simp [box8], 4, by decide, by decide⟩
  · exact ⟨by simp [box8], 3, by decide, by decide⟩
  · exact ⟨by simp [box8], 5, by decide, by decide⟩
  · decide

theorem box8_link_1 : LinkConn box8 1 := by
  refine conn_cycle4 (d0 := ⟨1, 5, 2⟩) (d1 := ⟨5, 1, 3⟩) (d2 := ⟨4, 3, 1⟩) (d3 := ⟨2, 4, 1⟩) ?_ ?_ ?_ ?_ ?_
  · exact ⟨by simp [box8], 5, by decide, by decide⟩
  · exact ⟨by simp [box8], 3, by decide, by decide⟩
  · exact ⟨by simp [box8], 4, by decide, by decide⟩
  · exact ⟨by simp [box8], 2, by decide, by decide⟩
  · decide

theorem box8_link_2 : LinkConn box8 2 := by
  refine conn_cycle4 (d0 := ⟨2, 5, 0⟩) (d1 := ⟨1, 5, 2⟩) (d2 := ⟨2, 4, 1⟩) (d3 := ⟨4, 2, 0⟩) ?_ ?_ ?_ ?_ ?_
  · exact ⟨by simp [box8], 5, by decide, by decide⟩
  · exact ⟨by simp [box8], 1, by decide, by decide⟩
  · exact ⟨by simp [box8], 4, by decide, by decide⟩
  · exact ⟨by simp [box8], 0, by decide, by decide⟩
  · decide

theorem box8_link_3 : LinkConn box8 3 := by
  refine conn_cycle4 (d0 := ⟨5, 3, 0⟩) (d1 := ⟨4, 0, 3⟩) (d2 := ⟨4, 3, 1⟩) (d3 := ⟨5, 1, 3⟩) ?_ ?_ ?_ ?_ ?_
  · exact ⟨by simp [box8], 0, by decide, by decide⟩
  · exact ⟨by simp [box8], 4, by decide, by decide⟩
  · exact ⟨by simp [box8], 1, by decide, by decide⟩
  · exact ⟨by simp [box8], 5, by decide, by decide⟩
  · decide

theorem box8_link_4 : LinkConn box8 4 := by
  refine conn_cycle4 (d0 := ⟨4, 2, 0⟩) (d1 := ⟨2, 4, 1⟩) (d2 := ⟨4, 3, 1⟩) (d3 := ⟨4, 0, 3⟩) ?_ ?_ ?_ ?_ ?_
  · exact ⟨by simp [box8], 2, by decide, by decide⟩
  · exact ⟨by simp [box8], 1, by decide, by decide⟩
  · exact ⟨by simp [box8], 3, by decide, by decide⟩
  · exact ⟨by simp [box8], 0, by decide, by decide⟩
  · decide

theorem box8_link_5 : LinkConn box8 5 := by
  refine conn_cycle4 (d0 := ⟨2, 5, 0⟩) (d1 := ⟨5, 3, 0⟩) (d2 := ⟨5, 1, 3⟩) (d3 := ⟨1, 5, 2⟩) ?_ ?_ ?_ ?_ ?_
  · exact ⟨by simp [box8], 0, by decide, by decide⟩
  · exact ⟨by simp [box8], 3, by decide, by decide⟩
  · exact ⟨by simp [box8], 1, by decide, by decide⟩
  · exact ⟨by simp [box8], 2, by decide, by decide⟩
  · decide

theorem box8_link (j : Nat) : LinkConn box8 j := by
  by_cases h : j < 6
  · interval_cases j
    · exact box8_link_0
    · exact box8_link_1
    · exact box8_link_2
    · exact box8_link_3
    · exact box8_link_4
    · exact box8_link_5
  · intro d hd d' _ hdj _
    exfalso
    have : ∀ d ∈ box8, d.a < 6 ∧ d.b < 6 ∧ d.c < 6 := by decide
    obtain ⟨h1, h2, h3⟩ := this d hd
    rcases hdj with rfl | rfl | rfl <;> exact h (by assumption)

/-- **the start box is good** (8 vertices, 6 planes: `8 + 4 = 2 · 6`) -/
theorem box8_good : SGood box8 := by
  refine ⟨⟨by decide, by decide⟩, by decide, by decide, box8_link, by decide⟩

/-- **Euler's relation and link-connectedness hold for every surface reachable from the start box** -/
theorem euler_reach {T : List Dual} (h : ReflTransGen CStep box8 T) : SGood T := by
  induction h with
  | refl => exact box8_good
  | tail _ hs ih => exact cstep_good ih hs

#print axioms MVoro.EulerReach.euler_reach
end MVoro.EulerReach
