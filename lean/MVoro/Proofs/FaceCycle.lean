/-
C15 (T15.2): **the vertices of every face form ONE simple cycle in which consecutive vertices share a second plane.**

In a closed triple surface `T` with three different planes per vertex, the vertices (triples) at a plane `p` are permuted by
"cross the edge that leaves `p`": `StepAt T p d d'` ⇔ `d` has the edge `(p, x)` and `d'` the edge `(x, p)`.  This successor is
a function (`step_fun`), injective (`step_inj`) and total on the triples at `p` (`step_exists`).  If the triples at `p` form
one umbrella (`Euler.LinkConn`, proved for every reachable cell in `EulerReach.euler_reach`), iterating it from any vertex of the
face lists every vertex of the face exactly once and returns to the start (`face_cycle`): this is the order
`sort_face_vertices` produces, and the reason it never fails to find "a next vertex connected to the current one".
-/
import MVoro.Proofs.EulerReach
import Mathlib.Dynamics.PeriodicPts.Defs
import Mathlib.Combinatorics.Pigeonhole

namespace MVoro.FaceCycle
open MVoro MVoro.CycleBoundary MVoro.Euler MVoro.EulerReach Function Relation

variable {T : List Dual} {p : Nat}

/-- with three different planes, the edge that leaves `p` in a triple is unique -/
theorem out_edge_unique {d : Dual} (hd : Distinct3 d) {x y : Nat} (hx : (p, x) ∈ d.edges) (hy : (p, y) ∈ d.edges) : x = y := by
  obtain ⟨h1, h2, h3⟩ := hd
  rw [mem_edges] at hx hy
  simp only [Prod.mk.injEq] at hx hy
  rcases hx with ⟨rfl, rfl⟩ | ⟨rfl, rfl⟩ | ⟨rfl, rfl⟩ <;> rcases hy with ⟨e, rfl⟩ | ⟨e, rfl⟩ | ⟨e, rfl⟩ <;>
    first | rfl | (exfalso; first | exact h1 e | exact h1 e.symm | exact h2 e | exact h2 e.symm | exact h3 e | exact h3 e.symm)

/-- the successor of a vertex around a face is unique -/
theorem step_fun (hT : (edgesOf T).Nodup) (hD : ∀ d ∈ T, Distinct3 d) {d d₁ d₂ : Dual} (hd : d ∈ T)
    (h₁ : StepAt T p d d₁) (h₂ : StepAt T p d d₂) : d₁ = d₂ := by
  obtain ⟨m₁, x, hx, hx'⟩ := h₁
  obtain ⟨m₂, y, hy, hy'⟩ := h₂
  have := out_edge_unique (hD d hd) hx hy
  subst this
  exact edge_unique hT m₁ m₂ hx' hy'

theorem in_edge_unique {d : Dual} (hd : Distinct3 d) {x y : Nat} (hx : (x, p) ∈ d.edges) (hy : (y, p) ∈ d.edges) : x = y := by
  obtain ⟨h1, h2, h3⟩ := hd
  rw [mem_edges] at hx hy
  simp only [Prod.mk.injEq] at hx hy
  rcases hx with ⟨rfl, rfl⟩ | ⟨rfl, rfl⟩ | ⟨rfl, rfl⟩ <;> rcases hy with ⟨rfl, e⟩ | ⟨rfl, e⟩ | ⟨rfl, e⟩ <;>
    first | rfl | (exfalso; first | exact h1 e | exact h1 e.symm | exact h2 e | exact h2 e.symm | exact h3 e | exact h3 e.symm)

/-- … and so is the predecessor -/
theorem step_inj (hT : (edgesOf T).Nodup) (hD : ∀ d ∈ T, Distinct3 d) {d₁ d₂ d' : Dual} (hd₁ : d₁ ∈ T) (hd₂ : d₂ ∈ T)
    (h₁ : StepAt T p d₁ d') (h₂ : StepAt T p d₂ d') : d₁ = d₂ := by
  obtain ⟨m, x, hx, hx'⟩ := h₁
  obtain ⟨_, y, hy, hy'⟩ := h₂
  have := in_edge_unique (hD d' m) hx' hy'
  subst this
  exact edge_unique hT hd₁ hd₂ hx hy

/-- every vertex of a face has a successor around the face (closed surface) -/
theorem step_exists (hT : Closed T) {d : Dual} (hd : d ∈ T) (hp : HasPlane d p) : ∃ d', StepAt T p d d' := by
  obtain ⟨x, hx⟩ := edge_out_of_plane hp
  obtain ⟨d', hd', he⟩ := mem_edgesOf.mp (hT.2 _ (mem_edgesOf.mpr ⟨d, hd, hx⟩))
  exact ⟨d', hd', x, hx, he⟩

open Classical in
/-- the successor around the face `p` as a total function on triples (identity away from the face) -/
noncomputable def nx (T : List Dual) (p : Nat) (d : Dual) : Dual :=
  if h : ∃ d', StepAt T p d d' then Classical.choose h else d

theorem nx_spec {d : Dual} (h : ∃ d', StepAt T p d d') : StepAt T p d (nx T p d) := by
  unfold nx; rw [dif_pos h]; exact Classical.choose_spec h

theorem nx_of_not {d : Dual} (h : ¬ ∃ d', StepAt T p d d') : nx T p d = d := by
  unfold nx; rw [dif_neg h]

/-- the vertices of the face `p` -/
def AtFace (T : List Dual) (p : Nat) (d : Dual) : Prop := d ∈ T ∧ HasPlane d p

theorem nx_atFace (hT : Closed T) {d : Dual} (hd : AtFace T p d) : StepAt T p d (nx T p d) ∧ AtFace T p (nx T p d) := by
  have h := nx_spec (step_exists hT hd.1 hd.2)
  exact ⟨h, h.1, hasPlane_of_edge_right h.2.choose_spec.2⟩

theorem iter_atFace (hT : Closed T) {d : Dual} (hd : AtFace T p d) (k : Nat) : AtFace T p ((nx T p)^[k] d) := by
  induction k with
  | zero => exact hd
  | succ k ih => rw [iterate_succ_apply']; exact (nx_atFace hT ih).2

/-- a path of steps around the face is an iterate of the successor -/
theorem path_iter (hT : Closed T) (hD : ∀ d ∈ T, Distinct3 d) {d d' : Dual} (hd : AtFace T p d)
    (h : ReflTransGen (StepAt T p) d d') : ∃ k, (nx T p)^[k] d = d' := by
  induction h with
  | refl => exact ⟨0, rfl⟩
  | tail _ hstep ih =>
    obtain ⟨k, rfl⟩ := ih
    have ha := iter_atFace hT hd k
    refine ⟨k + 1, ?_⟩
    rw [iterate_succ_apply']
    exact step_fun hT.1 hD ha.1 (nx_atFace hT ha).1 hstep

/-- **T15.2: the vertices of a face form one simple cycle.**  From any vertex `d₀` of the face, the first `m` iterates of "cross
the edge that leaves `p`" (`m` = number of vertices of the face) are pairwise different, are exactly the vertices of the face, each
is joined to the next by a step (they share the plane `p` and the plane of the crossed edge), and the last steps back to `d₀`. -/
theorem face_cycle (hT : Closed T) (hN : T.Nodup) (hD : ∀ d ∈ T, Distinct3 d) (hL : LinkConn T p) {d₀ : Dual}
    (h₀ : AtFace T p d₀) :
    let m := (T.filter fun d => decide (HasPlane d p)).length
    let l := (List.range m).map fun k => (nx T p)^[k] d₀
    l.Nodup ∧ (∀ d, d ∈ l ↔ AtFace T p d) ∧ (∀ k, StepAt T p ((nx T p)^[k] d₀) ((nx T p)^[k + 1] d₀)) ∧ (nx T p)^[m] d₀ = d₀ := by
  intro m l
  set f := nx T p with hf
  set S : Finset Dual := (T.filter fun d => decide (HasPlane d p)).toFinset with hS
  have hSmem : ∀ d, d ∈ S ↔ AtFace T p d := by
    intro d; simp [hS, AtFace]
  have hScard : S.card = m := by
    rw [hS, List.toFinset_card_of_nodup (hN.filter _)]
  have hmem : ∀ k, f^[k] d₀ ∈ S := fun k => (hSmem _).2 (iter_atFace hT h₀ k)
  -- injectivity of `f` along the face
  have hinjS : ∀ a b, AtFace T p a → AtFace T p b → f a = f b → a = b := by
    intro a b ha hb hab
    have sa := (nx_atFace hT ha).1
    have sb := (nx_atFace hT hb).1
    rw [← hf, hab] at sa
    exact step_inj hT.1 hD ha.1 hb.1 sa sb
  have hinj_iter : ∀ i a b, AtFace T p a → AtFace T p b → f^[i] a = f^[i] b → a = b := by
    intro i
    induction i with
    | zero => intro a b _ _ h; exact h
    | succ i ih =>
      intro a b ha hb h
      rw [iterate_succ_apply', iterate_succ_apply'] at h
      exact ih a b ha hb (hinjS _ _ (iter_atFace hT ha i) (iter_atFace hT hb i) h)
  -- `d₀` is periodic
  have hper : d₀ ∈ periodicPts f := by
    have hlt : S.card < (Finset.range (S.card + 1)).card := by simp
    obtain ⟨i, _, j, _, hij, he⟩ := Finset.exists_ne_map_eq_of_card_lt_of_maps_to hlt
      (fun k _ => hmem k : ∀ k ∈ Finset.range (S.card + 1), f^[k] d₀ ∈ S)
    rcases Nat.lt_or_gt_of_ne hij with hlt' | hlt'
    · refine mk_mem_periodicPts (Nat.sub_pos_of_lt hlt') ?_
      have : f^[i] (f^[j - i] d₀) = f^[i] d₀ := by
        rw [← iterate_add_apply, Nat.add_sub_cancel' hlt'.le]; exact he.symm
      exact hinj_iter i _ _ (iter_atFace hT h₀ _) h₀ this
    · refine mk_mem_periodicPts (Nat.sub_pos_of_lt hlt') ?_
      have : f^[j] (f^[i - j] d₀) = f^[j] d₀ := by
        rw [← iterate_add_apply, Nat.add_sub_cancel' hlt'.le]; exact he
      exact hinj_iter j _ _ (iter_atFace hT h₀ _) h₀ this
  set q := minimalPeriod f d₀ with hq
  have hqpos : 0 < q := minimalPeriod_pos_of_mem_periodicPts hper
  have hinjOn : Set.InjOn (fun k => f^[k] d₀) (Set.Iio q) := iterate_injOn_Iio_minimalPeriod
  have himg : (Finset.range q).image (fun k => f^[k] d₀) = S := by
    apply Finset.Subset.antisymm
    · intro y hy
      obtain ⟨k, _, rfl⟩ := Finset.mem_image.mp hy
      exact hmem k
    · intro y hy
      have hy' := (hSmem y).1 hy
      obtain ⟨k, hk⟩ := path_iter hT hD h₀ (hL d₀ h₀.1 y hy'.1 h₀.2 hy'.2)
      refine Finset.mem_image.mpr ⟨k % q, Finset.mem_range.mpr (Nat.mod_lt _ hqpos), ?_⟩
      rw [← hk]; exact iterate_mod_minimalPeriod_eq
  have hqm : q = m := by
    rw [← hScard, ← himg, Finset.card_image_of_injOn]
    · simp
    · intro a ha b hb hab
      exact hinjOn (by simpa using ha) (by simpa using hb) hab
  refine ⟨?_, ?_, ?_, ?_⟩
  · refine List.Nodup.map_on ?_ List.nodup_range
    intro a ha b hb hab
    rw [← hqm] at ha hb
    exact hinjOn (List.mem_range.mp ha) (List.mem_range.mp hb) hab
  · intro d
    rw [← hSmem d, ← himg, hqm]
    simp [l, Finset.mem_image, List.mem_map, hf]
  · intro k
    rw [iterate_succ_apply']
    exact (nx_atFace hT (iter_atFace hT h₀ k)).1
  · rw [← hqm]; exact isPeriodicPt_minimalPeriod f d₀

/-- **for every cell reachable from the start box, every face is one simple cycle of vertices** -/
theorem reachable_face_cycle {T : List Dual} (h : ReflTransGen CStep box8 T) (p : Nat) {d₀ : Dual} (h₀ : AtFace T p d₀) :
    let m := (T.filter fun d => decide (HasPlane d p)).length
    let l := (List.range m).map fun k => (nx T p)^[k] d₀
    l.Nodup ∧ (∀ d, d ∈ l ↔ AtFace T p d) ∧ (∀ k, StepAt T p ((nx T p)^[k] d₀) ((nx T p)^[k + 1] d₀)) ∧ (nx T p)^[m] d₀ = d₀ := by
  obtain ⟨hC, hN, hD, hL, _⟩ := euler_reach h
  exact face_cycle hC hN hD (hL p) h₀

#print axioms MVoro.FaceCycle.face_cycle
end MVoro.FaceCycle
