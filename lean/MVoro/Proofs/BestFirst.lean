/-
Correctness of the best-first nearest-neighbour enumeration `MVoro.Cand.bestFirst`
(model of `RTreeWrappingNearestNeighbourIter`, src/rtree_nn.rs).
-/
import MVoro.Model.Cand
import Mathlib.Algebra.Order.Ring.Defs
import Mathlib.Algebra.Order.Ring.Rat
import Mathlib.Tactic.Linarith
import Mathlib.Data.Real.Basic

namespace MVoro.BestFirst
open MVoro.Cand

variable {τ : Type}

/-! ## Definitions -/

/-- lower-bound property of a key: a parent's key is a lower bound of the keys of its children
(searched under the same shift) -/
def LB (key : Entry τ → Rat) : Prop :=
  ∀ (cs : List Tree) (s : τ) (c : Tree), c ∈ cs → key ⟨.node cs, s⟩ ≤ key ⟨c, s⟩

/-- `choose` always selects a position inside a non-empty queue -/
def InBounds (choose : List (Entry τ) → Nat) : Prop :=
  ∀ q : List (Entry τ), q ≠ [] → choose q < q.length

/-- `choose` selects an entry with minimal key of every non-empty queue (arbitrary tie-breaking) -/
def Valid (key : Entry τ → Rat) (choose : List (Entry τ) → Nat) : Prop :=
  ∀ q : List (Entry τ), q ≠ [] →
    ∃ h : choose q < q.length, ∀ e ∈ q, key (q[choose q]'h) ≤ key e

/-- the (leaf, shift) pairs below the entries of a queue -/
def leavesOf (q : List (Entry τ)) : List (Nat × τ) :=
  q.flatMap (fun e => e.t.leaves.map (fun i => (i, e.tag)))

/-- key of an emitted pair -/
def pairKey (key : Entry τ → Rat) (p : Nat × τ) : Rat := key ⟨.leaf p.1, p.2⟩

theorem Valid.inBounds {key : Entry τ → Rat} {choose} (h : Valid key choose) : InBounds choose :=
  fun q hq => (h q hq).1

/-! ## List helpers -/

theorem perm_cons_removeAt {α} : ∀ (l : List α) (i : Nat) (h : i < l.length),
    l.Perm (l[i] :: removeAt l i)
  | [], _, h => by simp at h
  | x :: xs, 0, _ => by simp [removeAt]
  | x :: xs, i + 1, h => by
    have ih := perm_cons_removeAt xs i (by simpa using h)
    simp only [removeAt, List.getElem_cons_succ]
    exact (List.Perm.cons x ih).trans (List.Perm.swap _ _ _)

theorem mem_of_mem_removeAt {α} {a : α} : ∀ {l : List α} {i : Nat}, a ∈ removeAt l i → a ∈ l
  | [], _, h => by simp [removeAt] at h
  | x :: xs, 0, h => by simp [removeAt] at h; simp [h]
  | x :: xs, i + 1, h => by
    simp only [removeAt, List.mem_cons] at h
    rcases h with h | h
    · simp [h]
    · exact List.mem_cons_of_mem _ (mem_of_mem_removeAt h)

theorem Tree.size_pos : ∀ t : Tree, 0 < t.size
  | .leaf _ => by simp [Tree.size]
  | .node _ => by unfold Tree.size; omega

theorem totalFuel_nil : totalFuel ([] : List (Entry τ)) = 0 := rfl

theorem totalFuel_cons (e : Entry τ) (q) : totalFuel (e :: q) = e.t.size + totalFuel q := by
  simp [totalFuel]

theorem totalFuel_append (q r : List (Entry τ)) : totalFuel (q ++ r) = totalFuel q + totalFuel r := by
  simp [totalFuel]

theorem totalFuel_perm {q r : List (Entry τ)} (h : q.Perm r) : totalFuel q = totalFuel r := by
  induction h with
  | nil => rfl
  | cons x _ ih => simp [totalFuel_cons, ih]
  | swap x y l => simp [totalFuel_cons]; omega
  | trans _ _ ih1 ih2 => exact ih1.trans ih2

theorem totalFuel_children (cs : List Tree) (s : τ) :
    totalFuel (cs.map (fun c => (⟨c, s⟩ : Entry τ))) = sizeList cs := by
  induction cs with
  | nil => rfl
  | cons c cs ih => simp [totalFuel_cons, sizeList, ih]

theorem eq_nil_of_totalFuel_eq_zero {q : List (Entry τ)} (h : totalFuel q = 0) : q = [] := by
  cases q with
  | nil => rfl
  | cons e q =>
    have := Tree.size_pos e.t
    rw [totalFuel_cons] at h; omega

theorem leavesOf_nil : leavesOf ([] : List (Entry τ)) = [] := rfl

theorem leavesOf_cons (e : Entry τ) (q) :
    leavesOf (e :: q) = e.t.leaves.map (fun i => (i, e.tag)) ++ leavesOf q := by
  simp [leavesOf]

theorem leavesOf_append (q r : List (Entry τ)) : leavesOf (q ++ r) = leavesOf q ++ leavesOf r := by
  simp [leavesOf]

theorem leavesOf_perm {q r : List (Entry τ)} (h : q.Perm r) : (leavesOf q).Perm (leavesOf r) :=
  List.Perm.flatMap_right _ h

theorem leavesOf_children (cs : List Tree) (s : τ) :
    leavesOf (cs.map (fun c => (⟨c, s⟩ : Entry τ))) = (leavesList cs).map (fun i => (i, s)) := by
  induction cs with
  | nil => rfl
  | cons c cs ih => simp [leavesOf_cons, leavesList, ih]

/-! ## One step of the search -/

theorem bestFirst_zero (choose : List (Entry τ) → Nat) (q) : bestFirst choose 0 q = [] := by
  simp [bestFirst]

theorem bestFirst_nil (choose : List (Entry τ) → Nat) (fuel) : bestFirst choose fuel [] = [] := by
  cases fuel <;> simp [bestFirst]

theorem bestFirst_oob (choose : List (Entry τ) → Nat) (fuel) (q : List (Entry τ))
    (h : q.length ≤ choose q) : bestFirst choose (fuel + 1) q = [] := by
  cases q with
  | nil => simp [bestFirst]
  | cons x xs =>
    simp only [bestFirst]
    rw [List.getElem?_eq_none h]

theorem bestFirst_leaf (choose : List (Entry τ) → Nat) (fuel) (q : List (Entry τ))
    (h : choose q < q.length) (id : Nat) (ht : (q[choose q]).t = .leaf id) :
    bestFirst choose (fuel + 1) q
      = (id, (q[choose q]).tag) :: bestFirst choose fuel (removeAt q (choose q)) := by
  cases q with
  | nil => simp at h
  | cons x xs =>
    simp only [bestFirst]
    rw [List.getElem?_eq_getElem h]
    simp only [ht]

theorem bestFirst_node (choose : List (Entry τ) → Nat) (fuel) (q : List (Entry τ))
    (h : choose q < q.length) (cs : List Tree) (ht : (q[choose q]).t = .node cs) :
    bestFirst choose (fuel + 1) q
      = bestFirst choose fuel
          (removeAt q (choose q) ++ cs.map (fun c => ⟨c, (q[choose q]).tag⟩)) := by
  cases q with
  | nil => simp at h
  | cons x xs =>
    simp only [bestFirst]
    rw [List.getElem?_eq_getElem h]
    simp only [ht]

/-! ## T17.1a completeness -/

/-- T17.1a (general form): in-bounds choice suffices -/
theorem bestFirst_complete_of_inBounds (choose : List (Entry τ) → Nat) (hc : InBounds choose) :
    ∀ (fuel : Nat) (q : List (Entry τ)), totalFuel q ≤ fuel →
      (bestFirst choose fuel q).Perm (leavesOf q) := by
  intro fuel
  induction fuel with
  | zero =>
    intro q hq
    have : q = [] := eq_nil_of_totalFuel_eq_zero (by omega)
    subst this; simp [bestFirst, leavesOf]
  | succ fuel ih =>
    intro q hq
    by_cases hne : q = []
    · subst hne; simp [bestFirst, leavesOf]
    have hi := hc q hne
    have hperm := perm_cons_removeAt q (choose q) hi
    have hfuel := totalFuel_perm hperm
    have hlv := leavesOf_perm hperm
    rw [totalFuel_cons] at hfuel
    rw [leavesOf_cons] at hlv
    cases ht : (q[choose q]).t with
    | leaf id =>
      rw [bestFirst_leaf choose fuel q hi id ht]
      rw [ht] at hfuel hlv
      simp only [Tree.size, Tree.leaves, List.map_cons, List.map_nil, List.cons_append,
        List.nil_append] at hfuel hlv
      exact (List.Perm.cons _ (ih _ (by omega))).trans hlv.symm
    | node cs =>
      rw [bestFirst_node choose fuel q hi cs ht]
      rw [ht] at hfuel hlv
      simp only [Tree.size, Tree.leaves] at hfuel hlv
      refine (ih _ ?_).trans ?_
      · rw [totalFuel_append, totalFuel_children]; omega
      · rw [leavesOf_append, leavesOf_children]
        exact List.perm_append_comm.trans hlv.symm

/-- T17.1a: with enough fuel every leaf of every initial subtree is emitted exactly once,
with the tag of the subtree it came from. -/
theorem bestFirst_complete (key : Entry τ → Rat) (choose : List (Entry τ) → Nat)
    (hv : Valid key choose) (fuel : Nat) (q : List (Entry τ)) (hf : totalFuel q ≤ fuel) :
    (bestFirst choose fuel q).Perm
      (q.flatMap (fun e => e.t.leaves.map (fun i => (i, e.tag)))) :=
  bestFirst_complete_of_inBounds choose hv.inBounds fuel q hf

/-! ## T17.1b sortedness -/

/-- a lower bound of the keys of the queue is a lower bound of the keys of everything emitted
(needs `LB` only, no assumption on `choose` or on the fuel) -/
theorem bestFirst_lower_bound (key : Entry τ → Rat) (hLB : LB key)
    (choose : List (Entry τ) → Nat) (b : Rat) :
    ∀ (fuel : Nat) (q : List (Entry τ)), (∀ e ∈ q, b ≤ key e) →
      ∀ p ∈ bestFirst choose fuel q, b ≤ pairKey key p := by
  intro fuel
  induction fuel with
  | zero => intro q _ p hp; simp [bestFirst] at hp
  | succ fuel ih =>
    intro q hq p hp
    by_cases hi : choose q < q.length
    · have hmem : q[choose q] ∈ q := List.getElem_mem hi
      have hrest : ∀ e ∈ removeAt q (choose q), b ≤ key e :=
        fun e he => hq e (mem_of_mem_removeAt he)
      cases ht : (q[choose q]).t with
      | leaf id =>
        rw [bestFirst_leaf choose fuel q hi id ht, List.mem_cons] at hp
        rcases hp with rfl | hp
        · have := hq _ hmem
          have heq : q[choose q] = ⟨.leaf id, (q[choose q]).tag⟩ := by
            rw [← ht]
          rw [heq] at this
          exact this
        · exact ih _ hrest p hp
      | node cs =>
        rw [bestFirst_node choose fuel q hi cs ht] at hp
        refine ih _ ?_ p hp
        intro e he
        rcases List.mem_append.mp he with he | he
        · exact hrest e he
        · obtain ⟨c, hc, rfl⟩ := List.mem_map.mp he
          have h1 := hq _ hmem
          have heq : q[choose q] = ⟨.node cs, (q[choose q]).tag⟩ := by
            rw [← ht]
          rw [heq] at h1
          exact Rat.le_trans h1 (hLB cs _ c hc)
    · rw [bestFirst_oob choose fuel q (by omega)] at hp
      simp at hp

/-- T17.1b: the keys of the emitted leaves are sorted non-decreasingly (for every fuel). -/
theorem bestFirst_sorted (key : Entry τ → Rat) (hLB : LB key)
    (choose : List (Entry τ) → Nat) (hv : Valid key choose) :
    ∀ (fuel : Nat) (q : List (Entry τ)),
      List.Pairwise (· ≤ ·)
        ((bestFirst choose fuel q).map (fun p : Nat × τ => key ⟨.leaf p.1, p.2⟩)) := by
  intro fuel
  induction fuel with
  | zero => intro q; simp [bestFirst]
  | succ fuel ih =>
    intro q
    by_cases hne : q = []
    · subst hne; simp [bestFirst]
    obtain ⟨hi, hmin⟩ := hv q hne
    cases ht : (q[choose q]).t with
    | leaf id =>
      rw [bestFirst_leaf choose fuel q hi id ht, List.map_cons, List.pairwise_cons]
      refine ⟨?_, ih _⟩
      intro k hk
      obtain ⟨p, hp, rfl⟩ := List.mem_map.mp hk
      have heq : q[choose q] = ⟨.leaf id, (q[choose q]).tag⟩ := by
        rw [← ht]
      rw [heq] at hmin
      exact bestFirst_lower_bound key hLB choose _ fuel _
        (fun e he => hmin e (mem_of_mem_removeAt he)) p hp
    | node cs =>
      rw [bestFirst_node choose fuel q hi cs ht]
      exact ih _

mutual
/-- the key of an entry is a lower bound of the keys of all leaves below it -/
theorem key_le_leaf (key : Entry τ → Rat) (hLB : LB key) (s : τ) :
    ∀ (t : Tree) (i : Nat), i ∈ t.leaves → key ⟨t, s⟩ ≤ key ⟨.leaf i, s⟩
  | .leaf j, i, h => by
    simp only [Tree.leaves, List.mem_singleton] at h
    subst h; exact Rat.le_refl
  | .node cs, i, h => by
    simp only [Tree.leaves] at h
    obtain ⟨c, hc, hle⟩ := key_le_leaf_list key hLB s cs i h
    exact Rat.le_trans (hLB cs s c hc) hle
theorem key_le_leaf_list (key : Entry τ → Rat) (hLB : LB key) (s : τ) :
    ∀ (cs : List Tree) (i : Nat), i ∈ leavesList cs →
      ∃ c ∈ cs, key ⟨c, s⟩ ≤ key ⟨.leaf i, s⟩
  | [], i, h => by simp [leavesList] at h
  | c :: cs, i, h => by
    simp only [leavesList, List.mem_append] at h
    rcases h with h | h
    · exact ⟨c, List.mem_cons_self, key_le_leaf key hLB s c i h⟩
    · obtain ⟨c', hc', hle⟩ := key_le_leaf_list key hLB s cs i h
      exact ⟨c', List.mem_cons_of_mem _ hc', hle⟩
end

/-- every queue entry's key bounds the keys of the (leaf, shift) pairs below it -/
theorem key_le_leavesOf (key : Entry τ → Rat) (hLB : LB key) (e : Entry τ) :
    ∀ p ∈ leavesOf [e], key e ≤ pairKey key p := by
  intro p hp
  simp only [leavesOf, List.flatMap_cons, List.flatMap_nil, List.append_nil, List.mem_map] at hp
  obtain ⟨i, hi, rfl⟩ := hp
  exact key_le_leaf key hLB e.tag e.t i hi

/-! ## T17.1c the concrete choice function -/

theorem argminFirst_go_spec {α} (key : α → Rat) :
    ∀ (ys pre : List α) (best : Rat) (bi : Nat) (hbi : bi < pre.length),
      key pre[bi] = best → (∀ e ∈ pre, best ≤ key e) →
      (∀ j (hj : j < bi), best < key (pre[j]'(by omega))) →
      ∃ h : argminFirst.go key best bi pre.length ys < (pre ++ ys).length,
        (∀ e ∈ pre ++ ys, key (pre ++ ys)[argminFirst.go key best bi pre.length ys] ≤ key e) ∧
        (∀ j (hj : j < argminFirst.go key best bi pre.length ys),
          key (pre ++ ys)[argminFirst.go key best bi pre.length ys]
            < key ((pre ++ ys)[j]'(by omega))) := by
  intro ys
  induction ys with
  | nil =>
    intro pre best bi hbi hk hmin hfirst
    simp only [argminFirst.go, List.append_nil]
    exact ⟨hbi, fun e he => hk ▸ hmin e he, fun j hj => hk ▸ hfirst j hj⟩
  | cons y ys ih =>
    intro pre best bi hbi hk hmin hfirst
    have hlen : (pre ++ [y]).length = pre.length + 1 := by simp
    have happ : pre ++ y :: ys = (pre ++ [y]) ++ ys := by simp
    simp only [argminFirst.go]
    split
    · next hlt =>
      have := ih (pre ++ [y]) (key y) pre.length (by simp) (by simp)
        (by
          intro e he
          rcases List.mem_append.mp he with he | he
          · exact Rat.le_trans (Rat.le_of_lt hlt) (hmin e he)
          · simp at he; subst he; exact Rat.le_refl)
        (by
          intro j hj
          rw [List.getElem_append_left hj]
          have := hmin _ (List.getElem_mem hj)
          grind)
      simp only [hlen] at this
      simpa only [happ] using this
    · next hnlt =>
      have hle : best ≤ key y := Rat.not_lt.mp hnlt
      have := ih (pre ++ [y]) best bi (by simp; omega)
        (by rw [List.getElem_append_left hbi]; exact hk)
        (by
          intro e he
          rcases List.mem_append.mp he with he | he
          · exact hmin e he
          · simp at he; subst he; exact hle)
        (by
          intro j hj
          rw [List.getElem_append_left (by omega)]
          exact hfirst j hj)
      simp only [hlen] at this
      simpa only [happ] using this

/-- `argminFirst` returns the *first* position with minimal key -/
theorem argminFirst_spec {α} (key : α → Rat) (q : List α) (hq : q ≠ []) :
    ∃ h : argminFirst key q < q.length,
      (∀ e ∈ q, key (q[argminFirst key q]'h) ≤ key e) ∧
      (∀ j (hj : j < argminFirst key q), key (q[argminFirst key q]'h) < key (q[j]'(by omega))) := by
  cases q with
  | nil => exact absurd rfl hq
  | cons x xs =>
    have := argminFirst_go_spec key xs [x] (key x) 0 (by simp) (by simp)
      (by intro e he; simp at he; subst he; exact Rat.le_refl)
      (by intro j hj; omega)
    simpa [argminFirst] using this

/-- T17.1c: `argminFirst key` is a valid choice function for `key`. -/
theorem argminFirst_valid (key : Entry τ → Rat) : Valid key (argminFirst key) := by
  intro q hq
  obtain ⟨h, hmin, _⟩ := argminFirst_spec key q hq
  exact ⟨h, hmin⟩

/-! ## T17.1d the initial queue -/

/-- T17.1d: the (leaf, shift) pairs below the initial queue: every leaf of the root once per shift. -/
theorem initQueue_leaves (root : Tree) (shifts : List τ) :
    (initQueue root shifts).flatMap (fun e => e.t.leaves.map (fun i => (i, e.tag)))
      = shifts.flatMap (fun s => root.leaves.map (fun i => (i, s))) := by
  change leavesOf (initQueue root shifts) = _
  cases root with
  | leaf i =>
    simp only [initQueue, Tree.leaves]
    induction shifts with
    | nil => rfl
    | cons s ss ih => simp [leavesOf_cons, Tree.leaves, ih]
  | node cs =>
    simp only [initQueue, Tree.leaves]
    induction shifts with
    | nil => rfl
    | cons s ss ih =>
      rw [List.flatMap_cons, leavesOf_append, leavesOf_children, ih, List.flatMap_cons]

/-- the whole search from the initial queue visits every generator exactly once per shift -/
theorem bestFirst_initQueue (key : Entry τ → Rat) (choose : List (Entry τ) → Nat)
    (hv : Valid key choose) (root : Tree) (shifts : List τ) (fuel : Nat)
    (hf : totalFuel (initQueue root shifts) ≤ fuel) :
    (bestFirst choose fuel (initQueue root shifts)).Perm
      (shifts.flatMap (fun s => root.leaves.map (fun i => (i, s)))) := by
  rw [← initQueue_leaves]
  exact bestFirst_complete key choose hv fuel _ hf

/-- every generator `i` is emitted `shifts.length` times (once per shift) for each of its occurrences
as a leaf; and a given pair `(i, s)` exactly `count s shifts * count i leaves` times -/
theorem visits_per_generator (key : Entry τ → Rat) (choose : List (Entry τ) → Nat)
    (hv : Valid key choose) (root : Tree) (shifts : List τ) (fuel : Nat)
    (hf : totalFuel (initQueue root shifts) ≤ fuel) (i : Nat) :
    ((bestFirst choose fuel (initQueue root shifts)).map Prod.fst).count i
      = shifts.length * root.leaves.count i := by
  have hperm := (bestFirst_initQueue key choose hv root shifts fuel hf).map Prod.fst
  rw [hperm.count_eq]
  induction shifts with
  | nil => simp
  | cons s ss ih =>
    rw [List.flatMap_cons, List.map_append, List.count_append, ih (by
      apply Nat.le_trans _ hf
      cases root <;> simp [initQueue, totalFuel]) ((bestFirst_initQueue key choose hv root ss fuel (by
      apply Nat.le_trans _ hf
      cases root <;> simp [initQueue, totalFuel])).map Prod.fst)]
    simp [List.map_map, Function.comp_def, Nat.succ_mul, Nat.add_comm]

/-! ## T17.3 the query point itself comes first -/

/-- T17.3: a (leaf, shift) pair below the queue with key `0`, all other pairs having key `> 0`,
is the first emitted element. -/
theorem self_first (key : Entry τ → Rat) (hLB : LB key)
    (choose : List (Entry τ) → Nat) (hv : Valid key choose)
    (fuel : Nat) (q : List (Entry τ)) (hf : totalFuel q ≤ fuel)
    (i0 : Nat) (s0 : τ)
    (hmem : (i0, s0) ∈ q.flatMap (fun e => e.t.leaves.map (fun i => (i, e.tag))))
    (h0 : key ⟨.leaf i0, s0⟩ = 0)
    (hpos : ∀ p ∈ q.flatMap (fun e => e.t.leaves.map (fun i => (i, e.tag))),
      p ≠ (i0, s0) → 0 < key ⟨.leaf p.1, p.2⟩) :
    (bestFirst choose fuel q).head? = some (i0, s0) := by
  have hperm := bestFirst_complete key choose hv fuel q hf
  have hsorted := bestFirst_sorted key hLB choose hv fuel q
  have hin : (i0, s0) ∈ bestFirst choose fuel q := hperm.mem_iff.mpr hmem
  cases hout : bestFirst choose fuel q with
  | nil => rw [hout] at hin; simp at hin
  | cons p rest =>
    rw [hout] at hin hsorted hperm
    simp only [List.head?_cons, Option.some.injEq]
    apply Classical.byContradiction
    intro hne
    have hrest : (i0, s0) ∈ rest := by
      rcases List.mem_cons.mp hin with h | h
      · exact absurd h.symm hne
      · exact h
    have hp : p ∈ q.flatMap (fun e => e.t.leaves.map (fun i => (i, e.tag))) :=
      hperm.mem_iff.mp List.mem_cons_self
    have h1 := hpos p hp hne
    rw [List.map_cons, List.pairwise_cons] at hsorted
    have h2 := hsorted.1 _ (List.mem_map_of_mem (f := fun p : Nat × τ => key ⟨.leaf p.1, p.2⟩) hrest)
    simp only [h0] at h2
    grind


/-! ## T17.2 the envelope distance is a lower bound -/

section ClampOrder
variable {K : Type} [LinearOrder K]

/-- the Rust `clamp(x, min, max) = x.max(min).min(max)` -/
def clamp (lo hi x : K) : K := min (max x lo) hi

theorem clamp_mem {lo hi : K} (h : lo ≤ hi) (x : K) : lo ≤ clamp lo hi x ∧ clamp lo hi x ≤ hi :=
  ⟨le_min (le_max_right _ _) h, min_le_right _ _⟩

theorem clamp_point (p x : K) : clamp p p x = p := by
  unfold clamp
  exact le_antisymm (min_le_right _ _) (le_min (le_max_right _ _) le_rfl)

end ClampOrder

section Clamp
variable {K : Type} [CommRing K] [LinearOrder K] [IsStrictOrderedRing K]

/-- T17.2 (one coordinate): the clamped coordinate is at least as close to `x` as any `p` in
`[lo, hi]`. -/
theorem clamp_lower_bound {lo hi p : K} (x : K) (h1 : lo ≤ p) (h2 : p ≤ hi) :
    (min (max x lo) hi - x) ^ 2 ≤ (p - x) ^ 2 := by
  rcases le_total x lo with hx | hx
  · rw [max_eq_right hx, min_eq_left (h1.trans h2)]
    nlinarith [mul_nonneg (sub_nonneg.mpr h1) (sub_nonneg.mpr hx)]
  · rw [max_eq_left hx]
    rcases le_total x hi with hx2 | hx2
    · rw [min_eq_left hx2]
      nlinarith [sq_nonneg (p - x)]
    · rw [min_eq_right hx2]
      nlinarith [mul_nonneg (sub_nonneg.mpr h2) (sub_nonneg.mpr hx2)]

/-- T17.2 in the other order of `min`/`max` (equal to the Rust form whenever `lo ≤ hi`) -/
theorem clamp_lower_bound' {lo hi p : K} (x : K) (h1 : lo ≤ p) (h2 : p ≤ hi) :
    (max lo (min x hi) - x) ^ 2 ≤ (p - x) ^ 2 := by
  have : max lo (min x hi) = min (max x lo) hi := by
    rw [max_comm, max_min_distrib_right, max_eq_left (h1.trans h2)]
  rw [this]; exact clamp_lower_bound x h1 h2

example {lo hi p : ℝ} (x : ℝ) (h1 : lo ≤ p) (h2 : p ≤ hi) :
    (min (max x lo) hi - x) ^ 2 ≤ (p - x) ^ 2 := clamp_lower_bound x h1 h2
example {lo hi p : ℚ} (x : ℚ) (h1 : lo ≤ p) (h2 : p ≤ hi) :
    (min (max x lo) hi - x) ^ 2 ≤ (p - x) ^ 2 := clamp_lower_bound x h1 h2

/-- T17.2 (nested boxes, one coordinate): the clamp distance to an outer interval is at most the
clamp distance to an inner one. -/
theorem clamp_nested {lo hi lo' hi' : K} (x : K) (hlo : lo ≤ lo') (hhi : hi' ≤ hi)
    (hne : lo' ≤ hi') :
    (clamp lo hi x - x) ^ 2 ≤ (clamp lo' hi' x - x) ^ 2 := by
  obtain ⟨h1, h2⟩ := clamp_mem hne x
  exact clamp_lower_bound x (hlo.trans h1) (h2.trans hhi)

/-- squared distance of two points of `K^3` -/
def dist2 (p x : Fin 3 → K) : K :=
  (p 0 - x 0) ^ 2 + (p 1 - x 1) ^ 2 + (p 2 - x 2) ^ 2

/-- squared distance of `x` to the box `[lo, hi]`, as computed by `wrapping_distance_2` for an AABB -/
def envDist2 (lo hi x : Fin 3 → K) : K :=
  (clamp (lo 0) (hi 0) (x 0) - x 0) ^ 2 + (clamp (lo 1) (hi 1) (x 1) - x 1) ^ 2
    + (clamp (lo 2) (hi 2) (x 2) - x 2) ^ 2

/-- T17.2 (three coordinates): the envelope distance is a lower bound of the distance to every
point inside the box. -/
theorem envDist2_le_dist2 {lo hi p : Fin 3 → K} (x : Fin 3 → K)
    (h1 : ∀ i, lo i ≤ p i) (h2 : ∀ i, p i ≤ hi i) :
    envDist2 lo hi x ≤ dist2 p x := by
  unfold envDist2 dist2 clamp
  exact add_le_add (add_le_add (clamp_lower_bound _ (h1 0) (h2 0))
    (clamp_lower_bound _ (h1 1) (h2 1))) (clamp_lower_bound _ (h1 2) (h2 2))

/-- T17.2 (nested boxes, three coordinates) -/
theorem envDist2_nested {lo hi lo' hi' : Fin 3 → K} (x : Fin 3 → K)
    (hlo : ∀ i, lo i ≤ lo' i) (hhi : ∀ i, hi' i ≤ hi i) (hne : ∀ i, lo' i ≤ hi' i) :
    envDist2 lo hi x ≤ envDist2 lo' hi' x := by
  unfold envDist2
  exact add_le_add (add_le_add (clamp_nested _ (hlo 0) (hhi 0) (hne 0))
    (clamp_nested _ (hlo 1) (hhi 1) (hne 1))) (clamp_nested _ (hlo 2) (hhi 2) (hne 2))

omit [IsStrictOrderedRing K] in
/-- the envelope of a point is the point: the envelope distance of a degenerate box is the distance -/
theorem envDist2_point (p x : Fin 3 → K) : envDist2 p p x = dist2 p x := by
  simp [envDist2, dist2, clamp_point]

theorem envDist2_nonneg (lo hi x : Fin 3 → K) : 0 ≤ envDist2 lo hi x := by
  unfold envDist2; positivity

end Clamp

/-- the key used by the code: envelope distance from the shifted query point `pt s`, where `lo t`,
`hi t` are the corners of the envelope of subtree `t` (a leaf has a degenerate envelope) -/
def boxKey (lo hi : Tree → Fin 3 → Rat) (pt : τ → Fin 3 → Rat) (e : Entry τ) : Rat :=
  envDist2 (lo e.t) (hi e.t) (pt e.tag)

/-- if the envelopes are non-empty and a parent's envelope contains its children's, then the
envelope-distance key has the lower-bound property -/
theorem LB_boxKey (lo hi : Tree → Fin 3 → Rat) (pt : τ → Fin 3 → Rat)
    (hne : ∀ t i, lo t i ≤ hi t i)
    (hnest : ∀ cs c, c ∈ cs → ∀ i, lo (.node cs) i ≤ lo c i ∧ hi c i ≤ hi (.node cs) i) :
    LB (boxKey lo hi pt) := by
  intro cs s c hc
  exact envDist2_nested _ (fun i => (hnest cs c hc i).1) (fun i => (hnest cs c hc i).2)
    (fun i => hne c i)

/-- for a leaf with position `pos i` (`lo = hi = pos i`) the key is the squared distance -/
theorem boxKey_leaf (lo hi : Tree → Fin 3 → Rat) (pt : τ → Fin 3 → Rat) (i : Nat) (s : τ)
    (h : lo (.leaf i) = hi (.leaf i)) :
    boxKey lo hi pt ⟨.leaf i, s⟩ = dist2 (lo (.leaf i)) (pt s) := by
  simp [boxKey, ← h, envDist2_point]

/-! ## A concrete run -/

/-- a sample key given by a table: leaves `0,1,2` at squared distance `5,2,3` under shift `0` and
`6,3,4` under shift `1`; the inner nodes `0` resp. `1` (a lower bound of their children) -/
def exKey (e : Entry Nat) : Rat :=
  match e.t, e.tag with
  | .leaf 0, 0 => 5
  | .leaf 0, _ => 6
  | .leaf 1, 0 => 2
  | .leaf 1, _ => 3
  | .leaf _, 0 => 3
  | .leaf _, _ => 4
  | .node _, 0 => 0
  | .node _, _ => 1

/-- the same key written with arithmetic: `d(leaf) + tag`, inner nodes `tag` -/
def exKey' (e : Entry Nat) : Rat :=
  match e.t with
  | .leaf 0 => 5 + e.tag
  | .leaf 1 => 2 + e.tag
  | .leaf _ => 3 + e.tag
  | .node _ => e.tag

/-- the run on `.node [.leaf 0, .node [.leaf 1, .leaf 2]]` with shifts `[0, 1]`:
keys of the output are `2, 3, 3, 4, 5, 6` (one tie, broken towards the earlier queue position) -/
example :
    bestFirst (argminFirst exKey) 10
      (initQueue (.node [.leaf 0, .node [.leaf 1, .leaf 2]]) [0, 1])
      = [(1, 0), (2, 0), (1, 1), (2, 1), (0, 0), (0, 1)] := by
  decide

example :
    (bestFirst (argminFirst exKey) 10
      (initQueue (.node [.leaf 0, .node [.leaf 1, .leaf 2]]) [0, 1])).map
        (fun p => exKey ⟨.leaf p.1, p.2⟩) = [2, 3, 3, 4, 5, 6] := by
  decide

example : totalFuel (initQueue (.node [.leaf 0, .node [.leaf 1, .leaf 2]]) [0, 1]) = 8 := by
  decide

example :
    bestFirst (argminFirst exKey') 8
      (initQueue (.node [.leaf 0, .node [.leaf 1, .leaf 2]]) [0, 1])
      = [(1, 0), (2, 0), (1, 1), (2, 1), (0, 0), (0, 1)] := by
  decide +kernel

#print axioms bestFirst_complete_of_inBounds
#print axioms bestFirst_complete
#print axioms bestFirst_lower_bound
#print axioms bestFirst_sorted
#print axioms key_le_leaf
#print axioms key_le_leavesOf
#print axioms argminFirst_spec
#print axioms argminFirst_valid
#print axioms initQueue_leaves
#print axioms bestFirst_initQueue
#print axioms self_first
#print axioms visits_per_generator
#print axioms clamp_lower_bound'
#print axioms clamp_lower_bound
#print axioms clamp_nested
#print axioms envDist2_le_dist2
#print axioms envDist2_nested
#print axioms envDist2_point
#print axioms LB_boxKey
#print axioms boxKey_leaf

end MVoro.BestFirst
