/-
C20 (T20.3, executable form): soundness of the certificate checker `MEB.checkCert` over ℚ.
If the checker accepts `(c, r²)` for the point array `pts`, then every ball `(c', R²)` that contains all
points has `r² ≤ R²`, and `(c, r²)` itself contains all points: `(c, r²)` is the minimal enclosing ball.
The driver reports an exact minimal ball only after this checker has accepted it.
-/
import MVoro.Model.Sphere
import Mathlib.Tactic.Ring
import Mathlib.Tactic.Linarith
import Mathlib.Tactic.Positivity
import Mathlib.Algebra.Order.Field.Rat
namespace MVoro.MEBProofs
open MVoro MVoro.MEB

theorem norm2_sub_def (a b : Q3) :
    V3.norm2 (a - b) = (a.x - b.x) * (a.x - b.x) + (a.y - b.y) * (a.y - b.y) + (a.z - b.z) * (a.z - b.z) := rfl

/-- weighted sum of squared distances to `c'`, split at `c` (no hypothesis on the weights) -/
theorem weighted_split (pts : Array Q3) (c c' : Q3) (supp : List (Nat × Rat)) :
    (supp.map (fun s => s.2 * V3.norm2 (pts[s.1]! - c'))).sum =
      (supp.map (fun s => s.2 * V3.norm2 (pts[s.1]! - c))).sum
      + 2 * (((supp.map (fun s => s.2 * (pts[s.1]!).x)).sum - (supp.map (·.2)).sum * c.x) * (c.x - c'.x)
           + ((supp.map (fun s => s.2 * (pts[s.1]!).y)).sum - (supp.map (·.2)).sum * c.y) * (c.y - c'.y)
           + ((supp.map (fun s => s.2 * (pts[s.1]!).z)).sum - (supp.map (·.2)).sum * c.z) * (c.z - c'.z))
      + (supp.map (·.2)).sum * V3.norm2 (c - c') := by
  induction supp with
  | nil => simp
  | cons s rest ih =>
    simp only [List.map_cons, List.sum_cons]
    rw [ih]
    simp only [norm2_sub_def]
    ring

theorem sum_le_of_forall (supp : List (Nat × Rat)) (f : Nat × Rat → Rat) (B : Rat)
    (h : ∀ s ∈ supp, 0 ≤ s.2 ∧ f s ≤ B) :
    (supp.map (fun s => s.2 * f s)).sum ≤ (supp.map (·.2)).sum * B := by
  induction supp with
  | nil => simp
  | cons s rest ih =>
    simp only [List.map_cons, List.sum_cons]
    have h1 := h s List.mem_cons_self
    have h2 := ih (fun t ht => h t (List.mem_cons_of_mem _ ht))
    have : s.2 * f s ≤ s.2 * B := mul_le_mul_of_nonneg_left h1.2 h1.1
    linarith [add_mul s.2 (rest.map (·.2)).sum B]

theorem sum_eq_of_forall (supp : List (Nat × Rat)) (f : Nat × Rat → Rat) (B : Rat)
    (h : ∀ s ∈ supp, f s = B) :
    (supp.map (fun s => s.2 * f s)).sum = (supp.map (·.2)).sum * B := by
  induction supp with
  | nil => simp
  | cons s rest ih =>
    simp only [List.map_cons, List.sum_cons]
    rw [h s List.mem_cons_self, ih (fun t ht => h t (List.mem_cons_of_mem _ ht))]
    ring

theorem norm2_nonneg (a : Q3) : 0 ≤ V3.norm2 a := by
  show 0 ≤ a.x * a.x + a.y * a.y + a.z * a.z
  nlinarith [mul_self_nonneg a.x, mul_self_nonneg a.y, mul_self_nonneg a.z]

/-- what the checker establishes, as propositions -/
theorem checkCert_unfold (pts : Array Q3) (c : Q3) (r2 : Rat) (supp : List (Nat × Rat))
    (h : checkCert pts c r2 supp = true) :
    (∀ i (hi : i < pts.size), V3.norm2 (pts[i] - c) ≤ r2) ∧
    (∀ s ∈ supp, s.1 < pts.size ∧ 0 ≤ s.2 ∧ V3.norm2 (pts[s.1]! - c) = r2) ∧
    (supp.map (·.2)).sum = 1 ∧
    (supp.map (fun s => s.2 * (pts[s.1]!).x)).sum = c.x ∧
    (supp.map (fun s => s.2 * (pts[s.1]!).y)).sum = c.y ∧
    (supp.map (fun s => s.2 * (pts[s.1]!).z)).sum = c.z := by
  simp only [checkCert, Bool.and_eq_true, decide_eq_true_eq, Array.all_eq_true, List.all_eq_true] at h
  obtain ⟨⟨⟨⟨⟨h1, h2⟩, h3⟩, h4⟩, h5⟩, h6⟩ := h
  refine ⟨?_, ?_, h3, h4, h5, h6⟩
  · intro i hi
    exact h1 i hi
  · intro s hs
    have := h2 s hs
    exact ⟨this.1.1, this.1.2, this.2⟩

/-- **T20.3 (checker soundness)**: a certified ball contains all points and no enclosing ball is smaller -/
theorem checkCert_sound (pts : Array Q3) (c : Q3) (r2 : Rat) (supp : List (Nat × Rat))
    (h : checkCert pts c r2 supp = true) :
    (∀ i (hi : i < pts.size), V3.norm2 (pts[i] - c) ≤ r2) ∧
    ∀ (c' : Q3) (R2 : Rat), (∀ i (hi : i < pts.size), V3.norm2 (pts[i] - c') ≤ R2) → r2 ≤ R2 := by
  obtain ⟨hin, hsupp, hsum, hx, hy, hz⟩ := checkCert_unfold pts c r2 supp h
  refine ⟨hin, ?_⟩
  intro c' R2 hR
  have hsplit := weighted_split pts c c' supp
  rw [hsum, hx, hy, hz] at hsplit
  have hleft : (supp.map (fun s => s.2 * V3.norm2 (pts[s.1]! - c'))).sum ≤ (supp.map (·.2)).sum * R2 := by
    apply sum_le_of_forall supp (fun s => V3.norm2 (pts[s.1]! - c')) R2
    intro s hs
    obtain ⟨hlt, hpos, _⟩ := hsupp s hs
    refine ⟨hpos, ?_⟩
    have := hR s.1 hlt
    simpa [getElem!_pos, hlt] using this
  have hright : (supp.map (fun s => s.2 * V3.norm2 (pts[s.1]! - c))).sum = (supp.map (·.2)).sum * r2 :=
    sum_eq_of_forall supp (fun s => V3.norm2 (pts[s.1]! - c)) r2 (fun s hs => (hsupp s hs).2.2)
  rw [hsum] at hleft hright
  have hnn := norm2_nonneg (c - c')
  rw [hright] at hsplit
  nlinarith [hsplit, hleft, hnn]

/-- non-vacuity: the diameter ball of two points passes the checker -/
example : checkCert #[⟨0, 0, 0⟩, ⟨2, 0, 0⟩, ⟨1, 1/2, 0⟩] ⟨1, 0, 0⟩ 1 [(0, 1/2), (1, 1/2)] = true := by decide +kernel

end MVoro.MEBProofs
