/-
Set-level mathematics behind the meshless Voronoi construction.

A cell of generator `g` starts as a box `B` and is intersected with half spaces
`HS g q` for candidate neighbours `q` visited in order of distance from `g`; the loop
stops as soon as `safety_radius < dist g q`, where `safety_radius` is twice the radius of
a ball around `g` containing the current cell.  Everything here is stated for an arbitrary
real inner product space `E`.
-/
import Mathlib.Analysis.InnerProductSpace.Basic
import Mathlib.Analysis.InnerProductSpace.Projection.Basic
import Mathlib.Analysis.Convex.Hull
import Mathlib.Analysis.Normed.Module.Convex
import Mathlib.Data.Fintype.Lattice
import Mathlib.Tactic.Linarith
import Mathlib.Tactic.Ring
import Mathlib.Tactic.NormNum

namespace MVoro.VorSet

variable {E : Type*} [NormedAddCommGroup E] [InnerProductSpace ℝ E]

set_option linter.unusedSectionVars false

/-- the half space the code builds for neighbour position q of generator g -/
def HS (g q : E) : Set E := {x | 0 ≤ inner ℝ (g - q) (x - (1/2 : ℝ) • (g + q))}

/-- the defining form of `HS` measures the difference of squared distances -/
theorem two_mul_inner_eq (g q x : E) :
    2 * inner ℝ (g - q) (x - (1/2 : ℝ) • (g + q)) = dist x q ^ 2 - dist x g ^ 2 := by
  rw [dist_eq_norm, dist_eq_norm, norm_sub_sq_real, norm_sub_sq_real]
  simp only [inner_sub_left, inner_sub_right, inner_smul_right, inner_add_right,
    real_inner_self_eq_norm_sq]
  rw [real_inner_comm x g, real_inner_comm x q, real_inner_comm g q]
  ring

theorem mem_HS_iff (g q x : E) : x ∈ HS g q ↔ dist x g ≤ dist x q := by
  have h := two_mul_inner_eq g q x
  show 0 ≤ inner ℝ (g - q) (x - (1/2 : ℝ) • (g + q)) ↔ _
  constructor
  · intro h0
    have h2 : dist x g ^ 2 ≤ dist x q ^ 2 := by linarith
    exact (pow_le_pow_iff_left₀ dist_nonneg dist_nonneg (by norm_num)).1 h2
  · intro hd
    have h2 : dist x g ^ 2 ≤ dist x q ^ 2 := pow_le_pow_left₀ dist_nonneg hd 2
    linarith

theorem convex_HS (g q : E) : Convex ℝ (HS g q) := by
  intro x hx y hy a b ha hb hab
  have hx' : 0 ≤ inner ℝ (g - q) (x - (1/2 : ℝ) • (g + q)) := hx
  have hy' : 0 ≤ inner ℝ (g - q) (y - (1/2 : ℝ) • (g + q)) := hy
  show 0 ≤ inner ℝ (g - q) (a • x + b • y - (1/2 : ℝ) • (g + q))
  have e : a • x + b • y - (1/2 : ℝ) • (g + q)
      = a • (x - (1/2 : ℝ) • (g + q)) + b • (y - (1/2 : ℝ) • (g + q)) := by
    rw [smul_sub, smul_sub]
    have : (1/2 : ℝ) • (g + q) = a • (1/2 : ℝ) • (g + q) + b • (1/2 : ℝ) • (g + q) := by
      rw [← add_smul, hab, one_smul]
    conv_lhs => rw [this]
    abel
  rw [e, inner_add_right, inner_smul_right, inner_smul_right]
  exact add_nonneg (mul_nonneg ha hx') (mul_nonneg hb hy')

theorem gen_mem_HS (g q : E) : g ∈ HS g q := by
  rw [mem_HS_iff, dist_self]; exact dist_nonneg

theorem gen_mem_HS_strict (g q : E) (h : q ≠ g) :
    0 < inner ℝ (g - q) (g - (1/2 : ℝ) • (g + q)) := by
  have h1 := two_mul_inner_eq g q g
  rw [dist_self] at h1
  have h2 : 0 < dist g q := dist_pos.2 (Ne.symm h)
  have h3 : 0 < dist g q ^ 2 := by positivity
  linarith

example : (0 : ℝ) < inner ℝ ((0 : ℝ) - 1) ((0 : ℝ) - (1/2 : ℝ) • ((0 : ℝ) + 1)) :=
  gen_mem_HS_strict (0 : ℝ) 1 one_ne_zero

/-- security radius: a set inside the ball of radius R around g is untouched by any q farther
than 2R -/
theorem security_radius {S : Set E} {g q : E} {R : ℝ}
    (hS : S ⊆ Metric.closedBall g R) (hq : 2 * R < dist g q) : S ∩ HS g q = S := by
  apply Set.inter_eq_left.2
  intro x hx
  rw [mem_HS_iff]
  have h1 : dist x g ≤ R := Metric.mem_closedBall.1 (hS hx)
  have h2 : dist g q ≤ dist g x + dist x q := dist_triangle g x q
  rw [dist_comm g x] at h2
  linarith

example : (Set.Icc (-1 : ℝ) 1) ∩ HS (0 : ℝ) 3 = Set.Icc (-1 : ℝ) 1 := by
  apply security_radius (R := 1)
  · intro x hx
    rw [Metric.mem_closedBall, Real.dist_eq, sub_zero, abs_le]
    exact hx
  · rw [Real.dist_eq]; norm_num

/-- T16.3: adding any further candidates that are all farther than the safety radius of the
finished cell changes nothing -/
theorem add_far_unchanged {S : Set E} {g : E} {R : ℝ} (far : List E)
    (hS : S ⊆ Metric.closedBall g R) (hfar : ∀ q ∈ far, 2 * R < dist g q) :
    S ∩ ⋂ q ∈ far, HS g q = S := by
  apply Set.inter_eq_left.2
  intro x hx
  simp only [Set.mem_iInter]
  intro q hq
  have := security_radius hS (hfar q hq)
  exact (Set.inter_eq_left.1 this) hx

open Classical in
/-- the clipping loop with early termination; `rad S` is the radius the code derives from the
current cell -/
noncomputable def run (g : E) (rad : Set E → ℝ) : Set E → List E → Set E
  | S, [] => S
  | S, q :: qs => if 2 * rad S < dist g q then S else run g rad (S ∩ HS g q) qs

/-- generalised form of `run_eq_inter` (the invariant of the loop) -/
theorem run_eq_inter_aux (g : E) (rad : Set E → ℝ) (B : Set E)
    (hrad : ∀ S : Set E, S ⊆ B → S ⊆ Metric.closedBall g (rad S)) :
    ∀ (qs : List E), qs.Pairwise (fun a b => dist g a ≤ dist g b) →
      ∀ S : Set E, S ⊆ B → run g rad S qs = S ∩ ⋂ q ∈ qs, HS g q := by
  intro qs
  induction qs with
  | nil => intro _ S _; simp [run]
  | cons q qs ih =>
    intro hsorted S hSB
    rw [List.pairwise_cons] at hsorted
    obtain ⟨hq, hqs⟩ := hsorted
    unfold run
    split_ifs with hfar
    · symm
      apply add_far_unchanged (q :: qs) (hrad S hSB)
      intro q' hq'
      rcases List.mem_cons.1 hq' with rfl | hq'
      · exact hfar
      · exact lt_of_lt_of_le hfar (hq q' hq')
    · rw [ih hqs (S ∩ HS g q) (Set.inter_subset_left.trans hSB)]
      ext x
      simp only [Set.mem_inter_iff, Set.mem_iInter, List.mem_cons, forall_eq_or_imp]
      tauto

/-- T01.1: for candidates sorted by distance and any valid radius function, the
early-terminating loop computes the full intersection -/
theorem run_eq_inter (g : E) (rad : Set E → ℝ) (B : Set E) (qs : List E)
    (hsorted : qs.Pairwise (fun a b => dist g a ≤ dist g b))
    (hrad : ∀ S : Set E, S ⊆ B → S ⊆ Metric.closedBall g (rad S)) :
    run g rad B qs = B ∩ ⋂ q ∈ qs, HS g q :=
  run_eq_inter_aux g rad B hrad qs hsorted B subset_rfl

theorem run_eq_voronoi (g : E) (rad : Set E → ℝ) (B : Set E) (qs : List E)
    (hsorted : qs.Pairwise (fun a b => dist g a ≤ dist g b))
    (hrad : ∀ S : Set E, S ⊆ B → S ⊆ Metric.closedBall g (rad S)) :
    run g rad B qs = {x ∈ B | ∀ q ∈ qs, dist x g ≤ dist x q} := by
  rw [run_eq_inter g rad B qs hsorted hrad]
  ext x
  simp only [Set.mem_inter_iff, Set.mem_iInter, mem_HS_iff, Set.mem_ofPred_eq]

/-- non-vacuity: on `ℝ`, box `[-1,1]`, generator `0`, candidates `1, 3`, constant radius `1`:
hypotheses of `run_eq_inter` are satisfiable (and the loop really stops early at `3`). -/
example : run (0 : ℝ) (fun _ => 1) (Set.Icc (-1 : ℝ) 1) [1, 3]
    = Set.Icc (-1 : ℝ) 1 ∩ ⋂ q ∈ [(1 : ℝ), 3], HS (0 : ℝ) q := by
  apply run_eq_inter
  · simp [Real.dist_eq]
  · intro S hS x hx
    rw [Metric.mem_closedBall, Real.dist_eq, sub_zero, abs_le]
    exact hS hx

/-- T16.1: the farthest point of a polytope from g is a vertex -/
theorem hull_subset_ball {V : Set E} {g : E} {R : ℝ} (hV : V ⊆ Metric.closedBall g R) :
    convexHull ℝ V ⊆ Metric.closedBall g R :=
  convexHull_min hV (convex_closedBall g R)

/-- T01.2: a candidate whose half space contains all vertices can be dropped -/
theorem drop_unclipped {S V : Set E} {g q : E} (hS : S ⊆ convexHull ℝ V) (hV : V ⊆ HS g q) :
    S ∩ HS g q = S :=
  Set.inter_eq_left.2 (hS.trans (convexHull_min hV (convex_HS g q)))

example : convexHull ℝ ({-1, 1} : Set ℝ) ∩ HS (0 : ℝ) 3 = convexHull ℝ ({-1, 1} : Set ℝ) := by
  apply drop_unclipped subset_rfl
  intro x hx
  rw [mem_HS_iff, Real.dist_eq, Real.dist_eq]
  rcases hx with rfl | rfl <;> norm_num

/-- T16.2: a neighbour with a face is within twice the distance to any point of that face -/
theorem neighbour_within {g q x : E} (hx : dist x g = dist x q) : dist g q ≤ 2 * dist g x := by
  have h2 : dist g q ≤ dist g x + dist x q := dist_triangle g x q
  rw [← hx, dist_comm x g] at h2
  linarith

example : dist (0 : ℝ) 2 ≤ 2 * dist (0 : ℝ) 1 :=
  neighbour_within (by simp [Real.dist_eq]; norm_num)

/-- Voronoi region of generator `G i` among a family of sites -/
def Vor {ι : Type*} (G : ι → E) (i : ι) : Set E := {x | ∀ j, dist x (G i) ≤ dist x (G j)}

/-- T02.1 covering: every point has a nearest generator -/
theorem cover {ι : Type*} [Finite ι] [Nonempty ι] (G : ι → E) (x : E) : ∃ i, x ∈ Vor G i :=
  Finite.exists_min (fun i => dist x (G i))

theorem cover_univ {ι : Type*} [Finite ι] [Nonempty ι] (G : ι → E) :
    (⋃ i, Vor G i) = Set.univ := by
  apply Set.eq_univ_of_forall
  intro x
  exact Set.mem_iUnion.2 (cover G x)

example : ∃ i : Fin 2, (5 : ℝ) ∈ Vor (fun k : Fin 2 => (k : ℝ)) i := cover _ _

/-- overlaps lie on bisectors -/
theorem overlap_on_bisector {ι : Type*} (G : ι → E) (i j : ι) :
    Vor G i ∩ Vor G j ⊆ {x | dist x (G i) = dist x (G j)} := by
  rintro x ⟨hi, hj⟩
  exact le_antisymm (hi j) (hj i)

/-- the bisector of two points is the hyperplane {x | ⟨a − b, x − midpoint⟩ = 0} -/
theorem bisector_eq_hyperplane (a b : E) :
    {x | dist x a = dist x b} = {x | inner ℝ (a - b) (x - (1/2:ℝ) • (a + b)) = 0} := by
  ext x
  have h := two_mul_inner_eq a b x
  simp only [Set.mem_ofPred_eq]
  constructor
  · intro hd
    rw [hd] at h
    linarith
  · intro h0
    rw [h0] at h
    have h2 : dist x a ^ 2 = dist x b ^ 2 := by linarith
    exact (pow_left_inj₀ dist_nonneg dist_nonneg (by norm_num)).1 h2

/-- ... and for distinct points it is not everything (`a` is not on it) -/
theorem bisector_proper {a b : E} (h : a ≠ b) : a ∉ {x : E | dist x a = dist x b} := by
  intro ha
  have ha' : dist a a = dist a b := ha
  rw [dist_self] at ha'
  exact h (dist_eq_zero.1 ha'.symm)

/-- T03.1 reciprocity: the face of i towards j and the face of j towards i are the same set -/
def face {ι : Type*} (G : ι → E) (i j : ι) : Set E :=
  Vor G i ∩ {x | dist x (G i) = dist x (G j)}

theorem face_symm {ι : Type*} (G : ι → E) (i j : ι) : face G i j = face G j i := by
  ext x
  constructor
  · rintro ⟨hv, he⟩
    have he' : dist x (G i) = dist x (G j) := he
    exact ⟨fun k => he' ▸ hv k, he'.symm⟩
  · rintro ⟨hv, he⟩
    have he' : dist x (G j) = dist x (G i) := he
    exact ⟨fun k => he' ▸ hv k, he'.symm⟩

/-- the face is exactly the overlap of the two regions -/
theorem face_eq_inter {ι : Type*} (G : ι → E) (i j : ι) : face G i j = Vor G i ∩ Vor G j := by
  apply Set.Subset.antisymm
  · intro x hx
    have hx' := hx
    rw [face_symm] at hx'
    exact ⟨hx.1, hx'.1⟩
  · intro x hx
    exact ⟨hx.1, overlap_on_bisector G i j hx⟩

/-- the outward normals are opposite -/
theorem normals_opposite (a b : E) : (b - a) = -(a - b) := (neg_sub a b).symm

/-- every point of face i j lies on the plane the code uses (normal g_i - g_j through the
midpoint) -/
theorem face_subset_plane {ι : Type*} (G : ι → E) (i j : ι) :
    face G i j ⊆ {x | inner ℝ (G i - G j) (x - (1/2:ℝ) • (G i + G j)) = 0} := by
  rw [← bisector_eq_hyperplane]
  exact Set.inter_subset_right

/-- T06.3 translation covariance -/
theorem Vor_translate {ι : Type*} (G : ι → E) (t : E) (i : ι) :
    Vor (fun k => G k + t) i = (fun x => x + t) '' Vor G i := by
  ext x
  constructor
  · intro hx
    refine ⟨x - t, ?_, sub_add_cancel x t⟩
    intro j
    have := hx j
    simp only [dist_eq_norm] at this ⊢
    rwa [sub_sub, add_comm t, sub_sub, add_comm t]
  · rintro ⟨y, hy, rfl⟩
    intro j
    simp only [dist_add_right]
    exact hy j

theorem face_translate {ι : Type*} (G : ι → E) (t : E) (i j : ι) :
    face (fun k => G k + t) i j = (fun x => x + t) '' face G i j := by
  rw [face_eq_inter, face_eq_inter, Vor_translate, Vor_translate]
  exact (Set.image_inter (add_left_injective t)).symm

/-- T08.3 prism: if g and q lie in a subspace K that has an orthogonal projection, membership in
H(g,q) only depends on the orthogonal projection onto K -/
theorem HS_proj (K : Submodule ℝ E) [K.HasOrthogonalProjection] {g q : E} (hg : g ∈ K)
    (hq : q ∈ K) (x : E) :
    x ∈ HS g q ↔ ((K.orthogonalProjectionOnto x : K) : E) ∈ HS g q := by
  have hgq : g - q ∈ K := K.sub_mem hg hq
  have h0 : inner ℝ (x - K.starProjection x) (g - q) = 0 :=
    Submodule.starProjection_inner_eq_zero x (g - q) hgq
  rw [real_inner_comm] at h0
  have e : x - (1/2 : ℝ) • (g + q)
      = (K.starProjection x - (1/2 : ℝ) • (g + q)) + (x - K.starProjection x) := by abel
  show 0 ≤ inner ℝ (g - q) (x - (1/2 : ℝ) • (g + q))
    ↔ 0 ≤ inner ℝ (g - q) (K.starProjection x - (1/2 : ℝ) • (g + q))
  rw [e, inner_add_right, h0, add_zero]

example (x : ℝ) : x ∈ HS (0 : ℝ) 1 ↔ (((⊤ : Submodule ℝ ℝ).orthogonalProjectionOnto x : _) : ℝ)
    ∈ HS (0 : ℝ) 1 :=
  HS_proj ⊤ Submodule.mem_top Submodule.mem_top x

end MVoro.VorSet

section Axioms
open MVoro.VorSet
#print axioms two_mul_inner_eq
#print axioms mem_HS_iff
#print axioms convex_HS
#print axioms gen_mem_HS
#print axioms gen_mem_HS_strict
#print axioms security_radius
#print axioms add_far_unchanged
#print axioms run_eq_inter_aux
#print axioms run_eq_inter
#print axioms run_eq_voronoi
#print axioms hull_subset_ball
#print axioms drop_unclipped
#print axioms neighbour_within
#print axioms cover
#print axioms cover_univ
#print axioms overlap_on_bisector
#print axioms bisector_eq_hyperplane
#print axioms bisector_proper
#print axioms face_symm
#print axioms face_eq_inter
#print axioms normals_opposite
#print axioms face_subset_plane
#print axioms Vor_translate
#print axioms face_translate
#print axioms HS_proj
end Axioms
